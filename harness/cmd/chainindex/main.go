// chainindex records event traces of the REAL chain.Repository / chain.Chain / chain.BlockReader for
// Trace_ChainIndex.tla (C14, C09 repository level).
//
//	chainindex -out <dir> -runs N -seed S -mode tree|treeclean|long[,...] [-blocks K]
//
// Blocks are cheap: assembled with block.Builder, signed with a dev key (an unsigned header has no recoverable
// signer and every such block gets the same id), receipts are made by hand (Reverted chosen by the driver, GasUsed =
// a serial number that identifies the inclusion). No consensus is involved: Repository.AddBlock stores what it is
// given, with conflicts = Repository.ScanConflicts(height) exactly as the node does.
//
//	tree / treeclean   random trees (<= -blocks blocks, <= 4 per height), best switching back and forth; after EVERY
//	                   AddBlock every query is asked from EVERY known block as head; readers start at any known block
//	                   (also abandoned branches) and are stepped interleaved with further AddBlocks.
//	                   tree also stores blocks no validator would accept (duplicates, bad windows, broken deps).
//	treefree           as treeclean, but a child of the best block may be stored without becoming best (Repository.AddBlock
//	                   permits it, the node's fork choice never does it): readers then stand on descendants of best.
//	long300            see long300(): the same txs at heights on both sides of 127|128 and 255|256 on two branches.
//	long               a 90..130-block trunk with an early long side branch and a late short one; the same txs are
//	                   included on several branches, some of them more than 100 blocks after their block ref, so that
//	                   every tx is looked up through BOTH paths of Chain.HasTransaction (recent-ancestor scan for
//	                   heads closer than 100 blocks to the ref, filter key + index entries beyond).
//
// Output: <dir>/trace.ndjson (runs concatenated, each starting with Reset), <dir>/runs.json, a JSON summary on stdout.
// Deterministic in -seed. Exit 3 + HARNESS-ERROR for the driver's own trouble.
package main

import (
	"encoding/binary"
	"encoding/json"
	"flag"
	"fmt"
	"math/big"
	"math/rand"
	"os"
	"path/filepath"
	"runtime/debug"
	"strings"

	"github.com/ethereum/go-ethereum/crypto"
	"github.com/ethereum/go-ethereum/rlp"

	"github.com/vechain/thor/v2/api"
	"github.com/vechain/thor/v2/block"
	"github.com/vechain/thor/v2/chain"
	"github.com/vechain/thor/v2/genesis"
	"github.com/vechain/thor/v2/muxdb"
	"github.com/vechain/thor/v2/state"
	"github.com/vechain/thor/v2/thor"
	"github.com/vechain/thor/v2/tx"

	"verifharness/internal/trace"
)

type runStat struct {
	Mode          string   `json:"mode"`
	Seed          int64    `json:"seed"`
	Events        int      `json:"events"`
	Blocks        int      `json:"blocks"`
	MaxHeight     uint32   `json:"maxHeight"`
	MaxSiblings   int      `json:"maxSiblings"`
	ForkHeights   int      `json:"forkHeights"`
	Reorgs        int      `json:"reorgs"` // best moved to a block that is not a child of the previous best
	MaxReorgDepth int      `json:"maxReorgDepth"`
	Txs           int      `json:"txs"`
	Reincluded    int      `json:"reincluded"` // txs included on >= 2 blocks
	RawBlocks     int      `json:"rawBlocks"`  // blocks deliberately violating admission rules
	Lookups       int      `json:"lookups"`
	LookRecent    int      `json:"lookupsRecentPath"`
	LookIndexed   int      `json:"lookupsIndexedPath"`
	BothPathsTxs  int      `json:"txsFoundByBothPaths"`
	ByNum         int      `json:"byNumAnswers"`
	Excl          int      `json:"excludePairs"`
	Readers       int      `json:"readers"`
	ReaderAband   int      `json:"readersStartedOffCanonical"`
	Reads         int      `json:"reads"`
	Obsolete      int      `json:"obsoleteFlagged"`
	ReadAboveBest int      `json:"readsFromAboveBest"`       // Read with the position higher than the best block
	ReadSibBelow  int      `json:"readsFromSiblingOneBelow"` // position one below best, not best's parent
	ReadDescBest  int      `json:"readsFromDescendantOfBest"`
	HeadsShape    int      `json:"addsOnSideBranchTip"` // new block with conflicts >= 1 whose parent was a head
	Reopens       int      `json:"reopens"`
	HookReaders   int      `json:"steppedSubscriptionReaders"`
	HookReads     int      `json:"steppedSubscriptionReads"`
	Stalls        int      `json:"subscriptionStalls"`
	Wakeups       int      `json:"importsBetweenReadAndWait"`
	Plants        int      `json:"plantedIndexKeys"`
	LateFirst     int      `json:"lookedUpBeforeLateInclusion"`
	Subs          int      `json:"subscriptions"`
	SubMsgs       int      `json:"subscriptionMessages"`
	SubObsolete   int      `json:"subscriptionObsolete"`
	Errors        []string `json:"errors,omitempty"`
}

type txr struct {
	tx       *tx.Transaction
	name     string
	ref      uint32
	exp      uint32
	dep      *txr
	tagok    bool
	incl     int
	lateOnly bool
	found    [2]bool // found==true through recent path / indexed path
}

type blk struct {
	id       thor.Bytes32
	name     string
	parent   *blk
	num      uint32
	ts       uint64
	score    uint64
	txs      []*txr
	revs     []bool
	children int
}

type reader struct {
	id   int
	br   chain.BlockReader
	hr   hookReader // a subscription reader driven Read by Read (hook VerifNewReader), else nil
	kind string
	held []string
	pos  *blk // where the driver believes the reader stands
	done bool
}

type run struct {
	rng              *rand.Rand
	repo             *chain.Repository
	bids             *trace.Interner
	tids             *trace.Interner
	pids             *trace.Interner
	evs              []trace.Ev
	blocks           []*blk
	byID             map[thor.Bytes32]*blk
	perH             map[uint32]int
	txs              []*txr
	readers          []*reader
	best             *blk
	serial           uint64
	nonce            uint64
	st               runStat
	maxSib           int
	free             bool // a child of the best block may be stored without becoming best
	ss               *subServer
	wsubs            []*wsub
	db               *muxdb.MuxDB
	b0               *block.Block
	dbOpt            muxdb.VerifOptions
	subSeq           int
	idleCh, resumeCh chan struct{}
	substep          bool // subscription readers stepped Read by Read (needs the hook)
}

var devs = genesis.DevAccounts()

func must(err error) {
	if err != nil {
		fmt.Println("HARNESS-ERROR", err)
		os.Exit(3)
	}
}

func (r *run) emit(e trace.Ev) { r.evs = append(r.evs, e) }

// fail records an unexpected error returned by the real code; no action of the trace spec matches an Error event.
func (r *run) fail(what string, err error) {
	r.st.Errors = append(r.st.Errors, what+": "+err.Error())
	r.emit(trace.Ev{"e": "Error", "what": what, "err": err.Error()})
}

func (r *run) bname(id thor.Bytes32) string {
	if b, ok := r.byID[id]; ok {
		return b.name
	}
	return fmt.Sprintf("unknown-%x", id[:6])
}

func names(bs []*blk) []string {
	out := make([]string, 0, len(bs))
	for _, b := range bs {
		out = append(out, b.name)
	}
	return out
}

func (r *run) chainOf(b *blk) []*blk {
	var rev []*blk
	for x := b; x != nil; x = x.parent {
		rev = append(rev, x)
	}
	for i, j := 0, len(rev)-1; i < j; i, j = i+1, j-1 {
		rev[i], rev[j] = rev[j], rev[i]
	}
	return rev
}

// onChain: the driver's own bookkeeping, used only to steer the choice of txs (never for verdicts).
func onChain(head *blk, t *txr) (bool, bool) {
	for x := head; x != nil; x = x.parent {
		for i, y := range x.txs {
			if y == t {
				return true, x.revs[i]
			}
		}
	}
	return false, false
}

func newRun(seed int64, mode string) *run {
	r := &run{rng: rand.New(rand.NewSource(seed)), bids: trace.NewInterner("b"), tids: trace.NewInterner("t"),
		pids: trace.NewInterner("p"), byID: map[thor.Bytes32]*blk{}, perH: map[uint32]int{}, maxSib: 4,
		idleCh: make(chan struct{}), resumeCh: make(chan struct{})}
	r.st.Mode, r.st.Seed = mode, seed
	// odd seeds run the tries behind a real node cache, so that a re-open also means cold caches
	r.dbOpt = muxdb.VerifOptions{CacheSizeMB: int(seed%2) * 8}
	db := muxdb.NewWithEngine(muxdb.NewMem().VerifEngine(), r.dbOpt)
	r.db = db
	// a genesis that differs per seed, so that block ids differ between runs
	gb := new(genesis.Builder).Timestamp(1_600_000_000 + uint64(seed%1_000_003)*10).GasLimit(thor.InitialGasLimit).
		ForkConfig(&thor.ForkConfig{}).
		State(func(st *state.State) error { return st.SetBalance(devs[0].Address, thor.InitialProposerEndorsement) })
	b0, _, _, err := gb.Build(state.NewStater(db))
	must(err)
	repo, err := chain.NewRepository(db, b0)
	must(err)
	r.repo = repo
	r.b0 = b0
	g := &blk{id: b0.Header().ID(), ts: b0.Header().Timestamp()}
	g.name = r.bids.Name(g.id[:])
	r.blocks = []*blk{g}
	r.byID[g.id] = g
	r.perH[0] = 1
	r.best = g
	r.emit(trace.Ev{"e": "Reset", "g": g.name, "ts": g.ts, "mode": mode, "seed": seed})
	return r
}

func (r *run) newTx(ref, exp uint32, dep *txr, tagok bool) *txr {
	r.nonce++
	tag := r.repo.ChainTag()
	if !tagok {
		tag ^= 0x55
	}
	to := devs[1].Address
	b := tx.NewBuilder(tx.TypeLegacy).ChainTag(tag).BlockRef(tx.NewBlockRef(ref)).Expiration(exp).Gas(21000).
		Nonce(r.nonce).Clause(tx.NewClause(&to))
	depName := "none"
	if dep != nil {
		id := dep.tx.ID()
		b.DependsOn(&id)
		depName = dep.name
	}
	t := tx.MustSign(b.Build(), devs[int(r.nonce)%len(devs)].PrivateKey)
	id := t.ID()
	x := &txr{tx: t, ref: ref, exp: exp, dep: dep, tagok: tagok}
	x.name = r.tids.Name(id[:])
	r.txs = append(r.txs, x)
	r.emit(trace.Ev{"e": "Tx", "t": x.name, "tagok": tagok, "ref": t.BlockRef().Number(), "exp": t.Expiration(), "dep": depName,
		"pfx": r.pids.Name(id[:8])})
	return x
}

// addBlock stores a cheap signed block through the real Repository.AddBlock and logs what the repository reports.
func (r *run) addBlock(parent *blk, txs []*txr, revs []bool, asBest bool) *blk {
	parent.children++
	ts := parent.ts + 10*uint64(parent.children)
	bb := new(block.Builder).ParentID(parent.id).Timestamp(ts).TotalScore(parent.score + 1).GasLimit(thor.InitialGasLimit)
	var receipts tx.Receipts
	sers := []uint64{}
	for i, t := range txs {
		bb.Transaction(t.tx)
		r.serial++
		receipts = append(receipts, &tx.Receipt{Reverted: revs[i], GasUsed: r.serial, Outputs: []*tx.Output{{
			Events:    tx.Events{{Address: devs[1].Address, Topics: []thor.Bytes32{{byte(r.serial)}}, Data: []byte{1}}},
			Transfers: tx.Transfers{{Sender: devs[2].Address, Recipient: devs[1].Address, Amount: big.NewInt(int64(r.serial))}}}}})
		sers = append(sers, r.serial)
	}
	b := bb.Build()
	sig, err := crypto.Sign(b.Header().SigningHash().Bytes(), devs[0].PrivateKey)
	must(err)
	b = b.WithSignature(sig)
	num := b.Header().Number()
	conflicts, err := r.repo.ScanConflicts(num)
	if err != nil {
		r.fail("ScanConflicts", err)
		return nil
	}
	if _, dup := r.byID[b.Header().ID()]; dup {
		must(fmt.Errorf("driver produced a duplicate block id"))
	}
	if err := r.repo.AddBlock(b, receipts, conflicts, asBest); err != nil {
		r.fail("AddBlock", err)
		return nil
	}
	if conflicts >= 1 && parent.children == 1 {
		r.st.HeadsShape++
	}
	n := &blk{id: b.Header().ID(), parent: parent, num: num, ts: ts, score: parent.score + 1, txs: txs, revs: revs}
	n.name = r.bids.Name(n.id[:])
	r.blocks = append(r.blocks, n)
	r.byID[n.id] = n
	r.perH[num]++
	for _, t := range txs {
		t.incl++
	}
	if asBest {
		if parent != r.best {
			r.st.Reorgs++
			d := 0
			for x := r.best; x != nil; x = x.parent {
				on := false
				for y := n; y != nil; y = y.parent {
					if y == x {
						on = true
						break
					}
				}
				if on {
					break
				}
				d++
			}
			if d > r.st.MaxReorgDepth {
				r.st.MaxReorgDepth = d
			}
		}
		r.best = n
	}
	heads, err := r.repo.ScanHeads(0)
	if err != nil {
		r.fail("ScanHeads", err)
		return nil
	}
	confl, err := r.repo.GetConflicts(num)
	if err != nil {
		r.fail("GetConflicts", err)
		return nil
	}
	hn, cn, tn := []string{}, []string{}, []string{}
	for _, h := range heads {
		hn = append(hn, r.bname(h))
	}
	for _, c := range confl {
		cn = append(cn, r.bname(c))
	}
	for _, t := range txs {
		tn = append(tn, t.name)
	}
	if revs == nil {
		revs = []bool{}
	}
	r.emit(trace.Ev{"e": "Add", "b": n.name, "p": parent.name, "num": num, "ts": ts, "conflicts": conflicts, "txs": tn,
		"revs": revs, "sers": sers, "asbest": asBest, "best": r.bname(r.repo.BestBlockSummary().Header.ID()),
		"heads": hn, "confl": cn})
	if asBest {
		r.drainSubs() // the subscriptions' server side reads now; let them run dry before anything else happens
	}
	return n
}

// ---------------------------------------------------------------------------------------------- queries

func (r *run) qByNum(h *blk) {
	c := r.repo.NewChain(h.id)
	ids := []string{}
	for n := uint32(0); n <= h.num+1; n++ {
		id, err := c.GetBlockID(n)
		switch {
		case err == nil:
			ids = append(ids, r.bname(id))
			// GetBlock / GetBlockHeader go through the same index; they must hand back that very block
			if hd, err := c.GetBlockHeader(n); err != nil || hd.ID() != id {
				ids[len(ids)-1] = "header-mismatch"
			}
		case c.IsNotFound(err):
			ids = append(ids, "none")
		default:
			r.fail("GetBlockID", err)
			return
		}
		r.st.ByNum++
	}
	r.emit(trace.Ev{"e": "ByNum", "h": h.name, "ids": ids})
}

func (r *run) qHasBlk(h *blk) {
	c := r.repo.NewChain(h.id)
	yes := []string{}
	for _, b := range r.blocks {
		has, err := c.HasBlock(b.id)
		if err != nil {
			r.fail("HasBlock", err)
			return
		}
		if has {
			yes = append(yes, b.name)
		}
	}
	r.emit(trace.Ev{"e": "HasBlk", "h": h.name, "yes": yes})
}

func (r *run) qExcl(a *blk, others []*blk) {
	c := r.repo.NewChain(a.id)
	out := []trace.Ev{}
	for _, o := range others {
		ids, err := c.Exclude(r.repo.NewChain(o.id))
		if err != nil {
			r.fail("Exclude", err)
			return
		}
		ns := []string{}
		for _, id := range ids {
			ns = append(ns, r.bname(id))
		}
		out = append(out, trace.Ev{"o": o.name, "ids": ns})
		r.st.Excl++
	}
	r.emit(trace.Ev{"e": "Excl", "a": a.name, "out": out})
}

func (r *run) qTs(h *blk) {
	c := r.repo.NewChain(h.id)
	q := []trace.Ev{}
	ch := r.chainOf(h)
	for k := 0; k < 4; k++ {
		x := ch[r.rng.Intn(len(ch))]
		ts := x.ts + uint64(r.rng.Intn(3))*5 // exact, or between blocks
		if r.rng.Intn(6) == 0 {
			ts = h.ts + 100 // beyond the head
		}
		flag := r.rng.Intn(3) - 1
		hd, err := c.FindBlockHeaderByTimestamp(ts, flag)
		res := "none"
		if err == nil {
			res = r.bname(hd.ID())
		} else if !c.IsNotFound(err) {
			r.fail("FindBlockHeaderByTimestamp", err)
			return
		}
		q = append(q, trace.Ev{"ts": ts, "flag": flag, "r": res})
	}
	r.emit(trace.Ev{"e": "Ts", "h": h.name, "q": q})
}

func (r *run) qHeads(from uint32) {
	hs, err := r.repo.ScanHeads(from)
	if err != nil {
		r.fail("ScanHeads", err)
		return
	}
	ids := []string{}
	for _, h := range hs {
		ids = append(ids, r.bname(h))
	}
	r.emit(trace.Ev{"e": "Heads", "from": from, "ids": ids})
}

func (r *run) qLookup(h *blk, txs []*txr) {
	c := r.repo.NewChain(h.id)
	q := []trace.Ev{}
	for _, t := range txs {
		id := t.tx.ID()
		has, err := c.HasTransaction(id, t.tx.BlockRef().Number())
		if err != nil {
			r.fail("HasTransaction", err)
			return
		}
		e := trace.Ev{"t": t.name, "has": has}
		meta, err := c.GetTransactionMeta(id)
		switch {
		case err == nil:
			e["found"], e["num"], e["conflicts"], e["idx"], e["rev"] = true, meta.BlockNum, meta.BlockConflicts, meta.Index, meta.Reverted
			gt, _, err := c.GetTransaction(id)
			if err != nil {
				r.fail("GetTransaction", err)
				return
			}
			gid := gt.ID()
			if r.tids.Known(gid[:]) {
				e["gt"] = r.tids.Name(gid[:])
			} else {
				e["gt"] = "unknown"
			}
			rc, err := c.GetTransactionReceipt(id)
			if err != nil {
				r.fail("GetTransactionReceipt", err)
				return
			}
			e["rrev"], e["ser"] = rc.Reverted, rc.GasUsed
		case c.IsNotFound(err):
			e["found"] = false
			if _, _, err := c.GetTransaction(id); err == nil || !c.IsNotFound(err) {
				e["found"] = "GetTransaction disagrees with GetTransactionMeta"
			}
		default:
			r.fail("GetTransactionMeta", err)
			return
		}
		q = append(q, e)
		r.st.Lookups++
		if t.ref <= h.num {
			p := 1
			if h.num-t.ref < 100 {
				p = 0
				r.st.LookRecent++
			} else {
				r.st.LookIndexed++
			}
			if has {
				t.found[p] = true
			}
		}
	}
	r.emit(trace.Ev{"e": "Lookup", "h": h.name, "q": q})
}

func (r *run) queryAll(h *blk, others []*blk) {
	r.qByNum(h)
	r.qHasBlk(h)
	r.qExcl(h, others)
	r.qLookup(h, r.txs)
}

// ---------------------------------------------------------------------------------------------- readers

func (r *run) startReader(pos *blk) *reader { return r.startReaderKind(pos, "") }

// startReaderKind: kind "" = chain.BlockReader; block | beat | beat2 = the subscription reader of that kind, built by
// the handler's own constructor (sharing its message caches) and driven Read by Read through the hook.
func (r *run) startReaderKind(pos *blk, kind string) *reader {
	rd := &reader{id: len(r.readers) + 1, held: names(r.chainOf(pos)), pos: pos, kind: kind}
	if kind == "" {
		rd.br = r.repo.NewBlockReader(pos.id)
	} else {
		hr, err := newHookReader(r.server(), kind, pos.id)
		must(err)
		rd.hr = hr
		r.st.HookReaders++
	}
	r.readers = append(r.readers, rd)
	r.st.Readers++
	on := false
	for x := r.best; x != nil; x = x.parent {
		if x == pos {
			on = true
		}
	}
	if !on {
		r.st.ReaderAband++
	}
	r.emit(trace.Ev{"e": "RStart", "r": rd.id, "pos": pos.name, "kind": kind, "held": append([]string{}, rd.held...)})
	return rd
}

type readMsg struct {
	id  thor.Bytes32
	obs bool
}

// readOnce performs one Read of either flavour and returns the messages a subscriber would get.
func (r *run) readOnce(rd *reader) ([]readMsg, error) {
	var out []readMsg
	if rd.hr != nil {
		msgs, _, err := rd.hr.Read()
		if err != nil {
			return nil, err
		}
		for _, m := range msgs {
			data, err := json.Marshal(m)
			must(err)
			var w wireMsg
			must(json.Unmarshal(data, &w))
			out = append(out, readMsg{w.ID, w.Obsolete})
		}
		r.st.HookReads++
		return out, nil
	}
	ebs, err := rd.br.Read()
	if err != nil {
		return nil, err
	}
	for _, eb := range ebs {
		// through api.ConvertBlock exactly as api/subscriptions' blockReader does
		msg, err := api.ConvertBlock(eb)
		if err != nil {
			return nil, fmt.Errorf("ConvertBlock: %w", err)
		}
		out = append(out, readMsg{msg.ID, msg.Obsolete})
	}
	return out, nil
}

// step performs one Read and lets the naive subscriber apply it: drop what is flagged obsolete, append the rest.
// The blocks go through api.ConvertBlock exactly as api/subscriptions' blockReader does.
func (r *run) step(rd *reader) int {
	// the shape of this read, by the driver's own bookkeeping
	desc := false
	for x := rd.pos.parent; x != nil; x = x.parent {
		if x == r.best {
			desc = true
		}
	}
	switch {
	case desc:
		r.st.ReadDescBest++
	case rd.pos.num > r.best.num:
		r.st.ReadAboveBest++
	case rd.pos.num+1 == r.best.num && r.best.parent != rd.pos:
		r.st.ReadSibBelow++
	}
	ebs, err := r.readOnce(rd)
	if err != nil {
		r.st.Errors = append(r.st.Errors, "BlockReader.Read: "+err.Error())
		ev := trace.Ev{"e": "Error", "what": "BlockReader.Read", "r": rd.id, "err": err.Error(), "pos": rd.pos.name, "best": r.best.name}
		if desc {
			ev["ctx"] = "position-descends-from-best"
		} else if rd.pos.num > r.best.num {
			ev["ctx"] = "position-above-best"
		}
		r.emit(ev)
		rd.done = true
		return 0
	}
	out := []trace.Ev{}
	for _, msg := range ebs {
		n := r.bname(msg.id)
		out = append(out, trace.Ev{"b": n, "obs": msg.obs})
		if msg.obs {
			r.st.Obsolete++
			k := rd.held[:0:0]
			for _, x := range rd.held {
				if x != n {
					k = append(k, x)
				}
			}
			rd.held = k
		} else {
			rd.held = append(rd.held, n)
		}
	}
	r.st.Reads++
	if len(ebs) > 0 {
		if last := ebs[len(ebs)-1]; !last.obs {
			if b, ok := r.byID[last.id]; ok {
				rd.pos = b
			}
		} else if b, ok := r.byID[last.id]; ok && b.parent != nil {
			rd.pos = b.parent
		}
	}
	r.emit(trace.Ev{"e": "Read", "r": rd.id, "kind": rd.kind, "out": out, "held": append([]string{}, rd.held...)})
	return len(ebs)
}

// reopen closes everything that lives in memory and opens a fresh MuxDB (cold caches) and a fresh chain.Repository over
// the same key-value engine, as a node restart does. What the new repository says about itself is logged; readers are
// re-created at the positions they had reached (a subscriber reconnects with ?pos=), subscriptions start over.
func (r *run) reopen() {
	r.quiet()
	r.closeSubs()
	r.ss, r.wsubs = nil, nil
	r.db = muxdb.NewWithEngine(r.db.VerifEngine(), r.dbOpt)
	repo, err := chain.NewRepository(r.db, r.b0)
	if err != nil {
		r.fail("NewRepository (re-open)", err)
		return
	}
	r.repo = repo
	r.st.Reopens++
	heads, err := repo.ScanHeads(0)
	if err != nil {
		r.fail("ScanHeads", err)
		return
	}
	hn := []string{}
	for _, h := range heads {
		hn = append(hn, r.bname(h))
	}
	mx, err := repo.GetMaxBlockNum()
	if err != nil {
		r.fail("GetMaxBlockNum", err)
		return
	}
	r.emit(trace.Ev{"e": "Reopen", "best": r.bname(repo.BestBlockSummary().Header.ID()), "heads": hn, "maxnum": mx,
		"g": r.bname(repo.GenesisBlock().Header().ID())})
	for _, rd := range r.readers {
		if rd.done {
			continue
		}
		if rd.hr != nil {
			hr, err := newHookReader(r.server(), rd.kind, rd.pos.id)
			must(err)
			rd.hr = hr
		} else {
			rd.br = repo.NewBlockReader(rd.pos.id)
		}
	}
}

// qConfl asks GetConflicts for every height.
func (r *run) qConfl() {
	var top uint32
	for h := range r.perH {
		if h > top {
			top = h
		}
	}
	q := []trace.Ev{}
	for n := uint32(0); n <= top+1; n++ {
		ids, err := r.repo.GetConflicts(n)
		if err != nil {
			r.fail("GetConflicts", err)
			return
		}
		c, err := r.repo.ScanConflicts(n)
		if err != nil {
			r.fail("ScanConflicts", err)
			return
		}
		ns := []string{}
		for _, id := range ids {
			ns = append(ns, r.bname(id))
		}
		q = append(q, trace.Ev{"n": n, "ids": ns, "count": c})
	}
	r.emit(trace.Ev{"e": "Confl", "q": q})
}

func (r *run) drain(rd *reader) {
	for i := 0; i < 2*len(r.blocks)+4 && !rd.done; i++ {
		if r.step(rd) == 0 {
			return
		}
	}
}

// ---------------------------------------------------------------------------------------------- tree mode

// pickTxs chooses the txs of a new block on parent. clean: only what a validator would admit (by the driver's own
// bookkeeping); otherwise duplicates, bad windows, broken / reverted dependencies and foreign tags are mixed in.
func (r *run) pickTxs(parent *blk, clean bool, maxTx int) ([]*txr, []bool, bool) {
	num := parent.num + 1
	var txs []*txr
	var revs []bool
	raw := false
	inBlock := func(t *txr) (bool, bool) {
		for i, y := range txs {
			if y == t {
				return true, revs[i]
			}
		}
		return false, false
	}
	depOK := func(t *txr) bool {
		if t.dep == nil {
			return true
		}
		if in, rev := inBlock(t.dep); in {
			return !rev
		}
		on, rev := onChain(parent, t.dep)
		return on && !rev
	}
	admissible := func(t *txr) bool {
		if on, _ := onChain(parent, t); on {
			return false
		}
		if in, _ := inBlock(t); in {
			return false
		}
		return t.tagok && t.ref <= num && uint64(num) <= uint64(t.ref)+uint64(t.exp) && depOK(t)
	}
	n := r.rng.Intn(maxTx + 1)
	for k := 0; k < n; k++ {
		var t *txr
		if !clean && r.rng.Intn(100) < 30 {
			raw = true
			switch r.rng.Intn(6) {
			case 0: // anything from the pool (often a duplicate on this chain)
				if len(r.txs) > 0 {
					t = r.txs[r.rng.Intn(len(r.txs))]
				}
			case 1:
				t = r.newTx(num+1+uint32(r.rng.Intn(2)), 10, nil, true) // ref in the future
			case 2:
				if num >= 2 {
					t = r.newTx(0, num-1-uint32(r.rng.Intn(int(num-1))), nil, true) // expired
				}
			case 3:
				t = r.newTx(num, 5, nil, false) // other chain's tag
			case 4:
				t = r.newTx(num, 5, r.newTx(num, 5, nil, true), true) // dependency never included
			case 5:
				if len(txs) > 0 {
					t = txs[len(txs)-1] // same tx twice in the block
				}
			}
		}
		if t == nil {
			// prefer re-including a pool tx that is not yet on this chain
			var cands []*txr
			for _, x := range r.txs {
				if admissible(x) {
					cands = append(cands, x)
				}
			}
			if len(cands) > 0 && r.rng.Intn(100) < 70 {
				t = cands[r.rng.Intn(len(cands))]
			} else {
				ref := num - uint32(r.rng.Intn(int(min(num, 3))+1))
				if r.rng.Intn(3) == 0 {
					ref = num // included exactly at its ref block
				}
				exp := []uint32{0, 1, 2, 5, 1000}[r.rng.Intn(5)]
				if uint64(ref)+uint64(exp) < uint64(num) {
					exp = num - ref
				}
				var dep *txr
				if r.rng.Intn(100) < 35 {
					var ds []*txr
					for _, x := range r.txs {
						if in, rev := inBlock(x); in && !rev {
							ds = append(ds, x)
						} else if on, rev := onChain(parent, x); on && !rev {
							ds = append(ds, x)
						}
					}
					if len(ds) > 0 {
						dep = ds[r.rng.Intn(len(ds))]
					}
				}
				t = r.newTx(ref, exp, dep, true)
			}
		}
		txs = append(txs, t)
		revs = append(revs, r.rng.Intn(4) == 0)
	}
	return txs, revs, raw
}

func (r *run) tree(maxBlocks int, clean bool) {
	reopenAt := 4 + r.rng.Intn(max(1, maxBlocks-5))
	for len(r.blocks) <= maxBlocks {
		if len(r.blocks) == reopenAt {
			// restart in the middle: every query again from the re-opened store, readers continue where they were
			r.reopen()
			for _, h := range r.blocks {
				r.queryAll(h, r.blocks)
			}
			r.qConfl()
			r.qHeads(0)
		}
		// parent: a tip, the best block, or any known block; never more than maxSib blocks per height
		var parent *blk
		for try := 0; try < 50; try++ {
			switch k := r.rng.Intn(10); {
			case k <= 3:
				var tips []*blk
				for _, b := range r.blocks {
					if b.children == 0 {
						tips = append(tips, b)
					}
				}
				parent = tips[r.rng.Intn(len(tips))]
			case k <= 5:
				parent = r.best
			default:
				parent = r.blocks[r.rng.Intn(len(r.blocks))]
			}
			if r.perH[parent.num+1] < r.maxSib {
				break
			}
			parent = nil
		}
		if parent == nil {
			break
		}
		asBest := (parent == r.best && !r.free) || r.rng.Intn(2) == 0
		txs, revs, raw := r.pickTxs(parent, clean, 2)
		if raw {
			r.st.RawBlocks++
		}
		if r.addBlock(parent, txs, revs, asBest) == nil {
			return
		}
		// every query from every known head, after every AddBlock
		for _, h := range r.blocks {
			r.queryAll(h, r.blocks)
		}
		r.qTs(r.blocks[r.rng.Intn(len(r.blocks))])
		r.qHeads(uint32(r.rng.Intn(int(r.best.num) + 2)))
		// readers: start at any known block (abandoned branches included), step interleaved with AddBlocks
		if len(r.readers) < 5 && r.rng.Intn(3) == 0 {
			if r.substep && !r.free && r.rng.Intn(3) != 0 {
				// a subscription reader of the handler (shared caches), one Read at a time: AddBlocks fall between its Reads
				r.startReaderKind(r.notAboveBest(), subKinds[r.rng.Intn(3)])
			} else {
				r.startReader(r.blocks[r.rng.Intn(len(r.blocks))])
			}
		}
		for _, rd := range r.readers {
			for k := r.rng.Intn(3); k > 0 && !rd.done; k-- {
				r.step(rd)
			}
		}
		// websocket subscriptions of every kind, opened at any known block not above best (abandoned branches included);
		// they share the handler's message caches
		if !r.free && len(r.wsubs) < 6 && r.rng.Intn(3) == 0 {
			r.startSub(subKinds[(len(r.wsubs)+int(r.st.Seed%5+5))%5], r.notAboveBest())
		}
	}
	// one reader from every known block at the end; a restart while they are under way; then everybody reads until
	// quiescent
	for i, b := range r.blocks {
		if r.substep && !r.free && b.num <= r.best.num && i%3 == 0 {
			r.startReaderKind(b, subKinds[i%3])
		} else {
			r.startReader(b)
		}
	}
	for _, rd := range r.readers {
		if !rd.done && r.rng.Intn(2) == 0 {
			r.step(rd)
		}
	}
	r.reopen()
	r.qConfl()
	for _, h := range r.blocks {
		r.qByNum(h)
		r.qLookup(h, r.txs)
	}
	for _, rd := range r.readers {
		r.drain(rd)
	}
	if !r.free {
		for _, k := range subKinds {
			r.startSub(k, r.notAboveBest())
		}
		r.quiet()
		if havePipeHook && r.substep {
			// last thing in the run: a best block lands between a subscription's empty Read and its wait; nothing follows
			r.wakeup(subKinds[int(r.st.Seed%3+3)%3])
			r.quiet()
		}
	}
}

func (r *run) notAboveBest() *blk {
	for {
		if b := r.blocks[r.rng.Intn(len(r.blocks))]; b.num <= r.best.num {
			return b
		}
	}
}

// ---------------------------------------------------------------------------------------------- long mode

func (r *run) long() {
	L := uint32(104 + r.rng.Intn(27))
	f := uint32(2 + r.rng.Intn(7)) // fork point of the long side branch
	// pool: refs at or below the first inclusion heights; most never expire inside the run, a few have short windows
	var pool []*txr
	for i := 0; i < 24; i++ {
		ref := uint32(r.rng.Intn(int(f) + 6))
		exp := uint32(1000)
		if i%6 == 5 {
			exp = uint32(8 + r.rng.Intn(8))
		}
		var dep *txr
		if i%5 == 4 {
			dep = pool[r.rng.Intn(len(pool))]
		}
		pool = append(pool, r.newTx(ref, exp, dep, true))
		// every fourth never-expiring tx is kept out of the early blocks: absent from the whole store until its late inclusion
		pool[i].lateOnly = i%4 == 3 && exp == 1000 && dep == nil
	}
	tips := map[string]*blk{"trunk": r.blocks[0]}
	include := func(head *blk, late bool) ([]*txr, []bool) {
		// the driver keeps chains admissible: not yet on this chain, inside the window, dependency satisfied
		num := head.num + 1
		var txs []*txr
		var revs []bool
		for _, t := range pool {
			if len(txs) == 2 {
				break
			}
			if on, _ := onChain(head, t); on || t.ref > num || uint64(num) > uint64(t.ref)+uint64(t.exp) {
				continue
			}
			if late != (num >= t.ref+100) {
				continue
			}
			if t.lateOnly && num < t.ref+101 {
				continue // its first inclusion anywhere comes after it was looked up through the index path while absent
			}
			if t.dep != nil {
				ok := false
				for i, y := range txs {
					if y == t.dep && !revs[i] {
						ok = true
					}
				}
				if on, rev := onChain(head, t.dep); on && !rev {
					ok = true
				}
				if !ok {
					continue
				}
			}
			if r.rng.Intn(3) == 0 {
				continue
			}
			txs = append(txs, t)
			revs = append(revs, r.rng.Intn(5) == 0)
		}
		return txs, revs
	}
	grow := func(which string, withTxs, late bool) *blk {
		head := tips[which]
		var txs []*txr
		var revs []bool
		if withTxs {
			txs, revs = include(head, late)
		}
		asBest := head == r.best || head.num+1 > r.best.num || (head.num+1 == r.best.num && r.rng.Intn(2) == 0)
		if late && len(txs) > 0 {
			// looked up through the index path BEFORE the (late) inclusion ...
			r.qLookup(head, txs)
			r.st.LateFirst += len(txs)
		}
		n := r.addBlock(head, txs, revs, asBest)
		if n == nil {
			return nil
		}
		if late && len(txs) > 0 {
			// ... and again right after it, from the new block and from the other tips: same Repository object, no re-open
			// in between - a lookup must not change a later lookup's answer
			r.qLookup(n, txs)
			for _, k := range []string{"trunk", "side", "short"} {
				if b, ok := tips[k]; ok && k != which {
					r.qLookup(b, txs)
				}
			}
		}
		tips[which] = n
		return n
	}
	var started [3]bool
	r.startReader(r.blocks[0])
	lateFrom := L - 12 - uint32(r.rng.Intn(6))
	Ls := L - 3 + uint32(r.rng.Intn(7)) // length of the long side branch
	withTxs := func(which string, n uint32) (bool, bool) {
		switch which {
		case "trunk":
			return (n >= f && n < f+10) || n >= lateFrom, n >= lateFrom
		case "side":
			return (n >= f+2 && n < f+14) || (n >= lateFrom+2 && n%2 == 0), n >= lateFrom
		}
		return true, r.rng.Intn(2) == 0
	}
	for tips["trunk"].num < f {
		if grow("trunk", false, false) == nil {
			return
		}
	}
	tips["side"] = tips["trunk"]
	r.plant(tips["trunk"])
	lastQ := 0
	reopened := false
	for tips["trunk"].num < L || tips["side"].num < Ls {
		// the two long branches leapfrog: mostly the lagging one grows, so best flips between them again and again
		// and the reorganisation depth grows with the distance from the fork point
		which := "trunk"
		lag, lead := "trunk", "side"
		if tips["side"].num < tips["trunk"].num {
			lag, lead = "side", "trunk"
		}
		if r.rng.Intn(100) < 65 {
			which = lag
		} else {
			which = lead
		}
		if tips["trunk"].num >= L {
			which = "side"
		} else if tips["side"].num >= Ls {
			which = "trunk"
		}
		for k := 1 + r.rng.Intn(3); k > 0; k-- {
			h := tips[which]
			if (which == "trunk" && h.num >= L) || (which == "side" && h.num >= Ls) {
				break
			}
			w, late := withTxs(which, h.num)
			if grow(which, w, late) == nil {
				return
			}
		}
		if _, ok := tips["short"]; !ok && tips["trunk"].num >= L-9 {
			tips["short"] = tips["trunk"]
		}
		if _, ok := tips["short"]; ok && tips["short"].num < L+1 && r.rng.Intn(2) == 0 {
			if grow("short", true, r.rng.Intn(2) == 0) == nil {
				return
			}
		}
		n := tips["trunk"].num
		if !started[0] && n >= f+20 {
			r.startReader(tips["side"])
			r.startReader(tips["trunk"].parent)
			started[0] = true
		}
		if _, ok := tips["short"]; ok && !started[1] && n >= L-4 {
			r.startReader(tips["side"].parent)
			r.startReader(tips["short"])
			started[1] = true
		}
		for _, rd := range r.readers {
			for k := r.rng.Intn(3); k > 0 && !rd.done; k-- {
				r.step(rd)
			}
		}
		if !reopened && len(r.blocks) > 120 {
			reopened = true
			r.reopen()
		}
		if len(r.blocks)-lastQ >= 24 {
			lastQ = len(r.blocks)
			var ts []*blk
			for _, k := range []string{"trunk", "side", "short"} {
				if b, ok := tips[k]; ok {
					ts = append(ts, b)
				}
			}
			for _, h := range ts {
				r.qByNum(h)
				r.qHasBlk(h)
				r.qExcl(h, ts)
				r.qLookup(h, r.txs)
				r.qTs(h)
			}
			r.qHeads(uint32(r.rng.Intn(int(n) + 1)))
		}
	}
	// restart: the final lookups are answered by a re-opened store (cold caches, index read back from the kv engine)
	r.reopen()
	r.qConfl()
	// every known block as head: each tx is seen from heads on both sides of the 100-block boundary
	for _, h := range r.blocks {
		r.qLookup(h, r.txs)
	}
	sample := []*blk{}
	for i := 0; i < 10; i++ {
		sample = append(sample, r.blocks[r.rng.Intn(len(r.blocks))])
	}
	for _, h := range sample {
		r.qByNum(h)
		r.qExcl(h, sample)
	}
	for _, rd := range r.readers {
		r.drain(rd)
	}
}

// long300: a ~270-block trunk and a side branch forking at ~120. The same txs sit at heights 127..132 on one branch and
// at 256..258 on the other (and the other way round), i.e. on both sides of the one-byte / two-byte boundary of the
// uvarint in the index key (127|128) and of the point where byte order and numeric order of the keys part (256 = 80 02
// sorts before 129 = 81 01). They are looked up from heads of BOTH branches below, between and above those heights,
// through both paths of HasTransaction (refs are chosen so that heads >= 226 take the index path).
func (r *run) long300() {
	f := uint32(116 + r.rng.Intn(8))
	top := uint32(262 + r.rng.Intn(8))
	var pool []*txr
	for i := 0; i < 12; i++ {
		pool = append(pool, r.newTx(f-uint32(r.rng.Intn(12)), 1000, nil, true))
	}
	// pairs (lo, hi) on different branches; in (129,256) (130,256) (131,257) (132,258) the key of the HIGHER block sorts
	// first (81 01 > 80 02 ...), in (127,256) (128,257) numeric and byte order agree
	lo := []uint32{127, 128, 129, 130, 131, 132}
	hi := []uint32{256, 257, 256, 256, 257, 258}
	// tx i: on the trunk at lo[i] and on the side at hi[i] for i < 6, the other way round for i >= 6
	at := func(which string, n uint32) []*txr {
		var out []*txr
		for i, t := range pool {
			a, b := lo[i%6], hi[i%6]
			if (i >= 6) != (which == "side") {
				a, b = b, a
			}
			_ = b
			if n == a {
				out = append(out, t)
			}
		}
		return out
	}
	tips := map[string]*blk{"trunk": r.blocks[0]}
	grow := func(which string) bool {
		head := tips[which]
		txs := at(which, head.num+1)
		revs := make([]bool, len(txs))
		for i := range revs {
			revs[i] = r.rng.Intn(4) == 0
		}
		asBest := head == r.best || head.num+1 > r.best.num
		n := r.addBlock(head, txs, revs, asBest)
		if n == nil {
			return false
		}
		tips[which] = n
		return true
	}
	for tips["trunk"].num < f {
		if !grow("trunk") {
			return
		}
	}
	tips["side"] = tips["trunk"]
	for tips["trunk"].num < top {
		if !grow("trunk") || !grow("side") {
			return
		}
	}
	r.reopen()
	// heads of both branches below, between and above the inclusion heights
	for _, which := range []string{"trunk", "side"} {
		for x := tips[which]; x.num > f; x = x.parent {
			switch n := x.num; {
			case n >= 125 && n <= 133, n >= 224 && n <= 232, n >= 252 && n <= 260, n%16 == 0, x == tips[which]:
				r.qLookup(x, r.txs)
			}
		}
		r.qByNum(tips[which])
	}
	r.qExcl(tips["trunk"], []*blk{tips["side"]})
	r.qExcl(tips["side"], []*blk{tips["trunk"]})
}

// plant writes two keys straight into the chain.txi store, below the repository: the 8-byte filter key of a transaction
// that is never included anywhere, and an index entry (on a real block of the chain) of a FOREIGN 32-byte id that shares
// those 8 bytes. On the indexed path HasTransaction passes the filter and must then still answer by the full id.
func (r *run) plant(on *blk) {
	u := r.newTx(0, 1000, nil, true)
	id := u.tx.ID()
	x := id
	for i := 8; i < 32; i++ {
		x[i] ^= 0xa5
	}
	store := r.db.NewStore("chain.txi")
	must(store.Put(id[:8], nil))
	sum, err := r.repo.GetBlockSummary(on.id)
	must(err)
	key := append([]byte{}, x[:]...)
	key = binary.AppendUvarint(key, uint64(on.num))
	key = binary.AppendUvarint(key, uint64(sum.Conflicts))
	val, err := rlp.EncodeToBytes(&struct {
		Index    uint64
		Reverted bool
	}{0, false})
	must(err)
	must(store.Put(key, val))
	r.st.Plants++
	r.emit(trace.Ev{"e": "Plant", "pfx": r.pids.Name(id[:8]), "x": "x-" + u.name, "num": on.num, "conflicts": sum.Conflicts})
}

func (r *run) finish() {
	r.closeSubs()
	r.st.Events = len(r.evs)
	r.st.Blocks = len(r.blocks) - 1
	r.st.Txs = len(r.txs)
	for h, n := range r.perH {
		if h > r.st.MaxHeight {
			r.st.MaxHeight = h
		}
		if n > r.st.MaxSiblings {
			r.st.MaxSiblings = n
		}
		if n > 1 {
			r.st.ForkHeights++
		}
	}
	for _, t := range r.txs {
		if t.incl >= 2 {
			r.st.Reincluded++
		}
		if t.found[0] && t.found[1] {
			r.st.BothPathsTxs++
		}
	}
}

// panicSite returns the function that panicked (first frame below the runtime's panic machinery).
func panicSite(stack string) string {
	lines := strings.Split(stack, "\n")
	seen := false
	for _, l := range lines {
		if strings.HasPrefix(l, "panic(") {
			seen = true
			continue
		}
		if !seen || strings.HasPrefix(l, "\t") || strings.HasPrefix(l, "runtime.") || l == "" {
			continue
		}
		return l
	}
	return ""
}

func oneRun(seed int64, mode string, blocks int, substep bool) (r *run) {
	r = newRun(seed, mode)
	r.substep = substep && haveSubsHook
	defer func() {
		if e := recover(); e != nil {
			// a panic inside the real code is an observation; one in the driver's own code is harness trouble
			site := panicSite(string(debug.Stack()))
			if !strings.Contains(site, "github.com/vechain/thor/v2/") {
				fmt.Println("HARNESS-ERROR panic in the driver:", e, "at", site)
				os.Exit(3)
			}
			r.st.Errors = append(r.st.Errors, fmt.Sprint("panic: ", e))
			r.emit(trace.Ev{"e": "Error", "what": "panic", "err": fmt.Sprint(e), "at": site})
			r.finish()
		}
	}()
	switch mode {
	case "tree":
		r.tree(blocks, false)
	case "treeclean":
		r.tree(blocks, true)
	case "treefree":
		r.free = true
		r.tree(blocks, true)
	case "long":
		r.long()
	case "long300":
		r.long300()
	default:
		must(fmt.Errorf("unknown mode %q", mode))
	}
	r.finish()
	return r
}

func main() {
	out := flag.String("out", ".", "output directory")
	runs := flag.Int("runs", 1, "number of runs")
	seed := flag.Int64("seed", 1, "seed")
	mode := flag.String("mode", "tree", "comma separated modes, cycled over the runs")
	blocks := flag.Int("blocks", 12, "blocks per tree run")
	substep := flag.Bool("substep", false, "drive subscription readers Read by Read (needs hooks/subscriptions.patch and -tags verifsubs)")
	flag.Parse()
	modes := strings.Split(*mode, ",")
	must(os.MkdirAll(*out, 0o755))
	var all []trace.Ev
	var stats []runStat
	for i := 0; i < *runs; i++ {
		r := oneRun((*seed*7919+int64(i))*104729+12345, modes[i%len(modes)], *blocks, *substep)
		all = append(all, r.evs...)
		stats = append(stats, r.st)
	}
	must(trace.WriteNDJSON(filepath.Join(*out, "trace.ndjson"), all))
	js, _ := json.MarshalIndent(stats, "", " ")
	must(os.WriteFile(filepath.Join(*out, "runs.json"), js, 0o644))
	sum, _ := json.Marshal(map[string]any{"runs": len(stats), "events": len(all)})
	fmt.Println(string(sum))
}
