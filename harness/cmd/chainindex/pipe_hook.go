//go:build verifpipe

package main

// Built only when /repo carries hooks/subscriptions-pipe.patch (VerifServe in api/subscriptions/verif_hooks.go).

import "net/http"

const havePipeHook = true

func servePiped(ss *subServer, w http.ResponseWriter, req *http.Request, rd hookReader) error {
	return ss.subs.VerifServe(w, req, rd)
}
