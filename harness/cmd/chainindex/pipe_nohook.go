//go:build !verifpipe

package main

import (
	"errors"
	"net/http"
)

const havePipeHook = false

func servePiped(ss *subServer, w http.ResponseWriter, req *http.Request, rd hookReader) error {
	return errors.New("built without the pipe hook")
}
