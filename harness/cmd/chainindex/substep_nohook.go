//go:build !verifsubs

package main

import (
	"errors"

	"github.com/vechain/thor/v2/thor"
)

const haveSubsHook = false

type hookReader interface {
	Read() (msgs []any, hasMore bool, err error)
}

func newHookReader(ss *subServer, kind string, pos thor.Bytes32) (hookReader, error) {
	return nil, errors.New("built without the subscriptions hook")
}
