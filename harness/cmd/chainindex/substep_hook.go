//go:build verifsubs

package main

// Built only when /repo carries hooks/subscriptions.patch (api/subscriptions/verif_hooks.go).

import "github.com/vechain/thor/v2/thor"

const haveSubsHook = true

type hookReader interface {
	Read() (msgs []any, hasMore bool, err error)
}

func newHookReader(ss *subServer, kind string, pos thor.Bytes32) (hookReader, error) {
	return ss.subs.VerifNewReader(kind, pos)
}
