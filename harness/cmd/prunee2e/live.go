//go:build verif && veriflive

package main

// Live mode: the REAL pruner goroutine (cmd/thor/pruner.New -> loop: period selection, awaitUntilPrunable(target +
// MaxStateHistory), pruneTries, status sequencing) runs next to the importer on one stack, with the finality engine
// thor uses in solo mode (bft.NewSoloMockedEngine: finalized = checkpoint - 2 epochs).  Only the two constants are
// scaled through the hook pruner.VerifSetLoopScale (period 65536 -> livePeriod, MaxStateHistory -> liveHistory).
//
// While blocks (short forks, transfers, storage writes, the 200-slot contract) keep being imported, after every chunk,
// after a stop/re-open/restart of the pruner in the middle and at the end, every block imported so far is read again:
//
//	number >= best - liveHistory                 must read as at import time (the history the EVM may access)
//	number >= persisted base + period            must read as at import time
//	persisted base <= number < base + period     in flight (a round may be running): known finding only
//	number <  persisted base                     fails or reads as at import time

import (
	"fmt"
	"time"

	"github.com/vechain/thor/v2/bft"
	"github.com/vechain/thor/v2/block"
	"github.com/vechain/thor/v2/cmd/thor/pruner"
	"github.com/vechain/thor/v2/consensus"
	"github.com/vechain/thor/v2/thor"
)

const (
	livePeriod  = 8
	liveHistory = 12
)

func init() { runLiveMode = runLive }

func runLive(sc *scenario, o opts, seed int64) runReport {
	pruner.VerifSetLoopScale(livePeriod, liveHistory)
	defer pruner.VerifSetLoopScale(0, 0)
	rep := runReport{Cfg: "live-" + o.String(), Seed: seed, Blocks: len(sc.canon) - 1, SideBlocks: len(sc.order) - (len(sc.canon) - 1),
		Mismatches: []mismatch{}, PruneErrors: []string{}, Rounds: []string{}, ResumeErrors: []string{}}
	s := newStack(sc, o)
	cons := consensus.New(s.repo, s.stater, sc.net.FC)
	canonID := canonSet(sc)
	start := func() *pruner.Pruner {
		return pruner.New(s.db, s.repo, bft.NewSoloMockedEngine(s.repo, sc.net.FC), *sc.net.FC)
	}
	pr := start()
	snap := map[thor.Bytes32]map[string]string{}
	imported := []*block.Block{sc.canon[0]}
	snap[sc.canon[0].Header().ID()] = readBlock(s, sc, sc.canon[0])
	loadBase := func() uint32 {
		b, err := pruner.VerifLoadBase(s.db)
		must(err)
		return b
	}
	lastBase := uint32(0)
	// wait until the persisted base moves (the loop polls finality once per second) or the time is over
	waitBase := func(d time.Duration) {
		deadline := time.Now().Add(d)
		for time.Now().Before(deadline) {
			if b := loadBase(); b != lastBase {
				// let a burst of consecutive rounds finish
				for {
					time.Sleep(30 * time.Millisecond)
					nb := loadBase()
					if nb == b {
						break
					}
					b = nb
				}
				return
			}
			time.Sleep(20 * time.Millisecond)
		}
	}
	check := func(phase string) {
		for try := 0; try < 4; try++ {
			b0 := loadBase()
			best := s.repo.BestBlockSummary().Header.Number()
			before := len(rep.Mismatches)
			reads, okR, errP, eqP := rep.Reads, rep.RetainedOK, rep.PrunedErr, rep.PrunedEqual
			for _, blk := range imported {
				num := blk.Header().Number()
				class := "retained"
				switch {
				case num+liveHistory >= best:
					class = "recent"
				case num < b0:
					class = "pruned"
				case num < b0+livePeriod:
					class = "inflight"
				}
				compareBlock(&rep, phase, fmt.Sprintf("base %d best %d", b0, best), s, sc, snap, blk, class, !canonID[blk.Header().ID()])
			}
			if loadBase() == b0 {
				if b0 != lastBase {
					rep.Rounds = append(rep.Rounds, fmt.Sprintf("%s: base %d->%d best %d", phase, lastBase, b0, best))
					lastBase = b0
				}
				return
			}
			// the base moved while reading: the classification is stale, read again
			rep.Mismatches = rep.Mismatches[:before]
			rep.Reads, rep.RetainedOK, rep.PrunedErr, rep.PrunedEqual = reads, okR, errP, eqP
		}
	}
	for i, blk := range sc.order {
		if err := importBlock(s, sc, cons, blk, canonID[blk.Header().ID()]); err != nil {
			rep.Mismatches = append(rep.Mismatches, mismatch{rep.Cfg, "import", "import", blk.Header().Number(), false, "retained", "import", "accepted", err.Error()})
			pr.Stop()
			return rep
		}
		snap[blk.Header().ID()] = readBlock(s, sc, blk)
		for k, v := range snap[blk.Header().ID()] {
			if v == "ERR" {
				rep.Mismatches = append(rep.Mismatches, mismatch{rep.Cfg, "import", "import", blk.Header().Number(), false, "recent", k, "readable", "ERR"})
			}
		}
		imported = append(imported, blk)
		if (i+1)%24 == 0 {
			waitBase(1300 * time.Millisecond)
			check("live")
		}
		if i+1 == len(sc.order)/2 {
			// a node restart in the middle: the pruner resumes from its persisted status
			pr.Stop()
			if err := s.reopen(); err != nil {
				rep.Mismatches = append(rep.Mismatches, mismatch{rep.Cfg, "restart", "after-reopen", 0, false, "retained", "reopen", "ok", err.Error()})
				return rep
			}
			cons = consensus.New(s.repo, s.stater, sc.net.FC)
			check("after-restart")
			pr = start()
		}
	}
	for i := 0; i < 3; i++ {
		waitBase(1300 * time.Millisecond)
		check("live-tail")
	}
	pr.Stop()
	check("stopped")
	if err := s.reopen(); err != nil {
		rep.Mismatches = append(rep.Mismatches, mismatch{rep.Cfg, "final", "after-reopen", 0, false, "retained", "reopen", "ok", err.Error()})
		return rep
	}
	check("final-reopen")
	if lastBase == 0 {
		rep.PruneErrors = append(rep.PruneErrors, "live pruner made no progress (vacuous run)")
	}
	return rep
}
