// prunee2e: end-to-end check of the REAL pruner (cmd/thor/pruner, hook H4) on a real chain (C12).
//
// A chain of 40-80 valid blocks is minted with the node simulator (value transfers every block, Params storage writes
// at a few heights, one-block side branches so that minor versions occur).  The blocks are then imported - with the
// real consensus.Process / Stage.Commit / Repository.AddBlock sequence - into a stack whose MuxDB runs over the
// recording engine with the chosen options (partition factors, cache, TTL).  Before pruning, every observable read
// at every block is recorded (balances, energy, Params storage, contract code, authority list, GetBlockID(n) for
// all n, tx lookups).  Then the real pruneTries is run for successive ranges [base, target); after every round,
// before and after re-opening the whole stack, all reads are repeated:
//
//	block number >= target : must equal the pre-prune read
//	block number <  target : must fail or equal the pre-prune read, never something else
//
// The driver only records; it writes <out>/report.json with every mismatch (check C12 turns them into a verdict).
//
//	prunee2e -out <dir> -seed S -blocks N -runs R [-inflight]
package main

import (
	"context"
	"encoding/json"
	"flag"
	"fmt"
	"math"
	"math/big"
	"math/rand"
	"os"
	"path/filepath"
	"sort"
	"strings"
	"time"

	"github.com/vechain/thor/v2/block"
	"github.com/vechain/thor/v2/builtin"
	"github.com/vechain/thor/v2/chain"
	"github.com/vechain/thor/v2/cmd/thor/pruner"
	"github.com/vechain/thor/v2/consensus"
	"github.com/vechain/thor/v2/muxdb"
	"github.com/vechain/thor/v2/state"
	"github.com/vechain/thor/v2/thor"
	"github.com/vechain/thor/v2/tx"

	"verifharness/internal/kvrec"
	"verifharness/internal/sim"
)

func must(err error) {
	if err != nil {
		fmt.Println("HARNESS-ERROR", err)
		os.Exit(3)
	}
}

type opts struct {
	HF, DF  uint32
	CacheMB int
	TTL     uint16
}

func (o opts) String() string {
	f := func(x uint32) string {
		if x == math.MaxUint32 {
			return "max"
		}
		return fmt.Sprint(x)
	}
	return fmt.Sprintf("hf%s-df%s-cache%d-ttl%d", f(o.HF), f(o.DF), o.CacheMB, o.TTL)
}

// stack: muxdb over kvrec + repository + stater, re-openable
type stack struct {
	o      opts
	eng    *kvrec.Engine
	db     *muxdb.MuxDB
	repo   *chain.Repository
	stater *state.Stater
	b0     *block.Block
}

// reopen rebuilds every in-memory object over the same store; an error is an observation on the real code
func (s *stack) reopen() error {
	s.db = muxdb.NewWithEngine(s.eng, muxdb.VerifOptions{CacheSizeMB: s.o.CacheMB, CachedNodeTTL: s.o.TTL,
		HistPartitionFactor: s.o.HF, DedupedPtnFactor: s.o.DF})
	s.stater = state.NewStater(s.db)
	repo, err := chain.NewRepository(s.db, s.b0)
	if err != nil {
		return err
	}
	s.repo = repo
	return nil
}

type scenario struct {
	net      *sim.Net
	order    []*block.Block // import order (parents first), canonical and side blocks
	canon    []*block.Block // canonical chain by number (index 0 = genesis)
	txs      []*tx.Transaction
	paramKey []thor.Bytes32
	accts    []thor.Address
	marks    []uint32       // heights at which a storage trie is written (prune boundaries are placed on them)
	big      thor.Address   // a contract with bigSlots storage slots written at creation and left alone for long
	bigKeys  []thor.Bytes32 // the slots read back
}

const bigSlots = 200

// init code: for i in 0..199 { sstore(i, i+1) }; return the 6-byte runtime  NUMBER PUSH2 0x0100 SSTORE STOP
// (every later call of the contract overwrites slot 0x100 with the block number and leaves the 200 slots alone)
var bigInit = []byte{
	0x60, 0x00, // PUSH1 0                 i
	0x5b,                   // JUMPDEST (pc 2)
	0x80, 0x60, 0x01, 0x01, // DUP1 PUSH1 1 ADD        i, i+1
	0x81,             // DUP2                    i, i+1, i
	0x55,             // SSTORE                  storage[i] = i+1
	0x60, 0x01, 0x01, // PUSH1 1 ADD       i+1
	0x80, 0x60, bigSlots, 0x11, // DUP1 PUSH1 200 GT      200 > i ?
	0x60, 0x02, 0x57, // PUSH1 2 JUMPI
	0x60, 0x06, 0x60, 0x20, 0x60, 0x00, 0x39, // PUSH1 6 PUSH1 32 PUSH1 0 CODECOPY  (runtime at offset 32)
	0x60, 0x06, 0x60, 0x00, 0xf3, // PUSH1 6 PUSH1 0 RETURN
	0x00,                               // pad to offset 32
	0x43, 0x61, 0x01, 0x00, 0x55, 0x00, // runtime
}

// buildChain mints the chain on the simulator's omniscient stack.
func buildChain(seed int64, n int) *scenario {
	rng := rand.New(rand.NewSource(seed))
	net := sim.NewNet(sim.Options{Validators: 3, Nodes: 1, EpochLength: 4, SkipLogs: true, ExtraAccts: 5, NoGalactica: true})
	sc := &scenario{net: net}
	for i := 0; i < 8; i++ {
		sc.accts = append(sc.accts, net.Devs[i].Address)
	}
	// a few never-funded receivers: accounts that come into existence late
	for i := 0; i < 3; i++ {
		sc.accts = append(sc.accts, thor.BytesToAddress([]byte{0xee, byte(i + 1)}))
	}
	sc.paramKey = []thor.Bytes32{thor.BytesToBytes32([]byte("verif-k1")), thor.BytesToBytes32([]byte("verif-k2")), thor.KeyMaxBlockProposers}
	setM, ok := builtin.Params.ABI.MethodByName("set")
	if !ok {
		must(fmt.Errorf("params.set not found"))
	}
	tag := net.God.Repo.ChainTag()
	nonce := uint64(seed) << 20
	mkTx := func(from int, parentNum uint32, cl *tx.Clause, gas uint64) *tx.Transaction {
		nonce++
		t := tx.NewBuilder(tx.TypeLegacy).ChainTag(tag).BlockRef(tx.NewBlockRef(parentNum)).Expiration(1000).
			Gas(gas).Nonce(nonce).Clause(cl).Build()
		return tx.MustSign(t, net.Devs[from].PrivateKey)
	}
	parent := net.B0
	sc.canon = []*block.Block{net.B0}
	// heights at which a Params slot is written: early, a long gap, then again (storage trie untouched for long)
	// (multiples of 4, so that they can be prune boundaries under every partition factor used here)
	paramAt := map[int][]int{4: {0}, 8: {1}, (n/2)/4*4 + 4: {0}, (n - 8) / 4 * 4: {1}}
	// the big contract: created at height 2, called (slot 0x100 rewritten) at two later heights
	bigCallAt := map[int]bool{(n/2)/4*4 + 8: true, (n - 8) / 4 * 4: true}
	if len(bigInit) != 38 {
		must(fmt.Errorf("bigInit layout: runtime must start at offset 32, len %d", len(bigInit)))
	}
	var bigTx *tx.Transaction
	for h := range paramAt {
		sc.marks = append(sc.marks, uint32(h))
	}
	sort.Slice(sc.marks, func(i, j int) bool { return sc.marks[i] < sc.marks[j] })
	sideAt := map[int]bool{}
	for i := 0; i < 4; i++ {
		sideAt[4+rng.Intn(n-8)] = true
	}
	for h := 1; h <= n; h++ {
		var txs []*tx.Transaction
		// value transfers: a rotating sender pays one or two receivers
		for k := 0; k < 1+rng.Intn(2); k++ {
			from := 3 + rng.Intn(5)
			to := sc.accts[rng.Intn(len(sc.accts))]
			amount := new(big.Int).Mul(big.NewInt(int64(1+rng.Intn(1000))), big.NewInt(1e15))
			txs = append(txs, mkTx(from, parent.Header().Number(), tx.NewClause(&to).WithValue(amount), 21000))
		}
		for _, ki := range paramAt[h] {
			data, err := setM.EncodeInput(sc.paramKey[ki], big.NewInt(int64(1000*h+ki)))
			must(err)
			txs = append(txs, mkTx(0, parent.Header().Number(), tx.NewClause(&builtin.Params.Address).WithData(data), 200000))
		}
		if h == 2 {
			bigTx = mkTx(1, parent.Header().Number(), tx.NewClause(nil).WithData(bigInit), 8_000_000)
			txs = append(txs, bigTx)
		}
		if bigCallAt[h] {
			txs = append(txs, mkTx(2, parent.Header().Number(), tx.NewClause(&sc.big), 100000))
		}
		// at height 8 a sibling that writes the SAME Params slot is imported BEFORE the canonical block: the canonical
		// block then commits its state (and the Params storage trie) under minor version 1
		var first *block.Block
		if h == 8 {
			data, err := setM.EncodeInput(sc.paramKey[1], big.NewInt(777))
			must(err)
			stx := mkTx(0, parent.Header().Number(), tx.NewClause(&builtin.Params.Address).WithData(data), 200000)
			first, err = net.Mint(parent.Header().ID(), (h+1)%3, false, 0, stx)
			must(err)
			sc.txs = append(sc.txs, stx)
		}
		var blk *block.Block
		var err error
		for who := 0; who < 3; who++ {
			blk, err = net.Mint(parent.Header().ID(), (h+who)%3, false, 0, txs...)
			if err == nil {
				break
			}
		}
		must(err)
		if first != nil && first.Header().ID() != blk.Header().ID() {
			sc.order = append(sc.order, first)
		}
		sc.order = append(sc.order, blk)
		sc.canon = append(sc.canon, blk)
		sc.txs = append(sc.txs, txs...)
		if h == 2 {
			rc, err := net.God.Repo.NewChain(blk.Header().ID()).GetTransactionReceipt(bigTx.ID())
			must(err)
			if rc.Reverted {
				must(fmt.Errorf("big contract creation reverted"))
			}
			sc.big = thor.CreateContractAddress(bigTx.ID(), 0, 0)
			for _, i := range []int{0, 1, 7, 31, 64, 100, 150, 199} {
				sc.bigKeys = append(sc.bigKeys, thor.BytesToBytes32(big.NewInt(int64(i)).Bytes()))
			}
			sc.bigKeys = append(sc.bigKeys, thor.BytesToBytes32([]byte{0x01, 0x00}))
		}
		if sideAt[h] {
			// a sibling of blk: another proposer, another transfer => version (h, 1)
			to := sc.accts[rng.Intn(len(sc.accts))]
			stx := mkTx(3+rng.Intn(5), parent.Header().Number(), tx.NewClause(&to).WithValue(big.NewInt(7e15)), 21000)
			for who := 1; who < 3; who++ {
				sib, err := net.Mint(parent.Header().ID(), (h+who)%3, false, 0, stx)
				if err == nil && sib.Header().ID() != blk.Header().ID() {
					sc.order = append(sc.order, sib)
					sc.txs = append(sc.txs, stx)
					break
				}
			}
		}
		parent = blk
	}
	return sc
}

// importInto replays the blocks into a fresh stack with the given MuxDB options through the real import sequence.
// newStack builds an empty stack (genesis only) with the given MuxDB options.
func newStack(sc *scenario, o opts) *stack {
	s := &stack{o: o, eng: kvrec.New()}
	s.db = muxdb.NewWithEngine(s.eng, muxdb.VerifOptions{CacheSizeMB: o.CacheMB, CachedNodeTTL: o.TTL,
		HistPartitionFactor: o.HF, DedupedPtnFactor: o.DF})
	s.stater = state.NewStater(s.db)
	b0, _, _, err := sc.net.Gen.Build(s.stater)
	must(err)
	s.b0 = b0
	repo, err := chain.NewRepository(s.db, b0)
	must(err)
	s.repo = repo
	return s
}

// importBlock: the real import sequence consensus.Process / Stage.Commit / Repository.AddBlock
func importBlock(s *stack, sc *scenario, cons *consensus.Consensus, blk *block.Block, asBest bool) error {
	parent, err := s.repo.GetBlockSummary(blk.Header().ParentID())
	if err != nil {
		return fmt.Errorf("block %d: parent summary: %w", blk.Header().Number(), err)
	}
	conflicts, err := s.repo.ScanConflicts(blk.Header().Number())
	must(err)
	stage, receipts, err := cons.Process(parent, blk, uint64(time.Now().Unix()), conflicts)
	if err != nil {
		return fmt.Errorf("block %d: consensus: %w", blk.Header().Number(), err)
	}
	if _, err = stage.Commit(); err != nil {
		return fmt.Errorf("block %d: commit: %w", blk.Header().Number(), err)
	}
	if err := s.repo.AddBlock(blk, receipts, conflicts, asBest); err != nil {
		return fmt.Errorf("block %d: add block: %w", blk.Header().Number(), err)
	}
	return nil
}

func canonSet(sc *scenario) map[thor.Bytes32]bool {
	m := map[thor.Bytes32]bool{}
	for _, b := range sc.canon {
		m[b.Header().ID()] = true
	}
	return m
}

func importInto(sc *scenario, o opts) (*stack, error) {
	s := newStack(sc, o)
	cons := consensus.New(s.repo, s.stater, sc.net.FC)
	canonID := canonSet(sc)
	for _, blk := range sc.order {
		if err := importBlock(s, sc, cons, blk, canonID[blk.Header().ID()]); err != nil {
			return s, err
		}
	}
	return s, nil
}

// runLiveMode is set by live.go (build tag veriflive: needs the loop-scaling hook of hooks/pruner-loop.patch)
var runLiveMode func(sc *scenario, o opts, seed int64) runReport

// readBlock performs every observable read at one block; each entry is the value rendered as text or "ERR".
func readBlock(s *stack, sc *scenario, blk *block.Block) (out map[string]string) {
	out = map[string]string{}
	put := func(k string, v any, err error) {
		if err != nil {
			out[k] = "ERR"
		} else {
			out[k] = fmt.Sprint(v)
		}
	}
	defer func() {
		if r := recover(); r != nil {
			out["PANIC"] = fmt.Sprint(r)
		}
	}()
	id := blk.Header().ID()
	sum, err := s.repo.GetBlockSummary(id)
	if err != nil {
		out["summary"] = "ERR"
		return
	}
	st := s.stater.NewState(sum.Root())
	for i, a := range sc.accts {
		b, err := st.GetBalance(a)
		put(fmt.Sprintf("bal%d", i), b, err)
		e, err := st.GetEnergy(a, blk.Header().Timestamp(), math.MaxUint64)
		put(fmt.Sprintf("eng%d", i), e, err)
	}
	for i, k := range sc.paramKey {
		v, err := st.GetStorage(builtin.Params.Address, k)
		put(fmt.Sprintf("param%d", i), v, err)
		p, err := builtin.Params.Native(st).Get(k)
		put(fmt.Sprintf("paramN%d", i), p, err)
	}
	for i, k := range sc.bigKeys {
		v, err := st.GetStorage(sc.big, k)
		put(fmt.Sprintf("big%d", i), v, err)
	}
	code, err := st.GetCode(builtin.Params.Address)
	put("code", len(code), err)
	ch, err := st.GetCodeHash(builtin.Energy.Address)
	put("codehash", ch, err)
	first, err := builtin.Authority.Native(st).First()
	put("auth-first", first, err)
	if err == nil && first != nil {
		listed, endorsor, identity, active, err := builtin.Authority.Native(st).Get(*first)
		put("auth-get", fmt.Sprint(listed, endorsor, identity, active), err)
	}
	// the block-number index as of this head
	c := s.repo.NewChain(id)
	for n := uint32(0); n <= blk.Header().Number(); n++ {
		bid, err := c.GetBlockID(n)
		put(fmt.Sprintf("idx%d", n), bid, err)
	}
	// tx lookups through this head (every fourth tx keeps the volume down)
	for i, t := range sc.txs {
		if i%4 != 0 {
			continue
		}
		has, err := c.HasTransaction(t.ID(), t.BlockRef().Number())
		put(fmt.Sprintf("hastx%d", i), has, err)
		m, err := c.GetTransactionMeta(t.ID())
		if err != nil && c.IsNotFound(err) {
			put(fmt.Sprintf("txmeta%d", i), "notfound", nil)
		} else if err != nil {
			put(fmt.Sprintf("txmeta%d", i), nil, err)
		} else {
			put(fmt.Sprintf("txmeta%d", i), fmt.Sprint(m.BlockNum, m.BlockConflicts, m.Index, m.Reverted), nil)
		}
	}
	return
}

type mismatch struct {
	Cfg      string `json:"cfg"`
	Round    string `json:"round"`
	Phase    string `json:"phase"` // after-prune | after-reopen | in-flight
	Block    uint32 `json:"block"`
	Side     bool   `json:"side"`
	Class    string `json:"class"` // retained | pruned | inflight
	Key      string `json:"key"`
	Expected string `json:"expected"`
	Got      string `json:"got"`
}

type runReport struct {
	Cfg          string     `json:"cfg"`
	Seed         int64      `json:"seed"`
	Blocks       int        `json:"blocks"`
	SideBlocks   int        `json:"sideBlocks"`
	Rounds       []string   `json:"rounds"`
	Reads        int        `json:"reads"`
	RetainedOK   int        `json:"retainedReadsEqual"`
	PrunedErr    int        `json:"prunedReadsFailed"`
	PrunedEqual  int        `json:"prunedReadsEqual"`
	DedupWritten int        `json:"dedupKeys"`
	HistDeleted  int        `json:"histKeysDeleted"`
	Mismatches   []mismatch `json:"mismatches"`
	PruneErrors  []string   `json:"pruneErrors"`
	CrashCuts    int        `json:"crashCuts"`
	ResumeErrors []string   `json:"resumeErrors"` // the same round run again after a crash returned an error
}

// compareBlock reads one block and compares with the snapshot. class: retained / recent (must equal), pruned /
// inflight (must fail or equal).
func compareBlock(rep *runReport, phase, round string, s *stack, sc *scenario, snap map[thor.Bytes32]map[string]string,
	blk *block.Block, class string, side bool) {
	id := blk.Header().ID()
	got := readBlock(s, sc, blk)
	want := snap[id]
	num := blk.Header().Number()
	strict := class == "retained" || class == "recent"
	keys := make([]string, 0, len(want))
	for k := range want {
		keys = append(keys, k)
	}
	sort.Strings(keys)
	if p, ok := got["PANIC"]; ok {
		rep.Mismatches = append(rep.Mismatches, mismatch{rep.Cfg, round, phase, num, side, class, "PANIC", "", p})
		return
	}
	for _, k := range keys {
		rep.Reads++
		g, present := got[k]
		if !present {
			g = "ERR" // a read that depends on an earlier failed read was not attempted
		}
		w := want[k]
		switch {
		case g == w:
			if strict {
				rep.RetainedOK++
			} else {
				rep.PrunedEqual++
			}
		case !strict && (g == "ERR" || got["summary"] == "ERR"):
			rep.PrunedErr++
		default:
			if len(rep.Mismatches) < 50 {
				rep.Mismatches = append(rep.Mismatches, mismatch{rep.Cfg, round, phase, num, side, class, k, w, g})
			}
		}
	}
}

func compare(rep *runReport, phase, round string, s *stack, sc *scenario, snap map[thor.Bytes32]map[string]string,
	base, target uint32, inflight bool) {
	canon := canonSet(sc)
	all := append([]*block.Block{sc.canon[0]}, sc.order...)
	for _, blk := range all {
		num := blk.Header().Number()
		class := "retained"
		if num < target {
			class = "pruned"
			if inflight && num >= base {
				class = "inflight"
			}
		}
		compareBlock(rep, phase, round, s, sc, snap, blk, class, !canon[blk.Header().ID()])
	}
}

// crashCuts: the round [base, target) has just been run on s (writes log[l0:l1] of the recording engine, all labelled
// with the round). For every cut inside the round - after every atomic write and, because the checkpoint and the range
// delete flush their bulk by size (any prefix of their operations is a possible durable state), after sampled operation
// prefixes of every write - the store is rebuilt, a fresh stack is opened on it, and
//   - every block >= target must read as before the prune (blocks in [persisted base, target) are in flight),
//   - the SAME round is run again from the persisted base (what the pruner does after a restart),
//   - afterwards every block >= target must read as before, every older block must fail or read as before.
func crashCuts(rep *runReport, round string, s *stack, sc *scenario, snap map[thor.Bytes32]map[string]string,
	best *block.Block, base, target uint32, l0 int, rng *rand.Rand) {
	log := s.eng.Log()
	l1 := len(log)
	type cut struct{ k, j int } // log[:k] plus the first j operations of log[k]
	var cuts []cut
	for k := l0; k < l1; k++ {
		cuts = append(cuts, cut{k, 0})
		n := len(log[k].Ops)
		for _, j := range []int{1, n / 4, n / 2, n - 1, 1 + rng.Intn(n)} {
			if j > 0 && j < n {
				cuts = append(cuts, cut{k, j})
			}
		}
	}
	// the range delete starts with the first write of the round that touches the hist space
	delStart := l1
	for k := l0; k < l1; k++ {
		if strings.Contains(kvrec.Classify(&log[k]), "trie-hist") {
			delStart = k
			break
		}
	}
	seen := map[cut]bool{}
	for _, c := range cuts {
		if seen[c] {
			continue
		}
		seen[c] = true
		rep.CrashCuts++
		e2 := kvrec.Materialize(log, c.k)
		if c.j > 0 {
			bl := e2.Bulk()
			for _, op := range log[c.k].Ops[:c.j] {
				if op.Del {
					must(bl.Delete(op.Key))
				} else {
					must(bl.Put(op.Key, op.Val))
				}
			}
			must(bl.Write())
		}
		where := fmt.Sprintf("%s cut %d+%d/%d (%s)", round, c.k-l0, c.j, len(log[c.k].Ops), kvrec.Classify(&log[c.k]))
		s2 := &stack{o: s.o, eng: e2, b0: s.b0}
		if err := s2.reopen(); err != nil {
			rep.Mismatches = append(rep.Mismatches, mismatch{rep.Cfg, where, "after-crash", target, false, "retained", "reopen", "ok", err.Error()})
			continue
		}
		pb, err := pruner.VerifLoadBase(s2.db)
		if err != nil || (pb != base && pb != target) {
			rep.PruneErrors = append(rep.PruneErrors, fmt.Sprintf("%s: persisted base %d err %v", where, pb, err))
			continue
		}
		compare(rep, "after-crash", where, s2, sc, snap, pb, target, true)
		if pb < target {
			// the pruner starts again: same base, same target
			if err := pruner.VerifPruneTries(context.Background(), s2.db, s2.repo, s2.repo.NewChain(best.Header().ID()), pb, target); err != nil {
				if c.k > delStart || (c.k == delStart && c.j > 0) {
					// design-level observation (NodeStore!Resumable): once the delete has removed the roots of block
					// target-1 the round cannot be run again, although the persisted base still asks for it
					rep.ResumeErrors = append(rep.ResumeErrors, where+": "+err.Error())
				} else {
					rep.PruneErrors = append(rep.PruneErrors, "crash-resume before any history was deleted, "+where+": "+err.Error())
				}
				// the round cannot be completed; the reads must still be right
				compare(rep, "after-failed-resume", where, s2, sc, snap, pb, target, true)
				continue
			}
			must(pruner.VerifSaveBase(s2.db, target))
		}
		compare(rep, "after-resume", where, s2, sc, snap, target, target, false)
		if c.j == 0 {
			if err := s2.reopen(); err != nil {
				rep.Mismatches = append(rep.Mismatches, mismatch{rep.Cfg, where, "after-resume-reopen", target, false, "retained", "reopen", "ok", err.Error()})
				continue
			}
			compare(rep, "after-resume-reopen", where, s2, sc, snap, target, target, false)
		}
	}
}

func runOne(sc *scenario, o opts, seed int64, inflight, crash bool) runReport {
	rng := rand.New(rand.NewSource(seed))
	rep := runReport{Cfg: o.String(), Seed: seed, Blocks: len(sc.canon) - 1, SideBlocks: len(sc.order) - (len(sc.canon) - 1),
		Mismatches: []mismatch{}, PruneErrors: []string{}, Rounds: []string{}, ResumeErrors: []string{}}
	// the blocks were produced and accepted by a stack with default options; every option set must accept them too
	s, err := importInto(sc, o)
	if err != nil {
		rep.Mismatches = append(rep.Mismatches, mismatch{rep.Cfg, "import", "import", 0, false, "retained", "import", "accepted", err.Error()})
		return rep
	}
	if err := s.reopen(); err != nil {
		rep.Mismatches = append(rep.Mismatches, mismatch{rep.Cfg, "import", "after-reopen", 0, false, "retained", "reopen", "ok", err.Error()})
		return rep
	}
	snap := map[thor.Bytes32]map[string]string{}
	for _, blk := range append([]*block.Block{sc.canon[0]}, sc.order...) {
		snap[blk.Header().ID()] = readBlock(s, sc, blk)
		for k, v := range snap[blk.Header().ID()] {
			if v == "ERR" {
				must(fmt.Errorf("pre-prune read failed: block %d %s", blk.Header().Number(), k))
			}
		}
	}
	best := sc.canon[len(sc.canon)-1]
	// vacuity guards: the big contract really holds its slots, and the Params trie of block 8 has minor version 1
	if got := snap[best.Header().ID()]["big6"]; got != thor.BytesToBytes32([]byte{150 + 1}).String() {
		must(fmt.Errorf("big contract slot 150 reads %s at the best block", got))
	}
	if sum, err := s.repo.GetBlockSummary(sc.canon[8].Header().ID()); err != nil || sum.Conflicts != 1 {
		must(fmt.Errorf("canonical block 8 should have been stored second (conflicts=%v err=%v)", sum, err))
	}
	n := uint32(len(sc.canon) - 1)
	base := uint32(0)
	histBefore := len(s.eng.Keys([]byte{kvrec.SpaceHist}))
	for base+6 < n {
		step := uint32(3 + rng.Intn(12))
		target := base + step
		// put boundaries on the heights where a storage trie was written (its root version = the next base)
		for _, m := range sc.marks {
			if m > base && m <= target {
				target = m
				break
			}
		}
		if o.HF != math.MaxUint32 && o.HF > 1 {
			target = (target + o.HF - 1) / o.HF * o.HF // production prune targets are multiples of the partition factor
		}
		if target+4 > n {
			break
		}
		round := fmt.Sprintf("[%d,%d)", base, target)
		rep.Rounds = append(rep.Rounds, round)
		s.eng.SetNote("prune " + round)
		targetChain := s.repo.NewChain(best.Header().ID())
		if inflight {
			if err := pruner.VerifCheckpointTries(context.Background(), s.db, s.repo, targetChain, base, target); err != nil {
				rep.PruneErrors = append(rep.PruneErrors, round+": "+err.Error())
				break
			}
			compare(&rep, "in-flight", round, s, sc, snap, base, target, true)
		}
		l0 := s.eng.Len()
		if err := pruner.VerifPruneTries(context.Background(), s.db, s.repo, targetChain, base, target); err != nil {
			rep.PruneErrors = append(rep.PruneErrors, round+": "+err.Error())
			break
		}
		must(pruner.VerifSaveBase(s.db, target))
		if crash {
			crashCuts(&rep, round, s, sc, snap, best, base, target, l0, rng)
		}
		compare(&rep, "after-prune", round, s, sc, snap, base, target, false)
		if err := s.reopen(); err != nil {
			rep.Mismatches = append(rep.Mismatches, mismatch{rep.Cfg, round, "after-reopen", target, false, "retained", "reopen", "ok", err.Error()})
			break
		}
		if b, err := pruner.VerifLoadBase(s.db); err != nil || b != target {
			rep.PruneErrors = append(rep.PruneErrors, fmt.Sprintf("%s: persisted base %d err %v", round, b, err))
		}
		compare(&rep, "after-reopen", round, s, sc, snap, base, target, false)
		base = target
	}
	rep.DedupWritten = len(s.eng.Keys([]byte{kvrec.SpaceDedup}))
	rep.HistDeleted = histBefore - len(s.eng.Keys([]byte{kvrec.SpaceHist}))
	return rep
}

func main() {
	out := flag.String("out", ".", "output directory")
	seed := flag.Int64("seed", 1, "seed")
	blocks := flag.Int("blocks", 48, "canonical chain length")
	runs := flag.Int("runs", 3, "number of option sets to run (walks the matrix)")
	inflight := flag.Bool("inflight", false, "also read between checkpoint and delete (finding probe)")
	crash := flag.Bool("crash", false, "crash cuts inside every prune round, then the same round again")
	live := flag.Bool("live", false, "run the real Pruner goroutine (scaled period / history) while blocks are imported")
	flag.Parse()
	var mx []opts
	type ct struct {
		mb  int
		ttl uint16
	}
	for _, c := range []ct{{0, 32}, {1, 0}, {1, 1}, {1, 32}} {
		for _, hf := range []uint32{1, 2, 4, math.MaxUint32} {
			for _, df := range []uint32{1, 2, math.MaxUint32} {
				mx = append(mx, opts{hf, df, c.mb, c.ttl})
			}
		}
	}
	sc := buildChain(*seed, *blocks)
	defer sc.net.Close()
	rng := rand.New(rand.NewSource(*seed))
	off := rng.Intn(len(mx))
	var reps []runReport
	for i := 0; i < *runs; i++ {
		o := mx[(off+i*11)%len(mx)]
		if i == 0 {
			o = opts{1, math.MaxUint32, 0, 32} // always include the production-like deduped layout
		}
		if *live {
			if runLiveMode == nil {
				must(fmt.Errorf("built without tag veriflive"))
			}
			reps = append(reps, runLiveMode(sc, o, *seed*7919+int64(i)))
			continue
		}
		reps = append(reps, runOne(sc, o, *seed*7919+int64(i), *inflight, *crash))
	}
	must(os.MkdirAll(*out, 0o755))
	f, err := os.Create(filepath.Join(*out, "report.json"))
	must(err)
	enc := json.NewEncoder(f)
	enc.SetIndent("", " ")
	must(enc.Encode(reps))
	f.Close()
	mm := 0
	for _, r := range reps {
		mm += len(r.Mismatches) + len(r.PruneErrors)
	}
	b, _ := json.Marshal(map[string]any{"runs": len(reps), "mismatches": mm})
	fmt.Println(string(b))
}
