package main

// Id binding: for every field that the structure tables of Codec.tla name as signed (tables.json, exported by TLC),
// a one-step perturbation of that field on a real, signed object must change the id; a tx hash additionally commits
// to the signature; the txs / receipts roots commit to the ordered contents.

import (
	"encoding/json"
	"fmt"
	"math/big"
	"os"

	"github.com/ethereum/go-ethereum/rlp"

	"github.com/vechain/thor/v2/block"
	"github.com/vechain/thor/v2/thor"
	"github.com/vechain/thor/v2/trie"
	"github.com/vechain/thor/v2/tx"
)

type tables struct {
	LegacySigned        []string  `json:"legacySigned"`
	DynSigned           []string  `json:"dynSigned"`
	LegacyHashed        []string  `json:"legacyHashed"`
	DynHashed           []string  `json:"dynHashed"`
	HeaderSignedWithFee []string  `json:"headerSignedWithFee"`
	HeaderSignedNoFee   []string  `json:"headerSignedNoFee"`
	MaxClauses          int       `json:"maxClauses"`
	MaxUnused           int       `json:"maxUnused"`
	HeaderBases         []hdrBase `json:"headerBases"`
	TxBases             []txBase  `json:"txBases"`
	ReceiptBound        []string  `json:"receiptBound"`
	ReceiptBases        []rcBase  `json:"receiptBases"`
}

// boundary values of a base header (Codec.tla HeaderBases) and the fields the specification says are signed for it
type hdrBase struct {
	BaseFee string   `json:"baseFee"` // absent | zero | one | large
	Alpha   string   `json:"alpha"`   // empty | nonempty
	Com     bool     `json:"com"`
	Gas     string   `json:"gas"` // zero | nonzero (gasLimit and gasUsed)
	Signed  []string `json:"signed"`
}

// boundary values of a base tx (Codec.tla TxBases)
type txBase struct {
	Type       string   `json:"type"` // legacy | dynfee
	Fees       string   `json:"fees"`
	Expiration string   `json:"expiration"`
	Nonce      string   `json:"nonce"`
	Clauses    string   `json:"clauses"`   // empty | two
	DependsOn  string   `json:"dependsOn"` // nil | set
	Delegated  bool     `json:"delegated"`
	Signed     []string `json:"signed"`
	Hashed     []string `json:"hashed"`
}

type perturbTx struct {
	name string
	f    func(*txFields)
	ok   func(*txFields) bool // applicable to this base? (nil: always)
}

// one-step perturbations of a tx field (several per field where the field is structured), including the steps across
// the boundary values (0 <-> 1, nil <-> set, empty <-> non-empty)
func txPerturbations(g *gen, field string, typ byte) []perturbTx {
	bump := func(b *big.Int) *big.Int { return new(big.Int).Add(b, big.NewInt(1)) }
	two := func(f *txFields) bool { return len(f.clauses) >= 2 }
	some := func(f *txFields) bool { return len(f.clauses) >= 1 }
	switch field {
	case "chainTag":
		return []perturbTx{{"chainTag+1", func(f *txFields) { f.chainTag++ }, nil}}
	case "blockRef":
		return []perturbTx{{"blockRef.lastbyte", func(f *txFields) { f.blockRef[7] ^= 1 }, nil}, {"blockRef.firstbyte", func(f *txFields) { f.blockRef[0] ^= 0x80 }, nil}}
	case "expiration":
		return []perturbTx{{"expiration+1", func(f *txFields) { f.exp++ }, nil},
			{"expiration=0", func(f *txFields) { f.exp = 0 }, func(f *txFields) bool { return f.exp != 0 }}}
	case "clauses":
		return []perturbTx{
			{"clauses.append", func(f *txFields) { f.clauses = append(append([]*tx.Clause{}, f.clauses...), tx.NewClause(nil)) }, nil},
			{"clauses.droplast", func(f *txFields) { f.clauses = f.clauses[:len(f.clauses)-1] }, some},
			{"clauses.empty", func(f *txFields) { f.clauses = nil }, some},
			{"clauses.swap", func(f *txFields) {
				c := append([]*tx.Clause{}, f.clauses...)
				c[0], c[1] = c[1], c[0]
				f.clauses = c
			}, two},
			{"clause.to.nil", func(f *txFields) {
				c := append([]*tx.Clause{}, f.clauses...)
				c[0] = tx.NewClause(nil).WithValue(c[0].Value()).WithData(c[0].Data())
				f.clauses = c
			}, two},
			{"clause.to.bit", func(f *txFields) {
				c := append([]*tx.Clause{}, f.clauses...)
				a := *c[0].To()
				a[19] ^= 1
				c[0] = tx.NewClause(&a).WithValue(c[0].Value()).WithData(c[0].Data())
				f.clauses = c
			}, two},
			{"clause.value+1", func(f *txFields) {
				c := append([]*tx.Clause{}, f.clauses...)
				c[1] = c[1].WithValue(bump(c[1].Value()))
				f.clauses = c
			}, two},
			{"clause.value.0->1", func(f *txFields) {
				c := append([]*tx.Clause{}, f.clauses...)
				c[0] = c[0].WithValue(bump(c[0].Value()))
				f.clauses = c
			}, two},
			{"clause.data.bit", func(f *txFields) {
				c := append([]*tx.Clause{}, f.clauses...)
				d := c[1].Data()
				d[len(d)-1] ^= 1
				c[1] = c[1].WithData(d)
				f.clauses = c
			}, two},
			{"clause.data.append0", func(f *txFields) {
				c := append([]*tx.Clause{}, f.clauses...)
				c[1] = c[1].WithData(append(c[1].Data(), 0))
				f.clauses = c
			}, two},
			{"clause.data.empty->0x00", func(f *txFields) {
				c := append([]*tx.Clause{}, f.clauses...)
				c[0] = c[0].WithData([]byte{0})
				f.clauses = c
			}, two},
		}
	case "gasPriceCoef":
		return []perturbTx{{"gasPriceCoef+1", func(f *txFields) { f.coef++ }, nil}}
	case "maxPriorityFeePerGas":
		return []perturbTx{{"maxPriorityFeePerGas+1", func(f *txFields) { f.maxPrio = bump(f.maxPrio) }, nil},
			{"maxPriorityFeePerGas=0", func(f *txFields) { f.maxPrio = new(big.Int) }, func(f *txFields) bool { return f.maxPrio.Sign() != 0 }}}
	case "maxFeePerGas":
		return []perturbTx{{"maxFeePerGas+1", func(f *txFields) { f.maxFee = bump(f.maxFee) }, nil},
			{"maxFeePerGas=0", func(f *txFields) { f.maxFee = new(big.Int) }, func(f *txFields) bool { return f.maxFee.Sign() != 0 }}}
	case "gas":
		return []perturbTx{{"gas+1", func(f *txFields) { f.gas++ }, nil}}
	case "dependsOn":
		set := func(f *txFields) bool { return f.dependsOn != nil }
		return []perturbTx{
			{"dependsOn.bit", func(f *txFields) { d := *f.dependsOn; d[31] ^= 1; f.dependsOn = &d }, set},
			{"dependsOn.nil", func(f *txFields) { f.dependsOn = nil }, set},
			{"dependsOn.set(zero hash)", func(f *txFields) { f.dependsOn = &thor.Bytes32{} }, func(f *txFields) bool { return f.dependsOn == nil }},
		}
	case "nonce":
		return []perturbTx{{"nonce+1", func(f *txFields) { f.nonce++ }, nil},
			{"nonce=0", func(f *txFields) { f.nonce = 0 }, func(f *txFields) bool { return f.nonce != 0 }}}
	case "reserved":
		return []perturbTx{{"reserved.features", func(f *txFields) { f.features ^= tx.DelegationFeature }, nil}}
	}
	return nil
}

type perturbHdr struct {
	name string
	f    func(*headerFields)
	ok   func(*headerFields) bool // applicable to this base? (nil: always)
}

func headerPerturbations(field string) []perturbHdr {
	hasAlpha := func(f *headerFields) bool { return len(f.alpha) > 0 }
	hasFee := func(f *headerFields) bool { return f.baseFee != nil }
	posFee := func(f *headerFields) bool { return f.baseFee != nil && f.baseFee.Sign() > 0 }
	switch field {
	case "parentID":
		// the first 4 bytes are the number, part of the id directly; the rest is hashed
		return []perturbHdr{{"parentID.lastbyte", func(f *headerFields) { f.parent[31] ^= 1 }, nil}, {"parentID.number", func(f *headerFields) { f.parent[3] ^= 1 }, nil}}
	case "timestamp":
		return []perturbHdr{{"timestamp+1", func(f *headerFields) { f.ts++ }, nil}}
	case "gasLimit":
		return []perturbHdr{{"gasLimit+1", func(f *headerFields) { f.gasLimit++ }, nil}}
	case "beneficiary":
		return []perturbHdr{{"beneficiary.bit", func(f *headerFields) { f.beneficiary[0] ^= 1 }, nil}}
	case "gasUsed":
		return []perturbHdr{{"gasUsed+1", func(f *headerFields) { f.gasUsed++ }, nil}}
	case "totalScore":
		return []perturbHdr{{"totalScore+1", func(f *headerFields) { f.score++ }, nil}}
	case "txsRootFeatures":
		return []perturbHdr{
			{"txsRoot (one more tx)", func(f *headerFields) { f.txs = append(append(tx.Transactions{}, f.txs...), f.txs[0]) }, nil},
			{"txsFeatures", func(f *headerFields) { f.txFeatures ^= tx.DelegationFeature }, nil},
		}
	case "stateRoot":
		return []perturbHdr{{"stateRoot.bit", func(f *headerFields) { f.stateRoot[5] ^= 1 }, nil}}
	case "receiptsRoot":
		return []perturbHdr{{"receiptsRoot.bit", func(f *headerFields) { f.rcRoot[31] ^= 0x80 }, nil}}
	case "extension":
		return []perturbHdr{
			{"alpha.bit", func(f *headerFields) { a := append([]byte{}, f.alpha...); a[0] ^= 1; f.alpha = a }, hasAlpha},
			{"alpha.empty", func(f *headerFields) { f.alpha = nil }, hasAlpha},
			{"alpha.set", func(f *headerFields) { f.alpha = []byte{7} }, func(f *headerFields) bool { return len(f.alpha) == 0 }},
			{"com", func(f *headerFields) { f.com = !f.com }, nil},
			{"baseFee+1", func(f *headerFields) { f.baseFee = new(big.Int).Add(f.baseFee, big.NewInt(1)) }, hasFee},
			{"baseFee+2^64", func(f *headerFields) { f.baseFee = new(big.Int).Add(f.baseFee, new(big.Int).Lsh(big.NewInt(1), 64)) }, hasFee},
			{"baseFee=0", func(f *headerFields) { f.baseFee = new(big.Int) }, posFee},
		}
	}
	return nil
}

type listOf [][]byte

func (l listOf) Len() int                 { return len(l) }
func (l listOf) EncodeIndex(i int) []byte { return l[i] }

func runIDBind(tablesPath string, seed int64, out string) {
	raw, err := os.ReadFile(tablesPath)
	if err != nil {
		fatal("read tables: %v", err)
	}
	var tb tables
	if err := json.Unmarshal(raw, &tb); err != nil {
		fatal("parse tables: %v", err)
	}
	if tb.MaxClauses != tx.MaxClausesPerTx || tb.MaxUnused != tx.MaxUnusedReservedFields {
		// the constants of the model must be the constants of the code under test
		fatal("model constants (MaxClauses=%d, MaxUnused=%d) differ from the code (%d, %d)", tb.MaxClauses, tb.MaxUnused, tx.MaxClausesPerTx, tx.MaxUnusedReservedFields)
	}
	g := newGen(seed)
	r := &result{Mode: "idbind", Extra: map[string]any{}}
	dev := func(sig, what string) {
		r.Deviations = append(r.Deviations, Deviation{Sig: sig, What: what, Index: r.Evaluations})
	}
	var o Obs
	ok := guard("idbind", &o, func() {
		// ------------------------------------------------------------------ transactions
		// every base object of the specification's TxBases (boundary values) x every signed field x every applicable step
		if len(tb.TxBases) == 0 || len(tb.HeaderBases) == 0 {
			fatal("tables carry no boundary base objects")
		}
		pick := func(which string, zero, nonzero uint64) uint64 {
			if which == "zero" {
				return zero
			}
			return nonzero
		}
		for _, bs := range tb.TxBases {
			f := g.txFields()
			f.typ = tx.TypeLegacy
			if bs.Type == "dynfee" {
				f.typ = tx.TypeDynamicFee
			}
			label := fmt.Sprintf("%s tx fees=%s expiration=%s nonce=%s clauses=%s dependsOn=%s delegated=%v", bs.Type, bs.Fees, bs.Expiration,
				bs.Nonce, bs.Clauses, bs.DependsOn, bs.Delegated)
			f.exp = uint32(pick(bs.Expiration, 0, uint64(g.rng.Intn(1000)+1)))
			f.nonce = pick(bs.Nonce, 0, g.rng.Uint64()|1)
			f.coef = uint8(pick(bs.Fees, 0, uint64(g.rng.Intn(254)+1)))
			f.maxFee, f.maxPrio = new(big.Int), new(big.Int)
			if bs.Fees != "zero" {
				f.maxFee = new(big.Int).SetBytes(g.bytes(g.rng.Intn(12) + 1))
				f.maxFee.Add(f.maxFee, big.NewInt(1))
				f.maxPrio = big.NewInt(int64(g.rng.Intn(1000) + 1))
			}
			f.clauses = nil
			if bs.Clauses == "two" {
				a1, a2 := g.addr(), g.addr()
				// the first clause sits on the boundaries itself: value 0, no data
				f.clauses = []*tx.Clause{tx.NewClause(&a1), tx.NewClause(&a2).WithValue(big.NewInt(7)).WithData(g.bytes(12))}
			}
			f.dependsOn = nil
			if bs.DependsOn == "set" {
				d := g.b32()
				f.dependsOn = &d
			}
			f.features = 0
			if bs.Delegated {
				f.features = tx.DelegationFeature
			}
			base := g.sign(f.build(), g.keys[0], g.keys[2])
			if _, err := base.Origin(); err != nil {
				fatal("base tx has no origin: %v", err)
			}
			signedSet := map[string]bool{}
			for _, name := range bs.Signed {
				signedSet[name] = true
				ps := txPerturbations(g, name, f.typ)
				if len(ps) == 0 {
					fatal("tables name a signed tx field the driver cannot perturb: %s", name)
				}
				applied := 0
				for _, p := range ps {
					if p.ok != nil && !p.ok(f) {
						continue
					}
					applied++
					cp := *f
					p.f(&cp)
					unsigned := cp.build()
					resigned := g.sign(unsigned, g.keys[0], g.keys[2])
					kept := unsigned.WithSignature(base.Signature())
					r.Evaluations++
					where := fmt.Sprintf("tx.%s (%s; base: %s)", name, p.name, label)
					if unsigned.SigningHash() == base.SigningHash() {
						dev("id-unbound:tx."+name, "signing hash unchanged after perturbing "+where)
					}
					if resigned.ID() == base.ID() {
						dev("id-unbound:tx."+name, "id unchanged (same signer re-signs) after perturbing "+where)
					}
					if kept.ID() == base.ID() {
						dev("id-unbound:tx."+name, "id unchanged (signature bytes kept) after perturbing "+where)
					}
					if resigned.Hash() == base.Hash() || kept.Hash() == base.Hash() {
						dev("hash-unbound:tx."+name, "hash unchanged after perturbing "+where)
					}
					if len(r.Samples) < 2 {
						r.Samples = append(r.Samples, map[string]any{"base": label, "perturbed": p.name, "id_before": base.ID().String(),
							"id_after_resign": resigned.ID().String(), "id_after_keepsig": kept.ID().String()})
					}
				}
				if applied == 0 {
					fatal("no applicable perturbation of tx.%s for base %s", name, label)
				}
			}
			// fields that are hashed but not signed: the signature(s)
			for _, name := range bs.Hashed {
				if signedSet[name] {
					continue
				}
				if name != "signature" {
					fatal("tables name a hashed-only tx field the driver cannot perturb: %s", name)
				}
				sig := base.Signature()
				for _, pos := range []int{0, 40, 64, len(sig) - 1} {
					s2 := append([]byte{}, sig...)
					s2[pos] ^= 1
					t2 := base.WithSignature(s2)
					r.Evaluations++
					if t2.Hash() == base.Hash() {
						dev("hash-unbound:tx.signature", fmt.Sprintf("tx hash unchanged after flipping a bit of signature byte %d (%s)", pos, label))
					}
					_ = t2.ID()
					_, _ = t2.Origin()
					_, _ = t2.Delegator()
				}
			}
			// the id binds the origin: the same content signed by somebody else is a different tx
			otherTx := g.sign(f.build(), g.keys[1], g.keys[2])
			r.Evaluations++
			if otherTx.ID() == base.ID() || otherTx.Hash() == base.Hash() {
				dev("id-unbound:tx.origin", "tx id/hash unchanged with a different origin ("+label+")")
			}
			// unused reserved slot: not reachable through the builder, spliced into the encoding
			if u := g.withUnused(base); u != nil {
				r.Evaluations++
				if u.SigningHash() == base.SigningHash() || u.ID() == base.ID() || u.Hash() == base.Hash() {
					dev("id-unbound:tx.reserved", "id/hash unchanged after adding an unused reserved slot ("+label+")")
				}
			}
		}
		// ------------------------------------------------------------------ headers
		// every base object of HeaderBases: base fee absent / 0 / 1 / large, alpha empty or not, COM, gas 0 or not
		for _, bs := range tb.HeaderBases {
			f := g.headerFields(0)
			f.txs = tx.Transactions{g.tx()}
			label := fmt.Sprintf("header baseFee=%s alpha=%s com=%v gas=%s", bs.BaseFee, bs.Alpha, bs.Com, bs.Gas)
			switch bs.BaseFee {
			case "absent":
				f.baseFee = nil
			case "zero":
				f.baseFee = new(big.Int)
			case "one":
				f.baseFee = big.NewInt(1)
			case "large":
				f.baseFee = new(big.Int).Add(new(big.Int).SetBytes(g.bytes(20)), big.NewInt(1000))
			default:
				fatal("unknown baseFee boundary %q", bs.BaseFee)
			}
			f.alpha = nil
			if bs.Alpha == "nonempty" {
				f.alpha = g.bytes(32)
			}
			f.com = bs.Com
			f.gasLimit = pick(bs.Gas, 0, g.rng.Uint64()|1)
			f.gasUsed = pick(bs.Gas, 0, g.rng.Uint64()>>8|1)
			complexSig := len(f.alpha) > 0
			base := g.signBlock(f.build(), g.keys[0], complexSig)
			if _, err := base.Header().Signer(); err != nil {
				fatal("base header has no signer: %v", err)
			}
			if (base.Header().BaseFee() == nil) != (bs.BaseFee == "absent") || base.Header().COM() != bs.Com || (len(base.Header().Alpha()) == 0) != (bs.Alpha == "empty") {
				fatal("base header does not have the boundary values asked for: %s", label)
			}
			for _, name := range bs.Signed {
				ps := headerPerturbations(name)
				if len(ps) == 0 {
					fatal("tables name a signed header field the driver cannot perturb: %s", name)
				}
				applied := 0
				for _, p := range ps {
					if p.ok != nil && !p.ok(f) {
						continue
					}
					applied++
					cp := *f
					p.f(&cp)
					nb := cp.build()
					resigned := g.signBlock(nb, g.keys[0], complexSig)
					kept := nb.WithSignature(base.Header().Signature())
					r.Evaluations++
					where := fmt.Sprintf("header.%s (%s; base: %s)", name, p.name, label)
					if nb.Header().SigningHash() == base.Header().SigningHash() {
						dev("id-unbound:header."+name, "signing hash unchanged after perturbing "+where)
					}
					if resigned.Header().ID() == base.Header().ID() {
						dev("id-unbound:header."+name, "block id unchanged (same signer re-signs) after perturbing "+where)
					}
					if kept.Header().ID() == base.Header().ID() {
						dev("id-unbound:header."+name, "block id unchanged (signature bytes kept) after perturbing "+where)
					}
					if len(r.Samples) < 4 && p.name == "com" && bs.BaseFee == "zero" {
						r.Samples = append(r.Samples, map[string]any{"base": label, "perturbed": p.name, "id_before": base.Header().ID().String(),
							"id_after_resign": resigned.Header().ID().String()})
					}
				}
				if applied == 0 {
					fatal("no applicable perturbation of header.%s for base %s", name, label)
				}
			}
			// the signature enters the id through the recovered signer: a change of the ECDSA part either changes the
			// signer (hence the id) or makes Signer() fail
			sig := base.Header().Signature()
			for _, pos := range []int{0, 17, 31, 32, 50, 63} {
				s2 := append([]byte{}, sig...)
				s2[pos] ^= 1 << uint(pos%8)
				h2 := base.WithSignature(s2).Header()
				r.Evaluations++
				s0, _ := base.Header().Signer()
				s1, err := h2.Signer()
				if err == nil && s1 == s0 {
					dev("id-unbound:header.signer", fmt.Sprintf("same signer recovered after flipping a bit of ECDSA signature byte %d (%s)", pos, label))
				}
				if h2.ID() == base.Header().ID() {
					dev("id-unbound:header.signer", fmt.Sprintf("block id unchanged after flipping a bit of ECDSA signature byte %d (%s)", pos, label))
				}
			}
			// a different signer over the same content: different id
			other := g.signBlock(f.build(), g.keys[1], complexSig)
			r.Evaluations++
			if other.Header().ID() == base.Header().ID() {
				dev("id-unbound:header.signer", "block id unchanged with a different signer ("+label+")")
			}
		}
		// ------------------------------------------------------------------ roots commit to the ordered contents
		var txs tx.Transactions
		for i := 0; i < 5; i++ {
			txs = append(txs, g.tx())
		}
		var rcs tx.Receipts
		for i := 0; i < 5; i++ {
			rc := g.receipt()
			rc.GasUsed = uint64(1000 + i) // distinct for sure
			rcs = append(rcs, rc)
		}
		check := func(label string, root func(perm []int) thor.Bytes32, n int) {
			id := make([]int, n)
			for i := range id {
				id[i] = i
			}
			r0 := root(id)
			seen := map[thor.Bytes32]string{r0: "identity"}
			try := func(name string, perm []int) {
				r.Evaluations++
				rr := root(perm)
				if prev, dup := seen[rr]; dup {
					dev("root-unbound:"+label, fmt.Sprintf("%s root of %s equals root of %s", label, name, prev))
				}
				seen[rr] = name
			}
			for i := 0; i+1 < n; i++ {
				p := append([]int{}, id...)
				p[i], p[i+1] = p[i+1], p[i]
				try(fmt.Sprintf("swap(%d,%d)", i, i+1), p)
			}
			p := append([]int{}, id...)
			p[0], p[n-1] = p[n-1], p[0]
			try("swap(first,last)", p)
			try("drop-last", id[:n-1])
			try("drop-first", id[1:])
			try("dup-last", append(append([]int{}, id...), n-1))
			try("empty", nil)
		}
		check("txs", func(perm []int) thor.Bytes32 {
			var l tx.Transactions
			for _, i := range perm {
				l = append(l, txs[i])
			}
			return l.RootHash()
		}, len(txs))
		check("receipts", func(perm []int) thor.Bytes32 {
			var l tx.Receipts
			for _, i := range perm {
				l = append(l, rcs[i])
			}
			return l.RootHash()
		}, len(rcs))
		var blobs listOf
		for i := 0; i < 5; i++ {
			blobs = append(blobs, g.bytes(40+i))
		}
		check("derive_root", func(perm []int) thor.Bytes32 {
			var l listOf
			for _, i := range perm {
				l = append(l, blobs[i])
			}
			return trie.DeriveRoot(l)
		}, len(blobs))
		// ------------------------------------------------------------------ receipts: every field is committed to by the root
		runReceiptBinding(g, tb.ReceiptBound, tb.ReceiptBases, r, dev)
		// ------------------------------------------------------------------ DeriveRoot = the independent Merkle root
		deriveRootVsReference(g, r, dev)
		// the root a header commits to is the root of the encodings: block.Builder must agree with Transactions.RootHash
		b := new(block.Builder)
		for _, t := range txs {
			b.Transaction(t)
		}
		r.Evaluations++
		if b.Build().Header().TxsRoot() != txs.RootHash() {
			dev("root-unbound:txs", "block.Builder txs root differs from Transactions.RootHash")
		}
		// a tx in its non-canonical-but-accepted spelling must not change the root (roots are over canonical encodings)
		enc, _ := rlp.EncodeToBytes(txs)
		var back tx.Transactions
		if err := rlp.DecodeBytes(enc, &back); err != nil || back.RootHash() != txs.RootHash() {
			dev("root-unbound:txs", "txs root changes across an encode/decode round trip")
		}
	})
	if !ok {
		r.Deviations = append(r.Deviations, judge("idbind", nil, false, false, o, "", modelStream{})...)
	}
	r.Distinct = r.Evaluations
	r.Nontrivial = r.Evaluations
	writeResult(out, r)
}
