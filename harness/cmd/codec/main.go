// codec is the conformance driver of C11 (specs/codec/Codec.tla): canonical encoding bound to the id.
//
//	codec -mode replay -cases cases.ndjson -out <dir>           model -> implementation: feed the byte strings TLC
//	                                                            derived from the abstract encodings to the REAL decoders,
//	                                                            compare verdicts, require exact re-encoding on accept
//	codec -mode mutate -seed S -n N -out <dir>                  implementation -> model: seeded byte-level mutants of valid
//	                                                            objects; logs (kind, bytes, verdict, re-encodes, size)
//	                                                            as trace.ndjson for Trace_Codec.tla
//	codec -mode idbind -tables tables.json -seed S -out <dir>   every field the specification's tables name as signed is
//	                                                            perturbed on a real signed object; id / hash / roots
//
// Every mode writes <dir>/result.json. Exit 0 normally, 3 + "HARNESS-ERROR ..." for the driver's own trouble.
// Panics of the code under test are recovered and reported as observations.
package main

import (
	"bytes"
	"encoding/hex"
	"encoding/json"
	"flag"
	"fmt"
	"os"
	"path/filepath"
	"runtime"
	"runtime/debug"
	"strings"
	"sync"
	"time"

	"github.com/ethereum/go-ethereum/rlp"

	"github.com/vechain/thor/v2/block"
	"github.com/vechain/thor/v2/thor"
	"github.com/vechain/thor/v2/tx"
)

func fatal(format string, a ...any) {
	fmt.Printf("HARNESS-ERROR "+format+"\n", a...)
	os.Exit(3)
}

// Deviation is one observation on the real code that contradicts the specification or the property.
type Deviation struct {
	Sig   string `json:"sig"`
	What  string `json:"what"`
	ID    string `json:"id,omitempty"`
	Kind  string `json:"kind,omitempty"`
	Input string `json:"input,omitempty"` // hex
	Reenc string `json:"reenc,omitempty"` // hex
	Index int    `json:"index"`
}

// Obs is what the real code did with one input.
type Obs struct {
	Verdict  string   // accept | reject | panic
	Err      string   // decode error / panic text
	Stage    string   // where a panic happened
	Reenc    []byte   // canonical re-encoding of the decoded object (same entry point)
	Same     bool     // Reenc == input
	Size     int64    // Size() as reported by the decoded object (tx, block), -1 otherwise
	Problems []string // contradictions between accessors of an accepted object
	Info     string
	S0, S1   streamObs // stream entry points: limit = len(x) (also limit 0 and rlp.Decode) / limit = len(x)-1
	TxReuse  bool      // observation only: decoding into an already used tx.Transaction kept its memoised id
	Elapsed  time.Duration
	Alloc    uint64
}

// streamObs is what rlp.NewStream(bytes.Reader, limit).Decode did (the p2p msg.Decode path).
type streamObs struct {
	Ran      bool
	Verdict  string // accept | reject | panic
	N        int    // bytes consumed
	Err      string
	Reenc    []byte
	Problems []string
}

// guard runs f and converts a panic of the code under test into an observation.
func guard(stage string, o *Obs, f func()) (ok bool) {
	defer func() {
		if r := recover(); r != nil {
			o.Verdict = "panic"
			o.Stage = stage
			o.Err = fmt.Sprintf("%v\n%s", r, debug.Stack())
			ok = false
		}
	}()
	f()
	return true
}

func txAccessors(t *tx.Transaction) {
	_, _ = t.Origin()
	_, _ = t.Delegator()
	_, _ = t.IntrinsicGas()
	_ = t.Size()
	_ = t.ID()
	_ = t.Hash()
	_ = t.SigningHash()
	_ = t.UnprovedWork()
	_ = t.EnforceSignatureLowS()
	_ = t.TestFeatures(tx.DelegationFeature)
	_ = t.IsExpired(10)
	_ = t.Clauses()
	_ = t.DependsOn()
	_ = t.Signature()
	_ = t.MaxFeePerGas()
	_ = t.MaxPriorityFeePerGas()
	_ = t.GasPriceCoef()
	_ = t.String()
}

func headerAccessors(h *block.Header) {
	_, _ = h.Signer()
	_, _ = h.Beta()
	_ = h.ID()
	_ = h.SigningHash()
	_ = h.Number()
	_ = h.BaseFee()
	_ = h.Alpha()
	_ = h.COM()
	_ = h.TxsFeatures()
	_ = h.String()
}

// checkTx: contradictions between the accessors of an accepted transaction. canonical = MarshalBinary().
func checkTx(t *tx.Transaction, o *Obs) {
	canon, err := t.MarshalBinary()
	if err != nil {
		o.Problems = append(o.Problems, "marshal-error")
		return
	}
	o.Size = int64(t.Size())
	if o.Size != int64(len(canon)) {
		o.Problems = append(o.Problems, fmt.Sprintf("size-mismatch(Size()=%d,len(canonical)=%d)", o.Size, len(canon)))
	}
	// the same content in a fresh object (no decode-time cache) must report the same size
	fresh := t.WithSignature(t.Signature())
	if int64(fresh.Size()) != int64(len(canon)) {
		o.Problems = append(o.Problems, fmt.Sprintf("size-mismatch(fresh Size()=%d,len(canonical)=%d)", fresh.Size(), len(canon)))
	}
	if t.Hash() != thor.Blake2b(canon) {
		o.Problems = append(o.Problems, "hash-mismatch(Hash()!=blake2b(canonical))")
	}
	id1, h1 := t.ID(), t.Hash()
	var again tx.Transaction
	if err := again.UnmarshalBinary(canon); err != nil {
		o.Problems = append(o.Problems, "canonical-rejected("+err.Error()+")")
		return
	}
	if again.ID() != id1 || t.ID() != id1 || fresh.ID() != id1 {
		o.Problems = append(o.Problems, "id-unstable")
	}
	if again.Hash() != h1 || fresh.Hash() != h1 {
		o.Problems = append(o.Problems, "hash-unstable")
	}
	txAccessors(t)
	txAccessors(fresh)
}

func checkHeader(h *block.Header, canon []byte, o *Obs) {
	id1 := h.ID()
	var again block.Header
	if err := rlp.DecodeBytes(canon, &again); err != nil {
		o.Problems = append(o.Problems, "canonical-rejected("+err.Error()+")")
		return
	}
	if again.ID() != id1 || h.ID() != id1 {
		o.Problems = append(o.Problems, "id-unstable")
	}
	if again.SigningHash() != h.SigningHash() {
		o.Problems = append(o.Problems, "signinghash-unstable")
	}
	headerAccessors(h)
}

// observe decodes x through the entry point named by kind with the real types and collects what the property talks about.
func observeBytes(kind string, x []byte) (o Obs) {
	o.Size = -1
	o.Verdict = "reject"
	in := bytes.Clone(x) // the decoders must not be able to alias our copy
	switch kind {
	case "txbin":
		var t tx.Transaction
		var err error
		if !guard("UnmarshalBinary", &o, func() { err = t.UnmarshalBinary(in) }) {
			return
		}
		if err != nil {
			o.Err = err.Error()
			return
		}
		o.Verdict = "accept"
		guard("accessors", &o, func() {
			o.Reenc, _ = t.MarshalBinary()
			checkTx(&t, &o)
			// observation, not judged (production decodes into fresh objects only; Transaction is documented immutable):
			// a used Transaction keeps its memoised id when decoded into again
			used := usedTx()
			if err := used.UnmarshalBinary(bytes.Clone(x)); err == nil && used.ID() != t.ID() {
				o.TxReuse = true
			}
		})
	case "txrlp":
		var t tx.Transaction
		var err error
		if !guard("DecodeRLP", &o, func() { err = rlp.DecodeBytes(in, &t) }) {
			return
		}
		if err != nil {
			o.Err = err.Error()
			return
		}
		o.Verdict = "accept"
		guard("accessors", &o, func() {
			o.Reenc, _ = rlp.EncodeToBytes(&t)
			checkTx(&t, &o)
			// inside a list, as in a block body
			var l tx.Transactions
			lst, _ := rlp.EncodeToBytes([]rlp.RawValue{in})
			if err := rlp.DecodeBytes(lst, &l); err != nil || len(l) != 1 || l[0].ID() != t.ID() {
				o.Problems = append(o.Problems, "list-decode-disagrees")
			}
			_ = l.RootHash()
		})
	case "txlist":
		var l tx.Transactions
		var err error
		if !guard("DecodeRLP", &o, func() { err = rlp.DecodeBytes(in, &l) }) {
			return
		}
		if err != nil {
			o.Err = err.Error()
			return
		}
		o.Verdict = "accept"
		guard("accessors", &o, func() {
			o.Reenc, _ = rlp.EncodeToBytes(l)
			for _, t := range l {
				var sub Obs
				checkTx(t, &sub)
				o.Problems = append(o.Problems, sub.Problems...)
			}
			_ = l.RootHash()
		})
	case "header":
		var h block.Header
		var err error
		if !guard("DecodeRLP", &o, func() { err = rlp.DecodeBytes(in, &h) }) {
			return
		}
		if err != nil {
			o.Err = err.Error()
			return
		}
		o.Verdict = "accept"
		guard("accessors", &o, func() {
			o.Reenc, _ = rlp.EncodeToBytes(&h)
			checkHeader(&h, o.Reenc, &o)
			// decode into an object that was used before: nothing memoised may survive (Header.DecodeRLP replaces the object)
			used := usedHeader()
			if err := rlp.DecodeBytes(bytes.Clone(x), used); err != nil {
				o.Problems = append(o.Problems, "reused-target-rejects("+err.Error()+")")
			} else {
				re, _ := rlp.EncodeToBytes(used)
				s1, e1 := used.Signer()
				s2, e2 := h.Signer()
				if used.ID() != h.ID() || used.SigningHash() != h.SigningHash() || s1 != s2 || (e1 == nil) != (e2 == nil) || !bytes.Equal(re, o.Reenc) {
					o.Problems = append(o.Problems, "stale-cache(header decoded into a used object reports id/signer of the previous content)")
				}
			}
		})
	case "block":
		b := new(block.Block)
		var err, err2 error
		var b2 *block.Block
		if !guard("DecodeRLP", &o, func() { err = rlp.DecodeBytes(in, b) }) {
			return
		}
		if !guard("DecodeRawBlock", &o, func() {
			var rb *block.RawBlock
			rb, err2 = block.DecodeRawBlock(bytes.Clone(x))
			if err2 == nil {
				_ = rb.Header().ID()
				b2, err2 = rb.Decode()
			}
		}) {
			return
		}
		if (err == nil) != (err2 == nil) {
			o.Problems = append(o.Problems, fmt.Sprintf("rawblock-disagrees(Block:%v,RawBlock:%v)", err, err2))
		}
		if err != nil {
			o.Err = err.Error()
			if err2 == nil {
				o.Verdict = "accept" // one of the two production entry points takes it
				o.Info = "only RawBlock accepted"
				b = b2
			} else {
				return
			}
		}
		o.Verdict = "accept"
		guard("accessors", &o, func() {
			o.Reenc, _ = rlp.EncodeToBytes(b)
			o.Size = int64(b.Size())
			if o.Size != int64(len(o.Reenc)) {
				o.Problems = append(o.Problems, fmt.Sprintf("size-mismatch(Size()=%d,len(canonical)=%d)", o.Size, len(o.Reenc)))
			}
			fresh := block.Compose(b.Header(), b.Transactions())
			if int64(fresh.Size()) != int64(len(o.Reenc)) {
				o.Problems = append(o.Problems, fmt.Sprintf("size-mismatch(fresh Size()=%d,len(canonical)=%d)", fresh.Size(), len(o.Reenc)))
			}
			if b2 != nil {
				re2, _ := rlp.EncodeToBytes(b2)
				if !bytes.Equal(re2, o.Reenc) || b2.Size() != b.Size() || b2.Header().ID() != b.Header().ID() {
					o.Problems = append(o.Problems, "rawblock-disagrees(content)")
				}
			}
			hre, _ := rlp.EncodeToBytes(b.Header())
			checkHeader(b.Header(), hre, &o)
			for _, t := range b.Transactions() {
				txAccessors(t)
				if c, err := t.MarshalBinary(); err != nil || int64(t.Size()) != int64(len(c)) {
					o.Problems = append(o.Problems, fmt.Sprintf("size-mismatch(tx in block Size()=%d,len(canonical)=%d)", t.Size(), len(c)))
				}
			}
			_ = b.Transactions().RootHash()
			_ = b.String()
			// decode into a used Block: size / header caches must be those of the new content
			used := usedBlock()
			if err := rlp.DecodeBytes(bytes.Clone(x), used); err == nil {
				re, _ := rlp.EncodeToBytes(used)
				if used.Size() != b.Size() || used.Header().ID() != b.Header().ID() || !bytes.Equal(re, o.Reenc) {
					o.Problems = append(o.Problems, "stale-cache(block decoded into a used object reports size/id of the previous content)")
				}
			} else {
				o.Problems = append(o.Problems, "reused-target-rejects("+err.Error()+")")
			}
		})
	case "rcbin", "rcrlp":
		var r tx.Receipt
		var err error
		if !guard("decode", &o, func() {
			if kind == "rcbin" {
				err = r.UnmarshalBinary(in)
			} else {
				err = rlp.DecodeBytes(in, &r)
			}
		}) {
			return
		}
		if err != nil {
			o.Err = err.Error()
			return
		}
		o.Verdict = "accept"
		guard("accessors", &o, func() {
			if kind == "rcbin" {
				o.Reenc, _ = r.MarshalBinary()
			} else {
				o.Reenc, _ = rlp.EncodeToBytes(&r)
			}
			_ = tx.Receipts{&r}.RootHash()
			var again tx.Receipt
			m, _ := r.MarshalBinary()
			if err := again.UnmarshalBinary(m); err != nil {
				o.Problems = append(o.Problems, "canonical-rejected("+err.Error()+")")
			} else if m2, _ := again.MarshalBinary(); !bytes.Equal(m, m2) {
				o.Problems = append(o.Problems, "marshal-unstable")
			}
		})
	default:
		fatal("unknown kind %q", kind)
	}
	return
}

// observe = the byte-slice entry point (observeBytes) + the stream entry points of the kinds that have one.
func observe(kind string, x []byte) (o Obs) {
	o = observeBytes(kind, x)
	if o.Verdict == "accept" {
		o.Same = bytes.Equal(o.Reenc, x)
	}
	if streamKinds[kind] && o.Verdict != "panic" {
		o.S0 = observeStream(kind, x, uint64(len(x)), true)
		if len(x) > 1 {
			o.S1 = observeStream(kind, x, uint64(len(x)-1), false)
		}
		// the documented difference between DecodeBytes and a stream decode is "no trailing data", nothing else
		if o.S0.Verdict != "panic" && (o.Verdict == "accept") != (o.S0.Verdict == "accept" && o.S0.N == len(x)) {
			o.Problems = append(o.Problems, fmt.Sprintf("stream-disagrees(DecodeBytes:%s, stream: %s after %d of %d bytes)", o.Verdict, o.S0.Verdict, o.S0.N, len(x)))
		}
	}
	return
}

var streamKinds = map[string]bool{"txrlp": true, "txlist": true, "header": true, "block": true}

// observeStream decodes the front of x the way p2p does: rlp.NewStream(reader, limit).Decode(&target).
// allForms: also limit 0 (auto limit of a bytes.Reader) and rlp.Decode(reader) must behave exactly like limit = len(x).
func observeStream(kind string, x []byte, limit uint64, allForms bool) (so streamObs) {
	so.Ran = true
	type res struct {
		ok    bool
		n     int
		err   string
		reenc []byte
		size  int64
		probs []string
	}
	one := func(mode int) (r res) {
		rd := bytes.NewReader(bytes.Clone(x))
		dec := func(v any) error {
			switch mode {
			case 1:
				return rlp.NewStream(rd, 0).Decode(v)
			case 2:
				return rlp.Decode(rd, v)
			}
			return rlp.NewStream(rd, limit).Decode(v)
		}
		var err error
		r.size = -1
		switch kind {
		case "txrlp":
			var t tx.Transaction
			if err = dec(&t); err == nil {
				r.reenc, _ = rlp.EncodeToBytes(&t)
				var sub Obs
				checkTx(&t, &sub)
				r.probs = sub.Problems
			}
		case "txlist":
			var l tx.Transactions
			if err = dec(&l); err == nil {
				r.reenc, _ = rlp.EncodeToBytes(l)
				for _, t := range l {
					var sub Obs
					checkTx(t, &sub)
					r.probs = append(r.probs, sub.Problems...)
				}
			}
		case "header":
			var h block.Header
			if err = dec(&h); err == nil {
				r.reenc, _ = rlp.EncodeToBytes(&h)
				var sub Obs
				checkHeader(&h, r.reenc, &sub)
				r.probs = sub.Problems
			}
		case "block":
			var b *block.Block // as comm does for MsgNewBlock
			if err = dec(&b); err == nil {
				r.reenc, _ = rlp.EncodeToBytes(b)
				r.size = int64(b.Size())
				headerAccessors(b.Header())
				for _, t := range b.Transactions() {
					txAccessors(t)
				}
			}
		}
		r.n = len(x) - rd.Len()
		if err != nil {
			r.err = err.Error()
			return
		}
		r.ok = true
		if r.size >= 0 && r.size != int64(r.n) && bytes.Equal(r.reenc, x[:r.n]) {
			r.probs = append(r.probs, fmt.Sprintf("size-mismatch(stream Size()=%d,consumed=%d)", r.size, r.n))
		}
		return
	}
	var o Obs
	if !guard("stream-decode", &o, func() {
		r := one(0)
		so.Verdict, so.N, so.Err, so.Reenc, so.Problems = "reject", 0, r.err, nil, r.probs
		if r.ok {
			so.Verdict, so.N, so.Reenc = "accept", r.n, r.reenc
		}
		if allForms {
			for mode := 1; mode <= 2; mode++ {
				q := one(mode)
				if q.ok != r.ok || (q.ok && (q.n != r.n || !bytes.Equal(q.reenc, r.reenc))) {
					so.Problems = append(so.Problems, fmt.Sprintf("stream-forms-disagree(limit=len:%v/%d, form %d:%v/%d)", r.ok, r.n, mode, q.ok, q.n))
				}
			}
		}
	}) {
		so.Verdict, so.Err = "panic", o.Err
	}
	return
}

// objects that have been decoded and USED before (every memoising accessor called), to decode into again
var fixture struct {
	once               sync.Once
	header, block, txb []byte
}

func fixtures() {
	fixture.once.Do(func() {
		g := newGen(424242)
		b := g.block(2)
		fixture.block, _ = rlp.EncodeToBytes(b)
		fixture.header, _ = rlp.EncodeToBytes(b.Header())
		fixture.txb, _ = g.tx().MarshalBinary()
	})
}

func usedHeader() *block.Header {
	fixtures()
	h := new(block.Header)
	if err := rlp.DecodeBytes(fixture.header, h); err != nil {
		fatal("fixture header: %v", err)
	}
	headerAccessors(h)
	return h
}

func usedBlock() *block.Block {
	fixtures()
	b := new(block.Block)
	if err := rlp.DecodeBytes(fixture.block, b); err != nil {
		fatal("fixture block: %v", err)
	}
	_ = b.Size()
	headerAccessors(b.Header())
	return b
}

func usedTx() *tx.Transaction {
	fixtures()
	t := new(tx.Transaction)
	if err := t.UnmarshalBinary(fixture.txb); err != nil {
		fatal("fixture tx: %v", err)
	}
	txAccessors(t)
	return t
}

// problemClass strips the numbers from a problem text so that signatures stay stable.
func problemClass(p string) string {
	if i := bytes.IndexByte([]byte(p), '('); i >= 0 {
		return p[:i]
	}
	return p
}

// modelStream is the specification's answer for the stream entry points of one input.
type modelStream struct {
	Known      bool
	S0ok, S1ok bool
	S0n, S1n   int
	HaveS1     bool
}

// judge compares one observation with the specification's verdict (modelOK) and returns the deviations.
// where: "<site>=<form>" of the case (replay) or the mutation (mutants: the place is found by diffing).
func judge(kind string, x []byte, modelKnown, modelOK bool, o Obs, where string, ms modelStream) (devs []Deviation) {
	seen := map[string]bool{}
	add := func(sig, what string, reenc []byte) {
		if seen[sig] {
			return
		}
		seen[sig] = true
		devs = append(devs, Deviation{Sig: sig, What: what, Kind: kind, Input: hex.EncodeToString(x), Reenc: hex.EncodeToString(reenc)})
	}
	firstLine := func(e string) string {
		if i := strings.IndexByte(e, '\n'); i >= 0 {
			return e[:i]
		}
		return e
	}
	// accepted, but does not re-encode to the same bytes: ONE report PER PLACE where the two encodings part, so that a second
	// non-canonical site is never hidden behind a (possibly known) first one
	noncanon := func(how string, in, re []byte, problems []string) {
		places := diagnoseAll(kind, in, re)
		for _, place := range places {
			what := fmt.Sprintf("%s (%s) accepted a %d-byte input that re-encodes to %d different bytes; differs at %v", kind, how, len(in), len(re), places)
			add("noncanonical-accepted:"+place, what, re)
		}
		for _, p := range problems {
			if problemClass(p) != "size-mismatch" { // the decode-time size IS the input length: implied by the different length
				add(problemClass(p)+":"+kind, p+" on accepted "+kind+" ("+where+")", re)
			}
		}
	}
	if o.Verdict == "panic" {
		add("panic:"+kind+":"+o.Stage, "real code panicked in "+o.Stage+": "+firstLine(o.Err), nil)
		return
	}
	if o.Verdict == "accept" && !o.Same {
		noncanon("DecodeBytes/UnmarshalBinary", x, o.Reenc, o.Problems)
	} else {
		if modelKnown && modelOK && o.Verdict == "reject" {
			add("verdict-mismatch:"+kind+":"+where+":model=accept,real=reject", "specification accepts, real decoder rejects: "+o.Err, nil)
		}
		if modelKnown && !modelOK && o.Verdict == "accept" {
			add("verdict-mismatch:"+kind+":"+where+":model=reject,real=accept", "specification rejects, real decoder accepts (and re-encodes identically)", o.Reenc)
		}
		if o.Verdict == "accept" {
			for _, p := range o.Problems {
				add(problemClass(p)+":"+kind, p+" on accepted "+kind+" ("+where+")", o.Reenc)
			}
		} else {
			for _, p := range o.Problems { // stream-disagrees can also show on a rejected input
				add(problemClass(p)+":"+kind, p+" on "+kind+" ("+where+")", nil)
			}
		}
	}
	// stream entry points
	for i, so := range []streamObs{o.S0, o.S1} {
		if !so.Ran {
			continue
		}
		lim := []string{"limit=len", "limit=len-1"}[i]
		if so.Verdict == "panic" {
			add("panic:"+kind+":stream-decode", "real code panicked in a stream decode ("+lim+"): "+firstLine(so.Err), nil)
			continue
		}
		if so.Verdict == "accept" && !bytes.Equal(so.Reenc, x[:so.N]) {
			noncanon("stream, "+lim, x[:so.N], so.Reenc, so.Problems)
		} else {
			for _, p := range so.Problems {
				add(problemClass(p)+":"+kind, p+" on "+kind+" stream decode, "+lim+" ("+where+")", so.Reenc)
			}
		}
		if ms.Known && (i == 0 || ms.HaveS1) {
			mok, mn := ms.S0ok, ms.S0n
			if i == 1 {
				mok, mn = ms.S1ok, ms.S1n
			}
			rok := so.Verdict == "accept"
			canon := !rok || bytes.Equal(so.Reenc, x[:so.N])
			if canon && (mok != rok || (rok && mn != so.N)) {
				add(fmt.Sprintf("verdict-mismatch:%s:stream:%s:%s:model=%s/%d,real=%s/%d", kind, lim, where, verdictStr(mok), mn, so.Verdict, so.N),
					"stream decode ("+lim+"): specification and real decoder disagree on verdict / bytes consumed: "+so.Err, so.Reenc)
			}
		}
	}
	return
}

// ---------------------------------------------------------------------------------------------- termination budget
// "decoding and every accessor terminate": one input gets 1 s + 2 us/byte and 64 MB + 128 B/byte of allocation (decode through
// every entry point + re-encode + all accessors). Over budget twice in a row = nonterminating:<kind>; once = flaky (Infra).
const hardTimeout = 20 * time.Second

type budgetStats struct {
	Flaky int
	Hung  bool
	MaxMs float64
	MaxMB float64
}

var budget budgetStats

func overBudget(n int, d time.Duration, alloc uint64) bool {
	return d > time.Second+time.Duration(n)*2*time.Microsecond || alloc > 64<<20+uint64(n)*128
}

func observeOnce(kind string, x []byte) (o Obs, hung bool) {
	ch := make(chan Obs, 1)
	var m0, m1 runtime.MemStats
	runtime.ReadMemStats(&m0)
	t0 := time.Now()
	go func() { ch <- observe(kind, x) }()
	select {
	case o = <-ch:
	case <-time.After(hardTimeout):
		return Obs{Verdict: "hang", Size: -1, Elapsed: hardTimeout}, true
	}
	o.Elapsed = time.Since(t0)
	runtime.ReadMemStats(&m1)
	o.Alloc = m1.TotalAlloc - m0.TotalAlloc
	return o, false
}

// observeTimed = observe + the termination oracle. dev is non-nil when the budget was exceeded reproducibly.
func observeTimed(kind string, x []byte) (o Obs, dev *Deviation) {
	o, hung := observeOnce(kind, x)
	if ms := float64(o.Elapsed) / 1e6; ms > budget.MaxMs {
		budget.MaxMs = ms
	}
	if mb := float64(o.Alloc) / (1 << 20); mb > budget.MaxMB {
		budget.MaxMB = mb
	}
	if !hung && !overBudget(len(x), o.Elapsed, o.Alloc) {
		return o, nil
	}
	o2, hung2 := observeOnce(kind, x)
	if hung2 || overBudget(len(x), o2.Elapsed, o2.Alloc) {
		budget.Hung = budget.Hung || hung2
		what := fmt.Sprintf("decoding a %d-byte %s input (all entry points, re-encoding, accessors) took %v / allocated %.1f MB, and %v / %.1f MB when repeated (budget: 1 s + 2 us/byte, 64 MB + 128 B/byte; hard stop %v)",
			len(x), kind, o.Elapsed, float64(o.Alloc)/(1<<20), o2.Elapsed, float64(o2.Alloc)/(1<<20), hardTimeout)
		if hung2 {
			o2.Verdict = "hang"
		}
		return o2, &Deviation{Sig: "nonterminating:" + kind, What: what, Kind: kind, Input: hex.EncodeToString(clip(x, 4096))}
	}
	budget.Flaky++ // over budget once, fine the second time: machine noise, not an observation
	return o2, nil
}

type result struct {
	Mode        string         `json:"mode"`
	Evaluations int            `json:"evaluations"`
	Accepted    int            `json:"accepted"`
	Rejected    int            `json:"rejected"`
	Distinct    int            `json:"distinct"`
	Nontrivial  int            `json:"nontrivial"`
	Deviations  []Deviation    `json:"deviations"`
	Samples     []any          `json:"samples"`
	Extra       map[string]any `json:"extra,omitempty"`
}

func writeResult(out string, r *result) {
	if r.Deviations == nil {
		r.Deviations = []Deviation{}
	}
	if r.Extra == nil {
		r.Extra = map[string]any{}
	}
	r.Extra["budget"] = map[string]any{"flaky": budget.Flaky, "max_ms": budget.MaxMs, "max_alloc_mb": budget.MaxMB, "hung": budget.Hung}
	b, _ := json.MarshalIndent(r, "", " ")
	if err := os.WriteFile(filepath.Join(out, "result.json"), b, 0o644); err != nil {
		fatal("write result: %v", err)
	}
	fmt.Printf("{\"mode\":%q,\"evaluations\":%d,\"accepted\":%d,\"rejected\":%d,\"deviations\":%d}\n", r.Mode, r.Evaluations, r.Accepted, r.Rejected, len(r.Deviations))
}

func main() {
	mode := flag.String("mode", "", "replay | mutate | idbind | one")
	cases := flag.String("cases", "", "cases.ndjson exported by TLC (replay)")
	tables := flag.String("tables", "", "tables.json exported by TLC (idbind)")
	out := flag.String("out", ".", "output directory")
	seed := flag.Int64("seed", 1, "seed")
	n := flag.Int("n", 1000, "number of mutants")
	kind := flag.String("kind", "", "entry point (one)")
	hexin := flag.String("hex", "", "input bytes (one)")
	flag.Parse()
	// panics of the code under test are recovered inside observe()/runIDBind(); anything arriving here is the driver's own bug
	defer func() {
		if r := recover(); r != nil {
			fmt.Printf("HARNESS-ERROR panic in the driver itself: %v\n%s\n", r, debug.Stack())
			os.Exit(3)
		}
	}()
	if err := os.MkdirAll(*out, 0o755); err != nil {
		fatal("mkdir: %v", err)
	}
	switch *mode {
	case "replay":
		runReplay(*cases, *out)
	case "mutate":
		runMutate(*seed, *n, *out)
	case "idbind":
		runIDBind(*tables, *seed, *out)
	case "one":
		x, err := hex.DecodeString(*hexin)
		if err != nil {
			fatal("hex: %v", err)
		}
		o, bd := observeTimed(*kind, x)
		r := &result{Mode: "one", Evaluations: 1, Deviations: judge(*kind, x, false, false, o, "", modelStream{})}
		if bd != nil {
			r.Deviations = append(r.Deviations, *bd)
		}
		r.Samples = []any{map[string]any{"kind": *kind, "verdict": o.Verdict, "err": o.Err, "same": o.Same, "size": o.Size, "reenc": hex.EncodeToString(o.Reenc),
			"stream_limit_len":   fmt.Sprintf("%s after %d bytes %s %v", o.S0.Verdict, o.S0.N, o.S0.Err, o.S0.Problems),
			"stream_limit_len-1": fmt.Sprintf("%s after %d bytes %s %v", o.S1.Verdict, o.S1.N, o.S1.Err, o.S1.Problems)}}
		writeResult(*out, r)
	default:
		fatal("unknown mode %q", *mode)
	}
}
