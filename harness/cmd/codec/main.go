// codec is the conformance driver of C11 (specs/codec/Codec.tla): canonical encoding bound to the id.
//
//	codec -mode replay -cases cases.ndjson -out <dir>           model -> implementation: feed the byte strings TLC
//	                                                            derived from the abstract encodings to the REAL decoders,
//	                                                            compare verdicts, require exact re-encoding on accept
//	codec -mode mutate -seed S -n N -out <dir>                  implementation -> model: seeded byte-level mutants of valid
//	                                                            objects; logs (kind, bytes, verdict, re-encodes, size)
//	                                                            as trace.ndjson for Trace_Codec.tla
//	codec -mode idbind -tables tables.json -seed S -out <dir>   every field the specification's tables name as signed is
//	                                                            perturbed on a real signed object; id / hash / roots
//
// Every mode writes <dir>/result.json. Exit 0 normally, 3 + "HARNESS-ERROR ..." for the driver's own trouble.
// Panics of the code under test are recovered and reported as observations.
package main

import (
	"bytes"
	"encoding/hex"
	"encoding/json"
	"flag"
	"fmt"
	"os"
	"path/filepath"
	"runtime/debug"

	"github.com/ethereum/go-ethereum/rlp"

	"github.com/vechain/thor/v2/block"
	"github.com/vechain/thor/v2/thor"
	"github.com/vechain/thor/v2/tx"
)

func fatal(format string, a ...any) {
	fmt.Printf("HARNESS-ERROR "+format+"\n", a...)
	os.Exit(3)
}

// Deviation is one observation on the real code that contradicts the specification or the property.
type Deviation struct {
	Sig   string `json:"sig"`
	What  string `json:"what"`
	ID    string `json:"id,omitempty"`
	Kind  string `json:"kind,omitempty"`
	Input string `json:"input,omitempty"` // hex
	Reenc string `json:"reenc,omitempty"` // hex
	Index int    `json:"index"`
}

// Obs is what the real code did with one input.
type Obs struct {
	Verdict  string   // accept | reject | panic
	Err      string   // decode error / panic text
	Stage    string   // where a panic happened
	Reenc    []byte   // canonical re-encoding of the decoded object (same entry point)
	Same     bool     // Reenc == input
	Size     int64    // Size() as reported by the decoded object (tx, block), -1 otherwise
	Problems []string // contradictions between accessors of an accepted object
	Info     string
}

// guard runs f and converts a panic of the code under test into an observation.
func guard(stage string, o *Obs, f func()) (ok bool) {
	defer func() {
		if r := recover(); r != nil {
			o.Verdict = "panic"
			o.Stage = stage
			o.Err = fmt.Sprintf("%v\n%s", r, debug.Stack())
			ok = false
		}
	}()
	f()
	return true
}

func txAccessors(t *tx.Transaction) {
	_, _ = t.Origin()
	_, _ = t.Delegator()
	_, _ = t.IntrinsicGas()
	_ = t.Size()
	_ = t.ID()
	_ = t.Hash()
	_ = t.SigningHash()
	_ = t.UnprovedWork()
	_ = t.EnforceSignatureLowS()
	_ = t.TestFeatures(tx.DelegationFeature)
	_ = t.IsExpired(10)
	_ = t.Clauses()
	_ = t.DependsOn()
	_ = t.Signature()
	_ = t.MaxFeePerGas()
	_ = t.MaxPriorityFeePerGas()
	_ = t.GasPriceCoef()
	_ = t.String()
}

func headerAccessors(h *block.Header) {
	_, _ = h.Signer()
	_, _ = h.Beta()
	_ = h.ID()
	_ = h.SigningHash()
	_ = h.Number()
	_ = h.BaseFee()
	_ = h.Alpha()
	_ = h.COM()
	_ = h.TxsFeatures()
	_ = h.String()
}

// checkTx: contradictions between the accessors of an accepted transaction. canonical = MarshalBinary().
func checkTx(t *tx.Transaction, o *Obs) {
	canon, err := t.MarshalBinary()
	if err != nil {
		o.Problems = append(o.Problems, "marshal-error")
		return
	}
	o.Size = int64(t.Size())
	if o.Size != int64(len(canon)) {
		o.Problems = append(o.Problems, fmt.Sprintf("size-mismatch(Size()=%d,len(canonical)=%d)", o.Size, len(canon)))
	}
	// the same content in a fresh object (no decode-time cache) must report the same size
	fresh := t.WithSignature(t.Signature())
	if int64(fresh.Size()) != int64(len(canon)) {
		o.Problems = append(o.Problems, fmt.Sprintf("size-mismatch(fresh Size()=%d,len(canonical)=%d)", fresh.Size(), len(canon)))
	}
	if t.Hash() != thor.Blake2b(canon) {
		o.Problems = append(o.Problems, "hash-mismatch(Hash()!=blake2b(canonical))")
	}
	id1, h1 := t.ID(), t.Hash()
	var again tx.Transaction
	if err := again.UnmarshalBinary(canon); err != nil {
		o.Problems = append(o.Problems, "canonical-rejected("+err.Error()+")")
		return
	}
	if again.ID() != id1 || t.ID() != id1 || fresh.ID() != id1 {
		o.Problems = append(o.Problems, "id-unstable")
	}
	if again.Hash() != h1 || fresh.Hash() != h1 {
		o.Problems = append(o.Problems, "hash-unstable")
	}
	txAccessors(t)
	txAccessors(fresh)
}

func checkHeader(h *block.Header, canon []byte, o *Obs) {
	id1 := h.ID()
	var again block.Header
	if err := rlp.DecodeBytes(canon, &again); err != nil {
		o.Problems = append(o.Problems, "canonical-rejected("+err.Error()+")")
		return
	}
	if again.ID() != id1 || h.ID() != id1 {
		o.Problems = append(o.Problems, "id-unstable")
	}
	if again.SigningHash() != h.SigningHash() {
		o.Problems = append(o.Problems, "signinghash-unstable")
	}
	headerAccessors(h)
}

// observe decodes x through the entry point named by kind with the real types and collects what the property talks about.
func observe(kind string, x []byte) (o Obs) {
	o.Size = -1
	o.Verdict = "reject"
	in := bytes.Clone(x) // the decoders must not be able to alias our copy
	switch kind {
	case "txbin":
		var t tx.Transaction
		var err error
		if !guard("UnmarshalBinary", &o, func() { err = t.UnmarshalBinary(in) }) {
			return
		}
		if err != nil {
			o.Err = err.Error()
			return
		}
		o.Verdict = "accept"
		guard("accessors", &o, func() {
			o.Reenc, _ = t.MarshalBinary()
			checkTx(&t, &o)
		})
	case "txrlp":
		var t tx.Transaction
		var err error
		if !guard("DecodeRLP", &o, func() { err = rlp.DecodeBytes(in, &t) }) {
			return
		}
		if err != nil {
			o.Err = err.Error()
			return
		}
		o.Verdict = "accept"
		guard("accessors", &o, func() {
			o.Reenc, _ = rlp.EncodeToBytes(&t)
			checkTx(&t, &o)
			// inside a list, as in a block body
			var l tx.Transactions
			lst, _ := rlp.EncodeToBytes([]rlp.RawValue{in})
			if err := rlp.DecodeBytes(lst, &l); err != nil || len(l) != 1 || l[0].ID() != t.ID() {
				o.Problems = append(o.Problems, "list-decode-disagrees")
			}
			_ = l.RootHash()
		})
	case "header":
		var h block.Header
		var err error
		if !guard("DecodeRLP", &o, func() { err = rlp.DecodeBytes(in, &h) }) {
			return
		}
		if err != nil {
			o.Err = err.Error()
			return
		}
		o.Verdict = "accept"
		guard("accessors", &o, func() {
			o.Reenc, _ = rlp.EncodeToBytes(&h)
			checkHeader(&h, o.Reenc, &o)
		})
	case "block":
		b := new(block.Block)
		var err, err2 error
		var b2 *block.Block
		if !guard("DecodeRLP", &o, func() { err = rlp.DecodeBytes(in, b) }) {
			return
		}
		if !guard("DecodeRawBlock", &o, func() {
			var rb *block.RawBlock
			rb, err2 = block.DecodeRawBlock(bytes.Clone(x))
			if err2 == nil {
				_ = rb.Header().ID()
				b2, err2 = rb.Decode()
			}
		}) {
			return
		}
		if (err == nil) != (err2 == nil) {
			o.Problems = append(o.Problems, fmt.Sprintf("rawblock-disagrees(Block:%v,RawBlock:%v)", err, err2))
		}
		if err != nil {
			o.Err = err.Error()
			if err2 == nil {
				o.Verdict = "accept" // one of the two production entry points takes it
				o.Info = "only RawBlock accepted"
				b = b2
			} else {
				return
			}
		}
		o.Verdict = "accept"
		guard("accessors", &o, func() {
			o.Reenc, _ = rlp.EncodeToBytes(b)
			o.Size = int64(b.Size())
			if o.Size != int64(len(o.Reenc)) {
				o.Problems = append(o.Problems, fmt.Sprintf("size-mismatch(Size()=%d,len(canonical)=%d)", o.Size, len(o.Reenc)))
			}
			fresh := block.Compose(b.Header(), b.Transactions())
			if int64(fresh.Size()) != int64(len(o.Reenc)) {
				o.Problems = append(o.Problems, fmt.Sprintf("size-mismatch(fresh Size()=%d,len(canonical)=%d)", fresh.Size(), len(o.Reenc)))
			}
			if b2 != nil {
				re2, _ := rlp.EncodeToBytes(b2)
				if !bytes.Equal(re2, o.Reenc) || b2.Size() != b.Size() || b2.Header().ID() != b.Header().ID() {
					o.Problems = append(o.Problems, "rawblock-disagrees(content)")
				}
			}
			hre, _ := rlp.EncodeToBytes(b.Header())
			checkHeader(b.Header(), hre, &o)
			for _, t := range b.Transactions() {
				txAccessors(t)
				if c, err := t.MarshalBinary(); err != nil || int64(t.Size()) != int64(len(c)) {
					o.Problems = append(o.Problems, fmt.Sprintf("size-mismatch(tx in block Size()=%d,len(canonical)=%d)", t.Size(), len(c)))
				}
			}
			_ = b.Transactions().RootHash()
			_ = b.String()
		})
	case "rcbin", "rcrlp":
		var r tx.Receipt
		var err error
		if !guard("decode", &o, func() {
			if kind == "rcbin" {
				err = r.UnmarshalBinary(in)
			} else {
				err = rlp.DecodeBytes(in, &r)
			}
		}) {
			return
		}
		if err != nil {
			o.Err = err.Error()
			return
		}
		o.Verdict = "accept"
		guard("accessors", &o, func() {
			if kind == "rcbin" {
				o.Reenc, _ = r.MarshalBinary()
			} else {
				o.Reenc, _ = rlp.EncodeToBytes(&r)
			}
			_ = tx.Receipts{&r}.RootHash()
			var again tx.Receipt
			m, _ := r.MarshalBinary()
			if err := again.UnmarshalBinary(m); err != nil {
				o.Problems = append(o.Problems, "canonical-rejected("+err.Error()+")")
			} else if m2, _ := again.MarshalBinary(); !bytes.Equal(m, m2) {
				o.Problems = append(o.Problems, "marshal-unstable")
			}
		})
	default:
		fatal("unknown kind %q", kind)
	}
	if o.Verdict == "accept" {
		o.Same = bytes.Equal(o.Reenc, x)
	}
	return
}

// problemClass strips the numbers from a problem text so that signatures stay stable.
func problemClass(p string) string {
	if i := bytes.IndexByte([]byte(p), '('); i >= 0 {
		return p[:i]
	}
	return p
}

// judge compares one observation with the specification's verdict (modelOK) and returns the deviations.
// where: "<site>=<form>" of the case (replay) or "" (mutants: the place is found by diffing).
func judge(kind string, x []byte, modelKnown, modelOK bool, o Obs, where string) (devs []Deviation) {
	add := func(sig, what string) {
		devs = append(devs, Deviation{Sig: sig, What: what, Kind: kind, Input: hex.EncodeToString(x), Reenc: hex.EncodeToString(o.Reenc)})
	}
	switch {
	case o.Verdict == "panic":
		first := o.Err
		if i := bytes.IndexByte([]byte(first), '\n'); i >= 0 {
			first = first[:i]
		}
		add("panic:"+kind+":"+o.Stage, "real code panicked in "+o.Stage+": "+first)
		return
	case o.Verdict == "accept" && !o.Same:
		// the property itself: accepted, but does not re-encode to the same bytes
		place := diagnose(kind, x, o.Reenc)
		what := fmt.Sprintf("%s accepted a %d-byte input that re-encodes to %d different bytes (first difference at %s)", kind, len(x), len(o.Reenc), place)
		if len(o.Problems) > 0 {
			what += fmt.Sprintf("; also %v", o.Problems)
		}
		add("noncanonical-accepted:"+place, what)
		return
	}
	if modelKnown {
		if modelOK && o.Verdict == "reject" {
			add("verdict-mismatch:"+kind+":"+where+":model=accept,real=reject", "specification accepts, real decoder rejects: "+o.Err)
		}
		if !modelOK && o.Verdict == "accept" {
			add("verdict-mismatch:"+kind+":"+where+":model=reject,real=accept", "specification rejects, real decoder accepts (and re-encodes identically)")
		}
	}
	if o.Verdict == "accept" {
		for _, p := range o.Problems {
			add(problemClass(p)+":"+kind, p+" on accepted "+kind+" ("+where+")")
		}
	}
	return
}

type result struct {
	Mode        string         `json:"mode"`
	Evaluations int            `json:"evaluations"`
	Accepted    int            `json:"accepted"`
	Rejected    int            `json:"rejected"`
	Distinct    int            `json:"distinct"`
	Nontrivial  int            `json:"nontrivial"`
	Deviations  []Deviation    `json:"deviations"`
	Samples     []any          `json:"samples"`
	Extra       map[string]any `json:"extra,omitempty"`
}

func writeResult(out string, r *result) {
	if r.Deviations == nil {
		r.Deviations = []Deviation{}
	}
	b, _ := json.MarshalIndent(r, "", " ")
	if err := os.WriteFile(filepath.Join(out, "result.json"), b, 0o644); err != nil {
		fatal("write result: %v", err)
	}
	fmt.Printf("{\"mode\":%q,\"evaluations\":%d,\"accepted\":%d,\"rejected\":%d,\"deviations\":%d}\n", r.Mode, r.Evaluations, r.Accepted, r.Rejected, len(r.Deviations))
}

func main() {
	mode := flag.String("mode", "", "replay | mutate | idbind | one")
	cases := flag.String("cases", "", "cases.ndjson exported by TLC (replay)")
	tables := flag.String("tables", "", "tables.json exported by TLC (idbind)")
	out := flag.String("out", ".", "output directory")
	seed := flag.Int64("seed", 1, "seed")
	n := flag.Int("n", 1000, "number of mutants")
	kind := flag.String("kind", "", "entry point (one)")
	hexin := flag.String("hex", "", "input bytes (one)")
	flag.Parse()
	// panics of the code under test are recovered inside observe()/runIDBind(); anything arriving here is the driver's own bug
	defer func() {
		if r := recover(); r != nil {
			fmt.Printf("HARNESS-ERROR panic in the driver itself: %v\n%s\n", r, debug.Stack())
			os.Exit(3)
		}
	}()
	if err := os.MkdirAll(*out, 0o755); err != nil {
		fatal("mkdir: %v", err)
	}
	switch *mode {
	case "replay":
		runReplay(*cases, *out)
	case "mutate":
		runMutate(*seed, *n, *out)
	case "idbind":
		runIDBind(*tables, *seed, *out)
	case "one":
		x, err := hex.DecodeString(*hexin)
		if err != nil {
			fatal("hex: %v", err)
		}
		o := observe(*kind, x)
		r := &result{Mode: "one", Evaluations: 1, Deviations: judge(*kind, x, false, false, o, "")}
		r.Samples = []any{map[string]any{"kind": *kind, "verdict": o.Verdict, "err": o.Err, "same": o.Same, "size": o.Size, "reenc": hex.EncodeToString(o.Reenc)}}
		writeResult(*out, r)
	default:
		fatal("unknown mode %q", *mode)
	}
}
