package main

import (
	"bytes"
	"fmt"
	"math/big"

	"github.com/ethereum/go-ethereum/crypto"
	"github.com/ethereum/go-ethereum/rlp"
	"github.com/vechain/thor/v2/block"
	"github.com/vechain/thor/v2/thor"
	"github.com/vechain/thor/v2/tx"
)

func main() {
	key, _ := crypto.HexToECDSA("0101010101010101010101010101010101010101010101010101010101010101")
	addr := thor.BytesToAddress([]byte("to"))
	t := tx.NewBuilder(tx.TypeLegacy).ChainTag(1).Gas(21000).Nonce(7).Clause(tx.NewClause(nil).WithData([]byte{1, 2})).Clause(tx.NewClause(&addr)).Build()
	sig, _ := crypto.Sign(t.SigningHash().Bytes(), key)
	t = t.WithSignature(sig)
	enc, _ := t.MarshalBinary()
	fmt.Printf("tx %x\n", enc)
	// find clause[0].to = 0x80 : after list header(s). brute force: replace each 0x80 with 0xc0 and see which accepted
	for i, b := range enc {
		if b != 0x80 {
			continue
		}
		m := bytes.Clone(enc)
		m[i] = 0xc0
		var d tx.Transaction
		err := d.UnmarshalBinary(m)
		if err != nil {
			fmt.Println(i, "reject", err)
			continue
		}
		re, _ := d.MarshalBinary()
		fmt.Println(i, "ACCEPT same=", bytes.Equal(re, m), "id same", d.ID() == t.ID(), "hash same", d.Hash() == t.Hash(), "size", d.Size(), len(re))
	}
	// header
	var sigc [146]byte
	hb := new(block.Builder).ParentID(thor.Bytes32{0, 0, 0, 5}).Timestamp(10).GasLimit(1000).BaseFee(big.NewInt(100)).Alpha([]byte{1}).Build()
	s65, _ := crypto.Sign(hb.Header().SigningHash().Bytes(), key)
	copy(sigc[:], s65)
	b1 := hb.WithSignature(sigc[:])
	sigc[100] ^= 1
	b2 := hb.WithSignature(sigc[:])
	e1, _ := rlp.EncodeToBytes(b1.Header())
	e2, _ := rlp.EncodeToBytes(b2.Header())
	fmt.Println("header proof flip: bytes same", bytes.Equal(e1, e2), "id same", b1.Header().ID() == b2.Header().ID())
	// malleable ecdsa
	n := crypto.S256().Params().N
	sv := new(big.Int).SetBytes(s65[32:64])
	sv.Sub(n, sv)
	var s2 [146]byte
	copy(s2[:], sigc[:])
	s2[100] ^= 1
	sv.FillBytes(s2[32:64])
	s2[64] ^= 1
	b3 := hb.WithSignature(s2[:])
	fmt.Println("header high-s: id same", b1.Header().ID() == b3.Header().ID())
	// F5
	var items []rlp.RawValue
	content, _, _ := rlp.SplitList(e1)
	for len(content) > 0 {
		_, _, rest, _ := rlp.Split(content)
		items = append(items, content[:len(content)-len(rest)])
		content = rest
	}
	pair, _ := rlp.EncodeToBytes([]any{b1.Header().TxsRoot(), uint(0)})
	items[6] = pair
	f5, _ := rlp.EncodeToBytes(items)
	var h block.Header
	err := rlp.DecodeBytes(f5, &h)
	re, _ := rlp.EncodeToBytes(&h)
	fmt.Println("F5 err", err, len(f5), len(re), "id same", h.ID() == b1.Header().ID())
	blk, _ := rlp.EncodeToBytes([]any{rlp.RawValue(f5), []any{}})
	var bb block.Block
	err = rlp.DecodeBytes(blk, &bb)
	re, _ = rlp.EncodeToBytes(&bb)
	fmt.Println("F5 block err", err, len(blk), len(re), bb.Size())
}
