package main

// Diagnosis only: when the real code accepted an input that re-encodes differently, find WHERE the two byte strings
// part, in the vocabulary of the field tables of Codec.tla ("tx.clause.to", "header.txsRootFeatures", ...), so that
// the report carries a narrow, stable signature. Nothing here decides a verdict.

import "fmt"

type item struct {
	list    bool
	raw     []byte // whole item
	payload []byte
	kids    []*item // parsed lazily for lists
	kidsOK  bool
}

// splitItem reads one RLP item leniently (no canonical-form rules).
func splitItem(b []byte) (it *item, rest []byte, ok bool) {
	if len(b) == 0 {
		return nil, nil, false
	}
	t := b[0]
	var hl, n int
	list := t >= 0xc0
	switch {
	case t < 0x80:
		return &item{raw: b[:1], payload: b[:1]}, b[1:], true
	case t < 0xb8:
		hl, n = 1, int(t-0x80)
	case t < 0xc0:
		ll := int(t - 0xb7)
		if len(b) < 1+ll || ll > 4 {
			return nil, nil, false
		}
		for _, c := range b[1 : 1+ll] {
			n = n<<8 | int(c)
		}
		hl = 1 + ll
	case t < 0xf8:
		hl, n = 1, int(t-0xc0)
	default:
		ll := int(t - 0xf7)
		if len(b) < 1+ll || ll > 4 {
			return nil, nil, false
		}
		for _, c := range b[1 : 1+ll] {
			n = n<<8 | int(c)
		}
		hl = 1 + ll
	}
	if n < 0 || len(b) < hl+n {
		return nil, nil, false
	}
	return &item{list: list, raw: b[:hl+n], payload: b[hl : hl+n]}, b[hl+n:], true
}

func (it *item) children() ([]*item, bool) {
	if !it.list {
		return nil, false
	}
	if it.kids == nil && !it.kidsOK {
		rest := it.payload
		ok := true
		var ks []*item
		for len(rest) > 0 {
			var k *item
			k, rest, ok = splitItem(rest)
			if !ok {
				break
			}
			ks = append(ks, k)
		}
		if ok {
			it.kids, it.kidsOK = ks, true
		}
	}
	return it.kids, it.kidsOK
}

// naming schema, mirrors the structure tables of Codec.tla
type schema struct {
	t      string // leaf | opt | list | struct | reserved | ext | trf | txitem | rcitem
	name   string // field name (struct member) / element name (list)
	fields []*schema
	of     *schema
	reset  string // objects that restart the name ("header", "tx", "receipt")
}

func leaf(n string) *schema { return &schema{t: "leaf", name: n} }
func opt(n string) *schema  { return &schema{t: "opt", name: n} }

var (
	sClause   = &schema{t: "struct", fields: []*schema{opt("to"), leaf("value"), leaf("data")}}
	sClauses  = &schema{t: "list", name: "clauses", of: named(sClause, "clause")}
	sLegacyTx = &schema{t: "struct", reset: "tx", fields: []*schema{leaf("chainTag"), leaf("blockRef"), leaf("expiration"), sClauses,
		leaf("gasPriceCoef"), leaf("gas"), opt("dependsOn"), leaf("nonce"), {t: "reserved", name: "reserved"}, leaf("signature")}}
	sDynTx = &schema{t: "struct", reset: "tx", fields: []*schema{leaf("chainTag"), leaf("blockRef"), leaf("expiration"), sClauses,
		leaf("maxPriorityFeePerGas"), leaf("maxFeePerGas"), leaf("gas"), opt("dependsOn"), leaf("nonce"), {t: "reserved", name: "reserved"}, leaf("signature")}}
	sHeader = &schema{t: "struct", reset: "header", name: "header", fields: []*schema{leaf("parentID"), leaf("timestamp"), leaf("gasLimit"), leaf("beneficiary"),
		leaf("gasUsed"), leaf("totalScore"), {t: "trf", name: "txsRootFeatures"}, leaf("stateRoot"), leaf("receiptsRoot"), leaf("signature"),
		{t: "ext", name: "extension"}}}
	sTxItem   = &schema{t: "txitem", name: "tx", reset: "tx"}
	sTxList   = &schema{t: "list", name: "txs", of: sTxItem}
	sBlock    = &schema{t: "struct", reset: "block", fields: []*schema{sHeader, {t: "list", name: "txs", of: sTxItem}}}
	sEvent    = &schema{t: "struct", fields: []*schema{leaf("address"), {t: "list", name: "topics", of: leaf("topic")}, leaf("data")}}
	sTransfer = &schema{t: "struct", fields: []*schema{leaf("sender"), leaf("recipient"), leaf("amount")}}
	sOutput   = &schema{t: "struct", fields: []*schema{{t: "list", name: "events", of: named(sEvent, "event")}, {t: "list", name: "transfers", of: named(sTransfer, "transfer")}}}
	sReceipt  = &schema{t: "struct", reset: "receipt", fields: []*schema{leaf("gasUsed"), leaf("gasPayer"), leaf("paid"), leaf("reward"), leaf("reverted"),
		{t: "list", name: "outputs", of: named(sOutput, "output")}}}
	sRcItem = &schema{t: "rcitem", name: "receipt", reset: "receipt"}
)

func named(s *schema, n string) *schema { c := *s; c.name = n; return &c }

func full(pre, nm string) string {
	if pre == "" {
		return nm
	}
	return pre + "." + nm
}

// diffAll1 returns the names of ALL innermost named nodes at which a and b differ (a second non-canonical site must not
// hide behind the first), each with a description of a's form there. pre/nm follow Sites() of CodecCases.tla.
func diffAll1(s *schema, a, b *item, pre, nm string) []string {
	if s.reset != "" {
		pre, nm = "", s.reset
	}
	me := full(pre, nm)
	form := func() string {
		switch {
		case len(a.raw) == 1 && a.raw[0] == 0xc0 && len(b.raw) == 1 && b.raw[0] == 0x80:
			return "emptylist"
		case len(a.raw) == 1 && a.raw[0] == 0x80 && len(b.raw) == 1 && b.raw[0] == 0xc0:
			return "emptystr"
		case s.t == "trf" && a.list:
			if ks, ok := a.children(); ok && len(ks) == 2 && len(ks[1].raw) == 1 && ks[1].raw[0] == 0x80 {
				return "[root,0]"
			}
			return "list-form"
		case s.t == "reserved" || s.t == "ext":
			return "untrimmed-or-reshaped"
		case len(a.raw) > len(b.raw):
			return "longer-form"
		case len(a.raw) < len(b.raw):
			return "shorter-form"
		}
		return "other-form"
	}
	here := func() []string { return []string{me + "=" + form()} }
	switch s.t {
	case "struct", "list":
		ka, oka := a.children()
		kb, okb := b.children()
		if !oka || !okb || len(ka) != len(kb) {
			return here()
		}
		var all []string
		for i := range ka {
			if string(ka[i].raw) == string(kb[i].raw) {
				continue
			}
			switch {
			case s.t == "list":
				all = append(all, diffAll1(s.of, ka[i], kb[i], pre, s.of.name)...)
			case i < len(s.fields):
				all = append(all, diffAll1(s.fields[i], ka[i], kb[i], me, s.fields[i].name)...)
			default:
				return here()
			}
		}
		if len(all) == 0 {
			return here() // same children, different header
		}
		return all
	case "txitem", "rcitem":
		legacy, typed := sLegacyTx, sDynTx
		if s.t == "rcitem" {
			legacy, typed = sReceipt, sReceipt
		}
		if a.list && b.list {
			return diffAll1(legacy, a, b, pre, nm)
		}
		if !a.list && !b.list && len(a.payload) > 1 && len(b.payload) > 1 && a.payload[0] == b.payload[0] {
			ia, resta, oka := splitItem(a.payload[1:])
			ib, restb, okb := splitItem(b.payload[1:])
			if oka && okb && len(resta) == 0 && len(restb) == 0 {
				return diffAll1(typed, ia, ib, pre, nm)
			}
		}
		return here()
	}
	return here()
}

// diagnoseAll names every place where the accepted input and its re-encoding differ (deduplicated, in input order).
func diagnoseAll(kind string, x, re []byte) (places []string) {
	defer func() {
		if r := recover(); r != nil {
			places = []string{fmt.Sprintf("%s=undiagnosed", kind)}
		}
	}()
	var s *schema
	a, b := x, re
	switch kind {
	case "txbin", "rcbin":
		legacy, typed := sLegacyTx, sDynTx
		if kind == "rcbin" {
			legacy, typed = sReceipt, sReceipt
		}
		if len(a) > 0 && a[0] > 0x7f {
			s = legacy
		} else {
			if len(a) < 2 || len(b) < 2 || a[0] != b[0] {
				return []string{kind + "=type-byte"}
			}
			s, a, b = typed, a[1:], b[1:]
		}
	case "txrlp":
		s = sTxItem
	case "txlist":
		s = sTxList
	case "rcrlp":
		s = sRcItem
	case "header":
		s = sHeader
	case "block":
		s = sBlock
	}
	ia, ra, oka := splitItem(a)
	ib, rb, okb := splitItem(b)
	if !oka || !okb || len(ra) != 0 || len(rb) != 0 {
		return []string{kind + "=top-level"}
	}
	root := map[string]string{"txbin": "tx", "txrlp": "tx", "txlist": "txs", "rcbin": "receipt", "rcrlp": "receipt", "header": "header", "block": "block"}[kind]
	seen := map[string]bool{}
	for _, p := range diffAll1(s, ia, ib, "", root) {
		if !seen[p] {
			seen[p] = true
			places = append(places, p)
		}
	}
	return places
}
