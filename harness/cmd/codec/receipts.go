package main

// Receipt content binding: the receipts root (a signed header field) commits to every field of every receipt.
// The field paths come from the structure table of Codec.tla (tables.json receiptBound); every one-step perturbation of
// every path on every boundary base receipt (receiptBases) must change tx.Receipts.RootHash, and every root computed on
// the way must equal the independently computed root of { rlp(i) |-> MarshalBinary(receipt_i) } (refroot.go).

import (
	"fmt"
	"math/big"
	"strings"

	"github.com/vechain/thor/v2/thor"
	"github.com/vechain/thor/v2/trie"
	"github.com/vechain/thor/v2/tx"
)

type rcBase struct {
	Type     string `json:"type"` // legacy | dynfee
	Reverted bool   `json:"reverted"`
	Amounts  string `json:"amounts"` // zero | nonzero: gasUsed, paid, reward, transfer amounts
	Outputs  string `json:"outputs"` // empty | two
}

func cloneReceipt(r *tx.Receipt) *tx.Receipt {
	c := *r
	c.Paid, c.Reward = new(big.Int).Set(r.Paid), new(big.Int).Set(r.Reward)
	c.Outputs = nil
	for _, o := range r.Outputs {
		no := &tx.Output{}
		for _, e := range o.Events {
			ne := &tx.Event{Address: e.Address, Topics: append([]thor.Bytes32{}, e.Topics...), Data: append([]byte{}, e.Data...)}
			no.Events = append(no.Events, ne)
		}
		for _, t := range o.Transfers {
			no.Transfers = append(no.Transfers, &tx.Transfer{Sender: t.Sender, Recipient: t.Recipient, Amount: new(big.Int).Set(t.Amount)})
		}
		c.Outputs = append(c.Outputs, no)
	}
	return &c
}

type perturbRc struct {
	name string
	f    func(*tx.Receipt)
	ok   func(*tx.Receipt) bool
}

func receiptPerturbations(g *gen, path string) []perturbRc {
	inc := func(b *big.Int) *big.Int { return new(big.Int).Add(b, big.NewInt(1)) }
	outs := func(r *tx.Receipt) bool { return len(r.Outputs) >= 2 }
	pos := func(f func(*tx.Receipt) *big.Int) func(*tx.Receipt) bool {
		return func(r *tx.Receipt) bool { return f(r).Sign() > 0 }
	}
	ev := func(r *tx.Receipt) *tx.Event { return r.Outputs[0].Events[1] }
	tr := func(r *tx.Receipt) *tx.Transfer { return r.Outputs[0].Transfers[1] }
	switch path {
	case "receipt.type":
		return []perturbRc{{"type", func(r *tx.Receipt) { r.Type ^= tx.TypeDynamicFee }, nil}}
	case "receipt.gasUsed":
		return []perturbRc{{"gasUsed+1", func(r *tx.Receipt) { r.GasUsed++ }, nil},
			{"gasUsed=0", func(r *tx.Receipt) { r.GasUsed = 0 }, func(r *tx.Receipt) bool { return r.GasUsed != 0 }}}
	case "receipt.gasPayer":
		return []perturbRc{{"gasPayer.bit", func(r *tx.Receipt) { r.GasPayer[7] ^= 1 }, nil}}
	case "receipt.paid":
		return []perturbRc{{"paid+1", func(r *tx.Receipt) { r.Paid = inc(r.Paid) }, nil},
			{"paid=0", func(r *tx.Receipt) { r.Paid = new(big.Int) }, pos(func(r *tx.Receipt) *big.Int { return r.Paid })}}
	case "receipt.reward":
		return []perturbRc{{"reward+1", func(r *tx.Receipt) { r.Reward = inc(r.Reward) }, nil},
			{"reward=0", func(r *tx.Receipt) { r.Reward = new(big.Int) }, pos(func(r *tx.Receipt) *big.Int { return r.Reward })}}
	case "receipt.reverted":
		return []perturbRc{{"reverted", func(r *tx.Receipt) { r.Reverted = !r.Reverted }, nil}}
	case "receipt.outputs":
		return []perturbRc{
			{"outputs.append-empty", func(r *tx.Receipt) { r.Outputs = append(r.Outputs, &tx.Output{}) }, nil},
			{"outputs.droplast", func(r *tx.Receipt) { r.Outputs = r.Outputs[:len(r.Outputs)-1] }, outs},
			{"outputs.swap", func(r *tx.Receipt) { r.Outputs[0], r.Outputs[1] = r.Outputs[1], r.Outputs[0] }, outs},
		}
	case "receipt.outputs[].events":
		return []perturbRc{
			{"events.append", func(r *tx.Receipt) { r.Outputs[1].Events = append(r.Outputs[1].Events, &tx.Event{Address: g.addr()}) }, outs},
			{"events.droplast", func(r *tx.Receipt) { o := r.Outputs[0]; o.Events = o.Events[:len(o.Events)-1] }, outs},
			{"events.swap", func(r *tx.Receipt) { o := r.Outputs[0]; o.Events[0], o.Events[1] = o.Events[1], o.Events[0] }, outs},
			{"event moves to the other output", func(r *tx.Receipt) {
				o := r.Outputs[0]
				e := o.Events[len(o.Events)-1]
				o.Events = o.Events[:len(o.Events)-1]
				r.Outputs[1].Events = append([]*tx.Event{e}, r.Outputs[1].Events...)
			}, outs},
		}
	case "receipt.outputs[].events[].address":
		return []perturbRc{{"event.address.bit", func(r *tx.Receipt) { ev(r).Address[0] ^= 1 }, outs}}
	case "receipt.outputs[].events[].topics":
		return []perturbRc{
			{"topics.append", func(r *tx.Receipt) { ev(r).Topics = append(ev(r).Topics, thor.Bytes32{}) }, outs},
			{"topics.droplast", func(r *tx.Receipt) { ev(r).Topics = ev(r).Topics[:len(ev(r).Topics)-1] }, outs},
			{"topics.swap", func(r *tx.Receipt) { t := ev(r).Topics; t[0], t[1] = t[1], t[0] }, outs},
			{"topics.first-gets-one", func(r *tx.Receipt) { e := r.Outputs[0].Events[0]; e.Topics = append(e.Topics, thor.Bytes32{}) }, outs},
		}
	case "receipt.outputs[].events[].topics[]":
		return []perturbRc{{"topic.bit", func(r *tx.Receipt) { ev(r).Topics[1][31] ^= 1 }, outs}}
	case "receipt.outputs[].events[].data":
		return []perturbRc{
			{"event.data.bit", func(r *tx.Receipt) { ev(r).Data[0] ^= 1 }, outs},
			{"event.data.append0", func(r *tx.Receipt) { ev(r).Data = append(ev(r).Data, 0) }, outs},
			{"event.data.empty->0x00", func(r *tx.Receipt) { r.Outputs[0].Events[0].Data = []byte{0} }, outs},
		}
	case "receipt.outputs[].transfers":
		return []perturbRc{
			{"transfers.append", func(r *tx.Receipt) {
				r.Outputs[1].Transfers = append(r.Outputs[1].Transfers, &tx.Transfer{Amount: new(big.Int)})
			}, outs},
			{"transfers.droplast", func(r *tx.Receipt) { o := r.Outputs[0]; o.Transfers = o.Transfers[:len(o.Transfers)-1] }, outs},
			{"transfers.swap", func(r *tx.Receipt) {
				o := r.Outputs[0]
				o.Transfers[0], o.Transfers[1] = o.Transfers[1], o.Transfers[0]
			}, outs},
		}
	case "receipt.outputs[].transfers[].sender":
		return []perturbRc{{"transfer.sender.bit", func(r *tx.Receipt) { tr(r).Sender[19] ^= 1 }, outs}}
	case "receipt.outputs[].transfers[].recipient":
		return []perturbRc{{"transfer.recipient.bit", func(r *tx.Receipt) { tr(r).Recipient[0] ^= 0x80 }, outs},
			{"transfer.sender<->recipient", func(r *tx.Receipt) { t := tr(r); t.Sender, t.Recipient = t.Recipient, t.Sender }, outs}}
	case "receipt.outputs[].transfers[].amount":
		return []perturbRc{{"transfer.amount+1", func(r *tx.Receipt) { tr(r).Amount = inc(tr(r).Amount) }, outs},
			{"transfer.amount=0", func(r *tx.Receipt) { tr(r).Amount = new(big.Int) }, func(r *tx.Receipt) bool { return outs(r) && tr(r).Amount.Sign() > 0 }}}
	}
	return nil
}

func (g *gen) baseReceipt(bs rcBase) *tx.Receipt {
	amt := func() *big.Int {
		if bs.Amounts == "zero" {
			return new(big.Int)
		}
		return new(big.Int).Add(new(big.Int).SetBytes(g.bytes(g.rng.Intn(16)+1)), big.NewInt(1))
	}
	r := &tx.Receipt{GasPayer: g.addr(), Paid: amt(), Reward: amt(), Reverted: bs.Reverted}
	if bs.Type == "dynfee" {
		r.Type = tx.TypeDynamicFee
	}
	if bs.Amounts != "zero" {
		r.GasUsed = g.rng.Uint64()>>20 | 1
	}
	if bs.Outputs == "two" {
		o0 := &tx.Output{
			Events: []*tx.Event{{Address: g.addr()}, // no topics, no data: the boundary
				{Address: g.addr(), Topics: []thor.Bytes32{g.b32(), g.b32()}, Data: g.bytes(40)}},
			Transfers: []*tx.Transfer{{Sender: g.addr(), Recipient: g.addr(), Amount: new(big.Int)},
				{Sender: g.addr(), Recipient: g.addr(), Amount: amt()}},
		}
		o1 := &tx.Output{Events: []*tx.Event{{Address: g.addr(), Topics: []thor.Bytes32{g.b32()}, Data: g.bytes(3)}}}
		r.Outputs = []*tx.Output{o0, o1}
	}
	return r
}

// receiptsRootChecked = Receipts.RootHash, cross-checked against the independent root of the same encodings.
func receiptsRootChecked(rs tx.Receipts, what string, dev func(sig, what string)) thor.Bytes32 {
	real := rs.RootHash()
	var encs [][]byte
	for _, r := range rs {
		e, err := r.MarshalBinary()
		if err != nil {
			fatal("marshal receipt: %v", err)
		}
		encs = append(encs, e)
	}
	if ref := refListRoot(encs); ref != real {
		dev("root-differs-from-reference:receipts", fmt.Sprintf("Receipts.RootHash %v differs from the independent root %v of {rlp(i) -> enc_i} (%d receipts, %s)", real, ref, len(rs), what))
	}
	return real
}

func runReceiptBinding(g *gen, bound []string, bases []rcBase, r *result, dev func(sig, what string)) {
	if len(bound) == 0 || len(bases) == 0 {
		fatal("tables carry no receipt field table / base receipts")
	}
	nested := 0
	for _, bs := range bases {
		label := fmt.Sprintf("%s receipt reverted=%v amounts=%s outputs=%s", bs.Type, bs.Reverted, bs.Amounts, bs.Outputs)
		target := g.baseReceipt(bs)
		list := tx.Receipts{g.receipt(), target, g.receipt()}
		base := receiptsRootChecked(list, label, dev)
		for _, path := range bound {
			ps := receiptPerturbations(g, path)
			if len(ps) == 0 {
				fatal("the receipt field table names a path the driver cannot perturb: %s", path)
			}
			applied := 0
			for _, p := range ps {
				if p.ok != nil && !p.ok(target) {
					continue
				}
				applied++
				cp := cloneReceipt(target)
				p.f(cp)
				r.Evaluations++
				got := receiptsRootChecked(tx.Receipts{list[0], cp, list[2]}, label+", "+p.name, dev)
				if got == base {
					dev("root-unbound:"+path, fmt.Sprintf("receipts root unchanged after perturbing %s (%s; base: %s)", path, p.name, label))
				}
				e0, _ := target.MarshalBinary()
				e1, _ := cp.MarshalBinary()
				if string(e0) == string(e1) {
					dev("root-unbound:"+path, fmt.Sprintf("receipt encoding unchanged after perturbing %s (%s; base: %s)", path, p.name, label))
				}
				if len(r.Samples) < 6 && strings.Contains(p.name, "topic.bit") {
					r.Samples = append(r.Samples, map[string]any{"base": label, "perturbed": p.name, "receipts_root_before": base.String(), "receipts_root_after": got.String()})
				}
			}
			if applied == 0 {
				if bs.Outputs == "empty" && strings.Contains(path, "[]") {
					continue // nothing inside an empty output list
				}
				fatal("no applicable perturbation of %s for base %s", path, label)
			}
			if strings.Contains(path, "[]") {
				nested++
			}
		}
	}
	if nested == 0 {
		fatal("no nested receipt path was perturbed")
	}
}

// deriveRootVsReference: trie.DeriveRoot against the independent root, for list lengths around every boundary of the
// key encoding rlp(i) (0 -> 0x80, 1..127 one byte, 128.. two bytes, 256.. three), each length derived TWICE in one
// process with different contents and in a different order (a cached / aliased key table shows on the second pass).
func deriveRootVsReference(g *gen, r *result, dev func(sig, what string)) {
	sizes := []int{0, 1, 2, 3, 15, 16, 17, 55, 56, 127, 128, 129, 130, 200, 255, 256, 257, 300, 1000}
	mk := func(n int) listOf {
		var l listOf
		for i := 0; i < n; i++ {
			l = append(l, g.bytes(1+g.rng.Intn(80)))
		}
		return l
	}
	pass := func(name string, order []int) {
		for _, n := range order {
			l := mk(n)
			r.Evaluations++
			real, ref := trie.DeriveRoot(l), refListRoot(l)
			if real != ref {
				dev("root-differs-from-reference:derive_root", fmt.Sprintf("trie.DeriveRoot of %d items = %v, independent root of {rlp(i) -> item_i} = %v (%s pass)", n, real, ref, name))
			}
			if again := trie.DeriveRoot(l); again != real {
				dev("root-differs-from-reference:derive_root", fmt.Sprintf("trie.DeriveRoot of the same %d items gives two roots in one process (%s pass)", n, name))
			}
		}
	}
	pass("first", sizes)
	rev := append([]int{}, sizes...)
	for i, j := 0, len(rev)-1; i < j; i, j = i+1, j-1 {
		rev[i], rev[j] = rev[j], rev[i]
	}
	pass("second (reversed order, new contents)", rev)
	pass("third", []int{129, 3, 300, 128, 130, 1, 257})
	// the same through the typed lists
	for _, n := range []int{1, 129, 260} {
		var txs tx.Transactions
		var encs [][]byte
		for i := 0; i < n; i++ {
			t := g.tx()
			txs = append(txs, t)
			e, _ := t.MarshalBinary()
			encs = append(encs, e)
		}
		for rep := 0; rep < 2; rep++ {
			r.Evaluations++
			if real, ref := txs.RootHash(), refListRoot(encs); real != ref {
				dev("root-differs-from-reference:txs", fmt.Sprintf("Transactions.RootHash of %d txs = %v, independent root = %v (derivation %d)", n, real, ref, rep+1))
			}
		}
		var rcs tx.Receipts
		for i := 0; i < n; i++ {
			rcs = append(rcs, g.receipt())
		}
		for rep := 0; rep < 2; rep++ {
			r.Evaluations++
			receiptsRootChecked(rcs, fmt.Sprintf("%d receipts, derivation %d", n, rep+1), dev)
		}
	}
}
