package main

// An independent Merkle-Patricia root for the list commitment  { rlp(i) |-> enc_i : i < n }  (trie/derive_root.go):
// RLP, hex-prefix and blake2b-256 only, nothing from package trie or drlp. Same construction as the reference hasher of
// cmd/triecheck (C06), which is validated against the real trie.

import (
	"bytes"
	"sort"

	"golang.org/x/crypto/blake2b"

	"github.com/vechain/thor/v2/thor"
)

type kv struct {
	nibs []byte
	val  []byte
}

func rlpUint(i uint64) []byte {
	if i == 0 {
		return []byte{0x80}
	}
	var be []byte
	for ; i > 0; i >>= 8 {
		be = append([]byte{byte(i)}, be...)
	}
	return encStr(be)
}

func rlpListOf(items ...[]byte) []byte {
	body := bytes.Join(items, nil)
	return append(hdr(0xc0, len(body)), body...)
}

func hexPrefix(nibs []byte, leaf bool) []byte {
	flag := byte(0)
	if leaf {
		flag = 2
	}
	var out []byte
	if len(nibs)%2 == 1 {
		out = []byte{(flag|1)<<4 | nibs[0]}
		nibs = nibs[1:]
	} else {
		out = []byte{flag << 4}
	}
	for i := 0; i < len(nibs); i += 2 {
		out = append(out, nibs[i]<<4|nibs[i+1])
	}
	return out
}

// encNode encodes the subtrie of es (sorted, distinct, prefix-free keys) below depth.
func encNode(es []kv, depth int) []byte {
	if len(es) == 1 {
		return rlpListOf(encStr(hexPrefix(es[0].nibs[depth:], true)), encStr(es[0].val))
	}
	cp := depth
	for ; ; cp++ {
		same := true
		for _, e := range es[1:] {
			if cp >= len(e.nibs) || cp >= len(es[0].nibs) || e.nibs[cp] != es[0].nibs[cp] {
				same = false
				break
			}
		}
		if !same {
			break
		}
	}
	items := make([][]byte, 17)
	for i := range items {
		items[i] = []byte{0x80}
	}
	for x := byte(0); x < 16; x++ {
		var sub []kv
		for _, e := range es {
			if cp >= len(e.nibs) {
				fatal("reference root: key is a prefix of another key")
			}
			if e.nibs[cp] == x {
				sub = append(sub, e)
			}
		}
		if len(sub) > 0 {
			items[x] = refOf(encNode(sub, cp+1))
		}
	}
	br := rlpListOf(items...)
	if cp == depth {
		return br
	}
	return rlpListOf(encStr(hexPrefix(es[0].nibs[depth:cp], false)), refOf(br))
}

func refOf(enc []byte) []byte {
	if len(enc) < 32 {
		return enc
	}
	h := blake2b.Sum256(enc)
	return encStr(h[:])
}

// refListRoot = root of { rlp(i) |-> items[i] }.
func refListRoot(items [][]byte) thor.Bytes32 {
	if len(items) == 0 {
		return blake2b.Sum256([]byte{0x80})
	}
	var es []kv
	for i, it := range items {
		k := rlpUint(uint64(i))
		var nibs []byte
		for _, b := range k {
			nibs = append(nibs, b>>4, b&15)
		}
		es = append(es, kv{nibs, it})
	}
	sort.Slice(es, func(i, j int) bool { return bytes.Compare(es[i].nibs, es[j].nibs) < 0 })
	return blake2b.Sum256(encNode(es, 0))
}
