package main

// Seeded generation of valid objects (built and signed with the real builders) and of byte-level / structure-aware
// mutants of their encodings.  Implementation -> model direction of C11.

import (
	"crypto/ecdsa"
	"encoding/hex"
	"math/big"
	"math/rand"
	"path/filepath"
	"strings"

	"github.com/ethereum/go-ethereum/crypto"
	"github.com/ethereum/go-ethereum/rlp"

	"github.com/vechain/thor/v2/block"
	"github.com/vechain/thor/v2/thor"
	"github.com/vechain/thor/v2/tx"

	"verifharness/internal/trace"
)

type gen struct {
	rng  *rand.Rand
	keys []*ecdsa.PrivateKey
}

func newGen(seed int64) *gen {
	g := &gen{rng: rand.New(rand.NewSource(seed))}
	for i := 0; i < 4; i++ {
		var b [32]byte
		for j := range b {
			b[j] = byte(g.rng.Intn(255) + 1)
		}
		k, err := crypto.ToECDSA(b[:])
		if err != nil {
			fatal("key: %v", err)
		}
		g.keys = append(g.keys, k)
	}
	return g
}

func (g *gen) bytes(n int) []byte {
	b := make([]byte, n)
	g.rng.Read(b)
	return b
}

func (g *gen) b32() (h thor.Bytes32) { copy(h[:], g.bytes(32)); return }
func (g *gen) addr() (a thor.Address) {
	copy(a[:], g.bytes(20))
	return
}

// bigInt: zero, small, one byte >= 0x80, or up to 32 bytes
func (g *gen) bigInt() *big.Int {
	switch g.rng.Intn(5) {
	case 0:
		return new(big.Int)
	case 1:
		return big.NewInt(int64(g.rng.Intn(127) + 1))
	case 2:
		return big.NewInt(int64(g.rng.Intn(128) + 128))
	default:
		return new(big.Int).SetBytes(g.bytes(g.rng.Intn(32) + 1))
	}
}

func (g *gen) u64() uint64 {
	switch g.rng.Intn(4) {
	case 0:
		return 0
	case 1:
		return uint64(g.rng.Intn(256))
	case 2:
		return g.rng.Uint64()
	default:
		return g.rng.Uint64() >> uint(g.rng.Intn(64))
	}
}

type txFields struct {
	typ       byte
	chainTag  byte
	blockRef  tx.BlockRef
	exp       uint32
	clauses   []*tx.Clause
	coef      uint8
	maxPrio   *big.Int
	maxFee    *big.Int
	gas       uint64
	dependsOn *thor.Bytes32
	nonce     uint64
	features  tx.Features
}

func (f *txFields) build() *tx.Transaction {
	b := tx.NewBuilder(f.typ).ChainTag(f.chainTag).BlockRef(f.blockRef).Expiration(f.exp).Gas(f.gas).Nonce(f.nonce).
		DependsOn(f.dependsOn).Features(f.features)
	if f.typ == tx.TypeLegacy {
		b.GasPriceCoef(f.coef)
	} else {
		b.MaxFeePerGas(f.maxFee).MaxPriorityFeePerGas(f.maxPrio)
	}
	for _, c := range f.clauses {
		b.Clause(c)
	}
	return b.Build()
}

func (g *gen) clause() *tx.Clause {
	var c *tx.Clause
	if g.rng.Intn(3) == 0 {
		c = tx.NewClause(nil)
	} else {
		a := g.addr()
		c = tx.NewClause(&a)
	}
	c = c.WithValue(g.bigInt())
	switch g.rng.Intn(4) {
	case 0:
	case 1:
		c = c.WithData(g.bytes(1))
	case 2:
		c = c.WithData(g.bytes(g.rng.Intn(55) + 1))
	default:
		c = c.WithData(g.bytes(56 + g.rng.Intn(40)))
	}
	return c
}

func (g *gen) txFields() *txFields {
	f := &txFields{typ: tx.TypeLegacy, chainTag: byte(g.rng.Intn(256)), exp: uint32(g.u64()), coef: uint8(g.rng.Intn(256)),
		gas: g.u64(), nonce: g.u64(), maxPrio: g.bigInt(), maxFee: g.bigInt()}
	if g.rng.Intn(2) == 0 {
		f.typ = tx.TypeDynamicFee
	}
	if g.rng.Intn(4) != 0 {
		copy(f.blockRef[:], g.bytes(8))
	}
	for i := g.rng.Intn(4); i > 0; i-- {
		f.clauses = append(f.clauses, g.clause())
	}
	if g.rng.Intn(3) == 0 {
		d := g.b32()
		f.dependsOn = &d
	}
	if g.rng.Intn(3) == 0 {
		f.features = tx.DelegationFeature
	}
	return f
}

// sign signs t with key k (and a delegator key when delegated).
func (g *gen) sign(t *tx.Transaction, k, dk *ecdsa.PrivateKey) *tx.Transaction {
	sig, err := crypto.Sign(t.SigningHash().Bytes(), k)
	if err != nil {
		fatal("sign: %v", err)
	}
	if t.Features().IsDelegated() {
		origin := thor.Address(crypto.PubkeyToAddress(k.PublicKey))
		dsig, err := crypto.Sign(t.DelegatorSigningHash(origin).Bytes(), dk)
		if err != nil {
			fatal("sign: %v", err)
		}
		sig = append(sig, dsig...)
	}
	return t.WithSignature(sig)
}

func (g *gen) tx() *tx.Transaction {
	t := g.sign(g.txFields().build(), g.keys[g.rng.Intn(2)], g.keys[2])
	if g.rng.Intn(5) == 0 {
		// unused reserved slots cannot be built through the API: splice them into the encoding and re-sign
		if u := g.withUnused(t); u != nil {
			t = u
		}
	}
	return t
}

// withUnused rewrites the reserved field of t to [features, unused...] and signs the result again.
func (g *gen) withUnused(t *tx.Transaction) *tx.Transaction {
	enc, _ := t.MarshalBinary()
	pre := []byte{}
	body := enc
	if t.Type() != tx.TypeLegacy {
		pre, body = enc[:1], enc[1:]
	}
	root, rest, ok := splitItem(body)
	if !ok || len(rest) != 0 {
		return nil
	}
	ks, ok := root.children()
	if !ok {
		return nil
	}
	ri := len(ks) - 2
	feat, _ := rlp.EncodeToBytes(uint32(t.Features()))
	items := []rlp.RawValue{feat}
	for i := g.rng.Intn(tx.MaxUnusedReservedFields) + 1; i > 0; i-- {
		switch g.rng.Intn(3) {
		case 0:
			items = append(items, rlp.RawValue{byte(g.rng.Intn(127) + 1)})
		case 1:
			v, _ := rlp.EncodeToBytes(g.bytes(g.rng.Intn(6) + 2))
			items = append(items, v)
		default:
			v, _ := rlp.EncodeToBytes([]any{uint(7), g.bytes(3)})
			items = append(items, v)
		}
	}
	res, _ := rlp.EncodeToBytes(items)
	var raws []rlp.RawValue
	for i, k := range ks {
		if i == ri {
			raws = append(raws, res)
		} else {
			raws = append(raws, k.raw)
		}
	}
	nb, _ := rlp.EncodeToBytes(raws)
	var u tx.Transaction
	if err := u.UnmarshalBinary(append(append([]byte{}, pre...), nb...)); err != nil {
		return nil
	}
	return g.sign(&u, g.keys[0], g.keys[2])
}

type headerFields struct {
	parent      thor.Bytes32
	ts          uint64
	gasLimit    uint64
	beneficiary thor.Address
	gasUsed     uint64
	score       uint64
	txFeatures  tx.Features
	stateRoot   thor.Bytes32
	rcRoot      thor.Bytes32
	alpha       []byte
	com         bool
	baseFee     *big.Int
	txs         tx.Transactions
}

func (f *headerFields) build() *block.Block {
	b := new(block.Builder).ParentID(f.parent).Timestamp(f.ts).GasLimit(f.gasLimit).Beneficiary(f.beneficiary).GasUsed(f.gasUsed).
		TotalScore(f.score).TransactionFeatures(f.txFeatures).StateRoot(f.stateRoot).ReceiptsRoot(f.rcRoot).Alpha(f.alpha)
	if f.com {
		b.COM()
	}
	if f.baseFee != nil {
		b.BaseFee(f.baseFee)
	}
	for _, t := range f.txs {
		b.Transaction(t)
	}
	return b.Build()
}

func (g *gen) headerFields(withFee int) *headerFields {
	f := &headerFields{parent: g.b32(), ts: g.u64(), gasLimit: g.u64(), beneficiary: g.addr(), gasUsed: g.u64(), score: g.u64(),
		stateRoot: g.b32(), rcRoot: g.b32()}
	copy(f.parent[:4], []byte{0, 0, byte(g.rng.Intn(3)), byte(g.rng.Intn(256))})
	if g.rng.Intn(2) == 0 {
		f.txFeatures = tx.DelegationFeature
	}
	fee := withFee == 1 || (withFee < 0 && g.rng.Intn(2) == 0)
	if fee {
		f.baseFee = g.bigInt()
		if g.rng.Intn(4) != 0 {
			f.alpha = g.bytes(32)
		}
		f.com = g.rng.Intn(2) == 0
	} else {
		switch g.rng.Intn(3) {
		case 0:
		case 1:
			f.alpha = g.bytes(32)
		default:
			f.alpha = g.bytes(32)
			f.com = true
		}
	}
	return f
}

// signBlock signs with a 65-byte signature or a 146-byte complex signature (proof bytes are arbitrary).
func (g *gen) signBlock(b *block.Block, k *ecdsa.PrivateKey, complexSig bool) *block.Block {
	sig, err := crypto.Sign(b.Header().SigningHash().Bytes(), k)
	if err != nil {
		fatal("sign: %v", err)
	}
	if complexSig {
		sig = append(sig, g.bytes(81)...)
	}
	return b.WithSignature(sig)
}

func (g *gen) block(ntx int) *block.Block {
	f := g.headerFields(-1)
	for i := 0; i < ntx; i++ {
		f.txs = append(f.txs, g.tx())
	}
	return g.signBlock(f.build(), g.keys[g.rng.Intn(2)], len(f.alpha) > 0)
}

func (g *gen) receipt() *tx.Receipt {
	r := &tx.Receipt{GasUsed: g.u64(), GasPayer: g.addr(), Paid: g.bigInt(), Reward: g.bigInt(), Reverted: g.rng.Intn(2) == 0}
	if g.rng.Intn(2) == 0 {
		r.Type = tx.TypeDynamicFee
	}
	for i := g.rng.Intn(3); i > 0; i-- {
		o := &tx.Output{}
		for j := g.rng.Intn(3); j > 0; j-- {
			e := &tx.Event{Address: g.addr(), Data: g.bytes(g.rng.Intn(70))}
			for k := g.rng.Intn(4); k > 0; k-- {
				e.Topics = append(e.Topics, g.b32())
			}
			o.Events = append(o.Events, e)
		}
		for j := g.rng.Intn(3); j > 0; j-- {
			o.Transfers = append(o.Transfers, &tx.Transfer{Sender: g.addr(), Recipient: g.addr(), Amount: g.bigInt()})
		}
		r.Outputs = append(r.Outputs, o)
	}
	return r
}

// base returns a valid encoding and its entry point.
func (g *gen) base() (kind string, enc []byte) {
	var err error
	switch g.rng.Intn(11) {
	case 10:
		kind = "txlist"
		var l tx.Transactions
		for i := g.rng.Intn(3); i > 0; i-- {
			l = append(l, g.tx())
		}
		enc, err = rlp.EncodeToBytes(l)
	case 0, 1:
		kind = "txbin"
		enc, err = g.tx().MarshalBinary()
	case 2, 3:
		kind = "txrlp"
		enc, err = rlp.EncodeToBytes(g.tx())
	case 4, 5:
		kind = "header"
		enc, err = rlp.EncodeToBytes(g.block(0).Header())
	case 6, 7:
		kind = "block"
		enc, err = rlp.EncodeToBytes(g.block(g.rng.Intn(3)))
	case 8:
		kind = "rcbin"
		enc, err = g.receipt().MarshalBinary()
	default:
		kind = "rcrlp"
		enc, err = rlp.EncodeToBytes(g.receipt())
	}
	if err != nil {
		fatal("encode base: %v", err)
	}
	return
}

// ---------------------------------------------------------------- mutation --------------------------------------

// mnode is a mutable item tree; ser() writes canonical headers around whatever the mutation left inside.
type mnode struct {
	list     bool
	payload  []byte   // strings
	kids     []*mnode // lists
	env      *mnode   // string whose payload is typ || ser(env)
	typ      byte
	override []byte // literal bytes instead of the node
}

func hdr(base byte, n int) []byte {
	if n < 56 {
		return []byte{base + byte(n)}
	}
	var lb []byte
	for m := n; m > 0; m >>= 8 {
		lb = append([]byte{byte(m)}, lb...)
	}
	return append([]byte{base + 55 + byte(len(lb))}, lb...)
}

func encStr(p []byte) []byte {
	if len(p) == 1 && p[0] < 0x80 {
		return []byte{p[0]}
	}
	return append(hdr(0x80, len(p)), p...)
}

func (n *mnode) ser() []byte {
	switch {
	case n.override != nil:
		return n.override
	case n.env != nil:
		return encStr(append([]byte{n.typ}, n.env.ser()...))
	case n.list:
		var c []byte
		for _, k := range n.kids {
			c = append(c, k.ser()...)
		}
		return append(hdr(0xc0, len(c)), c...)
	}
	return encStr(n.payload)
}

func toMnode(it *item, depth int) *mnode {
	if it.list {
		n := &mnode{list: true}
		ks, ok := it.children()
		if !ok {
			return &mnode{override: it.raw}
		}
		for _, k := range ks {
			n.kids = append(n.kids, toMnode(k, depth+1))
		}
		return n
	}
	if len(it.payload) > 1 && it.payload[0] == tx.TypeDynamicFee && depth <= 2 {
		if in, rest, ok := splitItem(it.payload[1:]); ok && len(rest) == 0 && in.list {
			return &mnode{env: toMnode(in, depth+1), typ: it.payload[0]}
		}
	}
	return &mnode{payload: append([]byte{}, it.payload...)}
}

func (n *mnode) all(acc *[]*mnode) {
	*acc = append(*acc, n)
	for _, k := range n.kids {
		k.all(acc)
	}
	if n.env != nil {
		n.env.all(acc)
	}
}

var interesting = []byte{0x00, 0x01, 0x7f, 0x80, 0x81, 0xb7, 0xb8, 0xb9, 0xbf, 0xc0, 0xc1, 0xf7, 0xf8, 0xf9, 0xff, 0x51}

func (g *gen) mutateBytes(b []byte) ([]byte, string) {
	b = append([]byte{}, b...)
	if len(b) == 0 {
		return []byte{byte(g.rng.Intn(256))}, "insert"
	}
	p := g.rng.Intn(len(b))
	switch g.rng.Intn(7) {
	case 0:
		b[p] ^= 1 << uint(g.rng.Intn(8))
		return b, "bitflip"
	case 1:
		b[p] = interesting[g.rng.Intn(len(interesting))]
		return b, "setbyte"
	case 2:
		v := interesting[g.rng.Intn(len(interesting))]
		return append(b[:p], append([]byte{v}, b[p:]...)...), "insert"
	case 3:
		return append(b[:p], b[p+1:]...), "delete"
	case 4:
		return b[:p], "truncate"
	case 5:
		return append(b, g.bytes(g.rng.Intn(3)+1)...), "append"
	default:
		// early bytes are the length prefixes of the outer items: edit one of the first few bytes
		q := g.rng.Intn(min(len(b), 4))
		b[q] += byte(g.rng.Intn(3)) - 1
		return b, "prefix-edit"
	}
}

// mutateTree changes one node and keeps the prefixes of the enclosing items consistent.
func (g *gen) mutateTree(root *mnode) string {
	var ns []*mnode
	root.all(&ns)
	n := ns[g.rng.Intn(len(ns))]
	cur := n.ser()
	if len(cur) == 0 { // dropped by an earlier mutation of the same input
		n.override = []byte{byte(g.rng.Intn(256))}
		return "node-reinsert"
	}
	switch op := g.rng.Intn(13); op {
	case 0:
		n.override = []byte{0x80}
		return "node=0x80"
	case 1:
		n.override = []byte{0xc0}
		return "node=0xc0"
	case 2:
		n.override = append(append([]byte{}, cur...), cur...)
		return "node-dup"
	case 3:
		n.override = []byte{}
		return "node-drop"
	case 4:
		o := append([]byte{}, cur...)
		o[0] += byte(g.rng.Intn(2))*2 - 1
		n.override = o
		return "node-prefix+-1"
	case 5:
		// long form although short / leading zero in the length
		var pl []byte
		base := byte(0x80)
		if n.list {
			base = 0xc0
		}
		if it, _, ok := splitItem(cur); ok {
			pl = it.payload
			if len(cur) == 1 && cur[0] < 0x80 {
				pl = cur
			}
		}
		if len(pl) < 256 {
			if g.rng.Intn(2) == 0 {
				n.override = append([]byte{base + 56, byte(len(pl))}, pl...)
			} else {
				n.override = append([]byte{base + 57, 0, byte(len(pl))}, pl...)
			}
		}
		return "node-longform"
	case 6:
		if !n.list && n.env == nil && n.override == nil {
			n.payload = append([]byte{0}, n.payload...)
			return "leading-zero"
		}
		n.override = append([]byte{0x00}, cur...)
		return "zero-item-before"
	case 7:
		if !n.list && n.env == nil && len(n.payload) == 1 && n.payload[0] < 0x80 {
			n.override = []byte{0x81, n.payload[0]}
			return "wrap-single"
		}
		n.override = []byte{0x81, byte(g.rng.Intn(128))}
		return "node=wrapped-single"
	case 8:
		if !n.list && n.env == nil {
			switch g.rng.Intn(4) {
			case 0:
				n.payload = n.payload[:len(n.payload)/2]
			case 1:
				n.payload = append(n.payload, g.bytes(1)...)
			case 2:
				n.payload = g.bytes(g.rng.Intn(9))
			default:
				n.payload = g.bytes(33)
			}
			return "string-resize"
		}
		if n.list && len(n.kids) > 1 {
			i := g.rng.Intn(len(n.kids) - 1)
			n.kids[i], n.kids[i+1] = n.kids[i+1], n.kids[i]
			return "swap-siblings"
		}
		return "noop"
	case 9:
		if n.list {
			n.kids = append(n.kids, &mnode{override: []byte{byte(g.rng.Intn(256))}})
			return "list-append"
		}
		n.override = append(hdr(0xc0, len(cur)), cur...)
		return "string-in-list"
	case 10:
		if n.list && len(n.kids) > 0 {
			n.kids = n.kids[:len(n.kids)-1]
			return "list-drop-last"
		}
		n.override = encStr(cur)
		return "item-in-string"
	case 11:
		if n.env != nil {
			n.typ = interesting[g.rng.Intn(len(interesting))]
			return "envelope-type"
		}
		if n.list {
			n.override = encStr(append([]byte{tx.TypeDynamicFee}, cur...))
			return "list-enveloped"
		}
		n.payload = []byte{byte(g.rng.Intn(256))}
		return "string=1byte"
	default:
		if !n.list && n.env == nil && len(n.payload) > 0 {
			n.payload[g.rng.Intn(len(n.payload))] ^= 1 << uint(g.rng.Intn(8))
			return "payload-bitflip"
		}
		return "noop"
	}
}

func (g *gen) mutant(kind string, enc []byte) ([]byte, string) {
	if g.rng.Intn(3) == 0 {
		return g.mutateBytes(enc)
	}
	pre, body := []byte{}, enc
	if (kind == "txbin" || kind == "rcbin") && len(enc) > 0 && enc[0] <= 0x7f {
		pre, body = enc[:1], enc[1:]
	}
	it, rest, ok := splitItem(body)
	if !ok || len(rest) != 0 {
		return g.mutateBytes(enc)
	}
	root := toMnode(it, 0)
	op := g.mutateTree(root)
	if g.rng.Intn(4) == 0 {
		op += "+" + g.mutateTree(root)
	}
	out := append(append([]byte{}, pre...), root.ser()...)
	if g.rng.Intn(6) == 0 {
		var op2 string
		out, op2 = g.mutateBytes(out)
		op += "+" + op2
	}
	return out, op
}

func ints(b []byte) []int {
	r := make([]int, len(b))
	for i, v := range b {
		r[i] = int(v)
	}
	return r
}

// runMutate: implementation -> model. Logs what the real decoders did with every mutant.
// adversarial inputs: sizes and shapes chosen to make a careless decoder allocate or loop (the termination oracle of
// observeTimed judges them; the verdict rule "reject or re-encode identically" applies as to every input)
type advInput struct {
	kind, op string
	x        []byte
}

func nested(depth int) []byte {
	in := []byte{0xc0}
	for i := 0; i < depth; i++ {
		in = append(hdr(0xc0, len(in)), in...)
	}
	return in
}

func (g *gen) adversarial() (out []advInput) {
	add := func(kind, op string, x []byte) { out = append(out, advInput{kind, op, x}) }
	// a legal maximum: MaxClausesPerTx clauses of 1 KB each (2.5 MB), and one clause more
	f := g.txFields()
	f.typ, f.features = tx.TypeLegacy, 0
	f.clauses = nil
	to := g.addr()
	for i := 0; i < tx.MaxClausesPerTx; i++ {
		f.clauses = append(f.clauses, tx.NewClause(&to).WithData(g.bytes(1024)))
	}
	big := g.sign(f.build(), g.keys[0], g.keys[2])
	enc, _ := big.MarshalBinary()
	add("txbin", "adv:max-clauses-x-1KB", enc)
	if it, rest, ok := splitItem(enc); ok && len(rest) == 0 {
		root := toMnode(it, 0)
		cl := root.kids[3]
		cl.kids = append(cl.kids, cl.kids[0])
		add("txbin", "adv:max-clauses+1-x-1KB", root.ser())
		blk, _ := rlp.EncodeToBytes([]any{g.block(0).Header(), []rlp.RawValue{root.ser()}})
		add("block", "adv:block-with-max-clauses+1-tx", blk)
	}
	// a valid small tx with its parts blown up
	small, _ := g.sign(g.txFields().build(), g.keys[0], g.keys[2]).MarshalBinary()
	pre, body := []byte{}, small
	if small[0] <= 0x7f {
		pre, body = small[:1], small[1:]
	}
	if it, rest, ok := splitItem(body); ok && len(rest) == 0 {
		with := func(i int, raw []byte) []byte {
			root := toMnode(it, 0)
			root.kids[i] = &mnode{override: raw}
			return append(append([]byte{}, pre...), root.ser()...)
		}
		ri := len(it.kids) - 2
		if ks, ok := it.children(); ok {
			ri = len(ks) - 2
		}
		many := func(b byte, n int) []byte { return append(hdr(0xc0, n), bytesOf(b, n)...) }
		add("txbin", "adv:clauses=60000-empty-lists", with(3, many(0xc0, 60000)))
		add("txbin", "adv:reserved=60000-items", with(ri, many(0x01, 60000)))
		add("txbin", "adv:reserved-unused=nested-3000", with(ri, append(hdr(0xc0, 1+len(nested(3000))), append([]byte{0x80}, nested(3000)...)...)))
		add("txbin", "adv:clauses=nested-3000", with(3, nested(3000)))
		add("txbin", "adv:signature=1MB", with(ri+1, encStr(g.bytes(1<<20))))
	}
	hb := g.block(1)
	henc, _ := rlp.EncodeToBytes(hb.Header())
	if it, rest, ok := splitItem(henc); ok && len(rest) == 0 {
		root := toMnode(it, 0)
		root.kids[9] = &mnode{override: encStr(g.bytes(1 << 20))}
		add("header", "adv:signature=1MB", root.ser())
	}
	benc, _ := rlp.EncodeToBytes(hb)
	if it, rest, ok := splitItem(benc); ok && len(rest) == 0 {
		root := toMnode(it, 0)
		root.kids[1] = &mnode{override: append(hdr(0xc0, 60000), bytesOf(0x80, 60000)...)}
		add("block", "adv:txs=60000-empty-strings", root.ser())
	}
	valid := map[string][]byte{"txbin": small, "header": henc, "block": benc}
	valid["txrlp"], _ = rlp.EncodeToBytes(g.tx())
	valid["txlist"], _ = rlp.EncodeToBytes(tx.Transactions{g.tx(), g.tx()})
	valid["rcbin"], _ = g.receipt().MarshalBinary()
	valid["rcrlp"], _ = rlp.EncodeToBytes(g.receipt())
	for _, kind := range []string{"txbin", "txrlp", "txlist", "header", "block", "rcbin", "rcrlp"} {
		v := valid[kind]
		add(kind, "adv:nested-3000", nested(3000))
		add(kind, "adv:string-in-string-x200", func() []byte {
			b := v
			for i := 0; i < 200; i++ {
				b = encStr(b)
			}
			return b
		}())
		for _, p := range [][]byte{{0xbf, 255, 255, 255, 255, 255, 255, 255, 255}, {0xff, 255, 255, 255, 255, 255, 255, 255, 255}, {0xfb, 0x7f, 255, 255, 255},
			{0xbb, 0x7f, 255, 255, 255}, {0xfa, 255, 255, 255}, {0xf9, 255, 255}} {
			add(kind, "adv:huge-prefix", append(append([]byte{}, p...), v...))
			if len(v) > 4 {
				add(kind, "adv:huge-prefix-inside", append(append(append([]byte{}, v[:3]...), p...), v[3:]...))
			}
		}
	}
	return
}

func bytesOf(b byte, n int) []byte {
	out := make([]byte, n)
	for i := range out {
		out[i] = b
	}
	return out
}

var untraced, txReuseSeen int

const traceMaxLen = 16 << 10 // longer inputs are judged by the driver only (reject-or-round-trip, budget), not re-derived by TLC

func runMutate(seed int64, n int, out string) {
	g := newGen(seed)
	r := &result{Mode: "mutate", Extra: map[string]any{}}
	var evs []trace.Ev
	evs = append(evs, trace.Ev{"e": "Reset", "seed": seed})
	seen := map[string]bool{}
	ops := map[string]int{}
	accByKind := map[string]int{}
	var kind string
	var base []byte
	idx := 0
	for _, a := range g.adversarial() {
		ops["adversarial"]++
		if len(a.x) <= traceMaxLen {
			idx++
		}
		evs, r = logOne(evs, r, idx, a.kind, a.x, a.op, seen, nil, accByKind)
		if budget.Hung {
			break
		}
	}
	for i := 0; i < n && !budget.Hung; i++ {
		if i%8 == 0 {
			kind, base = g.base()
			// the valid object itself is part of the trace
			idx++
			evs, r = logOne(evs, r, idx, kind, base, "valid", seen, base, accByKind)
			ops["valid"]++
		}
		x, op := g.mutant(kind, base)
		ops[strings.SplitN(op, "+", 2)[0]]++
		idx++
		evs, r = logOne(evs, r, idx, kind, x, op, seen, base, accByKind)
	}
	evs = append(evs, trace.Ev{"e": "End", "n": idx})
	if err := trace.WriteNDJSON(filepath.Join(out, "trace.ndjson"), evs); err != nil {
		fatal("write trace: %v", err)
	}
	r.Extra["ops"] = ops
	r.Extra["inputs_too_long_for_the_trace"] = untraced
	r.Extra["tx_decoded_into_used_object_keeps_old_id"] = txReuseSeen
	r.Extra["accepted_by_kind"] = accByKind
	writeResult(out, r)
}

func logOne(evs []trace.Ev, r *result, idx int, kind string, x []byte, op string, seen map[string]bool, base []byte, acc map[string]int) ([]trace.Ev, *result) {
	o, bd := observeTimed(kind, x)
	r.Evaluations++
	if bd != nil {
		bd.Index, bd.ID = idx, op
		r.Deviations = append(r.Deviations, *bd)
	}
	if o.TxReuse {
		txReuseSeen++
	}
	k := kind + ":" + string(x)
	if !seen[k] {
		seen[k] = true
		r.Distinct++
		// non-trivial: not a valid base encoding, and the outermost item is well-formed and spans the input, so that the
		// decoder gets to the field-level rules
		pre := 0
		if (kind == "txbin" || kind == "rcbin") && len(x) > 0 && x[0] <= 0x7f {
			pre = 1
		}
		if it, rest, ok := splitItem(x[pre:]); ok && len(rest) == 0 && it != nil && string(x) != string(base) {
			r.Nontrivial++
		}
	}
	switch o.Verdict {
	case "accept":
		r.Accepted++
		acc[kind]++
	case "reject":
		r.Rejected++
	}
	devs := judge(kind, x, false, false, o, op, modelStream{})
	for _, d := range devs {
		d.Index = idx
		d.ID = op
		if len(x) > traceMaxLen {
			d.Index = -1
			d.Input = hex.EncodeToString(clip(x, 2048)) + "..."
			d.Reenc = ""
		}
		r.Deviations = append(r.Deviations, d)
	}
	if len(x) <= traceMaxLen {
		ev := trace.Ev{"e": "Dec", "i": idx, "kind": kind, "x": ints(x), "ok": o.Verdict == "accept", "same": o.Same, "size": o.Size, "op": op,
			"s0ok": o.S0.Verdict == "accept", "s0n": o.S0.N, "s1ok": o.S1.Verdict == "accept", "s1n": o.S1.N}
		if o.Verdict == "panic" || o.Verdict == "hang" || o.S0.Verdict == "panic" || o.S1.Verdict == "panic" {
			ev["panic"] = true
		}
		evs = append(evs, ev)
	} else {
		untraced++
	}
	if len(r.Samples) < 5 && (op != "valid") && idx%7 == 0 {
		r.Samples = append(r.Samples, map[string]any{"kind": kind, "mutation": op, "bytes": hex.EncodeToString(clip(x, 80)), "len": len(x),
			"real": o.Verdict, "reencodes_identically": o.Same, "size": o.Size, "err": clipS(o.Err, 100)})
	}
	return evs, r
}
