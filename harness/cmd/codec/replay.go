package main

import (
	"bufio"
	"encoding/hex"
	"encoding/json"
	"os"
	"strings"
)

type modelCase struct {
	ID   string `json:"id"`
	Kind string `json:"kind"`
	Site string `json:"site"`
	Form string `json:"form"`
	X    []int  `json:"x"`
	OK   bool   `json:"ok"`
	S0   *struct {
		OK bool `json:"ok"`
		N  int  `json:"n"`
	} `json:"s0"`
	S1 *struct {
		OK bool `json:"ok"`
		N  int  `json:"n"`
	} `json:"s1"`
}

func readCases(path string) []modelCase {
	f, err := os.Open(path)
	if err != nil {
		fatal("open cases: %v", err)
	}
	defer f.Close()
	var cs []modelCase
	sc := bufio.NewScanner(f)
	sc.Buffer(make([]byte, 1<<20), 1<<28)
	for sc.Scan() {
		if len(sc.Bytes()) == 0 {
			continue
		}
		var c modelCase
		if err := json.Unmarshal(sc.Bytes(), &c); err != nil {
			fatal("bad case line: %v", err)
		}
		cs = append(cs, c)
	}
	if err := sc.Err(); err != nil {
		fatal("read cases: %v", err)
	}
	return cs
}

func toBytes(xs []int) []byte {
	b := make([]byte, len(xs))
	for i, v := range xs {
		if v < 0 || v > 255 {
			fatal("byte out of range in case: %d", v)
		}
		b[i] = byte(v)
	}
	return b
}

// runReplay: model -> implementation. Every case of the TLC export is decoded by the real types.
func runReplay(casesPath, out string) {
	cs := readCases(casesPath)
	r := &result{Mode: "replay", Extra: map[string]any{}}
	seen := map[string]bool{}
	nonCanonAccepted, txReuse, streamCases := 0, 0, 0
	byKind := map[string][2]int{}
	for i, c := range cs {
		x := toBytes(c.X)
		o, bd := observeTimed(c.Kind, x)
		r.Evaluations++
		if bd != nil {
			bd.ID, bd.Index = c.ID, i
			r.Deviations = append(r.Deviations, *bd)
		}
		if o.TxReuse {
			txReuse++
		}
		var ms modelStream
		if c.S0 != nil && c.S1 != nil {
			ms = modelStream{Known: true, S0ok: c.S0.OK, S0n: c.S0.N, S1ok: c.S1.OK, S1n: c.S1.N, HaveS1: len(x) > 1}
			streamCases++
		} else if streamKinds[c.Kind] {
			fatal("case %s of a stream kind carries no stream verdicts", c.ID)
		}
		k := c.Kind + ":" + string(x)
		if !seen[k] {
			seen[k] = true
			r.Distinct++
			// non-trivial: not the untouched canonical object
			if !(c.Site == "top" && c.Form == "canonical") {
				r.Nontrivial++
			}
		}
		bk := byKind[c.Kind]
		if o.Verdict == "accept" {
			r.Accepted++
			bk[0]++
		} else if o.Verdict == "reject" {
			r.Rejected++
			bk[1]++
		}
		byKind[c.Kind] = bk
		for _, d := range judge(c.Kind, x, true, c.OK, o, c.Site+"="+c.Form, ms) {
			d.ID, d.Index = c.ID, i
			r.Deviations = append(r.Deviations, d)
			if strings.HasPrefix(d.Sig, "noncanonical-accepted") {
				nonCanonAccepted++
			}
		}
		if budget.Hung {
			r.Extra["stopped_after_hang_at_case"] = c.ID // the hung goroutines cannot be stopped: do not pile up more
			break
		}
		if len(r.Samples) < 4 && i%(len(cs)/4+1) == 0 {
			r.Samples = append(r.Samples, map[string]any{"case": c.ID, "bytes": hex.EncodeToString(clip(x, 96)), "len": len(x),
				"model": verdictStr(c.OK), "real": o.Verdict, "reencodes_identically": o.Same, "size": o.Size, "err": clipS(o.Err, 120)})
		}
	}
	r.Extra["by_kind_accept_reject"] = byKind
	r.Extra["noncanonical_accepted"] = nonCanonAccepted
	r.Extra["stream_cases"] = streamCases
	r.Extra["tx_decoded_into_used_object_keeps_old_id"] = txReuse
	writeResult(out, r)
}

func verdictStr(ok bool) string {
	if ok {
		return "accept"
	}
	return "reject"
}

func clip(b []byte, n int) []byte {
	if len(b) > n {
		return b[:n]
	}
	return b
}

func clipS(s string, n int) string {
	if len(s) > n {
		return s[:n]
	}
	return s
}
