// statejournal is the C06 driver: operation histories on a REAL state.State over a real muxdb.
//
//	statejournal -mode replay -in behaviours.ndjson -out result.json [-na 2 -nk 2] [-limit N] -seed S
//	    model -> implementation: behaviours exported by TLC from specs/state/MC_StateJournal.tla are executed; after
//	    every step all getters of the whole (small) universe are compared with the view the specification predicts,
//	    NewCheckpoint's result with the predicted revision, and at every Stage the real root hash must be in bijection
//	    with the predicted canonical content over ALL behaviours of the file.
//	statejournal -mode random -out <dir> -runs N -ops K -seed S
//	    implementation -> model: seeded random histories, recorded as <dir>/trace.ndjson for Trace_StateJournal.tla
//	    (+ runs.json statistics, roots.json interning table).
//
// Exit 0 normally (deviations are data: result.json / Error events), 3 + "HARNESS-ERROR ..." for own trouble.
package main

import (
	"encoding/json"
	"flag"
	"fmt"
	"math/big"
	"os"

	"github.com/vechain/thor/v2/thor"
)

func harnessErr(f string, a ...any) {
	fmt.Printf("HARNESS-ERROR "+f+"\n", a...)
	os.Exit(3)
}

func writeJSON(path string, v any) {
	b, err := json.Marshal(v)
	if err != nil {
		harnessErr("marshal %s: %v", path, err)
	}
	if err := os.WriteFile(path, b, 0o644); err != nil {
		harnessErr("write %s: %v", path, err)
	}
}

func main() {
	mode := flag.String("mode", "random", "replay | random")
	in := flag.String("in", "", "behaviours (ndjson) for -mode replay")
	out := flag.String("out", "", "output file (replay) or directory (random)")
	na := flag.Int("na", 2, "addresses in the replayed model")
	nk := flag.Int("nk", 2, "keys in the replayed model")
	limit := flag.Int("limit", 0, "replay at most this many behaviours (evenly spread)")
	runs := flag.Int("runs", 4, "random runs")
	nops := flag.Int("ops", 300, "operations per random run (part A draws from [ops/2, 3*ops/2))")
	seed := flag.Int64("seed", 1, "seed")
	flag.Parse()
	defer func() {
		if p := recover(); p != nil {
			harnessErr("%v", p)
		}
	}()
	// the specification's CalcEnergy is scaled with this constant (GrowthDiv = 1e18 / rate = 2e8)
	if thor.EnergyGrowthRate.Cmp(big.NewInt(5000000000)) != 0 {
		harnessErr("thor.EnergyGrowthRate changed; StateJournal.tla GrowthDiv must be adapted")
	}
	switch *mode {
	case "replay":
		replayMain(*in, *out, *na, *nk, *seed, *limit)
	case "random":
		if err := os.MkdirAll(*out, 0o755); err != nil {
			harnessErr("%v", err)
		}
		randomMain(*out, *runs, *seed, *nops)
	default:
		harnessErr("unknown mode %s", *mode)
	}
}
