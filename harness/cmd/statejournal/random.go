package main

// implementation -> model: seeded random histories on a real state.State, recorded as an event trace that
// Trace_StateJournal.tla validates (every logged getter result is recomputed from the specification; at every Stage
// the specification's content and the real root must be in bijection over the whole trace).
//
// A run has two parts:
//   A  a long random history over a large universe (hundreds of addresses, small and large key sets): writes of all
//      kinds, zero values, raw list values, delete-then-recreate, nested checkpoints, reverts across deletions,
//      interleaved Stage / Commit / Reopen at successive versions and conflict numbers.
//   B  order independence: one straight-line operation list is executed three times on fresh databases - as is,
//      with the per-address subsequences interleaved differently and reverted junk work in between, and cut into
//      pieces by Commit+Reopen.  Whether two of these end in the same content is decided by the specification;
//      whenever it says "same", the real roots must be equal (and different otherwise).
//   C  sibling states: two live State objects opened from the same committed root, operated on alternately, staged to
//      sibling versions (same major version, conflict numbers 0 and 1), committed in the other order, both re-opened
//      and read back; one of them keeps living after its commit and commits a second time.
// Runs with api = statedb go through runtime/statedb where it has the operation and also journal logs, transfers and
// refunds (AddLog / AddTransfer / AddRefund, read back with GetLogs / GetRefund after every event).

import (
	"fmt"
	"math/rand"
	"sort"
	"strings"

	"github.com/vechain/thor/v2/thor"
	"github.com/vechain/thor/v2/trie"

	"verifharness/internal/trace"
)

type runStat struct {
	Run            int    `json:"run"`
	Seed           int64  `json:"seed"`
	Cache          string `json:"cache"`
	API            string `json:"api"`
	Events         int    `json:"events"`
	Addresses      int    `json:"addresses"`
	MaxKeysPerAddr int    `json:"maxKeysPerAddr"`
	Deletes        int    `json:"deletes"`
	Recreates      int    `json:"recreates"`           // writes to an address deleted earlier in the same State
	RevertsOverDel int    `json:"revertsAcrossDelete"` // RevertTo that undid at least one Delete
	Reverts        int    `json:"reverts"`
	MaxDepth       int    `json:"maxDepth"`
	ZeroWrites     int    `json:"zeroWrites"`
	ListWrites     int    `json:"listWrites"`
	Stages         int    `json:"stages"`
	Commits        int    `json:"commits"`
	Reopens        int    `json:"reopens"`
	Roots          int    `json:"distinctRoots"`
	RootRepeats    int    `json:"stagesHittingKnownRoot"`
	BlindObjects   int    `json:"blindStateObjects"`
	MidStages      int    `json:"stageThenRevertBelowIt"`
	BlindWrites    int    `json:"blindStorageWrites"`
	EncodeWrites   int    `json:"encodeStorageWrites"`
	SideOps        int    `json:"logTransferRefundOps"`
	SideReverted   int    `json:"revertsDroppingLogs"`
	BuildTries     int    `json:"buildStorageTrie"`
	SiblingCommits int    `json:"siblingCommits"`
	Switches       int    `json:"stateSwitches"`
	Error          string `json:"error,omitempty"`
}

type op struct {
	name       string
	a, k, v, t int
	ver        *trie.Version // Stage at this version (sibling versions); nil: the next unused one
}

// per State object: what the generator remembers about it
type book struct {
	deleted map[int]bool // deleted in this State object (never cleared by reverts)
	delLvl  []int        // checkpoint depth at which each not-yet-reverted Delete happened
	logLvl  []int        // checkpoint depth at which each not-yet-reverted log/transfer/refund was journaled
	depth   int
	// blind: no storage getter and no BuildStorageTrie is called on this State object before its first Stage, so that
	// Stage has to open the base storage tries itself (native builtin code writes slots it never read)
	blind bool
}

func newBook() book { return book{deleted: map[int]bool{}, depth: 1} }

type recorder struct {
	rng     *rand.Rand
	evs     *[]trace.Ev
	roots   *trace.Interner
	sroots  *trace.Interner
	seenRt  map[string]bool
	st      *runStat
	w       *world
	touched map[int]map[int]bool // address -> keys ever mentioned in this part
	order   []int                // touched addresses in first-touch order
	book                         // of the current State object
	books   map[int]*book        // of the parked ones
	cur     int                  // id of the current State object
	fresh   int                  // counter for storage keys never mentioned before
	failed  bool
}

var balAlphabet = []int{0, 0, 1, 2, 3, 7, 100000000, 200000000, 500000000}

func (r *recorder) emit(e trace.Ev) { *r.evs = append(*r.evs, e); r.st.Events++ }

func (r *recorder) fail(what string, err any) {
	r.failed = true
	r.st.Error = fmt.Sprintf("%s: %v", what, err)
	r.emit(trace.Ev{"e": "Error", "what": what, "err": fmt.Sprint(err)})
}

func (r *recorder) touch(a, k int) {
	m, ok := r.touched[a]
	if !ok {
		m = map[int]bool{}
		r.touched[a] = m
		r.order = append(r.order, a)
	}
	if k != 0 {
		m[k] = true
		if len(m) > r.st.MaxKeysPerAddr {
			r.st.MaxKeysPerAddr = len(m)
		}
	}
}

func (r *recorder) keysOf(a int) []int {
	ks := make([]int, 0, len(r.touched[a]))
	for k := range r.touched[a] {
		ks = append(ks, k)
	}
	sort.Ints(ks)
	return ks
}

// reads of one address: all getters, the given keys
func (r *recorder) readOne(a int, keys []int) (map[string]any, bool) {
	qt, qs := r.rng.Intn(5), r.rng.Intn(5)
	if r.blind {
		keys = nil
	}
	rd, err := r.w.read(a, keys, qt, qs)
	if err != nil {
		r.fail("getter", err)
		return nil, false
	}
	return rd.json(), true
}

// reads after an ordinary operation: the touched address (the touched key and up to two more), one other address
func (r *recorder) readsAfter(a, k int) ([]any, bool) {
	var out []any
	add := func(a int, keys []int) bool {
		j, ok := r.readOne(a, keys)
		if ok {
			out = append(out, j)
		}
		return ok
	}
	if a != 0 {
		keys := []int{}
		if k != 0 {
			keys = append(keys, k)
		}
		all := r.keysOf(a)
		for i := 0; i < 2 && len(all) > 0; i++ {
			keys = append(keys, all[r.rng.Intn(len(all))])
		}
		if !add(a, keys) {
			return nil, false
		}
	}
	if len(r.order) > 0 {
		b := r.order[r.rng.Intn(len(r.order))]
		all := r.keysOf(b)
		keys := []int{}
		if len(all) > 0 {
			keys = append(keys, all[r.rng.Intn(len(all))])
		}
		if !add(b, keys) {
			return nil, false
		}
	}
	return out, true
}

// the full logical content of the touched universe
func (r *recorder) readsAll() ([]any, bool) {
	out := make([]any, 0, len(r.order))
	for _, a := range r.order {
		j, ok := r.readOne(a, r.keysOf(a))
		if !ok {
			return nil, false
		}
		out = append(out, j)
	}
	return out, true
}

func (r *recorder) apply(o op) {
	if r.failed {
		return
	}
	w := r.w
	var err error
	ev := trace.Ev{"e": o.name}
	full := false
	switch o.name {
	case "SetBalance":
		err = w.setBalance(o.a, o.v)
		ev["a"], ev["v"] = o.a, o.v
	case "SetEnergy":
		err = w.setEnergy(o.a, o.v, o.t)
		ev["a"], ev["v"], ev["t"] = o.a, o.v, o.t
	case "SetMaster":
		err = w.setMaster(o.a, o.v)
		ev["a"], ev["v"] = o.a, o.v
	case "SetCode":
		err = w.setCode(o.a, o.v)
		ev["a"], ev["v"] = o.a, o.v
	case "SetStorage":
		w.setStorage(o.a, o.k, o.v)
		ev["a"], ev["k"], ev["v"] = o.a, o.k, o.v
	case "SetRawStorage":
		w.setRawStorage(o.a, o.k, o.v)
		ev["a"], ev["k"], ev["v"] = o.a, o.k, o.v
	case "EncodeStorage":
		err = w.encodeStorage(o.a, o.k, o.v)
		ev["a"], ev["k"], ev["v"] = o.a, o.k, o.v
		r.st.EncodeWrites++
	case "AddLog":
		w.addLog(o.v)
		ev["id"] = o.v
	case "AddTransfer":
		w.addTransfer(o.v)
		ev["id"] = o.v
	case "AddRefund":
		w.addRefund(o.v)
		ev["v"] = o.v
	case "BuildStorageTrie":
		if r.blind {
			return
		}
		h, berr := w.buildStorageRoot(o.a)
		if berr != nil {
			r.fail("BuildStorageTrie", berr)
			return
		}
		ev["a"], ev["sroot"] = o.a, r.sroots.Name(h[:])
		r.st.BuildTries++
		r.emit(ev)
		return
	case "Fork":
		root := w.commits[o.v-1]
		w.fork(r.cur, root)
		b := r.book
		r.books[r.cur] = &b
		r.book, r.cur = newBook(), o.t
		ev["id"], ev["ci"], ev["root"] = o.t, o.v, r.roots.Name(root.Hash[:])
		full = true
	case "Switch":
		w.switchTo(r.cur, o.t)
		b := r.book
		r.books[r.cur] = &b
		r.book = *r.books[o.t]
		delete(r.books, o.t)
		r.cur = o.t
		ev["to"] = o.t
		r.st.Switches++
		full = true
	case "Delete":
		ev["a"] = o.a
		done := true
		if w.sdb != nil {
			// through statedb: Suicide deletes only an existing account and reports whether it did
			done = w.suicide(o.a)
			ev["e"], ev["res"] = "Suicide", done
		} else {
			w.del(o.a)
		}
		if done {
			r.st.Deletes++
			r.deleted[o.a] = true
			r.delLvl = append(r.delLvl, r.depth)
		}
	case "NewCheckpoint":
		ev["rev"] = w.checkpoint()
		r.depth++
		if r.depth > r.st.MaxDepth {
			r.st.MaxDepth = r.depth
		}
	case "RevertTo":
		w.revertTo(o.v)
		ev["rev"] = o.v
		r.st.Reverts++
		if o.v < r.depth {
			r.depth = o.v
		}
		dropped := false
		for len(r.logLvl) > 0 && r.logLvl[len(r.logLvl)-1] > r.depth {
			r.logLvl = r.logLvl[:len(r.logLvl)-1]
			dropped = true
		}
		if dropped {
			r.st.SideReverted++
		}
		undone := false
		for len(r.delLvl) > 0 && r.delLvl[len(r.delLvl)-1] > r.depth {
			r.delLvl = r.delLvl[:len(r.delLvl)-1]
			undone = true
		}
		if undone {
			r.st.RevertsOverDel++
		}
		full = true
	case "Stage":
		var h thor.Bytes32
		var ver trie.Version
		var serr error
		if o.ver != nil {
			h, ver, serr = w.doStageAt(*o.ver)
		} else {
			h, ver, serr = w.doStage()
		}
		if serr != nil {
			r.fail("Stage", serr)
			return
		}
		r.blind = false
		name := r.roots.Name(h[:])
		ev["root"], ev["maj"], ev["min"] = name, ver.Major, ver.Minor
		r.st.Stages++
		if r.seenRt[name] {
			r.st.RootRepeats++
		} else {
			r.seenRt[name] = true
			r.st.Roots++
		}
	case "Commit":
		n, cerr := w.doCommit()
		if cerr != nil {
			r.fail("Commit", cerr)
			return
		}
		ev["ci"], ev["root"] = n, r.roots.Name(w.stRoot.Hash[:])
		r.st.Commits++
	case "Reopen":
		flushCodeCache()
		root := w.commits[o.v-1]
		w.open(root)
		ev["ci"], ev["root"] = o.v, r.roots.Name(root.Hash[:])
		r.st.Reopens++
		r.book = newBook()
		if o.t == 1 {
			r.blind = true
			r.st.BlindObjects++
		}
		full = true
	default:
		panic("HARNESS: unknown op " + o.name)
	}
	if err != nil {
		r.fail(o.name, err)
		return
	}
	if o.a != 0 {
		if r.deleted[o.a] && o.name != "Delete" {
			r.st.Recreates++
		}
		r.touch(o.a, o.k)
	}
	if r.blind && (o.name == "SetStorage" || o.name == "SetRawStorage" || o.name == "EncodeStorage") {
		r.st.BlindWrites++
	}
	if (o.name == "SetStorage" || o.name == "SetRawStorage" || o.name == "EncodeStorage") && o.v == 0 {
		r.st.ZeroWrites++
	}
	if (o.name == "SetRawStorage" || o.name == "EncodeStorage") && o.v >= listBase {
		r.st.ListWrites++
	}
	if o.name == "AddLog" || o.name == "AddTransfer" || o.name == "AddRefund" {
		r.st.SideOps++
		r.logLvl = append(r.logLvl, r.depth)
	}
	var rd []any
	var ok bool
	if full {
		rd, ok = r.readsAll()
	} else if o.name == "Commit" || o.name == "NewCheckpoint" {
		rd, ok = []any{}, true
	} else {
		rd, ok = r.readsAfter(o.a, o.k)
	}
	if !ok {
		return
	}
	if rd == nil {
		rd = []any{}
	}
	ev["rd"] = rd
	if w.sdb != nil {
		ev["sj"] = w.readSide().json()
	}
	r.emit(ev)
}

// fresh database + empty State
func (r *recorder) reset(hdr trace.Ev, cache string, viaStateDB bool) {
	r.w = &world{d: newDB(cache), useSDB: viaStateDB}
	r.w.open(trie.Root{})
	r.touched, r.order = map[int]map[int]bool{}, nil
	r.book, r.books, r.cur = newBook(), map[int]*book{}, 1
	r.emit(hdr)
}

func (r *recorder) randValue() (string, int) {
	x := r.rng.Intn(100)
	switch {
	case x < 18:
		return "SetStorage", 0
	case x < 24:
		return "SetRawStorage", 0
	case x < 70:
		return "SetStorage", 1 + r.rng.Intn(300)
	case x < 76:
		return "SetRawStorage", 1 + r.rng.Intn(300)
	case x < 80:
		return "EncodeStorage", 1 + r.rng.Intn(300)
	case x < 88:
		return "SetRawStorage", listBase + r.rng.Intn(8)
	case x < 97:
		return "EncodeStorage", listBase + r.rng.Intn(8)
	default:
		return "EncodeStorage", 0
	}
}

func (r *recorder) metaOp(a int) op {
	switch x := r.rng.Intn(30); {
	case x < 12:
		return op{name: "SetBalance", a: a, v: balAlphabet[r.rng.Intn(len(balAlphabet))]}
	case x < 20:
		return op{name: "SetEnergy", a: a, v: []int{0, 0, 1, 5, 9}[r.rng.Intn(5)], t: r.rng.Intn(5)}
	case x < 25:
		return op{name: "SetMaster", a: a, v: []int{0, 0, 1, 2, 3}[r.rng.Intn(5)]}
	default:
		return op{name: "SetCode", a: a, v: []int{0, 0, 1, 2, 3, 4}[r.rng.Intn(6)]}
	}
}

func (r *recorder) sideOp() op {
	switch r.rng.Intn(3) {
	case 0:
		return op{name: "AddLog", v: 1 + r.rng.Intn(40)}
	case 1:
		return op{name: "AddTransfer", v: 1 + r.rng.Intn(40)}
	}
	return op{name: "AddRefund", v: 1 + r.rng.Intn(20000)}
}

// part C: precondition - the current State object (id 1) was just re-opened from the latest commit
func (r *recorder) partC(na int) {
	parent := len(r.w.commits)
	small := 2 + r.rng.Intn(6)
	write := func() {
		a := 1 + r.rng.Intn(na)
		if len(r.order) > 0 && r.rng.Intn(2) == 0 {
			a = r.order[r.rng.Intn(len(r.order))] // committed accounts of the parent: both siblings change the same tries
		}
		switch x := r.rng.Intn(10); {
		case x < 3:
			r.apply(r.metaOp(a))
		case x < 9:
			name, v := r.randValue()
			r.apply(op{name: name, a: a, k: 1 + r.rng.Intn(small), v: v})
		default:
			r.apply(op{name: "Delete", a: a})
		}
	}
	// a contract with committed storage that both siblings are going to write
	ca := 1
	r.apply(op{name: "SetBalance", a: ca, v: 1})
	r.apply(op{name: "SetStorage", a: ca, k: 1, v: 11})
	r.apply(op{name: "Stage"})
	r.apply(op{name: "Commit"})
	if r.failed {
		return
	}
	parent = len(r.w.commits)
	r.apply(op{name: "Reopen", v: parent})
	for i, n := 0, 1+r.rng.Intn(6); i < n; i++ {
		write()
	}
	r.apply(op{name: "Fork", v: parent, t: 2})
	for i, n := 0, 10+r.rng.Intn(30); i < n && !r.failed; i++ {
		write()
		if r.rng.Intn(3) == 0 {
			r.apply(op{name: "Switch", t: 3 - r.cur})
		}
	}
	if r.failed {
		return
	}
	if r.cur != 1 {
		r.apply(op{name: "Switch", t: 1})
	}
	r.apply(op{name: "SetBalance", a: ca, v: 1})
	r.apply(op{name: "SetStorage", a: ca, k: 2, v: 21})
	r.apply(op{name: "Switch", t: 2})
	r.apply(op{name: "SetBalance", a: ca, v: 1})
	r.apply(op{name: "EncodeStorage", a: ca, k: 2, v: 22})
	r.apply(op{name: "Switch", t: 1})
	va, vb := r.w.d.siblingVers()
	r.apply(op{name: "Stage", ver: &va}) // state 1 at (major, 0)
	r.apply(op{name: "Switch", t: 2})
	r.apply(op{name: "Stage", ver: &vb}) // state 2 at (major, 1)
	r.apply(op{name: "Commit"})          // state 2 commits first
	c2 := len(r.w.commits)
	r.apply(op{name: "Switch", t: 1})
	r.apply(op{name: "Commit"})
	c1 := len(r.w.commits)
	r.st.SiblingCommits += 2
	if r.failed {
		return
	}
	// state 2 stays alive; state 1's object is replaced by re-opened ones
	r.apply(op{name: "Reopen", v: c1})
	// on top of the sibling committed with conflict number 1 (the conflict-0 sibling wrote the same contract): a State
	// object that writes the contract's storage without ever reading it, staged, committed, read back
	r.apply(op{name: "Reopen", v: c2, t: 1})
	r.apply(op{name: []string{"SetStorage", "SetRawStorage", "EncodeStorage"}[r.rng.Intn(3)], a: ca, k: 3, v: 31})
	for i, n := 0, r.rng.Intn(4); i < n; i++ {
		write()
	}
	r.apply(op{name: "Stage"})
	r.apply(op{name: "Commit"})
	if r.failed {
		return
	}
	r.apply(op{name: "Reopen", v: len(r.w.commits)})
	r.stageInTheMiddle(ca)
	r.apply(op{name: "Reopen", v: c2})
	r.stageInTheMiddle(ca)
	r.apply(op{name: "Switch", t: 2}) // the live sibling after the other one's commit and the re-opens
	for i, n := 0, 1+r.rng.Intn(8); i < n; i++ {
		write()
	}
	r.apply(op{name: "Stage"})
	r.apply(op{name: "Commit"})
	if !r.failed {
		r.apply(op{name: "Reopen", v: len(r.w.commits)})
	}
}

// stageInTheMiddle: Stage is an operation that may occur at any point and must leave the State as it was.  Checkpoint;
// write slots of a never mentioned before (no getter has cached them) and one known slot; Stage without commit; revert
// below the staged writes - the full read after RevertTo fetches the fresh slots straight from the storage trie the
// State keeps open -; write another slot and Stage again: reads and the second root must be those of the map model.
func (r *recorder) stageInTheMiddle(a int) {
	if r.blind || r.depth >= 6 || r.failed {
		return
	}
	r.apply(op{name: "NewCheckpoint"})
	lvl := r.depth - 1
	for i, n := 0, 1+r.rng.Intn(3); i < n; i++ {
		r.fresh++
		r.apply(op{name: []string{"SetStorage", "SetRawStorage", "EncodeStorage"}[r.rng.Intn(3)], a: a, k: 100000 + r.fresh, v: 1 + r.rng.Intn(300)})
	}
	if ks := r.keysOf(a); len(ks) > 0 {
		r.apply(op{name: "SetStorage", a: a, k: ks[r.rng.Intn(len(ks))], v: r.rng.Intn(2) * (301 + r.rng.Intn(300))})
	}
	r.apply(op{name: "Stage"})
	r.apply(op{name: "RevertTo", v: lvl})
	r.fresh++
	r.apply(op{name: "SetStorage", a: a, k: 100000 + r.fresh, v: 1 + r.rng.Intn(300)})
	r.apply(op{name: "Stage"})
	r.st.MidStages++
}

// part A
func (r *recorder) partA(nOps, na int) {
	hot := 1 + r.rng.Intn(3)        // addresses 1..hot get big key sets
	bigKeys := 40 + r.rng.Intn(160) // size of their key pool
	smallKeys := 2 + r.rng.Intn(8)
	var recent []int // recently deleted
	pickAddr := func() int {
		x := r.rng.Intn(100)
		switch {
		case x < 12 && len(recent) > 0:
			return recent[r.rng.Intn(len(recent))]
		case x < 27:
			return 1 + r.rng.Intn(hot)
		case x < 52 && len(r.order) > 0:
			return r.order[r.rng.Intn(len(r.order))]
		default:
			return 1 + r.rng.Intn(na)
		}
	}
	pickKey := func(a int) int {
		if a <= hot {
			return 1 + r.rng.Intn(bigKeys)
		}
		return 1 + r.rng.Intn(smallKeys)
	}
	for i := 0; i < nOps && !r.failed; i++ {
		x := r.rng.Intn(100)
		if r.w.sdb != nil && r.rng.Intn(9) == 0 {
			r.apply(r.sideOp())
			continue
		}
		if r.rng.Intn(60) == 0 {
			r.stageInTheMiddle(pickAddr())
			continue
		}
		switch {
		case x < 30:
			r.apply(r.metaOp(pickAddr()))
		case x < 68:
			a := pickAddr()
			name, v := r.randValue()
			r.apply(op{name: name, a: a, k: pickKey(a), v: v})
		case x < 75:
			a := pickAddr()
			r.apply(op{name: "Delete", a: a})
			recent = append(recent, a)
			if len(recent) > 6 {
				recent = recent[1:]
			}
		case x < 82:
			if r.depth < 6 {
				r.apply(op{name: "NewCheckpoint"})
			}
		case x < 88:
			if r.depth > 1 {
				rev := 1 + r.rng.Intn(r.depth-1)
				if r.rng.Intn(12) == 0 && r.w.sdb == nil {
					rev = r.depth + r.rng.Intn(2) // not below the current depth: nothing happens
				}
				r.apply(op{name: "RevertTo", v: rev})
			}
		case x < 90:
			r.apply(op{name: "Stage"})
		case x < 92:
			// the storage trie of an address that was not deleted in this State object
			if a := pickAddr(); !r.deleted[a] {
				r.apply(op{name: "BuildStorageTrie", a: a})
			}
		case x < 97:
			r.apply(op{name: "Stage"})
			r.apply(op{name: "Commit"})
			if r.rng.Intn(3) > 0 && !r.failed {
				r.apply(op{name: "Reopen", v: len(r.w.commits), t: r.rng.Intn(3) / 2}) // every third one blind
				recent = nil
			}
		default:
			if n := len(r.w.commits); n > 0 {
				// an older root: the next commit becomes a sibling version of what was committed after it
				r.apply(op{name: "Reopen", v: 1 + r.rng.Intn(n), t: r.rng.Intn(3) / 2})
				recent = nil
			}
		}
	}
	if !r.failed {
		r.apply(op{name: "Stage"})
		r.apply(op{name: "Commit"})
	}
	if !r.failed {
		r.apply(op{name: "Reopen", v: len(r.w.commits)})
	}
}

// part B
func (r *recorder) straightLine(n, na, nk int) []op {
	ops := make([]op, 0, n)
	for i := 0; i < n; i++ {
		a := 1 + r.rng.Intn(na)
		switch x := r.rng.Intn(100); {
		case x < 35:
			ops = append(ops, r.metaOp(a))
		case x < 92:
			name, v := r.randValue()
			ops = append(ops, op{name: name, a: a, k: 1 + r.rng.Intn(nk), v: v})
		default:
			ops = append(ops, op{name: "Delete", a: a})
		}
	}
	return ops
}

func (r *recorder) junk(na, nk int) {
	r.apply(op{name: "NewCheckpoint"})
	lvl := r.depth - 1
	for i, n := 0, 1+r.rng.Intn(5); i < n; i++ {
		a := 1 + r.rng.Intn(na)
		switch r.rng.Intn(4) {
		case 0:
			r.apply(op{name: "Delete", a: a})
		case 1:
			r.apply(r.metaOp(a))
		default:
			name, v := r.randValue()
			r.apply(op{name: name, a: a, k: 1 + r.rng.Intn(nk), v: v})
		}
	}
	r.apply(op{name: "RevertTo", v: lvl})
}

func (r *recorder) partB(hdr func(sub string) trace.Ev, cache string) {
	na, nk := 3+r.rng.Intn(30), 2+r.rng.Intn(6)
	ops := r.straightLine(30+r.rng.Intn(150), na, nk)
	// B1: as is
	r.reset(hdr("B1"), cache, false)
	for _, o := range ops {
		r.apply(o)
	}
	r.apply(op{name: "Stage"})
	// B2: per-address order kept, addresses interleaved differently, reverted junk in between
	r.reset(hdr("B2"), cache, false)
	byAddr := map[int][]op{}
	var addrs []int
	for _, o := range ops {
		if _, ok := byAddr[o.a]; !ok {
			addrs = append(addrs, o.a)
		}
		byAddr[o.a] = append(byAddr[o.a], o)
	}
	for len(addrs) > 0 && !r.failed {
		i := r.rng.Intn(len(addrs))
		a := addrs[i]
		r.apply(byAddr[a][0])
		byAddr[a] = byAddr[a][1:]
		if len(byAddr[a]) == 0 {
			addrs = append(addrs[:i], addrs[i+1:]...)
		}
		if r.rng.Intn(10) == 0 {
			r.junk(na, nk)
		}
	}
	r.apply(op{name: "Stage"})
	// B3: the same list cut by Commit+Reopen (the specification decides whether the content is still the same:
	// an empty account loses its storage at every Stage)
	r.reset(hdr("B3"), cache, false)
	for _, o := range ops {
		r.apply(o)
		if r.rng.Intn(25) == 0 && !r.failed {
			r.apply(op{name: "Stage"})
			r.apply(op{name: "Commit"})
			if !r.failed {
				r.apply(op{name: "Reopen", v: len(r.w.commits)})
			}
		}
	}
	r.apply(op{name: "Stage"})
}

func randomMain(out string, runs int, seed int64, nOps int) {
	var evs []trace.Ev
	roots := trace.NewInterner("r")
	sroots := trace.NewInterner("s")
	seen := map[string]bool{}
	var stats []*runStat
	for i := 0; i < runs; i++ {
		rs := seed*1000003 + int64(i)
		st := &runStat{Run: i, Seed: rs, Cache: []string{"dummy", "real"}[i%2], API: []string{"state", "state", "statedb"}[i%3]}
		stats = append(stats, st)
		r := &recorder{rng: rand.New(rand.NewSource(rs)), evs: &evs, roots: roots, sroots: sroots, seenRt: seen, st: st}
		hdr := func(sub string) trace.Ev {
			return trace.Ev{"e": "Reset", "run": i, "seed": rs, "part": sub, "cache": st.Cache, "api": st.API}
		}
		func() {
			defer func() {
				if p := recover(); p != nil {
					if s, ok := p.(string); ok && strings.HasPrefix(s, "HARNESS") {
						panic(p)
					}
					r.fail("panic", p)
				}
			}()
			na := 60 + r.rng.Intn(500)
			r.reset(hdr("A"), st.Cache, st.API == "statedb")
			n := nOps/2 + r.rng.Intn(nOps)
			r.partA(n, na)
			st.Addresses = len(r.order)
			if !r.failed {
				r.partC(na)
			}
			if !r.failed {
				r.partB(hdr, st.Cache)
			}
		}()
	}
	if err := trace.WriteNDJSON(out+"/trace.ndjson", evs); err != nil {
		harnessErr("write trace: %v", err)
	}
	writeJSON(out+"/runs.json", stats)
	writeJSON(out+"/roots.json", roots.Table())
	fmt.Printf("{\"runs\":%d,\"events\":%d,\"roots\":%d}\n", runs, len(evs), len(seen))
}
