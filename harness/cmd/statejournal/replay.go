package main

// model -> implementation: replay behaviours exported by TLC from MC_StateJournal.tla on a real state.State.
//
// A behaviour is a JSON array of integer arrays  [op, x, y, z, view..., (content...)]  (see MC_StateJournal.tla):
//   op 0 OpenBase(content)  1 SetBalance(a,v) 2 SetEnergy(a,e,t) 3 SetMaster(a,m) 4 SetCode(a,c) 5 SetStorage(a,k,v)
//      7 Delete(a) 8 NewCheckpoint -> x  9 RevertTo(x)  10 Stage -> content  11 Commit -> x-th  12 Reopen(x)
//   view    = per address  bal en bt ms cd st[1..NK]      (what the getters must answer after the step)
//   content = per address  bal en bt ms cd sw st[1..NK]   (the canonical content = the identity of the root)

import (
	"bufio"
	"encoding/json"
	"fmt"
	"os"
	"sort"
	"strings"

	"github.com/vechain/thor/v2/thor"
	"github.com/vechain/thor/v2/trie"
)

type violation struct {
	Kind     string  `json:"kind"` // read | root-differs-for-equal-content | root-equal-for-different-content | error | panic | checkpoint
	Beh      int     `json:"behaviour"`
	Step     int     `json:"step"`
	What     string  `json:"what"`
	History  [][]int `json:"history,omitempty"`
	Cache    string  `json:"cache"`
	RawWrite bool    `json:"rawWrites"`
}

type registry struct {
	byContent map[string]thor.Bytes32
	byRoot    map[thor.Bytes32]string
	hits      int // Stage results whose content had been seen before (from another history / database)
}

func newRegistry() *registry {
	return &registry{map[string]thor.Bytes32{}, map[thor.Bytes32]string{}, 0}
}

// check enforces  equal content <=> equal root  over everything staged so far.
func (r *registry) check(content string, root thor.Bytes32) (kind, what string) {
	if old, ok := r.byContent[content]; ok {
		if old != root {
			return "root-differs-for-equal-content", fmt.Sprintf("content %s has root %v here and %v in an earlier history", content, root, old)
		}
		r.hits++
		return "", ""
	}
	if oc, ok := r.byRoot[root]; ok {
		return "root-equal-for-different-content", fmt.Sprintf("root %v commits to content %s here and to %s earlier", root, content, oc)
	}
	r.byContent[content] = root
	r.byRoot[root] = content
	return "", ""
}

// the replay realizes storage value 2 as a raw RLP list (SetRawStorage), 1 as a scalar
func realVal(v int) int {
	if v == 2 {
		return listBase
	}
	return v
}

type replayer struct {
	na, nk   int
	reg      *registry
	d        *dbh
	bases    map[string]trie.Root // per database
	steps    int
	stages   int
	reopens  int
	flushes  int
	rawWrite bool
}

func (rp *replayer) viewLen() int    { return rp.na * (5 + rp.nk) }
func (rp *replayer) contentLen() int { return rp.na * (6 + rp.nk) }
func key(xs []int) string {
	return strings.Trim(strings.Join(strings.Fields(fmt.Sprint(xs)), ","), "[]")
}

func (rp *replayer) store(w *world, a, k, v int) {
	rv := realVal(v)
	if rv >= listBase || rp.rawWrite {
		w.setRawStorage(a, k, rv)
	} else {
		w.setStorage(a, k, rv)
	}
}

// compare every getter of the whole universe with the expected view
func (rp *replayer) compare(w *world, view []int) string {
	keys := make([]int, rp.nk)
	for i := range keys {
		keys[i] = i + 1
	}
	for a := 1; a <= rp.na; a++ {
		e := view[(a-1)*(5+rp.nk) : a*(5+rp.nk)]
		r, err := w.read(a, keys, 0, 0)
		if err != nil {
			return fmt.Sprintf("getter error at address %d: %v", a, err)
		}
		ex := e[0] != 0 || e[1] != 0 || e[3] != 0 || e[4] != 0
		if r.bal != e[0] || r.en != e[1] || r.ms != e[3] || r.cd != e[4] || r.ch != e[4] || r.ex != ex {
			return fmt.Sprintf("address %d: expected bal=%d en=%d ms=%d code=%d exists=%v, real state says bal=%d en=%d ms=%d code=%d codehash=%d exists=%v",
				a, e[0], e[1], e[3], e[4], ex, r.bal, r.en, r.ms, r.cd, r.ch, r.ex)
		}
		for i, s := range r.st {
			if want := realVal(e[5+i]); s.raw != want || s.b32 != want {
				return fmt.Sprintf("address %d key %d: expected storage value %d, GetRawStorage=%d GetStorage=%d", a, s.k, want, s.raw, s.b32)
			}
		}
	}
	return ""
}

func (rp *replayer) applyContent(w *world, c []int) error {
	for a := 1; a <= rp.na; a++ {
		e := c[(a-1)*(6+rp.nk) : a*(6+rp.nk)]
		if e[0] != 0 {
			if err := w.setBalance(a, e[0]); err != nil {
				return err
			}
		}
		if e[1] != 0 || e[2] != 0 {
			if err := w.setEnergy(a, e[1], e[2]); err != nil {
				return err
			}
		}
		if e[3] != 0 {
			if err := w.setMaster(a, e[3]); err != nil {
				return err
			}
		}
		if e[4] != 0 {
			if err := w.setCode(a, e[4]); err != nil {
				return err
			}
		}
		if e[5] != 0 {
			any := false
			for k := 1; k <= rp.nk; k++ {
				if e[5+k] != 0 {
					rp.store(w, a, k, e[5+k])
					any = true
				}
			}
			if !any {
				rp.store(w, a, 1, 0) // explicit empty storage root
			}
		}
	}
	return nil
}

// openBase returns a State opened from a committed root with the given content (built once per database)
func (rp *replayer) openBase(w *world, content []int) (kind, what string) {
	ck := key(content)
	root, ok := rp.bases[ck]
	if !ok {
		w.open(trie.Root{})
		if err := rp.applyContent(w, content); err != nil {
			return "error", err.Error()
		}
		h, ver, err := w.doStage()
		if err != nil {
			return "error", "Stage: " + err.Error()
		}
		rp.stages++
		if k, wh := rp.reg.check(ck, h); k != "" {
			return k, wh
		}
		if _, err := w.doCommit(); err != nil {
			return "error", "Commit: " + err.Error()
		}
		root = trie.Root{Hash: h, Ver: ver}
		rp.bases[ck] = root
		w.commits = nil
	}
	w.open(root)
	return "", ""
}

func (rp *replayer) run(bi int, b [][]int) (v *violation) {
	w := &world{d: rp.d}
	step := 0
	fail := func(kind, what string) *violation {
		return &violation{Kind: kind, Beh: bi, Step: step, What: what, History: b, Cache: rp.d.cache, RawWrite: rp.rawWrite}
	}
	defer func() {
		if r := recover(); r != nil {
			if s, ok := r.(string); ok && strings.HasPrefix(s, "HARNESS") {
				panic(r)
			}
			v = fail("panic", fmt.Sprint(r))
		}
	}()
	vl, cl := rp.viewLen(), rp.contentLen()
	for i, e := range b {
		step = i
		rp.steps++
		op, x, y, z := e[0], e[1], e[2], e[3]
		if len(e) < 4+vl || ((op == 0 || op == 10) && len(e) < 4+vl+cl) {
			panic("HARNESS: malformed behaviour entry")
		}
		view := e[4 : 4+vl]
		var err error
		switch op {
		case 0:
			if k, wh := rp.openBase(w, e[4+vl:4+vl+cl]); k != "" {
				return fail(k, "building the base: "+wh)
			}
		case 1:
			err = w.setBalance(x, y)
		case 2:
			err = w.setEnergy(x, y, z)
		case 3:
			err = w.setMaster(x, y)
		case 4:
			err = w.setCode(x, y)
		case 5:
			rp.store(w, x, y, z)
		case 7:
			w.del(x)
		case 8:
			if rev := w.checkpoint(); rev != x {
				return fail("checkpoint", fmt.Sprintf("NewCheckpoint returned %d, specification says %d", rev, x))
			}
		case 9:
			w.revertTo(x)
		case 10:
			h, _, serr := w.doStage()
			if serr != nil {
				return fail("error", "Stage: "+serr.Error())
			}
			rp.stages++
			if k, wh := rp.reg.check(key(e[4+vl:4+vl+cl]), h); k != "" {
				return fail(k, wh)
			}
		case 11:
			n, cerr := w.doCommit()
			if cerr != nil {
				return fail("error", "Commit: "+cerr.Error())
			}
			if n != x {
				panic("HARNESS: commit index out of step with the behaviour")
			}
		case 12:
			rp.reopens++
			if (bi+i)%16 == 0 {
				flushCodeCache()
				rp.flushes++
			}
			w.open(w.commits[x-1])
		default:
			panic(fmt.Sprintf("HARNESS: unknown op %d", op))
		}
		if err != nil {
			return fail("error", fmt.Sprintf("op %d: %v", op, err))
		}
		if what := rp.compare(w, view); what != "" {
			return fail("read", what)
		}
	}
	return nil
}

func opsKey(b [][]int, n int, cl int) string {
	var sb strings.Builder
	sb.WriteString(key(b[0][len(b[0])-cl:]))
	for _, e := range b[1:n] {
		fmt.Fprintf(&sb, "|%d,%d,%d,%d", e[0], e[1], e[2], e[3])
	}
	return sb.String()
}

func replayMain(in, out string, na, nk int, seed int64, limit int) {
	f, err := os.Open(in)
	if err != nil {
		harnessErr("open behaviours: %v", err)
	}
	var behs [][][]int
	sc := bufio.NewScanner(f)
	sc.Buffer(make([]byte, 1<<20), 1<<26)
	for sc.Scan() {
		line := strings.TrimSpace(sc.Text())
		if line == "" {
			continue
		}
		var b [][]int
		if err := json.Unmarshal([]byte(line), &b); err != nil {
			harnessErr("bad behaviour line: %v", err)
		}
		behs = append(behs, b)
	}
	f.Close()
	cl := na * (6 + nk)
	// a behaviour that is a proper prefix of another one is covered by the longer one
	prefixes := map[string]bool{}
	for _, b := range behs {
		for n := 1; n < len(b); n++ {
			prefixes[opsKey(b, n, cl)] = true
		}
	}
	type item struct {
		key string
		b   [][]int
	}
	var items []item
	for _, b := range behs {
		if k := opsKey(b, len(b), cl); !prefixes[k] {
			items = append(items, item{k, b})
		}
	}
	sort.SliceStable(items, func(i, j int) bool { return items[i].key < items[j].key })
	todo := make([][][]int, len(items))
	for i, it := range items {
		todo[i] = it.b
	}
	if limit > 0 && len(todo) > limit { // evenly spread
		sel := make([][][]int, 0, limit)
		for i := 0; i < limit; i++ {
			sel = append(sel, todo[i*len(todo)/limit])
		}
		todo = sel
	}
	reg := newRegistry()
	rp := &replayer{na: na, nk: nk, reg: reg}
	var viols []*violation
	const chunk = 256
	for i, b := range todo {
		if i%chunk == 0 {
			// one database per chunk of behaviours; alternate the dummy cache of NewMem with a real node/root cache,
			// and scalar writes through SetStorage with the same bytes through SetRawStorage
			c := (i/chunk + int(seed)) % 4
			cache := "dummy"
			if c&1 == 1 {
				cache = "real"
			}
			rp.d, rp.bases, rp.rawWrite = newDB(cache), map[string]trie.Root{}, c&2 == 2
		}
		if v := rp.run(i, b); v != nil {
			viols = append(viols, v)
			if len(viols) >= 20 {
				break
			}
		}
	}
	roots := map[string]string{}
	for c, r := range reg.byContent {
		roots[c] = r.String()
	}
	res := map[string]any{
		"behaviours_loaded": len(behs), "behaviours_replayed": len(todo), "steps": rp.steps, "stages": rp.stages,
		"reopens": rp.reopens, "code_cache_flushes": rp.flushes,
		"distinct_contents": len(reg.byContent), "distinct_roots": len(reg.byRoot), "stage_hits_on_known_content": reg.hits,
		"violations": viols, "roots": roots,
	}
	writeJSON(out, res)
	fmt.Printf("{\"replayed\":%d,\"steps\":%d,\"stages\":%d,\"distinct_roots\":%d,\"violations\":%d}\n",
		len(todo), rp.steps, rp.stages, len(reg.byRoot), len(viols))
}
