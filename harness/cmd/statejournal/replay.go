package main

// model -> implementation: replay behaviours exported by TLC from MC_StateJournal.tla on a real state.State.
//
// A behaviour is a JSON array of integer arrays  [op, x, y, z, view..., (content...)]  (see MC_StateJournal.tla):
//   op 0 OpenBase(content)  1 SetBalance(a,v) 2 SetEnergy(a,e,t) 3 SetMaster(a,m) 4 SetCode(a,c) 5 SetStorage(a,k,v)
//      7 Delete(a) 8 NewCheckpoint -> x  9 RevertTo(x)  10 Stage -> content  11 Commit -> x-th  12 Reopen(x)
//      13 AddLog(id) 14 AddTransfer(id) 15 AddRefund(g) 16 Suicide(a) -> y     (through runtime/statedb)
//   view    = per address  bal en bt ms cd st[1..NK]      (what the getters must answer after the step)
//   content = per address  bal en bt ms cd sw st[1..NK]   (the canonical content = the identity of the root)
//   side    = refund, suicide flag per address, number of logs, (kind, id)*   (statedb's GetRefund/HasSuicided/GetLogs)
//
// Beyond the getters: State.BuildStorageTrie(a).Hash() must be in bijection with the predicted storage of a (while a was
// not deleted in this State object); after every Commit the account leaves are read straight from the committed account
// trie and the storage trie named by the leaf's metadata (storage id, major, minor version) is walked: it must hold
// exactly the predicted storage.  result.json carries roots / storage roots / leaves with their predicted contents;
// harness/cmd/triecheck -states recomputes every one of them with its independent encoder and hasher.

import (
	"bufio"
	"bytes"
	"encoding/hex"
	"encoding/json"
	"fmt"
	"os"
	"sort"
	"strings"

	"github.com/ethereum/go-ethereum/rlp"

	"github.com/vechain/thor/v2/muxdb"
	"github.com/vechain/thor/v2/state"
	"github.com/vechain/thor/v2/thor"
	"github.com/vechain/thor/v2/trie"
)

type violation struct {
	Kind    string  `json:"kind"` // read | root-differs-for-equal-content | root-equal-for-different-content | error | panic | checkpoint
	Beh     int     `json:"behaviour"`
	Step    int     `json:"step"`
	What    string  `json:"what"`
	History [][]int `json:"history,omitempty"`
	Cache   string  `json:"cache"`
	Mode    string  `json:"mode"` // which write path (SetStorage / SetRawStorage / EncodeStorage), statedb or not
}

type registry struct {
	byContent map[string]thor.Bytes32
	byRoot    map[thor.Bytes32]string
	hits      int // Stage results whose content had been seen before (from another history / database)
}

func newRegistry() *registry {
	return &registry{map[string]thor.Bytes32{}, map[thor.Bytes32]string{}, 0}
}

// check enforces  equal content <=> equal root  over everything staged so far.
func (r *registry) check(content string, root thor.Bytes32) (kind, what string) {
	if old, ok := r.byContent[content]; ok {
		if old != root {
			return "root-differs-for-equal-content", fmt.Sprintf("content %s has root %v here and %v in an earlier history", content, root, old)
		}
		r.hits++
		return "", ""
	}
	if oc, ok := r.byRoot[root]; ok {
		return "root-equal-for-different-content", fmt.Sprintf("root %v commits to content %s here and to %s earlier", root, content, oc)
	}
	r.byContent[content] = root
	r.byRoot[root] = content
	return "", ""
}

// the replay realizes storage value 2 as a raw RLP list (SetRawStorage), 1 as a scalar
func realVal(v int) int {
	if v == 2 {
		return listBase
	}
	return v
}

type replayer struct {
	na, nk   int
	reg      *registry
	d        *dbh
	bases    map[string]trie.Root // per database
	steps    int
	stages   int
	reopens  int
	flushes  int
	wmode    int  // scalar storage writes through 0 SetStorage, 1 SetRawStorage, 2 EncodeStorage
	sdbChunk bool // this chunk goes through runtime/statedb (behaviours with statedb operations always do)
	// blind chunk: no storage getter (and no BuildStorageTrie) is called on a State object before its first Stage, so
	// that Stage has to open the base storage tries itself (native builtin code writes slots it never read); bases are
	// committed at conflict number 1, every other one with a conflict-0 sibling that wrote the same storage tries
	blind      bool
	blindSteps int
	// sparse chunk: before the first RevertTo on a State object only slot 1 of every address is read (this opens and
	// warms the storage tries), the other slots are first read after a revert - straight from the trie the State
	// keeps: a Stage in the middle of the history must not have written the (meanwhile reverted) slots into it
	sparse      bool
	sparseSteps int
	baseCtr     int
	sreg        *registry         // storage content <-> BuildStorageTrie hash
	leaves      map[string]string // "content|address" -> hex of the committed account leaf
	builds      int
	leafChk     int
	sideChk     int
}

func (rp *replayer) mode(w *world) string {
	return fmt.Sprintf("%s, statedb=%v", []string{"SetStorage", "SetRawStorage", "EncodeStorage"}[rp.wmode], w.useSDB) + fmt.Sprintf(", blind=%v, sparse=%v", rp.blind, rp.sparse)
}

func (rp *replayer) viewLen() int    { return rp.na * (5 + rp.nk) }
func (rp *replayer) contentLen() int { return rp.na * (6 + rp.nk) }
func key(xs []int) string {
	return strings.Trim(strings.Join(strings.Fields(fmt.Sprint(xs)), ","), "[]")
}

func (rp *replayer) store(w *world, a, k, v int) {
	rv := realVal(v)
	switch {
	case rp.wmode == 2:
		if err := w.encodeStorage(a, k, rv); err != nil {
			panic(err)
		}
	case rv >= listBase || rp.wmode == 1:
		w.setRawStorage(a, k, rv)
	default:
		w.setStorage(a, k, rv)
	}
}

// compare every getter of the whole universe with the expected view (storage getters for the first nkeys slots)
func (rp *replayer) compare(w *world, view []int, nkeys int) string {
	keys := make([]int, nkeys)
	for i := range keys {
		keys[i] = i + 1
	}
	for a := 1; a <= rp.na; a++ {
		e := view[(a-1)*(5+rp.nk) : a*(5+rp.nk)]
		r, err := w.read(a, keys, 0, 0)
		if err != nil {
			return fmt.Sprintf("getter error at address %d: %v", a, err)
		}
		ex := e[0] != 0 || e[1] != 0 || e[3] != 0 || e[4] != 0
		if r.bal != e[0] || r.en != e[1] || r.ms != e[3] || r.cd != e[4] || r.ch != e[4] || r.ex != ex {
			return fmt.Sprintf("address %d: expected bal=%d en=%d ms=%d code=%d exists=%v, real state says bal=%d en=%d ms=%d code=%d codehash=%d exists=%v",
				a, e[0], e[1], e[3], e[4], ex, r.bal, r.en, r.ms, r.cd, r.ch, r.ex)
		}
		for i, s := range r.st {
			if want := realVal(e[5+i]); s.raw != want || s.b32 != want || s.dec != want {
				return fmt.Sprintf("address %d key %d: expected storage value %d, GetRawStorage=%d GetStorage=%d DecodeStorage=%d", a, s.k, want, s.raw, s.b32, s.dec)
			}
		}
		if r.viaSDB && (r.sx != ex || r.sm == ex || r.cs != e[4]) {
			return fmt.Sprintf("address %d through statedb: expected exist=%v code=%d, Exist=%v Empty=%v GetCodeSize->code %d", a, ex, e[4], r.sx, r.sm, r.cs)
		}
	}
	return ""
}

// statedb side journal: side = refund, suicide flag per address, number of logs, (kind, id)*
func (rp *replayer) compareSide(w *world, side []int) string {
	if w.sdb == nil {
		return ""
	}
	rp.sideChk++
	got := w.readSide()
	if got.rf != side[0] {
		return fmt.Sprintf("GetRefund=%d, specification says %d", got.rf, side[0])
	}
	for a := 1; a <= rp.na; a++ {
		if hs := w.sdb.HasSuicided(commonAddr(a)); hs != (side[a] == 1) {
			return fmt.Sprintf("HasSuicided(address %d)=%v, specification says %v", a, hs, side[a] == 1)
		}
	}
	var ev, tr [][]int
	n := side[1+rp.na]
	for i := 0; i < n; i++ {
		p := []int{side[2+rp.na+2*i], side[3+rp.na+2*i]}
		if p[0] == 1 {
			ev = append(ev, p)
		} else {
			tr = append(tr, p)
		}
	}
	if fmt.Sprint(ev) != fmt.Sprint(got.ev) && !(len(ev) == 0 && len(got.ev) == 0) {
		return fmt.Sprintf("GetLogs events=%v, specification says %v", got.ev, ev)
	}
	if fmt.Sprint(tr) != fmt.Sprint(got.tr) && !(len(tr) == 0 && len(got.tr) == 0) {
		return fmt.Sprintf("GetLogs transfers=%v, specification says %v", got.tr, tr)
	}
	return ""
}

// storageKeyOf: the predicted storage of address a in a view, as realized values
func (rp *replayer) storageKeyOf(view []int, a int) string {
	st := make([]int, rp.nk)
	for k := 0; k < rp.nk; k++ {
		st[k] = realVal(view[(a-1)*(5+rp.nk)+5+k])
	}
	return key(st)
}

// verifyLeaves reads the committed account trie directly: leaf present iff the account is in the content; the storage
// trie named by the leaf's metadata holds exactly the predicted storage (with the key preimages as metadata)
func (rp *replayer) verifyLeaves(w *world, root trie.Root, content []int) string {
	rp.leafChk++
	acct := w.d.db.NewTrie(muxdb.AccountTrieName, root)
	for a := 1; a <= rp.na; a++ {
		e := content[(a-1)*(6+rp.nk) : a*(6+rp.nk)]
		ad := addrOf(a)
		data, meta, err := acct.Get(thor.Blake2b(ad[:]).Bytes())
		if err != nil {
			return fmt.Sprintf("account leaf of address %d unreadable at the committed root: %v", a, err)
		}
		present := e[0] != 0 || e[1] != 0 || e[3] != 0 || e[4] != 0
		if present != (len(data) > 0) {
			return fmt.Sprintf("address %d: leaf present=%v in the committed account trie, content says %v", a, len(data) > 0, present)
		}
		if !present {
			continue
		}
		rp.leaves[key(content)+"|"+fmt.Sprint(a)] = hex.EncodeToString(data)
		var acc state.Account
		if err := rlp.DecodeBytes(data, &acc); err != nil {
			return fmt.Sprintf("address %d: leaf does not decode: %v", a, err)
		}
		if (len(acc.StorageRoot) > 0) != (e[5] == 1) {
			return fmt.Sprintf("address %d: leaf has storage root=%v, content says explicit storage root=%v", a, len(acc.StorageRoot) > 0, e[5] == 1)
		}
		if e[5] == 0 {
			if len(meta) != 0 {
				return fmt.Sprintf("address %d: leaf without storage root carries metadata %x", a, meta)
			}
			continue
		}
		var am state.AccountMetadata
		if err := rlp.DecodeBytes(meta, &am); err != nil || len(am.StorageID) == 0 {
			return fmt.Sprintf("address %d: storage metadata %x unusable (%v)", a, meta, err)
		}
		st := w.d.db.NewTrie(state.StorageTrieName(am.StorageID), trie.Root{Hash: thor.BytesToBytes32(acc.StorageRoot),
			Ver: trie.Version{Major: am.StorageMajorVer, Minor: am.StorageMinorVer}})
		got := map[string]string{}
		it := trie.NewIterator(st.NodeIterator(nil, 0))
		for it.Next() {
			got[string(it.Key)] = string(it.Value) + "|" + string(it.Meta)
		}
		if it.Err != nil {
			return fmt.Sprintf("address %d: storage trie named by the leaf metadata (id %x, version %d.%d) cannot be walked: %v", a, am.StorageID, am.StorageMajorVer, am.StorageMinorVer, it.Err)
		}
		want := map[string]string{}
		for k := 1; k <= rp.nk; k++ {
			if v := e[5+k]; v != 0 {
				kk := keyOf(k)
				want[string(thor.Blake2b(kk[:]).Bytes())] = string(rawOf(realVal(v))) + "|" + string(bytes.TrimLeft(kk[:], "\x00"))
			}
		}
		if fmt.Sprint(want) != fmt.Sprint(got) {
			return fmt.Sprintf("address %d: storage trie named by the leaf metadata (version %d.%d) holds %d slots %x, content says %x", a, am.StorageMajorVer, am.StorageMinorVer, len(got), got, want)
		}
	}
	return ""
}

func (rp *replayer) applyContent(w *world, c []int) error {
	for a := 1; a <= rp.na; a++ {
		e := c[(a-1)*(6+rp.nk) : a*(6+rp.nk)]
		if e[0] != 0 {
			if err := w.setBalance(a, e[0]); err != nil {
				return err
			}
		}
		if e[1] != 0 || e[2] != 0 {
			if err := w.setEnergy(a, e[1], e[2]); err != nil {
				return err
			}
		}
		if e[3] != 0 {
			if err := w.setMaster(a, e[3]); err != nil {
				return err
			}
		}
		if e[4] != 0 {
			if err := w.setCode(a, e[4]); err != nil {
				return err
			}
		}
		if e[5] != 0 {
			any := false
			for k := 1; k <= rp.nk; k++ {
				if e[5+k] != 0 {
					rp.store(w, a, k, e[5+k])
					any = true
				}
			}
			if !any {
				rp.store(w, a, 1, 0) // explicit empty storage root
			}
		}
	}
	return nil
}

// openBase returns a State opened from a committed root with the given content (built once per database)
func (rp *replayer) openBase(w *world, content []int) (kind, what string) {
	ck := key(content)
	root, ok := rp.bases[ck]
	if !ok && rp.blind {
		k, wh, r := rp.buildForkedBase(w, content)
		if k != "" {
			return k, wh
		}
		root, ok = r, true
		rp.bases[ck] = root
		w.commits = nil
	}
	if !ok {
		w.open(trie.Root{})
		if err := rp.applyContent(w, content); err != nil {
			return "error", err.Error()
		}
		h, ver, err := w.doStage()
		if err != nil {
			return "error", "Stage: " + err.Error()
		}
		rp.stages++
		if k, wh := rp.reg.check(ck, h); k != "" {
			return k, wh
		}
		if _, err := w.doCommit(); err != nil {
			return "error", "Commit: " + err.Error()
		}
		root = trie.Root{Hash: h, Ver: ver}
		rp.bases[ck] = root
		w.commits = nil
	}
	w.open(root)
	return "", ""
}

// buildForkedBase commits the base content at conflict number 1 on top of a parent in which slot 1 of every account
// with storage differs; for every other base a sibling at conflict number 0 writes the same storage tries first.
func (rp *replayer) buildForkedBase(w *world, content []int) (kind, what string, root trie.Root) {
	rp.baseCtr++
	withSibling := rp.baseCtr%2 == 0
	parent := append([]int{}, content...)
	var accts []int
	for a := 1; a <= rp.na; a++ {
		e := parent[(a-1)*(6+rp.nk) : a*(6+rp.nk)]
		if e[5] == 1 && (e[0] != 0 || e[1] != 0 || e[3] != 0 || e[4] != 0) {
			e[6] = 1 - min(e[6], 1) // another value in slot 1 (0 <-> 1, 2 -> 0)
			accts = append(accts, a)
		}
	}
	stageCommit := func(ver trie.Version) (thor.Bytes32, string) {
		h, _, err := w.doStageAt(ver)
		if err != nil {
			return h, "Stage: " + err.Error()
		}
		rp.stages++
		if _, err := w.doCommit(); err != nil {
			return h, "Commit: " + err.Error()
		}
		return h, ""
	}
	w.open(trie.Root{})
	if err := rp.applyContent(w, parent); err != nil {
		return "error", err.Error(), root
	}
	pver := w.d.nextVer()
	ph, what := stageCommit(pver)
	if what != "" {
		return "error", what, root
	}
	if k, wh := rp.reg.check(key(parent), ph); k != "" {
		return k, wh, root
	}
	va, vb := w.d.siblingVers()
	if withSibling {
		w.open(trie.Root{Hash: ph, Ver: pver})
		for _, a := range accts {
			rp.store(w, a, 1, 2) // a third value
			rp.store(w, a, 2, 1)
		}
		if _, what := stageCommit(va); what != "" {
			return "error", what, root
		}
	}
	w.open(trie.Root{Hash: ph, Ver: pver})
	for _, a := range accts {
		rp.store(w, a, 1, content[(a-1)*(6+rp.nk)+6])
	}
	h, what := stageCommit(vb)
	if what != "" {
		return "error", what, root
	}
	if k, wh := rp.reg.check(key(content), h); k != "" {
		return k, wh, root
	}
	return "", "", trie.Root{Hash: h, Ver: vb}
}

func (rp *replayer) run(bi int, b [][]int) (v *violation) {
	w := &world{d: rp.d, useSDB: rp.sdbChunk}
	for _, e := range b {
		if e[0] >= 13 {
			w.useSDB = true
		}
	}
	step := 0
	fail := func(kind, what string) *violation {
		return &violation{Kind: kind, Beh: bi, Step: step, What: what, History: b, Cache: rp.d.cache, Mode: rp.mode(w)}
	}
	deleted := map[int]bool{} // addresses deleted in the current State object
	staged := false           // the current State object was staged at least once
	reverted := false         // ... was reverted at least once
	var stagedContent []int
	defer func() {
		if r := recover(); r != nil {
			if s, ok := r.(string); ok && strings.HasPrefix(s, "HARNESS") {
				panic(r)
			}
			v = fail("panic", fmt.Sprint(r))
		}
	}()
	vl, cl := rp.viewLen(), rp.contentLen()
	for i, e := range b {
		step = i
		rp.steps++
		op, x, y, z := e[0], e[1], e[2], e[3]
		if len(e) < 4+vl || ((op == 0 || op == 10) && len(e) < 4+vl+cl) {
			panic("HARNESS: malformed behaviour entry")
		}
		view := e[4 : 4+vl]
		side := e[4+vl:]
		if op == 0 || op == 10 {
			side = e[4+vl+cl:]
		}
		if len(side) < 2+rp.na || len(side) != 2+rp.na+2*side[1+rp.na] {
			panic("HARNESS: malformed side journal in behaviour entry")
		}
		var err error
		switch op {
		case 0:
			if k, wh := rp.openBase(w, e[4+vl:4+vl+cl]); k != "" {
				return fail(k, "building the base: "+wh)
			}
		case 1:
			err = w.setBalance(x, y)
		case 2:
			err = w.setEnergy(x, y, z)
		case 3:
			err = w.setMaster(x, y)
		case 4:
			err = w.setCode(x, y)
		case 5:
			rp.store(w, x, y, z)
		case 7:
			w.del(x)
			deleted[x] = true
		case 13:
			w.addLog(x)
		case 14:
			w.addTransfer(x)
		case 15:
			w.addRefund(x)
		case 16:
			if res := w.suicide(x); res != (y == 1) {
				return fail("read", fmt.Sprintf("Suicide(address %d) returned %v, specification says %v", x, res, y == 1))
			}
			deleted[x] = true
		case 8:
			if rev := w.checkpoint(); rev != x {
				return fail("checkpoint", fmt.Sprintf("NewCheckpoint returned %d, specification says %d", rev, x))
			}
		case 9:
			w.revertTo(x)
			reverted = true
		case 10:
			h, _, serr := w.doStage()
			if serr != nil {
				return fail("error", "Stage: "+serr.Error())
			}
			rp.stages++
			if k, wh := rp.reg.check(key(e[4+vl:4+vl+cl]), h); k != "" {
				return fail(k, wh)
			}
			stagedContent = e[4+vl : 4+vl+cl]
			staged = true
		case 11:
			n, cerr := w.doCommit()
			if cerr != nil {
				return fail("error", "Commit: "+cerr.Error())
			}
			if n != x {
				panic("HARNESS: commit index out of step with the behaviour")
			}
			if what := rp.verifyLeaves(w, w.commits[n-1], stagedContent); what != "" {
				return fail("leaf", what)
			}
		case 12:
			rp.reopens++
			if (bi+i)%16 == 0 {
				flushCodeCache()
				rp.flushes++
			}
			w.open(w.commits[x-1])
			deleted, staged, reverted = map[int]bool{}, false, false
		default:
			panic(fmt.Sprintf("HARNESS: unknown op %d", op))
		}
		if err != nil {
			return fail("error", fmt.Sprintf("op %d: %v", op, err))
		}
		sighted := !rp.blind || staged
		if !sighted {
			rp.blindSteps++
		}
		nkeys := rp.nk
		if !sighted {
			nkeys = 0
		} else if rp.sparse && !reverted {
			nkeys = 1
			rp.sparseSteps++
		}
		if what := rp.compare(w, view, nkeys); what != "" {
			return fail("read", what)
		}
		if what := rp.compareSide(w, side); what != "" {
			return fail("read", what)
		}
		for a := 1; a <= rp.na && sighted; a++ {
			if deleted[a] {
				continue // BuildStorageTrie is only specified for addresses not deleted in this State object
			}
			h, berr := w.buildStorageRoot(a)
			if berr != nil {
				return fail("error", fmt.Sprintf("BuildStorageTrie(address %d): %v", a, berr))
			}
			rp.builds++
			if k, wh := rp.sreg.check(rp.storageKeyOf(view, a), h); k != "" {
				return fail("storage-"+k, fmt.Sprintf("BuildStorageTrie(address %d): %s", a, wh))
			}
		}
	}
	return nil
}

func opsKey(b [][]int, n int, vl, cl int) string {
	var sb strings.Builder
	sb.WriteString(key(b[0][4+vl : 4+vl+cl]))
	for _, e := range b[1:n] {
		fmt.Fprintf(&sb, "|%d,%d,%d,%d", e[0], e[1], e[2], e[3])
	}
	return sb.String()
}

func replayMain(in, out string, na, nk int, seed int64, limit int) {
	f, err := os.Open(in)
	if err != nil {
		harnessErr("open behaviours: %v", err)
	}
	var behs [][][]int
	sc := bufio.NewScanner(f)
	sc.Buffer(make([]byte, 1<<20), 1<<26)
	for sc.Scan() {
		line := strings.TrimSpace(sc.Text())
		if line == "" {
			continue
		}
		var b [][]int
		if err := json.Unmarshal([]byte(line), &b); err != nil {
			harnessErr("bad behaviour line: %v", err)
		}
		behs = append(behs, b)
	}
	f.Close()
	vl, cl := na*(5+nk), na*(6+nk)
	// a behaviour that is a proper prefix of another one is covered by the longer one
	prefixes := map[string]bool{}
	for _, b := range behs {
		for n := 1; n < len(b); n++ {
			prefixes[opsKey(b, n, vl, cl)] = true
		}
	}
	type item struct {
		key string
		b   [][]int
	}
	var items []item
	for _, b := range behs {
		if k := opsKey(b, len(b), vl, cl); !prefixes[k] {
			items = append(items, item{k, b})
		}
	}
	sort.SliceStable(items, func(i, j int) bool { return items[i].key < items[j].key })
	todo := make([][][]int, len(items))
	for i, it := range items {
		todo[i] = it.b
	}
	if limit > 0 && len(todo) > limit { // evenly spread
		sel := make([][][]int, 0, limit)
		for i := 0; i < limit; i++ {
			sel = append(sel, todo[i*len(todo)/limit])
		}
		todo = sel
	}
	reg := newRegistry()
	rp := &replayer{na: na, nk: nk, reg: reg, sreg: newRegistry(), leaves: map[string]string{}}
	var viols []*violation
	const chunk = 256
	for i, b := range todo {
		if i%chunk == 0 {
			// one database per chunk of behaviours; alternate the dummy cache of NewMem with a real node/root cache,
			// the three storage write paths (same bytes), and plain State with runtime/statedb on top
			c := (i/chunk + int(seed)) % 12
			cache := "dummy"
			if c&1 == 1 {
				cache = "real"
			}
			// every fifth chunk is blind (see replayer.blind)
			rp.d, rp.bases, rp.wmode, rp.sdbChunk, rp.blind = newDB(cache), map[string]trie.Root{}, (c/2)%3, c >= 6, (i/chunk+int(seed))%5 == 4
			rp.sparse = (i/chunk+int(seed))%5 == 3 // and every fifth one sparse
		}
		if v := rp.run(i, b); v != nil {
			viols = append(viols, v)
			if len(viols) >= 20 {
				break
			}
		}
	}
	roots, sroots := map[string]string{}, map[string]string{}
	for c, r := range reg.byContent {
		roots[c] = r.String()
	}
	for c, r := range rp.sreg.byContent {
		sroots[c] = r.String()
	}
	res := map[string]any{
		"behaviours_loaded": len(behs), "behaviours_replayed": len(todo), "steps": rp.steps, "stages": rp.stages,
		"reopens": rp.reopens, "code_cache_flushes": rp.flushes,
		"distinct_contents": len(reg.byContent), "distinct_roots": len(reg.byRoot), "stage_hits_on_known_content": reg.hits,
		"violations": viols, "roots": roots, "sroots": sroots, "leaves": rp.leaves, "na": na, "nk": nk,
		"build_storage_trie_calls": rp.builds, "committed_leaf_checks": rp.leafChk, "side_journal_checks": rp.sideChk, "blind_steps": rp.blindSteps, "sparse_steps": rp.sparseSteps,
	}
	writeJSON(out, res)
	fmt.Printf("{\"replayed\":%d,\"steps\":%d,\"stages\":%d,\"distinct_roots\":%d,\"violations\":%d}\n",
		len(todo), rp.steps, rp.stages, len(reg.byRoot), len(viols))
}
