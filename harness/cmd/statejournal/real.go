package main

// Realization of the abstract integers of StateJournal.tla as bytes, the decoding of getter results back to
// integers, and a thin wrapper ("world") around one real state.State over one real muxdb.

import (
	"bytes"
	"encoding/binary"
	"fmt"
	"math/big"

	"github.com/ethereum/go-ethereum/common"
	"github.com/ethereum/go-ethereum/core/types"
	"github.com/ethereum/go-ethereum/rlp"

	"github.com/vechain/thor/v2/muxdb"
	"github.com/vechain/thor/v2/runtime/statedb"
	"github.com/vechain/thor/v2/state"
	"github.com/vechain/thor/v2/thor"
	"github.com/vechain/thor/v2/trie"
	"github.com/vechain/thor/v2/tx"

	"verifharness/internal/kvrec"
)

const listBase = 1000 // storage value ids >= listBase are raw RLP lists (customized storage values)

func be4(i int) []byte { var b [4]byte; binary.BigEndian.PutUint32(b[:], uint32(i)); return b[:] }

func addrOf(i int) thor.Address {
	h := thor.Blake2b([]byte("verif-c06-addr"), be4(i))
	return thor.BytesToAddress(h[:20])
}

// key 1 is slot 0 (the all-zero key), every third key is a small number (leading zeros: the preimage metadata is
// trimmed), the others are hashes
func keyOf(k int) thor.Bytes32 {
	if k == 1 {
		return thor.Bytes32{}
	}
	if k%3 == 0 {
		return thor.BytesToBytes32(be4(k))
	}
	return thor.Blake2b([]byte("verif-c06-key"), be4(k))
}

func masterOf(m int) thor.Address {
	if m == 0 {
		return thor.Address{}
	}
	h := thor.Blake2b([]byte("verif-c06-master"), be4(m))
	return thor.BytesToAddress(h[:20])
}

func codeOf(c int) []byte {
	if c == 0 {
		return nil
	}
	return bytes.Repeat([]byte{0x60, byte(c), 0x50}, 1+(c*7)%40)
}

func scalarOf(v int) thor.Bytes32 { return thor.BytesToBytes32(be4(v)) }

// rawOf: 0 -> nil, scalar -> rlp(trimmed big endian) exactly as State.SetStorage encodes it, list id -> an RLP list
func rawOf(v int) rlp.RawValue {
	switch {
	case v == 0:
		return nil
	case v < listBase:
		r, _ := rlp.EncodeToBytes(bytes.TrimLeft(be4(v), "\x00"))
		return r
	default:
		r, _ := rlp.EncodeToBytes([]any{uint(v - listBase), "c06-list"})
		return r
	}
}

const nTab = 24

type tables struct {
	master map[thor.Address]int
	code   map[string]int
	chash  map[thor.Bytes32]int
	rawl   map[string]int
	b32l   map[thor.Bytes32]int
}

func newTables() *tables {
	t := &tables{map[thor.Address]int{}, map[string]int{}, map[thor.Bytes32]int{}, map[string]int{}, map[thor.Bytes32]int{}}
	for i := 1; i <= nTab; i++ {
		t.master[masterOf(i)] = i
		t.code[string(codeOf(i))] = i
		t.chash[thor.Keccak256(codeOf(i))] = i
	}
	for i := 0; i < nTab; i++ {
		r := rawOf(listBase + i)
		t.rawl[string(r)] = listBase + i
		t.b32l[thor.Blake2b(r)] = listBase + i
	}
	return t
}

var tab = newTables()

// decoders: -1 = a value outside the harness's alphabet (never equal to anything the specification expects)
func decBig(b *big.Int) int {
	if b == nil || !b.IsInt64() || b.Int64() < 0 || b.Int64() > 1<<31-1 {
		return -1
	}
	return int(b.Int64())
}

func decMaster(a thor.Address) int {
	if a.IsZero() {
		return 0
	}
	if m, ok := tab.master[a]; ok {
		return m
	}
	return -1
}

func decCode(c []byte) int {
	if len(c) == 0 {
		return 0
	}
	if v, ok := tab.code[string(c)]; ok {
		return v
	}
	return -1
}

func decCodeHash(h thor.Bytes32) int {
	if h.IsZero() {
		return 0
	}
	if v, ok := tab.chash[h]; ok {
		return v
	}
	return -1
}

func decRaw(raw []byte) int {
	if len(raw) == 0 {
		return 0
	}
	kind, content, rest, err := rlp.Split(raw)
	if err != nil || len(rest) != 0 {
		return -1
	}
	if kind == rlp.List {
		if v, ok := tab.rawl[string(raw)]; ok {
			return v
		}
		return -1
	}
	if len(content) == 0 || len(content) > 4 || content[0] == 0 {
		return -1
	}
	v := 0
	for _, c := range content {
		v = v<<8 | int(c)
	}
	if v >= listBase || !bytes.Equal(rawOf(v), raw) {
		return -1
	}
	return v
}

func decB32(b thor.Bytes32) int {
	if bytes.Equal(b[:28], make([]byte, 28)) {
		v := int(binary.BigEndian.Uint32(b[28:]))
		if v >= listBase {
			return -1
		}
		return v
	}
	if v, ok := tab.b32l[b]; ok {
		return v
	}
	return -1
}

// ------------------------------------------------------------------------------------------------ world

type dbh struct {
	db     *muxdb.MuxDB
	cache  string
	verCtr uint32
}

func newDB(cache string) *dbh {
	if cache == "real" {
		e := kvrec.New()
		e.SetRecording(false)
		// a real node cache with a short TTL so that cached clean children are replaced by refs after 2 commits
		return &dbh{db: muxdb.NewWithEngine(e, muxdb.VerifOptions{CacheSizeMB: 4, CachedNodeTTL: 2}), cache: cache}
	}
	return &dbh{db: muxdb.NewMem(), cache: cache}
}

// every Stage gets a version never used before in this database: successive major versions, and "conflict numbers"
// 0..3 on the same major version (in thor: block number and number of blocks already stored at that height)
func (d *dbh) nextVer() trie.Version {
	c := d.verCtr
	d.verCtr++
	return trie.Version{Major: 1 + c/4, Minor: c % 4}
}

// one live State object (with its statedb and its last Stage)
type handle struct {
	st     *state.State
	sdb    *statedb.StateDB // non-nil: mutate through runtime/statedb where it has the operation
	stage  *state.Stage
	stRoot trie.Root
}

type world struct {
	d       *dbh
	useSDB  bool
	handle                  // the current State object
	parked  map[int]*handle // other live State objects on the same database (sibling states)
	commits []trie.Root     // shared: what was committed to the database
	opens   int
}

// open replaces the current State object by a new one from root: state.New, or Checkout of the State being replaced
func (w *world) open(root trie.Root) {
	w.opens++
	if w.st != nil && w.opens%2 == 0 {
		w.st = w.st.Checkout(root)
	} else {
		w.st = state.New(w.d.db, root)
	}
	w.sdb = nil
	if w.useSDB {
		w.sdb = statedb.New(w.st)
	}
	w.stage = nil
}

// fork parks the current State object under id cur and opens another one from root
func (w *world) fork(cur int, root trie.Root) {
	if w.parked == nil {
		w.parked = map[int]*handle{}
	}
	h := w.handle
	w.parked[cur] = &h
	w.handle = handle{}
	w.open(root)
}

// switchTo parks the current State object under cur and continues with the parked one
func (w *world) switchTo(cur, to int) {
	h := w.handle
	w.handle = *w.parked[to]
	delete(w.parked, to)
	w.parked[cur] = &h
}

// siblingVers: two versions with the same major number and the conflict numbers 0 and 1 (two blocks at one height)
func (d *dbh) siblingVers() (trie.Version, trie.Version) {
	for d.verCtr%4 != 0 {
		d.verCtr++
	}
	a := d.nextVer()
	b := d.nextVer()
	return a, b
}

type stRead struct{ k, raw, b32, dec int }

type accRead struct {
	a, bal, en, qt, qs, eg, ms, cd, ch int
	ex                                 bool
	st                                 []stRead
	viaSDB                             bool // the next four were read through runtime/statedb
	sx, sm, hs                         bool // Exist, Empty, HasSuicided
	cs                                 int  // GetCodeSize, as the id of the code with that size
}

func (w *world) read(a int, keys []int, qt, qs int) (r accRead, err error) {
	ad := addrOf(a)
	r.a, r.qt, r.qs = a, qt, qs
	var b *big.Int
	if b, err = w.st.GetBalance(ad); err != nil {
		return
	}
	r.bal = decBig(b)
	if b, err = w.st.GetEnergy(ad, 0, 0); err != nil {
		return
	}
	r.en = decBig(b)
	if b, err = w.st.GetEnergy(ad, uint64(qt), uint64(qs)); err != nil {
		return
	}
	r.eg = decBig(b)
	var m thor.Address
	if m, err = w.st.GetMaster(ad); err != nil {
		return
	}
	r.ms = decMaster(m)
	var c []byte
	if c, err = w.st.GetCode(ad); err != nil {
		return
	}
	r.cd = decCode(c)
	var h thor.Bytes32
	if h, err = w.st.GetCodeHash(ad); err != nil {
		return
	}
	r.ch = decCodeHash(h)
	if r.ex, err = w.st.Exists(ad); err != nil {
		return
	}
	for _, k := range keys {
		var raw rlp.RawValue
		if raw, err = w.st.GetRawStorage(ad, keyOf(k)); err != nil {
			return
		}
		var v thor.Bytes32
		if w.sdb != nil {
			v = thor.Bytes32(w.sdb.GetState(common.Address(ad), common.Hash(keyOf(k))))
		} else if v, err = w.st.GetStorage(ad, keyOf(k)); err != nil {
			return
		}
		// third read path: DecodeStorage (what every builtin uses)
		dec := -1
		if err = w.st.DecodeStorage(ad, keyOf(k), func(b []byte) error { dec = decRaw(b); return nil }); err != nil {
			return
		}
		r.st = append(r.st, stRead{k, decRaw(raw), decB32(v), dec})
	}
	if w.sdb != nil {
		ca := common.Address(ad)
		r.viaSDB, r.sx, r.sm, r.hs = true, w.sdb.Exist(ca), w.sdb.Empty(ca), w.sdb.HasSuicided(ca)
		r.cs = decCodeSize(w.sdb.GetCodeSize(ca))
	}
	return
}

func commonAddr(a int) common.Address { return common.Address(addrOf(a)) }

func decCodeSize(n int) int {
	if n == 0 {
		return 0
	}
	for c := 1; c <= nTab; c++ {
		if len(codeOf(c)) == n {
			return c
		}
	}
	return -1
}

func (r accRead) json() map[string]any {
	st := make([]any, 0, len(r.st))
	for _, s := range r.st {
		st = append(st, []int{s.k, s.raw, s.b32, s.dec})
	}
	m := map[string]any{"a": r.a, "bal": r.bal, "en": r.en, "qt": r.qt, "qs": r.qs, "eg": r.eg, "ms": r.ms, "cd": r.cd,
		"ch": r.ch, "ex": r.ex, "st": st}
	if r.viaSDB {
		m["sx"], m["sm"], m["hs"], m["cs"] = r.sx, r.sm, r.hs, r.cs
	}
	return m
}

// ---- statedb side journal: logs (events, transfers) and refund

func logOf(id int) *types.Log {
	return &types.Log{Address: common.Address(addrOf(id)), Topics: []common.Hash{common.Hash(keyOf(id + 7))}, Data: be4(id)}
}
func transferOf(id int) *tx.Transfer {
	return &tx.Transfer{Sender: addrOf(id), Recipient: addrOf(id + 1), Amount: big.NewInt(int64(id))}
}
func (w *world) addLog(id int)      { w.sdb.AddLog(logOf(id)) }
func (w *world) addTransfer(id int) { w.sdb.AddTransfer(transferOf(id)) }
func (w *world) addRefund(g int)    { w.sdb.AddRefund(uint64(g)) }

type sideRead struct {
	ev, tr [][]int // <<kind, id>> pairs as the specification keeps them
	rf     int
}

func (w *world) readSide() sideRead {
	evs, trs := w.sdb.GetLogs()
	r := sideRead{ev: [][]int{}, tr: [][]int{}}
	for _, e := range evs {
		id := -1
		if len(e.Data) == 4 {
			id = int(binary.BigEndian.Uint32(e.Data))
			want := logOf(id)
			if e.Address != thor.Address(want.Address) || len(e.Topics) != 1 || e.Topics[0] != thor.Bytes32(want.Topics[0]) {
				id = -1
			}
		}
		r.ev = append(r.ev, []int{1, id})
	}
	for _, t := range trs {
		id := decBig(t.Amount)
		if id >= 0 {
			if want := transferOf(id); t.Sender != want.Sender || t.Recipient != want.Recipient {
				id = -1
			}
		}
		r.tr = append(r.tr, []int{2, id})
	}
	rf := w.sdb.GetRefund()
	r.rf = -1
	if rf < 1<<31 {
		r.rf = int(rf)
	}
	return r
}
func (s sideRead) json() map[string]any { return map[string]any{"ev": s.ev, "tr": s.tr, "rf": s.rf} }

// buildStorageRoot: State.BuildStorageTrie(a).Hash()
func (w *world) buildStorageRoot(a int) (thor.Bytes32, error) {
	t, err := w.st.BuildStorageTrie(addrOf(a))
	if err != nil {
		return thor.Bytes32{}, err
	}
	return t.Hash(), nil
}

// ---- mutations (through statedb when the run says so and statedb has the operation)

func (w *world) setBalance(a, v int) error {
	ad := addrOf(a)
	if w.sdb != nil {
		cur := w.sdb.GetBalance(common.Address(ad))
		nv := big.NewInt(int64(v))
		switch cur.Cmp(nv) {
		case -1:
			w.sdb.AddBalance(common.Address(ad), new(big.Int).Sub(nv, cur))
			return nil
		case 1:
			w.sdb.SubBalance(common.Address(ad), new(big.Int).Sub(cur, nv))
			return nil
		}
		// equal: Add/SubBalance(0) journal nothing; fall through to a plain (idempotent) write
	}
	return w.st.SetBalance(ad, big.NewInt(int64(v)))
}
func (w *world) setEnergy(a, v, t int) error {
	return w.st.SetEnergy(addrOf(a), big.NewInt(int64(v)), uint64(t))
}
func (w *world) setMaster(a, m int) error { return w.st.SetMaster(addrOf(a), masterOf(m)) }
func (w *world) setCode(a, c int) error {
	if w.sdb != nil {
		w.sdb.SetCode(common.Address(addrOf(a)), codeOf(c))
		return nil
	}
	return w.st.SetCode(addrOf(a), codeOf(c))
}
func (w *world) setStorage(a, k, v int) {
	if v >= listBase {
		panic("HARNESS: SetStorage with a list value")
	}
	if w.sdb != nil {
		w.sdb.SetState(common.Address(addrOf(a)), common.Hash(keyOf(k)), common.Hash(scalarOf(v)))
		return
	}
	w.st.SetStorage(addrOf(a), keyOf(k), scalarOf(v))
}
func (w *world) setRawStorage(a, k, v int) { w.st.SetRawStorage(addrOf(a), keyOf(k), rawOf(v)) }
func (w *world) encodeStorage(a, k, v int) error {
	return w.st.EncodeStorage(addrOf(a), keyOf(k), func() ([]byte, error) { return rawOf(v), nil })
}
func (w *world) del(a int) { w.st.Delete(addrOf(a)) }

// suicide: statedb deletes the account only if it exists
func (w *world) suicide(a int) bool { return w.sdb.Suicide(common.Address(addrOf(a))) }
func (w *world) checkpoint() int {
	if w.sdb != nil {
		return w.sdb.Snapshot()
	}
	return w.st.NewCheckpoint()
}
func (w *world) revertTo(r int) {
	if w.sdb != nil {
		w.sdb.RevertToSnapshot(r)
		return
	}
	w.st.RevertTo(r)
}
func (w *world) doStage() (thor.Bytes32, trie.Version, error) { return w.doStageAt(w.d.nextVer()) }
func (w *world) doStageAt(ver trie.Version) (thor.Bytes32, trie.Version, error) {
	stg, err := w.st.Stage(ver)
	if err != nil {
		return thor.Bytes32{}, ver, err
	}
	w.stage, w.stRoot = stg, trie.Root{Hash: stg.Hash(), Ver: ver}
	return stg.Hash(), ver, nil
}
func (w *world) doCommit() (int, error) {
	if w.stage == nil {
		return 0, fmt.Errorf("HARNESS: commit without stage")
	}
	root, err := w.stage.Commit()
	if err != nil {
		return 0, err
	}
	if root != w.stRoot.Hash {
		return 0, fmt.Errorf("Commit returned root %v, Stage.Hash was %v", root, w.stRoot.Hash)
	}
	w.commits = append(w.commits, w.stRoot)
	return len(w.commits), nil
}

// flushCodeCache evicts every earlier entry of state's process-wide code cache (an ARC of 512 entries: entries added
// twice are promoted to the frequent list and push out the older frequent entries), so that a re-opened state has
// to find contract code in the database.
var flushCtr int

func flushCodeCache() {
	d := newDB("dummy")
	s := state.New(d.db, trie.Root{})
	for i := 0; i < 600; i++ {
		flushCtr++
		code := append([]byte("verif-c06-flush"), be4(flushCtr)...)
		_ = s.SetCode(thor.Address{1}, code)
		_ = s.SetCode(thor.Address{1}, code)
	}
}
