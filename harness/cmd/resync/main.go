// resync drives the real bft.Engine.Resync (the one-time start-up pass that recomputes persisted qualities and
// advances the finalized checkpoint) over stale stores, with a crash at every storage write, and records traces for
// specs/bft/Trace_Resync.tla.
//
//	resync -out <dir> -seed S -chains K -pairs P [-epochs N]
//
// For K vote patterns (per epoch: none / justified / committed) a real PoS chain is minted and imported by a real
// node; its persisted qualities and finalized checkpoint are the TRUTH for that chain.  A stale store for chain p is
// chain p's store with the qualities and the finalized checkpoint that the real node of ANOTHER chain op computed
// (what a node holds that evaluated the same epochs differently), optionally with qualities missing, and the resync
// version removed.  Resync then runs on it: uninterrupted, and once per write with the process dying at that write
// followed by a restart and a second pass.
package main

import (
	"bytes"
	"encoding/binary"
	"encoding/json"
	"flag"
	"fmt"
	"math/rand"
	"os"
	"path/filepath"

	"github.com/vechain/thor/v2/block"
	"github.com/vechain/thor/v2/thor"

	"verifharness/internal/kvrec"
	"verifharness/internal/sim"
	"verifharness/internal/trace"
)

const (
	bftStore = "bft.engine"
	V        = 4
	L        = 4
)

var (
	finalizedKey = []byte("finalized")
	versionKey   = []byte("bft.resync.version")
)

func must(err error) {
	if err != nil {
		fmt.Println("HARNESS-ERROR", err)
		os.Exit(3)
	}
}

func named(key []byte) []byte {
	return append(append([]byte{kvrec.SpaceNamed}, bftStore...), key...)
}

type chainInfo struct {
	pat   []string // intended pattern per epoch (index 0 = epoch 1)
	kv    *kvrec.Engine
	sp    []thor.Bytes32 // store point of epoch e (index e-1)
	cp    []thor.Bytes32 // checkpoint of epoch e (index e-1); cp[0] = genesis
	q     []int          // persisted quality per epoch
	j, c  []bool         // real tally at the store point
	fin   int            // finalized checkpoint as epoch number (1 = genesis)
	extra int            // blocks after the last store point
	head  uint32
}

type violation struct {
	Sig    string `json:"sig"`
	Detail string `json:"detail"`
	Run    int    `json:"run"`
}

type world struct {
	net   *sim.Net
	rng   *rand.Rand
	N     int
	evs   []trace.Ev
	viols []violation
	runs  int
	stats map[string]int
}

// buildChain mints a chain with the given vote pattern and lets a real node import it.
func (w *world) buildChain(pat []string, extra int) *chainInfo {
	n := w.net
	kv := kvrec.New()
	nd, err := n.OpenNodeErr(0, kv, true)
	must(err)
	defer nd.Close()
	ci := &chainInfo{pat: pat, kv: kv, extra: extra}
	parent := n.B0.Header().ID()
	total := w.N*L - 1 + extra
	perm := w.rng.Perm(V)
	for num := 1; num <= total; num++ {
		e := num / L // epoch index 0-based
		kind := "com"
		if e < w.N {
			kind = pat[e]
		}
		pos := num % L
		var who int
		com := false
		switch kind {
		case "none": // two signers only
			who = perm[pos%2]
			com = w.rng.Intn(2) == 0
		case "just": // >= 3 signers, COM from at most two of them
			who = perm[pos%V]
			if e == 0 {
				who = perm[(pos-1)%3] // epoch 1 has three blocks: three distinct signers
			}
			com = who == perm[0] || who == perm[1]
		default: // com: >= 3 signers, all COM
			who = perm[pos%V]
			if e == 0 {
				who = perm[(pos-1)%3]
			}
			com = true
		}
		blk, err := n.Mint(parent, who, com, 0)
		must(err)
		class, err := nd.Deliver(blk)
		if class != "ok" {
			must(fmt.Errorf("chain %v: block %d not imported: %s %v", pat, num, class, err))
		}
		parent = blk.Header().ID()
		if pos == L-1 {
			perm = w.rng.Perm(V)
		}
	}
	best := nd.Repo.NewBestChain()
	ci.head = nd.Repo.BestBlockSummary().Header.Number()
	if nd.Repo.BestBlockSummary().Header.ID() != parent {
		must(fmt.Errorf("chain %v: best is not the minted head", pat))
	}
	for e := 1; e <= w.N; e++ {
		spID, err := best.GetBlockID(uint32(e*L - 1))
		must(err)
		cpID, err := best.GetBlockID(uint32((e - 1) * L))
		must(err)
		ci.sp = append(ci.sp, spID)
		ci.cp = append(ci.cp, cpID)
		q, ok := nd.BFT.VerifStoredQuality(spID)
		if !ok {
			must(fmt.Errorf("chain %v: no quality persisted for store point of epoch %d", pat, e))
		}
		ci.q = append(ci.q, int(q))
		_, tj, tc, ok := nd.BFT.VerifTally(spID)
		if !ok {
			must(fmt.Errorf("chain %v: no tally cached for store point of epoch %d", pat, e))
		}
		ci.j = append(ci.j, tj)
		ci.c = append(ci.c, tc)
	}
	ci.fin = int(block.Number(nd.BFT.Finalized()))/L + 1
	if block.Number(nd.BFT.Finalized())%L != 0 {
		must(fmt.Errorf("finalized is not a checkpoint"))
	}
	return ci
}

// staleStore: chain p's store with op's qualities / finalized, minus the listed epochs, version removed.
func staleStore(p, op *chainInfo, miss map[int]bool) (*kvrec.Engine, []int, int) {
	kv := p.kv.Clone()
	kv.SetRecording(false)
	dq := make([]int, len(p.sp))
	for i, id := range p.sp {
		k := named(id.Bytes())
		if miss[i+1] {
			must(kv.Delete(k))
			dq[i] = -1
			continue
		}
		var b [4]byte
		binary.BigEndian.PutUint32(b[:], uint32(op.q[i]))
		must(kv.Put(k, b[:]))
		dq[i] = op.q[i]
	}
	if op.fin == 1 {
		must(kv.Delete(named(finalizedKey)))
	} else {
		must(kv.Put(named(finalizedKey), p.cp[op.fin-1].Bytes()))
	}
	must(kv.Delete(named(versionKey)))
	kv.SetRecording(true)
	return kv, dq, op.fin
}

type passResult struct {
	writes  int
	crashed bool
	err     error
	finOpen int // finalized checkpoint (epoch) right after the stack was opened: bft.NewEngine's start-up repair of an
	// interrupted commit has run by then (it commits the head again if the head is a store point)
}

// pass opens a stack over kv (start-up order: repository, bft.NewEngine) and runs Resync; cut >= 0 arms the engine so
// that the cut-th write of this pass kills the process.
func (w *world) pass(ci *chainInfo, kv *kvrec.Engine, cut int, run int) (res passResult) {
	nd, err := w.net.OpenNodeErr(0, kv, false)
	if err != nil {
		w.viol(run, "resync-node-does-not-open", err.Error())
		res.err = err
		return
	}
	defer nd.Close()
	base := kv.Len()
	finBefore := int(block.Number(nd.BFT.Finalized()))/L + 1
	res.finOpen = finBefore
	w.evs = append(w.evs, trace.Ev{"e": "Begin", "fin": finBefore})
	if cut >= 0 {
		kv.CrashAt(base + cut)
	}
	func() {
		defer func() {
			if x := recover(); x != nil {
				if _, ok := x.(kvrec.CrashSentinel); ok {
					res.crashed = true
					return
				}
				panic(x)
			}
		}()
		res.err = nd.BFT.Resync(nil)
	}()
	kv.CrashAt(-1)
	log := kv.Log()[base:]
	res.writes = len(log)
	lastFin := finBefore
	for i := range log {
		b := &log[i]
		cls := kvrec.WriteClass(b)
		ev := trace.Ev{"e": "W", "cls": cls}
		if len(b.Ops) != 1 || b.Ops[0].Del {
			ev["cls"] = "odd"
			w.viol(run, "resync-unexpected-write", fmt.Sprintf("%s with %d ops", cls, len(b.Ops)))
			w.evs = append(w.evs, ev)
			continue
		}
		op := b.Ops[0]
		key := op.Key[1+len(bftStore):]
		switch cls {
		case "q":
			k := 0
			for i, id := range ci.sp {
				if bytes.Equal(key, id.Bytes()) {
					k = i + 1
				}
			}
			ev["k"] = k
			ev["v"] = int(binary.BigEndian.Uint32(op.Val))
			w.stats["q_writes"]++
		case "fin":
			f := 0
			for i, id := range ci.cp {
				if bytes.Equal(op.Val, id.Bytes()) {
					f = i + 1
				}
			}
			ev["v"] = f
			if f < lastFin {
				w.viol(run, "resync-finalized-moved-back", fmt.Sprintf("finalized written: epoch %d after %d", f, lastFin))
			}
			lastFin = f
			w.stats["fin_writes"]++
		case "resync":
			ev["v"] = int(binary.BigEndian.Uint32(op.Val))
			if i != len(log)-1 {
				w.viol(run, "resync-version-not-last", fmt.Sprintf("version written as write %d of %d", i+1, len(log)))
			}
			w.stats["ver_writes"]++
		default:
			w.viol(run, "resync-unexpected-write", cls)
		}
		w.evs = append(w.evs, ev)
	}
	if res.crashed {
		w.evs = append(w.evs, trace.Ev{"e": "Crash"})
		w.stats["crashes"]++
	}
	return
}

func (w *world) viol(run int, sig, detail string) {
	w.viols = append(w.viols, violation{Sig: sig, Detail: detail, Run: run})
}

// finish reads the store after the last pass and compares with the truth of the chain.
func (w *world) finish(ci *chainInfo, kv *kvrec.Engine, staleFin int, last passResult, run int) {
	nd, err := w.net.OpenNodeErr(0, kv, false)
	if err != nil {
		w.viol(run, "resync-node-does-not-open", err.Error())
		return
	}
	defer nd.Close()
	dq := make([]int, len(ci.sp))
	for i, id := range ci.sp {
		q, ok := nd.BFT.VerifStoredQuality(id)
		dq[i] = int(q)
		if !ok {
			dq[i] = -1
		}
	}
	fin := int(block.Number(nd.BFT.Finalized()))/L + 1
	ver := 0
	if v, err := kv.Get(named(versionKey)); err == nil && len(v) == 4 {
		ver = int(binary.BigEndian.Uint32(v))
	}
	w.evs = append(w.evs, trace.Ev{"e": "End", "dq": dq, "fin": fin, "ver": ver, "err": last.err != nil})
	if last.err != nil {
		w.viol(run, "resync-fails", last.err.Error())
		return
	}
	for i := range dq {
		if dq[i] != ci.q[i] {
			w.viol(run, "resync-quality-differs", fmt.Sprintf("epoch %d: %d after the pass, %d on the node that imported the chain", i+1, dq[i], ci.q[i]))
			break
		}
	}
	want := ci.fin
	if staleFin > want {
		want = staleFin
	}
	if fin != want {
		w.viol(run, "resync-finalized-differs", fmt.Sprintf("finalized epoch %d after the pass, want %d (stale %d, importing node %d)", fin, want, staleFin, ci.fin))
	}
	if ver != 1 {
		w.viol(run, "resync-version-not-saved", fmt.Sprintf("version %d", ver))
	}
	// the node still runs: its best block is the chain's head and the engine answers
	if nd.Repo.BestBlockSummary().Header.Number() != ci.head {
		w.viol(run, "resync-best-changed", "best block changed")
	}
	if _, err := nd.BFT.Justified(); err != nil {
		w.viol(run, "resync-justified-fails", err.Error())
	}
}

func (w *world) config(ci *chainInfo) {
	w.evs = append(w.evs, trace.Ev{"e": "Config", "N": w.N, "J": ci.j, "C": ci.c, "q": ci.q, "fin": ci.fin, "hsp": ci.extra == 0})
}

// scenario: one stale store, the uninterrupted pass, then every cut.
func (w *world) scenario(p, op *chainInfo, miss map[int]bool) {
	stale, dq0, fin0 := staleStore(p, op, miss)
	reset := func() { w.evs = append(w.evs, trace.Ev{"e": "Reset", "dq": dq0, "fin": fin0}) }
	w.runs++
	run := w.runs
	reset()
	kv := stale.Clone()
	r := w.pass(p, kv, -1, run)
	base := fin0
	if r.finOpen > base {
		base = r.finOpen // what the store implies once the start-up repair has completed the head's commit
	}
	w.finish(p, kv, base, r, run)
	total := r.writes
	// a later start-up over the finished store: the saved version makes the pass a no-op
	if r.err == nil {
		again := w.pass(p, kv, -1, run)
		if again.writes != 0 {
			w.viol(run, "resync-not-idempotent", fmt.Sprintf("%d writes by a pass over a store whose version is saved", again.writes))
		}
		w.finish(p, kv, base, again, run)
	}
	for cut := 0; cut < total; cut++ {
		w.runs++
		run = w.runs
		reset()
		kv := stale.Clone()
		r1 := w.pass(p, kv, cut, run)
		base := fin0
		if r1.finOpen > base {
			base = r1.finOpen
		}
		if !r1.crashed {
			w.viol(run, "resync-harness", "armed cut not reached")
			continue
		}
		w.evs = append(w.evs, trace.Ev{"e": "Restart"})
		// sometimes die again in the second pass
		second := -1
		if w.rng.Intn(3) == 0 {
			second = w.rng.Intn(total)
		}
		r2 := w.pass(p, kv, second, run)
		if r2.crashed {
			w.evs = append(w.evs, trace.Ev{"e": "Restart"})
			r2 = w.pass(p, kv, -1, run)
		}
		w.finish(p, kv, base, r2, run)
	}
}

func main() {
	out := flag.String("out", "", "output directory")
	seed := flag.Int64("seed", 1, "seed")
	nChains := flag.Int("chains", 8, "number of vote patterns (chains)")
	nPairs := flag.Int("pairs", 16, "number of (chain, stale source) pairs")
	epochs := flag.Int("epochs", 4, "epochs with a store point")
	flag.Parse()
	must(os.MkdirAll(*out, 0o755))
	rng := rand.New(rand.NewSource(*seed))
	w := &world{rng: rng, N: *epochs, stats: map[string]int{}}
	w.net = sim.NewNet(sim.Options{Validators: V, Nodes: 1, PoS: true, EpochLength: L, SkipLogs: true})
	defer w.net.Close()

	kinds := []string{"none", "just", "com"}
	var chains []*chainInfo
	seen := map[string]bool{}
	// always include the all-committed chain (finality advances every epoch) and one without any justified epoch
	fixed := [][]string{}
	allc, alln := make([]string, w.N), make([]string, w.N)
	for i := range allc {
		allc[i], alln[i] = "com", "none"
	}
	fixed = append(fixed, allc, alln)
	for len(chains) < *nChains {
		var pat []string
		if len(chains) < len(fixed) {
			pat = fixed[len(chains)]
		} else {
			pat = make([]string, w.N)
			for i := range pat {
				// bias towards justified/committed so that finality moves
				pat[i] = kinds[[]int{0, 1, 2, 2, 1, 2}[rng.Intn(6)]]
			}
		}
		key := fmt.Sprint(pat)
		if seen[key] {
			continue
		}
		seen[key] = true
		chains = append(chains, w.buildChain(pat, len(chains)%3)) // head on a store point / one / two blocks past it
	}
	factsOff := 0
	for _, ci := range chains {
		for i := range ci.pat {
			if ci.j[i] != (ci.pat[i] != "none") || ci.c[i] != (ci.pat[i] == "com") {
				factsOff++
			}
		}
	}
	for i := 0; i < *nPairs; i++ {
		p := chains[rng.Intn(len(chains))]
		op := chains[rng.Intn(len(chains))]
		if i == 0 {
			p, op = chains[0], chains[1] // everything committed, store says nothing ever justified
		}
		if i == 1 {
			p, op = chains[1], chains[0] // and the other way round: stale finalized far ahead
		}
		if i == 2 {
			p, op = chains[0], chains[0] // nothing stale: idempotence
		}
		miss := map[int]bool{}
		if rng.Intn(3) == 0 {
			for e := 1; e <= w.N; e++ {
				if rng.Intn(3) == 0 {
					miss[e] = true
				}
			}
		}
		w.config(p)
		w.scenario(p, op, miss)
	}
	must(trace.WriteNDJSON(filepath.Join(*out, "trace.ndjson"), w.evs))
	sum := map[string]any{"chains": len(chains), "pairs": *nPairs, "runs": w.runs, "events": len(w.evs),
		"violations": w.viols, "stats": w.stats, "facts_differing_from_script": factsOff}
	b, _ := json.Marshal(sum)
	must(os.WriteFile(filepath.Join(*out, "summary.json"), b, 0o644))
	fmt.Println(string(b))
}
