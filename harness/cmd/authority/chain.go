package main

// mode chain: real chains over internal/sim. God (the omniscient stack) packs every block through the real packer
// (packer/poa_scheduler.go derives the proposers from authority.Candidates of the parent state); node 0 imports it;
// a WARM consensus instance (one for the whole chain, so its poaCacher entries are used) and a COLD one (fresh for
// every block) validate it first on node 0's store.

import (
	"fmt"
	"math/big"
	mrand "math/rand"
	"sort"
	"time"

	"github.com/vechain/thor/v2/block"
	"github.com/vechain/thor/v2/builtin"
	"github.com/vechain/thor/v2/consensus"
	"github.com/vechain/thor/v2/packer"
	"github.com/vechain/thor/v2/scheduler"
	"github.com/vechain/thor/v2/state"
	"github.com/vechain/thor/v2/thor"
	"github.com/vechain/thor/v2/tx"

	"verifharness/internal/sim"
	"verifharness/internal/trace"
)

type chainStats struct {
	Runs          int            `json:"runs"`
	Blocks        int            `json:"blocks"`
	Txs           map[string]int `json:"transactions"`
	Reverted      map[string]int `json:"reverted"`
	WarmOK        int            `json:"warm_accepted"`
	ColdOK        int            `json:"cold_accepted"`
	NodeOK        int            `json:"node_imported"`
	Divergences   []string       `json:"divergences"`
	Refused       int            `json:"schedule_refusals_observed"`
	OffsBlocks    int            `json:"blocks_switching_somebody_off"`
	ListChanges   int            `json:"blocks_changing_the_proposer_list"`
	Halted        int            `json:"chains_halted_without_proposer"`
	Distinct      int            `json:"distinct_nontrivial"`
	CachedBlocks  int            `json:"blocks_validated_with_a_cached_parent_entry"`
	MaxListed     int            `json:"max_listed"`
	NonExecRevoke int            `json:"revocations_by_non_executor_accepted"`
}

const (
	nGenesis = 3
	nNodes   = 8 // n0..n7 = dev accounts 0..7 as node masters
	nAccts   = 9 // e0..e8 = dev accounts 0..8 as endorsors / payers; e8 is the sink
)

type chainRun struct {
	u      *universe
	net    *sim.Net
	w      *trace.Writer
	st     *chainStats
	rng    *mrand.Rand
	parent *block.Block
	nonce  uint64
	tag    byte
	warm   *consensus.Consensus
	seen   map[string]bool
	run    int
}

func (c *chainRun) stateOf(b *block.Block) *state.State {
	sum, err := c.net.God.Repo.GetBlockSummary(b.Header().ID())
	must(err)
	return c.net.God.Stater.NewState(sum.Root())
}

func (c *chainRun) build(from int, cl *tx.Clause) *tx.Transaction {
	c.nonce++
	b := tx.NewBuilder(tx.TypeDynamicFee).ChainTag(c.tag).BlockRef(tx.NewBlockRef(c.parent.Header().Number())).Expiration(1000).
		Gas(1_000_000).Nonce(c.nonce).Clause(cl).
		MaxFeePerGas(new(big.Int).Mul(big.NewInt(thor.InitialBaseFee), big.NewInt(100))).MaxPriorityFeePerGas(big.NewInt(1000))
	return tx.MustSign(b.Build(), c.net.Devs[from].PrivateKey)
}

// op is one transaction together with the event it will be logged as (outcome filled in after the block)
type op struct {
	t    *tx.Transaction
	ev   trace.Ev
	kind string
	// transfers
	from, to int
	amount   *big.Int
}

func (c *chainRun) opAdd(from, node, end int) *op {
	m, ok := builtin.Authority.ABI.MethodByName("add")
	if !ok {
		die("authority.add not in ABI")
	}
	name := c.u.nodes[node]
	data, err := m.EncodeInput(c.net.Devs[node].Address, c.net.Devs[end].Address, c.u.ident[name])
	must(err)
	to := builtin.Authority.Address
	return &op{t: c.build(from, tx.NewClause(&to).WithData(data)), kind: "add",
		ev: trace.Ev{"e": "Add", "n": name, "end": c.u.ends[end], "exec": from == 0}}
}

func (c *chainRun) opRevoke(from, node int) *op {
	m, ok := builtin.Authority.ABI.MethodByName("revoke")
	if !ok {
		die("authority.revoke not in ABI")
	}
	data, err := m.EncodeInput(c.net.Devs[node].Address)
	must(err)
	to := builtin.Authority.Address
	return &op{t: c.build(from, tx.NewClause(&to).WithData(data)), kind: "revoke",
		ev: trace.Ev{"e": "Revoke", "n": c.u.nodes[node], "exec": from == 0}}
}

func (c *chainRun) opMBP(from int, m uint64) *op {
	me, ok := builtin.Params.ABI.MethodByName("set")
	if !ok {
		die("params.set not in ABI")
	}
	data, err := me.EncodeInput(thor.KeyMaxBlockProposers, new(big.Int).SetUint64(m))
	must(err)
	to := builtin.Params.Address
	return &op{t: c.build(from, tx.NewClause(&to).WithData(data)), kind: "mbp",
		ev: trace.Ev{"e": "Mbp", "m": m, "exec": from == 0}}
}

func (c *chainRun) opTransfer(from, to int, amount *big.Int) *op {
	a := c.net.Devs[to].Address
	return &op{t: c.build(from, tx.NewClause(&a).WithValue(amount)), kind: "transfer", from: from, to: to, amount: amount}
}

type sched struct {
	who  int
	when uint64
}

func (c *chainRun) idxOf(a thor.Address) int {
	for i := 0; i < nAccts; i++ {
		if c.net.Devs[i].Address == a {
			return i
		}
	}
	return -1
}

func (c *chainRun) class(b *big.Int, end *big.Int) int64 {
	if b.Cmp(end) >= 0 {
		return 1
	}
	return 0
}

// randomOps picks up to two transactions for the next block, looking at the real state of the parent.
func (c *chainRun) randomOps(st *state.State, blockNo int) []*op {
	aut := builtin.Authority.Native(st)
	end := c.u.endorsement(st)
	cands, err := aut.Candidates(c.u.checker(st, c.parent.Header().Number()+1), c.u.mbp(st))
	must(err)
	all, err := aut.AllCandidates()
	must(err)
	listed := map[int]bool{}
	for _, x := range all {
		listed[c.idxOf(x.NodeMaster)] = true
	}
	balOf := func(i int) *big.Int {
		b, err := st.GetBalance(c.net.Devs[i].Address)
		must(err)
		return b
	}
	var ops []*op
	n := 0
	switch r := c.rng.Intn(10); {
	case r < 3:
		n = 0
	case r < 8:
		n = 1
	default:
		n = 2
	}
	// scripted openings, one per chain in turn, so that every quick run contains the interesting shapes
	switch {
	case blockNo == 2:
		e := 3 + c.run%2
		return []*op{c.opAdd(0, 3, e), c.opAdd(0, 4, e)} // two new nodes sharing an endorsor (or not)
	case blockNo == 4 && c.run%3 == 0:
		b := balOf(1)
		return []*op{c.opTransfer(1, 8, new(big.Int).Add(new(big.Int).Sub(b, end), big.NewInt(1)))} // drain e1: n1 drops out
	case blockNo == 5 && c.run%3 == 0:
		return []*op{c.opRevoke(5, 1)} // anybody may revoke it now
	case blockNo == 4 && c.run%3 == 1:
		return []*op{c.opMBP(0, 2)}
	case blockNo == 6 && c.run%3 == 1:
		return []*op{c.opMBP(0, 5)}
	case blockNo == 4 && c.run%3 == 2:
		return []*op{c.opRevoke(0, 2), c.opRevoke(4, 3)} // executor revokes; a stranger tries on an endorsed node
	}
	for i := 0; i < n; i++ {
		switch k := c.rng.Intn(12); {
		case k < 2: // add by the executor (a new node, or one that exists / was revoked: refused by the contract)
			ops = append(ops, c.opAdd(0, c.rng.Intn(nNodes), c.rng.Intn(nAccts-1)))
		case k == 2: // add by somebody else: reverted
			ops = append(ops, c.opAdd(1+c.rng.Intn(nAccts-1), c.rng.Intn(nNodes), c.rng.Intn(nAccts-1)))
		case k < 5: // revoke by the executor
			if len(cands) >= 3 || c.rng.Intn(4) == 0 {
				ops = append(ops, c.opRevoke(0, c.rng.Intn(nNodes)))
			}
		case k == 5: // revoke by somebody else: only if the node is out of endorsement
			ops = append(ops, c.opRevoke(1+c.rng.Intn(nAccts-1), c.rng.Intn(nNodes)))
		case k < 8: // drain an endorsor below the endorsement
			if len(cands) >= 3 && len(all) > 0 {
				x := all[c.rng.Intn(len(all))]
				e := c.idxOf(x.Endorsor)
				if b := balOf(e); e >= 0 && e != 8 && b.Cmp(end) >= 0 {
					ops = append(ops, c.opTransfer(e, 8, new(big.Int).Add(new(big.Int).Sub(b, end), big.NewInt(1))))
				}
			}
		case k < 10: // refill a drained account / touch an endorsor with a small transfer
			e := c.rng.Intn(nAccts - 1)
			if balOf(e).Cmp(end) < 0 {
				ops = append(ops, c.opTransfer(8, e, new(big.Int).Set(end)))
			} else {
				ops = append(ops, c.opTransfer(8, e, big.NewInt(1+int64(c.rng.Intn(1000)))))
			}
		default: // MaxBlockProposers
			cur := c.u.mbpRaw(st)
			m := uint64(1 + c.rng.Intn(6))
			switch c.rng.Intn(8) {
			case 0:
				m = 0 // unset: the limit falls back to 101
			case 1:
				m = 200 // above the cap
			}
			if m != cur && (m != 1 || c.rng.Intn(3) == 0) {
				from := 0
				if c.rng.Intn(5) == 0 {
					from = 2
				}
				ops = append(ops, c.opMBP(from, m))
			}
		}
	}
	return ops
}

func chainMode(w *trace.Writer, seed int64, runs, blocks int) *chainStats {
	st := &chainStats{Txs: map[string]int{}, Reverted: map[string]int{}, Divergences: []string{}}
	seen := map[string]bool{}
	for run := 0; run < runs; run++ {
		oneChain(w, st, seen, seed, run, blocks)
	}
	st.Distinct = len(seen)
	return st
}

func oneChain(w *trace.Writer, st *chainStats, seen map[string]bool, seed int64, run, blocks int) {
	mbp := uint64(3 + run%2)
	net := sim.NewNet(sim.Options{Validators: nGenesis, Nodes: 1, MBP: mbp, ExtraAccts: nAccts - nGenesis, SkipLogs: true})
	defer net.Close()
	u := newUniverse()
	u.fc = net.FC
	u.balCap = 1
	for i := 0; i < nNodes; i++ {
		u.addNode(fmt.Sprintf("n%d", i), net.Devs[i].Address)
	}
	for i := 0; i < nAccts; i++ {
		u.addEnd(fmt.Sprintf("e%d", i), net.Devs[i].Address)
	}
	n0 := net.Nodes[0]
	c := &chainRun{u: u, net: net, w: w, st: st, rng: mrand.New(mrand.NewSource(seed*7919 + int64(run))), parent: net.B0,
		nonce: uint64(seed)<<24 + uint64(run)<<16, tag: net.God.Repo.ChainTag(), warm: consensus.New(n0.Repo, n0.Stater, net.FC),
		seen: seen, run: run}
	st.Runs++
	// the genesis builder adds the authority nodes with identity "m": the identity is not compared for them
	for i := 0; i < nGenesis; i++ {
		u.ident[u.nodes[i]] = thor.BytesToBytes32([]byte("m"))
	}
	gen := [][]string{}
	for i := 0; i < nGenesis; i++ {
		gen = append(gen, []string{u.nodes[i], u.ends[i]})
	}
	w.Emit(trace.Ev{"e": "Reset", "nodes": u.nodes, "endorsors": u.ends, "genesis": gen, "mbp": mbp, "run": run, "seed": seed,
		"proj": u.proj(c.stateOf(net.B0), 1)})
	seeder := scheduler.NewSeeder(net.God.Repo)
	lastProps := ""
	for b := 1; b <= blocks; b++ {
		psum, err := net.God.Repo.GetBlockSummary(c.parent.Header().ID())
		must(err)
		pst := net.God.Stater.NewState(psum.Root())
		num := c.parent.Header().Number() + 1
		var ok []sched
		var refused []int
		for who := 0; who < nNodes; who++ {
			acc := net.Devs[who]
			pk := packer.New(net.God.Repo, net.God.Stater, acc.Address, &acc.Address, net.FC, 0)
			flow, err := pk.Schedule(psum, c.parent.Header().Timestamp()+thor.BlockInterval())
			if err != nil {
				refused = append(refused, who)
				continue
			}
			ok = append(ok, sched{who, flow.When()})
		}
		sort.Slice(ok, func(i, j int) bool {
			return ok[i].when < ok[j].when || (ok[i].when == ok[j].when && ok[i].who < ok[j].who)
		})
		for i, who := range refused {
			if i < 3 {
				w.Emit(trace.Ev{"e": "Refused", "who": u.nodes[who]})
				st.Refused++
			}
		}
		if len(ok) == 0 {
			st.Halted++
			return
		}
		// the natural proposer, or now and then a later one (the skipped ones are switched off by the scheduler)
		pick := 0
		if len(ok) > 1 && c.rng.Intn(4) == 0 {
			pick = 1 + c.rng.Intn(len(ok)-1)
		}
		ops := c.randomOps(pst, b)
		var txs []*tx.Transaction
		for _, o := range ops {
			txs = append(txs, o.t)
		}
		blk, err := net.Mint(c.parent.Header().ID(), ok[pick].who, false, ok[pick].when, txs...)
		if err != nil {
			die("run %d block %d: mint by %d: %v", run, b, ok[pick].who, err)
		}
		// ---- facts of the block: the packer's proposer list and what the real scheduler switched off
		aut := builtin.Authority.Native(pst)
		chk := u.checker(pst, num)
		cands, err := aut.Candidates(chk, u.mbp(pst))
		must(err)
		var props []scheduler.Proposer
		for _, x := range cands {
			props = append(props, scheduler.Proposer{Address: x.NodeMaster, Active: x.Active})
		}
		sd, err := seeder.Generate(c.parent.Header().ID())
		must(err)
		signer, err := blk.Header().Signer()
		must(err)
		sch, err := scheduler.NewPoASchedulerV2(signer, props, c.parent.Header().Number(), c.parent.Header().Timestamp(), sd)
		if err != nil {
			die("run %d block %d: signer not among the candidates of the parent state: %v", run, b, err)
		}
		ups, _ := sch.Updates(blk.Header().Timestamp())
		offs := []string{}
		for _, x := range ups {
			if !x.Active {
				a := x.Address
				offs = append(offs, u.nodeName(&a))
			}
		}
		if len(offs) > 0 {
			st.OffsBlocks++
		}
		w.Emit(trace.Ev{"e": "Begin", "who": u.nodeName(&signer), "offs": offs, "props": u.propList(props), "num": num,
			"score": blk.Header().TotalScore() - c.parent.Header().TotalScore()})
		// ---- the transactions with their outcome
		receipts, err := net.God.Repo.GetBlockReceipts(blk.Header().ID())
		must(err)
		if len(receipts) != len(ops) {
			die("run %d block %d: %d receipts for %d txs", run, b, len(receipts), len(ops))
		}
		end := u.endorsement(pst)
		bal := map[int]*big.Int{}
		balOf := func(i int) *big.Int {
			if v, ok := bal[i]; ok {
				return v
			}
			v, err := pst.GetBalance(net.Devs[i].Address)
			must(err)
			bal[i] = v
			return v
		}
		for i, o := range ops {
			okTx := !receipts[i].Reverted
			st.Txs[o.kind]++
			if !okTx {
				st.Reverted[o.kind]++
			}
			if o.kind != "transfer" {
				o.ev["ok"] = okTx
				w.Emit(o.ev)
				if o.kind == "revoke" && okTx && !o.ev["exec"].(bool) {
					st.NonExecRevoke++
				}
				continue
			}
			if !okTx {
				continue
			}
			for _, side := range []struct {
				acct int
				sign int64
			}{{o.from, -1}, {o.to, 1}} {
				before := balOf(side.acct)
				after := new(big.Int).Add(before, new(big.Int).Mul(o.amount, big.NewInt(side.sign)))
				bal[side.acct] = after
				if c.class(before, end) != c.class(after, end) {
					w.Emit(trace.Ev{"e": "Bal", "acct": u.ends[side.acct], "b": c.class(after, end)})
				} else {
					w.Emit(trace.Ev{"e": "Touch", "acct": u.ends[side.acct]})
				}
			}
		}
		// ---- validators: COLD (fresh instance), WARM (one instance for the chain), the node's own import
		p0, err := n0.Repo.GetBlockSummary(c.parent.Header().ID())
		must(err)
		conflicts, err := n0.Repo.ScanConflicts(num)
		must(err)
		now := uint64(time.Now().Unix())
		verdict := func(err error) string {
			if err == nil {
				return "ok"
			}
			return "rejected: " + err.Error()
		}
		_, _, coldErr := consensus.New(n0.Repo, n0.Stater, net.FC).Process(p0, blk, now, conflicts)
		_, _, warmErr := c.warm.Process(p0, blk, now, conflicts)
		_, nodeErr := n0.Deliver(blk)
		cold, warm := verdict(coldErr), verdict(warmErr)
		if nodeErr != nil && warmErr == nil {
			warm = "rejected by the node's own (long-lived) validator: " + nodeErr.Error()
		}
		if coldErr == nil {
			st.ColdOK++
		}
		if warmErr == nil {
			st.WarmOK++
		}
		if nodeErr == nil {
			st.NodeOK++
		}
		if b > 1 {
			st.CachedBlocks++
		}
		if coldErr != nil || warmErr != nil || nodeErr != nil { // the block comes from the real packer: nobody may refuse it
			st.Divergences = append(st.Divergences, fmt.Sprintf("run %d block %d (signer %s): cold=%s warm=%s node=%v", run, num,
				u.nodeName(&signer), cold, warm, nodeErr))
		}
		post := c.stateOf(blk)
		pj := u.proj(post, num+1)
		w.Emit(trace.Ev{"e": "End", "warm": warm, "cold": cold, "num": num, "proj": pj})
		st.Blocks++
		if l := len(pj["links"].([]string)); l > st.MaxListed {
			st.MaxListed = l
		}
		key := fmt.Sprint(pj["cands"])
		if lastProps != "" && key != lastProps {
			st.ListChanges++
			seen[fmt.Sprintf("%d/%d/%s", seed, run, key)] = true
		}
		lastProps = key
		c.parent = blk
		if coldErr != nil || warmErr != nil || nodeErr != nil {
			return // node 0 cannot follow the chain any further
		}
	}
}
