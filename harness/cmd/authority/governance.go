package main

// modes gov-replay and gov-chain: specs/builtin/Governance.tla bound to the REAL governance contracts (growth step of C05).
//
// gov-replay: a custom genesis with the real Executor contract (no Params.ExecutorAddress) and three approvers; every
// step of a TLC-exported behaviour is one transaction executed with runtime.ExecuteTransaction on the real bytecode of
// builtin/gen (Executor, Params, Authority) over one real state; compared after every step: success / revert message,
// events, the Executor's getters (approvers, approverCount, votingContracts, proposals), the Params getters and the
// authority list.
//
// gov-chain: a real chain (real packer on one store, cold + warm real validators on another, as in bignet) governed by the
// real Executor: a proposal raises max-block-proposers, another adds an authority node; the very next block's proposer
// set must follow on all three sides; recorded in the Trace_Authority.tla format (the executed proposal is the
// executor's transaction there).

import (
	"bytes"
	"encoding/json"
	"fmt"
	"math"
	"math/big"
	"os"
	"path/filepath"
	"reflect"
	"sort"
	"strings"

	"github.com/ethereum/go-ethereum/common"
	"github.com/ethereum/go-ethereum/crypto"

	thorabi "github.com/vechain/thor/v2/abi"
	"github.com/vechain/thor/v2/builtin"
	"github.com/vechain/thor/v2/chain"
	"github.com/vechain/thor/v2/genesis"
	"github.com/vechain/thor/v2/muxdb"
	"github.com/vechain/thor/v2/runtime"
	"github.com/vechain/thor/v2/state"
	"github.com/vechain/thor/v2/thor"
	"github.com/vechain/thor/v2/trie"
	"github.com/vechain/thor/v2/tx"
	"github.com/vechain/thor/v2/xenv"

	"verifharness/internal/sim"
)

const govUnit = 302400 // seconds per spec time unit: Week = 2 units = 1 weeks of the contract

type govWorld struct {
	devs   []genesis.DevAccount
	acct   map[string]int // a b c d v -> dev index
	node   map[string]int // n0..n3 -> dev index
	names  map[thor.Address]string
	fc     *thor.ForkConfig
	repo   *chain.Repository
	st     *state.State
	launch uint64
	nonce  uint64
	pids   map[string]thor.Bytes32 // "time/proposer" -> real id
	keys   map[string]thor.Bytes32
}

func govGenesis(mbp uint64, endorsement *big.Int, auths []int, launch uint64, fc *thor.ForkConfig) *genesis.Genesis {
	devs := genesis.DevAccounts()
	var accs []genesis.Account
	for _, d := range devs {
		accs = append(accs, genesis.Account{Address: d.Address, Balance: (*genesis.HexOrDecimal256)(sim.BigBalance), Energy: (*genesis.HexOrDecimal256)(sim.BigBalance)})
	}
	var al []genesis.Authority
	for _, i := range auths {
		al = append(al, genesis.Authority{MasterAddress: devs[i].Address, EndorsorAddress: devs[i].Address, Identity: thor.BytesToBytes32([]byte("m"))})
	}
	var apprs []genesis.Approver
	for i := 0; i < 3; i++ {
		apprs = append(apprs, genesis.Approver{Address: devs[i].Address, Identity: thor.BytesToBytes32([]byte(fmt.Sprintf("approver%d", i)))})
	}
	g, err := genesis.NewCustomNet(&genesis.CustomGenesis{LaunchTime: launch, GasLimit: 40_000_000, Accounts: accs, Authority: al,
		Executor: genesis.Executor{Approvers: apprs},
		Params:   genesis.Params{MaxBlockProposers: &mbp, ProposerEndorsement: (*genesis.HexOrDecimal256)(endorsement)}, ForkConfig: fc})
	must(err)
	return g
}

func newGovWorld() *govWorld {
	w := &govWorld{devs: genesis.DevAccounts(), acct: map[string]int{"a": 0, "b": 1, "c": 2, "d": 3, "v": 4},
		node: map[string]int{"n0": 5, "n1": 6, "n2": 7, "n3": 8}, names: map[thor.Address]string{}, pids: map[string]thor.Bytes32{},
		launch: sim.DefaultLaunch, fc: &thor.ForkConfig{HAYABUSA: math.MaxUint32, GALACTICA: math.MaxUint32},
		keys: map[string]thor.Bytes32{"mbp": thor.KeyMaxBlockProposers, "endorsement": thor.KeyProposerEndorsement, "executor": thor.KeyExecutorAddress}}
	for n, i := range w.acct {
		w.names[w.devs[i].Address] = n
	}
	for n, i := range w.node {
		w.names[w.devs[i].Address] = n
	}
	w.names[builtin.Executor.Address] = "EXECUTOR"
	g := govGenesis(1, big.NewInt(1), []int{5, 6}, w.launch, w.fc)
	db := muxdb.NewMem()
	b0, _, _, err := g.Build(state.NewStater(db))
	must(err)
	w.repo, err = chain.NewRepository(db, b0)
	must(err)
	w.st = state.New(db, trie.Root{Hash: b0.Header().StateRoot()})
	return w
}

func (w *govWorld) name(a thor.Address) string {
	if n, ok := w.names[a]; ok {
		return n
	}
	return "?" + a.String()[:10]
}

func (w *govWorld) addrOf(n string) thor.Address {
	if i, ok := w.acct[n]; ok {
		return w.devs[i].Address
	}
	if i, ok := w.node[n]; ok {
		return w.devs[i].Address
	}
	die("unknown name %q", n)
	return thor.Address{}
}

func (w *govWorld) rt(now int64) *runtime.Runtime {
	return runtime.New(w.repo.NewChain(w.repo.GenesisBlock().Header().ID()), w.st, &xenv.BlockContext{Number: 1,
		Time: w.launch + uint64(now)*govUnit, GasLimit: 40_000_000, Beneficiary: w.devs[9].Address, Signer: w.devs[9].Address}, w.fc)
}

// call: a read-only call of real bytecode (state changes are undone)
func (w *govWorld) call(now int64, from, to thor.Address, data []byte) (*runtime.Output, error) {
	cp := w.st.NewCheckpoint()
	defer w.st.RevertTo(cp)
	exec, _ := w.rt(now).PrepareClause(tx.NewClause(&to).WithData(data), 0, 3_000_000, &xenv.TransactionContext{Origin: from,
		GasPrice: big.NewInt(0), ProvedWork: big.NewInt(0), GasPayer: from})
	out, _, err := exec()
	return out, err
}

func revertReason(out *runtime.Output) string {
	if out == nil || out.VMErr == nil {
		return "ok"
	}
	if len(out.Data) >= 4 && bytes.Equal(out.Data[:4], []byte{0x08, 0xc3, 0x79, 0xa0}) {
		// Error(string): selector, offset, length, bytes
		if d := out.Data[4:]; len(d) >= 64 {
			n := new(big.Int).SetBytes(d[32:64]).Uint64()
			if uint64(len(d)) >= 64+n {
				return string(d[64 : 64+n])
			}
		}
	}
	return "vm: " + out.VMErr.Error()
}

// opCall: target and calldata of a proposal operation [t, x, v]
func (w *govWorld) opCall(op map[string]any) (thor.Address, []byte) {
	t, x, v := getS(op, "t"), getS(op, "x"), getI(op, "v")
	switch t {
	case "param":
		return builtin.Params.Address, mustInput(builtin.Params.ABI.MethodByName, "set", w.keys[x], big.NewInt(v))
	case "setExecutor":
		return builtin.Params.Address, mustInput(builtin.Params.ABI.MethodByName, "set", thor.KeyExecutorAddress, new(big.Int).SetBytes(w.addrOf(x).Bytes()))
	case "authAdd":
		return builtin.Authority.Address, mustInput(builtin.Authority.ABI.MethodByName, "add", w.addrOf(x), w.addrOf(x), thor.Blake2b([]byte("identity-"+x)))
	case "authRevoke":
		return builtin.Authority.Address, mustInput(builtin.Authority.ABI.MethodByName, "revoke", w.addrOf(x))
	case "addApprover":
		return builtin.Executor.Address, mustInput(builtin.Executor.ABI.MethodByName, "addApprover", w.addrOf(x), thor.Blake2b([]byte("approver-"+x)))
	case "revokeApprover":
		return builtin.Executor.Address, mustInput(builtin.Executor.ABI.MethodByName, "revokeApprover", w.addrOf(x))
	case "attach":
		return builtin.Executor.Address, mustInput(builtin.Executor.ABI.MethodByName, "attachVotingContract", w.addrOf(x))
	case "detach":
		return builtin.Executor.Address, mustInput(builtin.Executor.ABI.MethodByName, "detachVotingContract", w.addrOf(x))
	}
	die("unknown op %q", t)
	return thor.Address{}, nil
}

func mustInput(lookup func(string) (*thorabi.Method, bool), name string, args ...any) []byte {
	m, ok := lookup(name)
	if !ok {
		die("method %s not in ABI", name)
	}
	data, err := m.EncodeInput(args...)
	must(err)
	return data
}

func (w *govWorld) pid(now int64, proposer string) thor.Bytes32 {
	// keccak256(abi.encodePacked(uint64(now), msg.sender))
	var b [8]byte
	t := w.launch + uint64(now)*govUnit
	for i := 0; i < 8; i++ {
		b[7-i] = byte(t >> (8 * uint(i)))
	}
	return thor.Bytes32(crypto.Keccak256Hash(b[:], w.addrOf(proposer).Bytes()))
}

// send executes one transaction on the real state: (revert reason or "ok", receipt)
func (w *govWorld) send(now int64, from string, to thor.Address, data []byte) (string, *tx.Receipt) {
	sender := w.addrOf(from)
	out, err := w.call(now, sender, to, data)
	must(err)
	reason := revertReason(out)
	w.nonce++
	trx := tx.MustSign(tx.NewBuilder(tx.TypeLegacy).ChainTag(w.repo.ChainTag()).BlockRef(tx.NewBlockRef(0)).Expiration(1000).
		Gas(3_000_000).GasPriceCoef(0).Nonce(w.nonce).Clause(tx.NewClause(&to).WithData(data)).Build(), w.devs[w.acct[from]].PrivateKey)
	rc, err := w.rt(now).ExecuteTransaction(trx)
	if err != nil {
		die("ExecuteTransaction: %v", err)
	}
	if rc.Reverted != (reason != "ok") {
		reason = fmt.Sprintf("INCONSISTENT: call says %q, receipt.Reverted=%v", reason, rc.Reverted)
	}
	return reason, rc
}

// events of a receipt in the vocabulary of MCGovernanceSim
func (w *govWorld) events(rc *tx.Receipt) []map[string]any {
	out := []map[string]any{}
	if rc == nil || rc.Reverted {
		return out
	}
	txt := func(b thor.Bytes32) string { return strings.TrimRight(string(b[:]), "\x00") }
	for _, o := range rc.Outputs {
		for _, ev := range o.Events {
			switch ev.Address {
			case builtin.Executor.Address:
				for _, n := range []string{"Proposal", "Approver", "VotingContract"} {
					e, _ := builtin.Executor.ABI.EventByName(n)
					if ev.Topics[0] != e.ID() {
						continue
					}
					var act thor.Bytes32
					copy(act[:], ev.Data)
					if n == "Proposal" {
						out = append(out, map[string]any{"c": "executor", "ev": n, "x": txt(act), "v": 0, "_pid": ev.Topics[1]})
					} else {
						on := 0
						if a := txt(act); a == "added" || a == "attached" {
							on = 1
						}
						out = append(out, map[string]any{"c": "executor", "ev": n, "x": w.name(thor.BytesToAddress(ev.Topics[1][:])), "v": on})
					}
				}
			case builtin.Params.Address:
				key := "?"
				for k, v := range w.keys {
					if v == ev.Topics[1] {
						key = k
					}
				}
				val := new(big.Int).SetBytes(ev.Data)
				v := int64(0)
				if key != "executor" && val.IsInt64() {
					v = val.Int64()
				}
				out = append(out, map[string]any{"c": "params", "ev": "Set", "x": key, "v": v})
			case builtin.Authority.Address:
				var act thor.Bytes32
				copy(act[:], ev.Data)
				on := 0
				if txt(act) == "added" {
					on = 1
				}
				out = append(out, map[string]any{"c": "authority", "ev": "Candidate", "x": w.name(thor.BytesToAddress(ev.Topics[1][:])), "v": on})
			default: // Prototype etc.: not part of the governance vocabulary
			}
		}
	}
	return out
}

func (w *govWorld) view(now int64, to thor.Address, data []byte) []byte {
	out, err := w.call(now, w.devs[9].Address, to, data)
	must(err)
	if out.VMErr != nil {
		die("getter reverted: %v", out.VMErr)
	}
	return out.Data
}

// proj: the projection GProj of Governance.tla read through the real getters
func (w *govWorld) proj(now int64, ops map[string]map[string]any) map[string]any {
	ex := builtin.Executor
	appr := map[string]any{}
	accts := []string{}
	for n := range w.acct {
		accts = append(accts, n)
	}
	sort.Strings(accts)
	voting := []string{}
	for _, n := range accts {
		m, _ := ex.ABI.MethodByName("approvers")
		in, err := m.EncodeInput(w.addrOf(n))
		must(err)
		var r struct {
			Identity common.Hash
			InPower  bool
		}
		must(m.DecodeOutput(w.view(now, ex.Address, in), &r))
		appr[n] = map[string]any{"known": r.Identity != (common.Hash{}), "inPower": r.InPower}
		mv, _ := ex.ABI.MethodByName("votingContracts")
		in, err = mv.EncodeInput(w.addrOf(n))
		must(err)
		var b bool
		must(mv.DecodeOutput(w.view(now, ex.Address, in), &b))
		if b {
			voting = append(voting, n)
		}
	}
	mc, _ := ex.ABI.MethodByName("approverCount")
	in, err := mc.EncodeInput()
	must(err)
	var cnt uint8
	must(mc.DecodeOutput(w.view(now, ex.Address, in), &cnt))
	props := []map[string]any{}
	keys := []string{}
	for k := range w.pids {
		keys = append(keys, k)
	}
	sort.Strings(keys)
	for _, k := range keys {
		mp, _ := ex.ABI.MethodByName("proposals")
		in, err := mp.EncodeInput(w.pids[k])
		must(err)
		var r struct {
			TimeProposed  uint64
			Proposer      common.Address
			Quorum        uint8
			ApprovalCount uint8
			Executed      bool
			Target        common.Address
			Data          []byte
		}
		must(mp.DecodeOutput(w.view(now, ex.Address, in), &r))
		if r.TimeProposed == 0 {
			continue // never created (a reverted propose)
		}
		op := ops[k]
		tgt, data := w.opCall(op)
		if thor.Address(r.Target) != tgt || !bytes.Equal(r.Data, data) {
			op = map[string]any{"t": "WRONG-TARGET-OR-DATA", "x": "", "v": 0}
		}
		props = append(props, map[string]any{"time": (r.TimeProposed - w.launch) / govUnit, "proposer": w.name(thor.Address(r.Proposer)),
			"quorum": r.Quorum, "count": r.ApprovalCount, "executed": r.Executed, "op": op})
	}
	params := map[string]any{}
	mg, _ := builtin.Params.ABI.MethodByName("get")
	for _, k := range []string{"mbp", "endorsement"} {
		in, err := mg.EncodeInput(w.keys[k])
		must(err)
		v := new(big.Int)
		must(mg.DecodeOutput(w.view(now, builtin.Params.Address, in), &v))
		params[k] = v.Int64()
	}
	me, _ := builtin.Params.ABI.MethodByName("executor")
	in, err = me.EncodeInput()
	must(err)
	var ea common.Address
	must(me.DecodeOutput(w.view(now, builtin.Params.Address, in), &ea))
	auth := []string{}
	aut := builtin.Authority.Native(w.st)
	p, err := aut.First()
	must(err)
	for i := 0; p != nil && i < 20; i++ {
		auth = append(auth, w.name(*p))
		p, err = aut.Next(*p)
		must(err)
	}
	return map[string]any{"now": now, "appr": appr, "apprCount": cnt, "voting": voting, "props": props, "params": params,
		"execAddr": w.name(thor.Address(ea)), "auth": auth}
}

type govStats struct {
	Behaviours int            `json:"behaviours"`
	Steps      int            `json:"steps"`
	Actions    map[string]int `json:"actions"`
	OKs        map[string]int `json:"succeeded"`
	Reverts    map[string]int `json:"revert_reasons"`
	Executed   map[string]int `json:"executed_operations"`
	Compared   int            `json:"projections_compared"`
	Distinct   int            `json:"distinct_nontrivial"`
	Mismatches []mismatch     `json:"mismatches"`
}

func normProps(v any) any {
	// the specification exports the proposals as a SET: compare order-insensitively
	m, ok := v.(map[string]any)
	if !ok {
		return v
	}
	if ps, ok := m["props"].([]any); ok {
		sort.Slice(ps, func(i, j int) bool {
			a, b := ps[i].(map[string]any), ps[j].(map[string]any)
			if a["time"].(float64) != b["time"].(float64) {
				return a["time"].(float64) < b["time"].(float64)
			}
			return a["proposer"].(string) < b["proposer"].(string)
		})
	}
	if vs, ok := m["voting"].([]any); ok {
		sort.Slice(vs, func(i, j int) bool { return vs[i].(string) < vs[j].(string) })
	}
	return m
}

func govReplayOne(path string, gs *govStats, seen map[string]bool) {
	raw, err := os.ReadFile(path)
	must(err)
	var beh struct {
		Steps []map[string]any `json:"steps"`
	}
	must(json.Unmarshal(raw, &beh))
	w := newGovWorld()
	base := filepath.Base(path)
	bad := func(i int, act, field string, want, got any) {
		if len(gs.Mismatches) < 40 {
			gs.Mismatches = append(gs.Mismatches, mismatch{base, i, act, field, want, got})
		}
	}
	ops := map[string]map[string]any{}
	now := int64(1)
	gs.Behaviours++
	sig := []string{}
	nExec := 0
	for i, s := range beh.Steps {
		act := getS(s, "a")
		gs.Steps++
		gs.Actions[act]++
		var reason string
		var rc *tx.Receipt
		pidKey := func() string {
			p := s["p"].(map[string]any)
			return fmt.Sprintf("%d/%s", getI(p, "time"), getS(p, "proposer"))
		}
		realPid := func() thor.Bytes32 {
			p := s["p"].(map[string]any)
			if getI(p, "time") == 0 {
				return thor.Blake2b([]byte("no such proposal"))
			}
			return w.pid(getI(p, "time"), getS(p, "proposer"))
		}
		var wantPid *thor.Bytes32
		switch act {
		case "genesis":
			reason = "ok"
		case "time":
			now += getI(s, "d")
			reason = "ok"
		case "propose":
			op := s["op"].(map[string]any)
			tgt, data := w.opCall(op)
			reason, rc = w.send(now, getS(s, "s"), builtin.Executor.Address, mustInput(builtin.Executor.ABI.MethodByName, "propose", tgt, data))
			if reason == "ok" {
				k := fmt.Sprintf("%d/%s", now, getS(s, "s"))
				id := w.pid(now, getS(s, "s"))
				w.pids[k] = id
				ops[k] = op
				wantPid = &id
			}
		case "approve":
			id := realPid()
			reason, rc = w.send(now, getS(s, "s"), builtin.Executor.Address, mustInput(builtin.Executor.ABI.MethodByName, "approve", id))
			wantPid = &id
		case "execute":
			id := realPid()
			reason, rc = w.send(now, getS(s, "s"), builtin.Executor.Address, mustInput(builtin.Executor.ABI.MethodByName, "execute", id))
			wantPid = &id
			if reason == "ok" {
				op := ops[pidKey()]
				gs.Executed[getS(op, "t")]++
				nExec++
			}
		case "directParam":
			reason, rc = w.send(now, getS(s, "s"), builtin.Params.Address, mustInput(builtin.Params.ABI.MethodByName, "set", w.keys[getS(s, "k")], big.NewInt(getI(s, "v"))))
		case "directAuthAdd":
			n := getS(s, "n")
			reason, rc = w.send(now, getS(s, "s"), builtin.Authority.Address, mustInput(builtin.Authority.ABI.MethodByName, "add", w.addrOf(n), w.addrOf(n), thor.Blake2b([]byte("identity-"+n))))
		case "directGov":
			tgt, data := w.opCall(s["op"].(map[string]any))
			reason, rc = w.send(now, getS(s, "s"), tgt, data)
		default:
			die("%s: unknown action %q", path, act)
		}
		sig = append(sig, act+":"+reason)
		if reason == "ok" {
			gs.OKs[act]++
		} else {
			gs.Reverts[reason]++
		}
		if reason != getS(s, "res") {
			bad(i, act, "outcome", getS(s, "res"), reason)
			return
		}
		evs := w.events(rc)
		for _, e := range evs {
			if id, ok := e["_pid"]; ok {
				if wantPid == nil || id.(thor.Bytes32) != *wantPid {
					bad(i, act, "event proposal id", fmt.Sprint(wantPid), fmt.Sprint(id))
				}
				delete(e, "_pid")
			}
		}
		if got := norm(evs); !reflect.DeepEqual(got, s["events"]) {
			bad(i, act, "events", s["events"], got)
			return
		}
		got := normProps(norm(w.proj(now, ops)))
		gs.Compared++
		if want := normProps(s["proj"]); !reflect.DeepEqual(got, want) {
			f, wv, g := firstDiff(want, got)
			bad(i, act, "proj."+f, wv, g)
			return
		}
	}
	if nExec >= 1 {
		seen[strings.Join(sig, ",")] = true
	}
}

func govReplayMode(in, out string) {
	files, err := filepath.Glob(filepath.Join(in, "gbeh_*.json"))
	must(err)
	sort.Strings(files)
	if len(files) == 0 {
		die("no governance behaviours in %s", in)
	}
	gs := &govStats{Actions: map[string]int{}, OKs: map[string]int{}, Reverts: map[string]int{}, Executed: map[string]int{}, Mismatches: []mismatch{}}
	seen := map[string]bool{}
	for _, f := range files {
		govReplayOne(f, gs, seen)
	}
	gs.Distinct = len(seen)
	b, _ := json.MarshalIndent(gs, "", " ")
	must(os.WriteFile(filepath.Join(out, "summary.json"), b, 0o644))
	fmt.Printf("{\"behaviours\":%d,\"steps\":%d,\"mismatches\":%d}\n", gs.Behaviours, gs.Steps, len(gs.Mismatches))
}
