// authority binds specs/builtin/Authority.tla to the real PoA authority contract and to the proposer-list derivation of
// the validator and the packer (growth step of C05).
//
//	authority -mode replay -in <dir with beh_*.json> -out <dir>
//	    model -> implementation: executes TLC-exported behaviours of Authority.tla on the real
//	    builtin.Authority.Native(state) and on real scheduler.Candidates objects and compares the FULL projection
//	    (links, Get of every node, AllCandidates, Candidates(limit), a fresh validator's proposer list, balances)
//	    after every step.
//	authority -mode chain -out <dir> -seed S -runs R -blocks B
//	    implementation -> model: real chains (internal/sim) with executor-driven add/revoke transactions, endorsor VET
//	    transfers and MaxBlockProposers changes; every block is validated by a WARM consensus instance (poaCacher
//	    used across blocks), a COLD one (fresh per block) and the node's own import; the trace (Trace_Authority.tla)
//	    carries the transactions with their outcome, the packer's proposer list and the projection after each block.
//
//	authority -mode bignet -out <dir> -seed S -blocks B
//	    the cap of 101 proposers: 105 endorsed authorities, params[max-block-proposers] = 200 (and moved around), v2 and
//	    v1 scheduler; real packer on one store, real consensus (cold + warm) on another; same trace format.
//
// Deterministic in its flags. Exit 3 + HARNESS-ERROR on own trouble.
package main

import (
	"encoding/json"
	"flag"
	"fmt"
	"math/big"
	"os"
	"path/filepath"
	"reflect"
	"sort"
	"strings"

	"github.com/ethereum/go-ethereum/rlp"

	"github.com/vechain/thor/v2/builtin"
	"github.com/vechain/thor/v2/builtin/authority"
	"github.com/vechain/thor/v2/muxdb"
	"github.com/vechain/thor/v2/scheduler"
	"github.com/vechain/thor/v2/state"
	"github.com/vechain/thor/v2/thor"
	"github.com/vechain/thor/v2/trie"

	"verifharness/internal/trace"
)

func die(f string, a ...any) {
	fmt.Printf("HARNESS-ERROR "+f+"\n", a...)
	os.Exit(3)
}

func must(err error) {
	if err != nil {
		die("%v", err)
	}
}

const none = "none"

// universe maps the names used by the specification to addresses.
type universe struct {
	nodes    []string
	ends     []string
	nodeAddr map[string]thor.Address
	addrNode map[thor.Address]string
	endAddr  map[string]thor.Address
	addrEnd  map[thor.Address]string
	ident    map[string]thor.Bytes32
	fc       *thor.ForkConfig
	balCap   int64 // projection of a balance: min(balance / endorsement, balCap)
}

func newUniverse() *universe {
	return &universe{nodeAddr: map[string]thor.Address{}, addrNode: map[thor.Address]string{}, endAddr: map[string]thor.Address{},
		addrEnd: map[thor.Address]string{}, ident: map[string]thor.Bytes32{}}
}

func (u *universe) addNode(name string, a thor.Address) {
	u.nodes = append(u.nodes, name)
	u.nodeAddr[name] = a
	u.addrNode[a] = name
	u.ident[name] = thor.Blake2b([]byte("identity-" + name))
}

func (u *universe) addEnd(name string, a thor.Address) {
	u.ends = append(u.ends, name)
	u.endAddr[name] = a
	u.addrEnd[a] = name
}

func (u *universe) nodeName(a *thor.Address) string {
	if a == nil {
		return none
	}
	if n, ok := u.addrNode[*a]; ok {
		return n
	}
	return "?" + a.String()[:10]
}

func (u *universe) endName(a thor.Address) string {
	if a.IsZero() {
		return none
	}
	if n, ok := u.addrEnd[a]; ok {
		return n
	}
	return "?" + a.String()[:10]
}

func (u *universe) endorsement(st *state.State) *big.Int {
	v, err := builtin.Params.Native(st).Get(thor.KeyProposerEndorsement)
	must(err)
	return v
}

// the real balance checker both use sites build
func (u *universe) checker(st *state.State, blockNum uint32) authority.BalanceChecker {
	return builtin.Staker.Native(st).TransitionPeriodBalanceCheck(u.fc, blockNum, u.endorsement(st))
}

// the parameter as stored (0 = unset)
func (u *universe) mbpRaw(st *state.State) uint64 {
	v, err := builtin.Params.Native(st).Get(thor.KeyMaxBlockProposers)
	must(err)
	if !v.IsUint64() {
		die("max-block-proposers does not fit 64 bits")
	}
	return v.Uint64()
}

// the limit both use sites pass on: thor.GetMaxBlockProposers(params, capToInitial = true)
func (u *universe) mbp(st *state.State) uint64 {
	v, err := thor.GetMaxBlockProposers(builtin.Params.Native(st), true)
	must(err)
	return v
}

func (u *universe) candList(cs []*authority.Candidate) []map[string]any {
	out := []map[string]any{}
	for _, c := range cs {
		m := c.NodeMaster
		out = append(out, map[string]any{"n": u.nodeName(&m), "e": u.endName(c.Endorsor), "act": c.Active})
	}
	return out
}

func (u *universe) propList(ps []scheduler.Proposer) []map[string]any {
	out := []map[string]any{}
	for _, p := range ps {
		a := p.Address
		out = append(out, map[string]any{"n": u.nodeName(&a), "act": p.Active})
	}
	return out
}

var tailKey = thor.Blake2b([]byte("tail"))

// proj reads the full observable projection of the authority contract in st (block number blockNum is the block the
// proposer list would be derived for).
func (u *universe) proj(st *state.State, blockNum uint32) map[string]any {
	aut := builtin.Authority.Native(st)
	links := []string{}
	p, err := aut.First()
	must(err)
	head := u.nodeName(p)
	for i := 0; p != nil; i++ {
		if i > len(u.nodes)+1 {
			links = append(links, "CYCLE")
			break
		}
		links = append(links, u.nodeName(p))
		p, err = aut.Next(*p)
		must(err)
	}
	var tp *thor.Address
	must(st.DecodeStorage(builtin.Authority.Address, tailKey, func(raw []byte) error {
		if len(raw) == 0 {
			return nil
		}
		return rlp.DecodeBytes(raw, &tp)
	}))
	get := map[string]any{}
	for _, n := range u.nodes {
		listed, end, id, act, err := aut.Get(u.nodeAddr[n])
		must(err)
		nx, err := aut.Next(u.nodeAddr[n])
		must(err)
		g := map[string]any{"listed": listed, "e": u.endName(end), "act": act, "next": u.nodeName(nx)}
		if !end.IsZero() && id != u.ident[n] {
			g["identity"] = "WRONG"
		}
		get[n] = g
	}
	all, err := aut.AllCandidates()
	must(err)
	chk := u.checker(st, blockNum)
	cands, err := aut.Candidates(chk, u.mbp(st))
	must(err)
	fresh, err := scheduler.NewCandidates(all).Pick(st, chk)
	must(err)
	bal := map[string]any{}
	end := u.endorsement(st)
	for _, e := range u.ends {
		b, err := st.GetBalance(u.endAddr[e])
		must(err)
		q := new(big.Int).Div(b, end)
		if !q.IsInt64() || q.Int64() > u.balCap {
			q = big.NewInt(u.balCap)
		}
		bal[e] = q.Int64()
	}
	return map[string]any{"links": links, "head": head, "tail": u.nodeName(tp), "get": get, "all": u.candList(all),
		"cands": u.candList(cands), "fresh": u.propList(fresh), "bal": bal, "mbp": u.mbpRaw(st)}
}

// norm: through JSON, so that both sides have the same dynamic types
func norm(v any) any {
	b, err := json.Marshal(v)
	must(err)
	var out any
	must(json.Unmarshal(b, &out))
	return out
}

// firstDiff names the first top-level (and second-level) key at which two projections differ.
func firstDiff(want, got any) (string, any, any) {
	wm, ok1 := want.(map[string]any)
	gm, ok2 := got.(map[string]any)
	if !ok1 || !ok2 {
		return "", want, got
	}
	keys := []string{}
	for k := range wm {
		keys = append(keys, k)
	}
	for k := range gm {
		if _, ok := wm[k]; !ok {
			keys = append(keys, k)
		}
	}
	sort.Strings(keys)
	for _, k := range keys {
		if !reflect.DeepEqual(wm[k], gm[k]) {
			if sub, w, g := firstDiff(wm[k], gm[k]); sub != "" {
				return k + "." + sub, w, g
			}
			return k, wm[k], gm[k]
		}
	}
	return "", nil, nil
}

type mismatch struct {
	Where  string `json:"where"`
	Step   int    `json:"step"`
	Action string `json:"action"`
	Field  string `json:"field"`
	Want   any    `json:"want"`
	Got    any    `json:"got"`
}

// ---------------------------------------------------------------------------------------------- replay

type replayStats struct {
	Behaviours   int            `json:"behaviours"`
	Steps        int            `json:"steps"`
	Actions      map[string]int `json:"actions"`
	AddOK        int            `json:"add_ok"`
	AddRefused   int            `json:"add_refused_by_contract"`
	RevokeOK     int            `json:"revoke_ok"`
	RevokeSole   int            `json:"revoke_refused_only_listed_node"`
	RevokeOther  int            `json:"revoke_refused_not_listed"`
	RevokeDenied int            `json:"revoke_not_permitted"`
	UpdateSole   int            `json:"update_refused_only_listed_node"`
	FromCache    int            `json:"blocks_using_the_cached_candidates"`
	Decisions    map[string]int `json:"cache_decisions"`
	Distinct     int            `json:"distinct_nontrivial"`
	Mismatches   []mismatch     `json:"mismatches"`
	Compared     int            `json:"projections_compared"`
}

func getS(m map[string]any, k string) string { s, _ := m[k].(string); return s }
func getB(m map[string]any, k string) bool   { b, _ := m[k].(bool); return b }
func getI(m map[string]any, k string) int64  { f, _ := m[k].(float64); return int64(f) }

func replayOne(path string, rs *replayStats, seen map[string]bool) {
	raw, err := os.ReadFile(path)
	must(err)
	var beh struct {
		Nodes []string         `json:"nodes"`
		Steps []map[string]any `json:"steps"`
	}
	must(json.Unmarshal(raw, &beh))
	if len(beh.Steps) == 0 {
		die("%s: empty behaviour", path)
	}
	u := newUniverse()
	u.fc = &thor.ForkConfig{HAYABUSA: ^uint32(0)}
	u.balCap = 1 << 30
	sort.Strings(beh.Nodes)
	for _, n := range beh.Nodes {
		u.addNode(n, thor.BytesToAddress(thor.Blake2b([]byte("node-"+n)).Bytes()))
	}
	p0 := beh.Steps[0]["proj"].(map[string]any)
	for e := range p0["bal"].(map[string]any) {
		u.addEnd(e, thor.BytesToAddress(thor.Blake2b([]byte("endorsor-"+e)).Bytes()))
	}
	sort.Strings(u.ends)
	st := state.New(muxdb.NewMem(), trie.Root{})
	unit := new(big.Int).Set(thor.InitialProposerEndorsement)
	must(builtin.Params.Native(st).Set(thor.KeyProposerEndorsement, unit))
	aut := builtin.Authority.Native(st)
	setBal := func(e string, b int64) {
		must(st.SetBalance(u.endAddr[e], new(big.Int).Mul(unit, big.NewInt(b))))
	}
	setMBP := func(m int64) { must(builtin.Params.Native(st).Set(thor.KeyMaxBlockProposers, big.NewInt(m))) }
	base := filepath.Base(path)
	bad := func(i int, act, field string, want, got any) {
		if len(rs.Mismatches) < 40 {
			rs.Mismatches = append(rs.Mismatches, mismatch{base, i, act, field, want, got})
		}
	}
	var cached, cur *scheduler.Candidates
	sig := []string{}
	var effAdd, effRevoke, cacheAfterInvalidate, invalidated bool
	rs.Behaviours++
	for i, s := range beh.Steps {
		act := getS(s, "a")
		rs.Steps++
		rs.Actions[act]++
		sig = append(sig, act)
		switch act {
		case "genesis":
			links := p0["links"].([]any)
			for _, x := range links {
				n := x.(string)
				e := getS(p0["get"].(map[string]any)[n].(map[string]any), "e")
				ok, err := aut.Add(u.nodeAddr[n], u.endAddr[e], u.ident[n])
				must(err)
				if !ok {
					bad(i, act, "add", true, false)
				}
			}
			for e, b := range p0["bal"].(map[string]any) {
				setBal(e, int64(b.(float64)))
			}
			setMBP(getI(p0, "mbp"))
		case "begin":
			chk := u.checker(st, 1)
			if getB(s, "fromCache") {
				if cached == nil {
					bad(i, act, "fromCache", true, false)
					return
				}
				cur = cached.Copy()
				rs.FromCache++
				if invalidated {
					cacheAfterInvalidate = true
				}
			} else {
				all, err := aut.AllCandidates()
				must(err)
				cur = scheduler.NewCandidates(all)
			}
			ps, err := cur.Pick(st, chk)
			must(err)
			if got := norm(u.propList(ps)); !reflect.DeepEqual(got, s["props"]) {
				bad(i, act, "props", s["props"], got)
			}
			who := getS(s, "who")
			upd := func(n string, active bool) {
				// consensus/poa_validator.go: authority.Update's verdict is ignored, candidates.Update must succeed
				okU, err := aut.Update(u.nodeAddr[n], active)
				must(err)
				if !okU {
					rs.UpdateSole++ // the only listed node: storage keeps its flag, the cached object does not
				}
				if !cur.Update(u.nodeAddr[n], active) {
					bad(i, act, "candidates.Update("+n+")", true, false)
				}
			}
			for _, x := range s["offs"].([]any) {
				upd(x.(string), false)
			}
			if getB(s, "onn") {
				upd(who, true)
			}
		case "add":
			n, e := getS(s, "n"), getS(s, "e")
			if getB(s, "exec") {
				ok, err := aut.Add(u.nodeAddr[n], u.endAddr[e], u.ident[n])
				must(err)
				if ok != getB(s, "nat") {
					bad(i, act, "Add("+n+") returned", getB(s, "nat"), ok)
				}
				if ok {
					rs.AddOK++
					effAdd = true
				} else {
					rs.AddRefused++
				}
			}
		case "revoke":
			n := getS(s, "n")
			listed, end, _, _, err := aut.Get(u.nodeAddr[n])
			must(err)
			endorsed := false
			if listed {
				endorsed, err = u.checker(st, 1)(u.nodeAddr[n], end)
				must(err)
			}
			if endorsed != getB(s, "endorsed") {
				bad(i, act, "isEndorsed("+n+")", getB(s, "endorsed"), endorsed)
			}
			if getB(s, "exec") || !endorsed {
				ok, err := aut.Revoke(u.nodeAddr[n])
				must(err)
				if ok != getB(s, "nat") {
					bad(i, act, "Revoke("+n+") returned", getB(s, "nat"), ok)
				}
				switch {
				case ok:
					rs.RevokeOK++
					effRevoke = true
				case listed:
					rs.RevokeSole++
				default:
					rs.RevokeOther++
				}
			} else {
				rs.RevokeDenied++
			}
		case "bal", "touch":
			e := getS(s, "e")
			if act == "bal" {
				setBal(e, getI(s, "b"))
			}
			if got := cur.IsEndorsor(u.endAddr[e]); got != getB(s, "flagged") {
				bad(i, act, "IsEndorsor("+e+")", getB(s, "flagged"), got)
			}
		case "mbp":
			setMBP(getI(s, "m"))
		case "end":
			d := getS(s, "decision")
			rs.Decisions[d]++
			switch d {
			case "drop":
				cached = nil
			case "invalidate":
				cur.InvalidateCache()
				cached = cur
				invalidated = true
			default:
				cached = cur
			}
		default:
			die("%s: unknown action %q", path, act)
		}
		got := norm(u.proj(st, 1))
		rs.Compared++
		if !reflect.DeepEqual(got, s["proj"]) {
			f, w, g := firstDiff(s["proj"], got)
			bad(i, act, "proj."+f, w, g)
			return // later steps would only repeat it
		}
	}
	if effAdd && effRevoke && cacheAfterInvalidate {
		seen[strings.Join(sig, ",")+fmt.Sprint(beh.Steps[len(beh.Steps)-1]["proj"])] = true
	}
}

func replayMode(in, out string) {
	files, err := filepath.Glob(filepath.Join(in, "beh_*.json"))
	must(err)
	sort.Strings(files)
	if len(files) == 0 {
		die("no behaviours in %s", in)
	}
	rs := &replayStats{Actions: map[string]int{}, Decisions: map[string]int{}, Mismatches: []mismatch{}}
	seen := map[string]bool{}
	for _, f := range files {
		replayOne(f, rs, seen)
	}
	rs.Distinct = len(seen)
	b, _ := json.MarshalIndent(rs, "", " ")
	must(os.WriteFile(filepath.Join(out, "summary.json"), b, 0o644))
	fmt.Printf("{\"behaviours\":%d,\"steps\":%d,\"mismatches\":%d}\n", rs.Behaviours, rs.Steps, len(rs.Mismatches))
}

func main() {
	mode := flag.String("mode", "replay", "replay | chain | bignet | gov-replay | gov-chain")
	in := flag.String("in", "", "replay: directory with beh_*.json")
	out := flag.String("out", "", "output directory")
	seed := flag.Int64("seed", 1, "chain: seed")
	runs := flag.Int("runs", 3, "chain: number of chains")
	blocks := flag.Int("blocks", 40, "chain: blocks per chain")
	flag.Parse()
	if *out == "" {
		die("need -out")
	}
	must(os.MkdirAll(*out, 0o755))
	switch *mode {
	case "replay":
		replayMode(*in, *out)
	case "chain":
		w := &trace.Writer{}
		st := chainMode(w, *seed, *runs, *blocks)
		must(w.WriteFile(filepath.Join(*out, "trace.ndjson")))
		b, _ := json.MarshalIndent(st, "", " ")
		must(os.WriteFile(filepath.Join(*out, "summary.json"), b, 0o644))
		fmt.Printf("{\"runs\":%d,\"blocks\":%d,\"divergences\":%d}\n", st.Runs, st.Blocks, len(st.Divergences))
	case "gov-replay":
		govReplayMode(*in, *out)
	case "gov-chain":
		w := &trace.Writer{}
		st := govChainMode(w, *seed)
		must(w.WriteFile(filepath.Join(*out, "trace.ndjson")))
		b, _ := json.MarshalIndent(st, "", " ")
		must(os.WriteFile(filepath.Join(*out, "summary.json"), b, 0o644))
		fmt.Printf("{\"blocks\":%d,\"divergences\":%d}\n", st.Blocks, len(st.Divergences))
	case "bignet":
		w := &trace.Writer{}
		st := bigNetMode(w, *seed, *blocks)
		must(w.WriteFile(filepath.Join(*out, "trace.ndjson")))
		b, _ := json.MarshalIndent(st, "", " ")
		must(os.WriteFile(filepath.Join(*out, "summary.json"), b, 0o644))
		fmt.Printf("{\"runs\":%d,\"blocks\":%d,\"divergences\":%d}\n", st.Runs, st.Blocks, len(st.Divergences))
	default:
		die("unknown mode %s", *mode)
	}
}
