package main

// mode bignet: the cap of 101 proposers (thor.InitialMaxBlockProposers) on BOTH sides.
// A custom genesis with 105 endorsed authority nodes and params[max-block-proposers] = 200, still PoA (HAYABUSA never),
// once with the v1 scheduler (VIP214 never) and once with v2. Only eight of the nodes have private keys (the dev
// accounts, at list positions 1, 2, 50, 100, 101, 102, 103, 105); the rest are bare addresses. Every block is
// produced by the REAL packer (Schedule + Pack) on one store and validated by the real consensus on another store,
// COLD (fresh instance) and WARM (one instance for the chain). The executor moves the parameter around
// (200 -> 50 -> unset -> 150 -> 102) so that the cached `satisfied` list is invalidated and recomputed under the cap.

import (
	"fmt"
	"math"
	"math/big"
	mrand "math/rand"
	"os"
	"sort"
	"time"

	"github.com/vechain/thor/v2/block"
	"github.com/vechain/thor/v2/builtin"
	"github.com/vechain/thor/v2/chain"
	"github.com/vechain/thor/v2/consensus"
	"github.com/vechain/thor/v2/genesis"
	"github.com/vechain/thor/v2/muxdb"
	"github.com/vechain/thor/v2/packer"
	"github.com/vechain/thor/v2/scheduler"
	"github.com/vechain/thor/v2/state"
	"github.com/vechain/thor/v2/thor"
	"github.com/vechain/thor/v2/tx"

	"verifharness/internal/sim"
	"verifharness/internal/trace"
)

var bigN = 105

var keyPos = []int{0, 1, 49, 99, 100, 101, 102, 104} // list positions (0-based) of dev accounts 0..7

type stack struct {
	repo   *chain.Repository
	stater *state.Stater
}

func newStack(g *genesis.Genesis) (*stack, *block.Block) {
	db := muxdb.NewMem()
	stater := state.NewStater(db)
	b0, _, _, err := g.Build(stater)
	must(err)
	repo, err := chain.NewRepository(db, b0)
	must(err)
	return &stack{repo, stater}, b0
}

func bigNet(w *trace.Writer, st *chainStats, seed int64, v2 bool, blocks int) {
	devs := genesis.DevAccounts()
	rng := mrand.New(mrand.NewSource(seed*31 + 7))
	fc := &thor.ForkConfig{HAYABUSA: math.MaxUint32}
	label := "v2"
	if !v2 {
		fc.VIP214 = math.MaxUint32
		label = "v1"
	}
	addrs := make([]thor.Address, bigN)
	keyOf := map[int]int{} // list position -> dev account
	for d, p := range keyPos {
		addrs[p] = devs[d].Address
		keyOf[p] = d
	}
	for i := range addrs {
		if _, ok := keyOf[i]; !ok {
			addrs[i] = thor.BytesToAddress(thor.Blake2b([]byte(fmt.Sprintf("c05-bare-%d-%d", seed, i))).Bytes())
		}
	}
	var accs []genesis.Account
	var auths []genesis.Authority
	for i, a := range addrs {
		accs = append(accs, genesis.Account{Address: a, Balance: (*genesis.HexOrDecimal256)(sim.BigBalance), Energy: (*genesis.HexOrDecimal256)(sim.BigBalance)})
		auths = append(auths, genesis.Authority{MasterAddress: a, EndorsorAddress: a, Identity: thor.BytesToBytes32([]byte(fmt.Sprintf("id%d", i)))})
	}
	mbp := uint64(200)
	g, err := genesis.NewCustomNet(&genesis.CustomGenesis{LaunchTime: sim.DefaultLaunch, GasLimit: 40_000_000, Accounts: accs, Authority: auths,
		Params: genesis.Params{ExecutorAddress: &devs[0].Address, MaxBlockProposers: &mbp}, ForkConfig: fc})
	must(err)
	P, b0 := newStack(g)
	V, _ := newStack(g)
	u := newUniverse()
	u.fc = fc
	u.balCap = 1
	gen := [][]string{}
	for i, a := range addrs {
		u.addNode(fmt.Sprintf("n%d", i), a)
		u.addEnd(fmt.Sprintf("e%d", i), a)
		u.ident[u.nodes[i]] = thor.BytesToBytes32([]byte(fmt.Sprintf("id%d", i)))
		gen = append(gen, []string{u.nodes[i], u.ends[i]})
	}
	stateOf := func(b *block.Block) *state.State {
		sum, err := P.repo.GetBlockSummary(b.Header().ID())
		must(err)
		return P.stater.NewState(sum.Root())
	}
	st.Runs++
	w.Emit(trace.Ev{"e": "Reset", "nodes": u.nodes, "endorsors": u.ends, "genesis": gen, "mbp": mbp, "run": "bignet-" + label, "seed": seed,
		"proj": u.proj(stateOf(b0), 1)})
	warm := consensus.New(V.repo, V.stater, fc)
	seeder := scheduler.NewSeeder(P.repo)
	parent := b0
	nonce := uint64(seed)<<24 + 77
	script := map[int]uint64{3: 50, 5: 0, 7: 150, 9: 102, 11: 101, 13: 200}
	for b := 1; b <= blocks; b++ {
		psum, err := P.repo.GetBlockSummary(parent.Header().ID())
		must(err)
		pst := P.stater.NewState(psum.Root())
		num := parent.Header().Number() + 1
		type sc struct {
			pos  int
			flow *packer.Flow
		}
		var ok []sc
		for _, p := range keyPos {
			acc := devs[keyOf[p]]
			pk := packer.New(P.repo, P.stater, acc.Address, &acc.Address, fc, 0)
			flow, err := pk.Schedule(psum, parent.Header().Timestamp()+thor.BlockInterval())
			if err != nil {
				w.Emit(trace.Ev{"e": "Refused", "who": u.nodes[p]})
				st.Refused++
				continue
			}
			ok = append(ok, sc{p, flow})
		}
		if len(ok) == 0 {
			st.Halted++
			return
		}
		sort.Slice(ok, func(i, j int) bool {
			return ok[i].flow.When() < ok[j].flow.When() || (ok[i].flow.When() == ok[j].flow.When() && ok[i].pos < ok[j].pos)
		})
		pick := 0
		if len(ok) > 1 && rng.Intn(3) == 0 {
			pick = 1 // the next one of ours: everybody scheduled in between is switched off
		}
		flow := ok[pick].flow
		who := ok[pick].pos
		var evs []trace.Ev
		if m, has := script[b]; has {
			me, _ := builtin.Params.ABI.MethodByName("set")
			data, err := me.EncodeInput(thor.KeyMaxBlockProposers, new(big.Int).SetUint64(m))
			must(err)
			to := builtin.Params.Address
			nonce++
			t := tx.MustSign(tx.NewBuilder(tx.TypeDynamicFee).ChainTag(P.repo.ChainTag()).BlockRef(tx.NewBlockRef(parent.Header().Number())).
				Expiration(1000).Gas(1_000_000).Nonce(nonce).Clause(tx.NewClause(&to).WithData(data)).
				MaxFeePerGas(new(big.Int).Mul(big.NewInt(thor.InitialBaseFee), big.NewInt(100))).MaxPriorityFeePerGas(big.NewInt(1000)).Build(),
				devs[0].PrivateKey)
			if err := flow.Adopt(t); err != nil {
				die("bignet %s block %d: adopt: %v", label, b, err)
			}
			evs = append(evs, trace.Ev{"e": "Mbp", "m": m, "exec": true})
			st.Txs["mbp"]++
		}
		blk, stage, receipts, err := flow.Pack(devs[keyOf[who]].PrivateKey, 0, false)
		if err != nil {
			die("bignet %s block %d: pack: %v", label, b, err)
		}
		_, err = stage.Commit()
		must(err)
		must(P.repo.AddBlock(blk, receipts, 0, true))
		for i, e := range evs {
			e["ok"] = !receipts[i].Reverted
		}
		// facts: the list both sides must derive, and what the real scheduler switches off on it
		chk := u.checker(pst, num)
		cands, err := builtin.Authority.Native(pst).Candidates(chk, u.mbp(pst))
		must(err)
		var props []scheduler.Proposer
		for _, x := range cands {
			props = append(props, scheduler.Proposer{Address: x.NodeMaster, Active: x.Active})
		}
		signer := addrs[who]
		var sch scheduler.Scheduler
		if v2 {
			sd, err := seeder.Generate(parent.Header().ID())
			must(err)
			sch, err = scheduler.NewPoASchedulerV2(signer, props, parent.Header().Number(), parent.Header().Timestamp(), sd)
			if err != nil {
				sch = nil
			}
		} else {
			s1, err := scheduler.NewPoASchedulerV1(signer, props, parent.Header().Number(), parent.Header().Timestamp())
			if err == nil {
				sch = s1
			}
		}
		offs := []string{}
		if sch != nil {
			ups, _ := sch.Updates(blk.Header().Timestamp())
			for _, x := range ups {
				if !x.Active {
					a := x.Address
					offs = append(offs, u.nodeName(&a))
				}
			}
		}
		if len(offs) > 0 {
			st.OffsBlocks++
		}
		w.Emit(trace.Ev{"e": "Begin", "who": u.nodes[who], "offs": offs, "props": u.propList(props), "num": num,
			"score": blk.Header().TotalScore() - parent.Header().TotalScore()})
		for _, e := range evs {
			w.Emit(e)
		}
		// validators on the other store
		vp, err := V.repo.GetBlockSummary(parent.Header().ID())
		must(err)
		now := uint64(time.Now().Unix())
		verdict := func(err error) string {
			if err == nil {
				return "ok"
			}
			return "rejected: " + err.Error()
		}
		_, _, coldErr := consensus.New(V.repo, V.stater, fc).Process(vp, blk, now, 0)
		vstage, vrec, warmErr := warm.Process(vp, blk, now, 0)
		if coldErr == nil {
			st.ColdOK++
		}
		if warmErr == nil {
			st.WarmOK++
			st.NodeOK++
		}
		if b > 1 {
			st.CachedBlocks++
		}
		if coldErr != nil || warmErr != nil {
			st.Divergences = append(st.Divergences, fmt.Sprintf("bignet-%s block %d (signer %s, list position %d): the real packer's block is refused: cold=%s warm=%s",
				label, num, u.nodes[who], who+1, verdict(coldErr), verdict(warmErr)))
		}
		pj := u.proj(stateOf(blk), num+1)
		w.Emit(trace.Ev{"e": "End", "warm": verdict(warmErr), "cold": verdict(coldErr), "num": num, "proj": pj})
		st.Blocks++
		if l := len(pj["links"].([]string)); l > st.MaxListed {
			st.MaxListed = l
		}
		if coldErr != nil || warmErr != nil {
			return
		}
		_, err = vstage.Commit()
		must(err)
		must(V.repo.AddBlock(blk, vrec, 0, true))
		parent = blk
	}
}

func bigNetMode(w *trace.Writer, seed int64, blocks int) *chainStats {
	if v := os.Getenv("AUTHORITY_BIGN"); v != "" { // experiments only
		fmt.Sscan(v, &bigN)
		keyPos = []int{0, 1, 2, 3, 4, 5, 6, 7}
	}
	st := &chainStats{Txs: map[string]int{}, Reverted: map[string]int{}, Divergences: []string{}}
	bigNet(w, st, seed, true, blocks)
	bigNet(w, st, seed, false, blocks)
	return st
}
