package main

// mode gov-chain: see governance.go. Three endorsed authority nodes n0..n2 (n3 is added by governance), max-block-proposers 2,
// the REAL Executor contract with approvers a, b, c. Script:
//
//	block 1  a proposes params.set(max-block-proposers, 4)        block 2  d tries to execute (quorum unsatisfied), a and b approve
//	block 3  d executes -> from block 4 on n2 is a proposer        block 5  b proposes authority.add(n3)
//	block 6  a and c approve; v (a stranger) tries params.set     block 7  c executes -> from block 8 on n3 is a proposer
//
// Every block: real packer on store P, real consensus COLD and WARM on store V, Trace_Authority.tla events.

import (
	"fmt"
	"math"
	"math/big"
	"sort"
	"time"

	"github.com/vechain/thor/v2/block"
	"github.com/vechain/thor/v2/builtin"
	"github.com/vechain/thor/v2/consensus"
	"github.com/vechain/thor/v2/genesis"
	"github.com/vechain/thor/v2/packer"
	"github.com/vechain/thor/v2/scheduler"
	"github.com/vechain/thor/v2/state"
	"github.com/vechain/thor/v2/thor"
	"github.com/vechain/thor/v2/tx"

	"verifharness/internal/sim"
	"verifharness/internal/trace"
)

type govTx struct {
	from   int
	to     thor.Address
	data   []byte
	wantOK bool
	what   string
	ev     trace.Ev // Trace_Authority event if the transaction succeeds (nil: invisible to Authority.tla)
}

func govChainMode(w *trace.Writer, seed int64) *chainStats {
	st := &chainStats{Txs: map[string]int{}, Reverted: map[string]int{}, Divergences: []string{}}
	devs := genesis.DevAccounts()
	fc := &thor.ForkConfig{HAYABUSA: math.MaxUint32}
	launch := sim.DefaultLaunch
	g := govGenesis(2, nil, []int{5, 6, 7}, launch, fc)
	P, b0 := newStack(g)
	V, _ := newStack(g)
	u := newUniverse()
	u.fc = fc
	u.balCap = 1
	gen := [][]string{}
	for i := 0; i < 4; i++ {
		u.addNode(fmt.Sprintf("n%d", i), devs[5+i].Address)
		u.addEnd(fmt.Sprintf("e%d", i), devs[5+i].Address)
		if i < 3 {
			u.ident[u.nodes[i]] = thor.BytesToBytes32([]byte("m"))
			gen = append(gen, []string{u.nodes[i], u.ends[i]})
		}
	}
	stateOf := func(b *block.Block) *state.State {
		sum, err := P.repo.GetBlockSummary(b.Header().ID())
		must(err)
		return P.stater.NewState(sum.Root())
	}
	st.Runs++
	w.Emit(trace.Ev{"e": "Reset", "nodes": u.nodes, "endorsors": u.ends, "genesis": gen, "mbp": 2, "run": "gov-chain", "seed": seed,
		"proj": u.proj(stateOf(b0), 1)})
	ex := builtin.Executor
	pidOf := func(t uint64, who int) thor.Bytes32 {
		gw := &govWorld{devs: devs, acct: map[string]int{"x": who}, launch: t}
		return gw.pid(0, "x")
	}
	in := mustInput
	setMBP := in(builtin.Params.ABI.MethodByName, "set", thor.KeyMaxBlockProposers, big.NewInt(4))
	addN3 := in(builtin.Authority.ABI.MethodByName, "add", devs[8].Address, devs[8].Address, u.ident["n3"])
	var pid1, pid2 thor.Bytes32
	warm := consensus.New(V.repo, V.stater, fc)
	seeder := scheduler.NewSeeder(P.repo)
	parent := b0
	nonce := uint64(seed)<<24 + 4242
	for b := 1; b <= 10; b++ {
		psum, err := P.repo.GetBlockSummary(parent.Header().ID())
		must(err)
		pst := P.stater.NewState(psum.Root())
		num := parent.Header().Number() + 1
		type sc struct {
			node int
			flow *packer.Flow
		}
		var ok []sc
		for i := 0; i < 4; i++ {
			acc := devs[5+i]
			pk := packer.New(P.repo, P.stater, acc.Address, &acc.Address, fc, 0)
			flow, err := pk.Schedule(psum, parent.Header().Timestamp()+thor.BlockInterval())
			if err != nil {
				w.Emit(trace.Ev{"e": "Refused", "who": u.nodes[i]})
				st.Refused++
				continue
			}
			ok = append(ok, sc{i, flow})
		}
		if len(ok) == 0 {
			st.Halted++
			return st
		}
		sort.Slice(ok, func(i, j int) bool { return ok[i].flow.When() < ok[j].flow.When() })
		pick := 0
		// let the newly entitled proposer sign as soon as it can, so that its block is validated against the new list
		for i, x := range ok {
			if (b == 4 && x.node == 2) || (b == 8 && x.node == 3) {
				pick = i
			}
		}
		flow, who := ok[pick].flow, ok[pick].node
		bt := flow.When()
		var txs []govTx
		switch b {
		case 1:
			pid1 = pidOf(bt, 0)
			txs = []govTx{{0, ex.Address, in(ex.ABI.MethodByName, "propose", builtin.Params.Address, setMBP), true, "propose mbp=4", nil}}
		case 2:
			txs = []govTx{{3, ex.Address, in(ex.ABI.MethodByName, "execute", pid1), false, "execute before quorum", nil},
				{0, ex.Address, in(ex.ABI.MethodByName, "approve", pid1), true, "approve", nil},
				{1, ex.Address, in(ex.ABI.MethodByName, "approve", pid1), true, "approve", nil},
				{4, ex.Address, in(ex.ABI.MethodByName, "approve", pid1), false, "approve by a stranger", nil}}
		case 3:
			txs = []govTx{{3, ex.Address, in(ex.ABI.MethodByName, "execute", pid1), true, "execute mbp=4", trace.Ev{"e": "Mbp", "m": 4, "exec": true}},
				{3, ex.Address, in(ex.ABI.MethodByName, "execute", pid1), false, "execute twice", nil}}
		case 5:
			pid2 = pidOf(bt, 1)
			txs = []govTx{{1, ex.Address, in(ex.ABI.MethodByName, "propose", builtin.Authority.Address, addN3), true, "propose add n3", nil}}
		case 6:
			txs = []govTx{{0, ex.Address, in(ex.ABI.MethodByName, "approve", pid2), true, "approve", nil},
				{2, ex.Address, in(ex.ABI.MethodByName, "approve", pid2), true, "approve", nil},
				{4, builtin.Params.Address, in(builtin.Params.ABI.MethodByName, "set", thor.KeyMaxBlockProposers, big.NewInt(1)), false, "params.set by a stranger",
					trace.Ev{"e": "Mbp", "m": 1, "exec": false}},
				{4, builtin.Authority.Address, addN3, false, "authority.add by a stranger", trace.Ev{"e": "Add", "n": "n3", "end": "e3", "exec": false}}}
		case 7:
			txs = []govTx{{2, ex.Address, in(ex.ABI.MethodByName, "execute", pid2), true, "execute add n3", trace.Ev{"e": "Add", "n": "n3", "end": "e3", "exec": true}}}
		}
		for _, t := range txs {
			nonce++
			to := t.to
			trx := tx.MustSign(tx.NewBuilder(tx.TypeDynamicFee).ChainTag(P.repo.ChainTag()).BlockRef(tx.NewBlockRef(parent.Header().Number())).
				Expiration(1000).Gas(2_000_000).Nonce(nonce).Clause(tx.NewClause(&to).WithData(t.data)).
				MaxFeePerGas(new(big.Int).Mul(big.NewInt(thor.InitialBaseFee), big.NewInt(100))).MaxPriorityFeePerGas(big.NewInt(1000)).Build(),
				devs[t.from].PrivateKey)
			if err := flow.Adopt(trx); err != nil {
				die("gov-chain block %d: adopt %q: %v", b, t.what, err)
			}
		}
		blk, stage, receipts, err := flow.Pack(devs[5+who].PrivateKey, 0, false)
		if err != nil {
			die("gov-chain block %d: pack: %v", b, err)
		}
		if blk.Header().Timestamp() != bt {
			die("gov-chain: block time moved")
		}
		_, err = stage.Commit()
		must(err)
		must(P.repo.AddBlock(blk, receipts, 0, true))
		chk := u.checker(pst, num)
		cands, err := builtin.Authority.Native(pst).Candidates(chk, u.mbp(pst))
		must(err)
		var props []scheduler.Proposer
		for _, x := range cands {
			props = append(props, scheduler.Proposer{Address: x.NodeMaster, Active: x.Active})
		}
		sd, err := seeder.Generate(parent.Header().ID())
		must(err)
		offs := []string{}
		if sch, err := scheduler.NewPoASchedulerV2(devs[5+who].Address, props, parent.Header().Number(), parent.Header().Timestamp(), sd); err == nil {
			ups, _ := sch.Updates(blk.Header().Timestamp())
			for _, x := range ups {
				if !x.Active {
					a := x.Address
					offs = append(offs, u.nodeName(&a))
				}
			}
		}
		w.Emit(trace.Ev{"e": "Begin", "who": u.nodes[who], "offs": offs, "props": u.propList(props), "num": num,
			"score": blk.Header().TotalScore() - parent.Header().TotalScore()})
		for i, t := range txs {
			okTx := !receipts[i].Reverted
			st.Txs[t.what]++
			if !okTx {
				st.Reverted[t.what]++
			}
			if okTx != t.wantOK {
				st.Divergences = append(st.Divergences, fmt.Sprintf("gov-chain block %d: %q: reverted=%v, Governance.tla expects success=%v", num, t.what, !okTx, t.wantOK))
			}
			if t.ev != nil {
				t.ev["ok"] = okTx
				w.Emit(t.ev)
			}
		}
		vp, err := V.repo.GetBlockSummary(parent.Header().ID())
		must(err)
		now := uint64(time.Now().Unix())
		verdict := func(err error) string {
			if err == nil {
				return "ok"
			}
			return "rejected: " + err.Error()
		}
		_, _, coldErr := consensus.New(V.repo, V.stater, fc).Process(vp, blk, now, 0)
		vstage, vrec, warmErr := warm.Process(vp, blk, now, 0)
		if coldErr == nil {
			st.ColdOK++
		}
		if warmErr == nil {
			st.WarmOK++
			st.NodeOK++
		}
		if coldErr != nil || warmErr != nil {
			st.Divergences = append(st.Divergences, fmt.Sprintf("gov-chain block %d (signer %s): the real packer's block is refused: cold=%s warm=%s",
				num, u.nodes[who], verdict(coldErr), verdict(warmErr)))
		}
		pj := u.proj(stateOf(blk), num+1)
		w.Emit(trace.Ev{"e": "End", "warm": verdict(warmErr), "cold": verdict(coldErr), "num": num, "proj": pj})
		st.Blocks++
		if n := len(pj["cands"].([]map[string]any)); n > st.MaxListed {
			st.MaxListed = n // here: the largest proposer set
		}
		if coldErr != nil || warmErr != nil {
			return st
		}
		_, err = vstage.Commit()
		must(err)
		must(V.repo.AddBlock(blk, vrec, 0, true))
		parent = blk
	}
	// the proposer set followed governance: 2 -> 3 (after mbp = 4) -> 4 (after n3 was added)
	if st.MaxListed != 4 {
		st.Divergences = append(st.Divergences, fmt.Sprintf("gov-chain: the proposer set never reached 4 nodes (max %d)", st.MaxListed))
	}
	return st
}
