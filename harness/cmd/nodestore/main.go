// nodestore drives the REAL muxdb.Trie (over the recording engine, hook H3) through histories of
// {update, commit at (major,minor), fork commit, checkpoint, delete-history, reopen, read every root} and records
// one ndjson event per step for Trace_NodeStore.tla (C12).
//
//	nodestore -out <dir> -mode seeded|exhaustive|inflight -runs N -seed S -nib A -keylen L [-depth D] [-steps K]
//
// Output: <dir>/trace.ndjson (runs concatenated, each starts with a Reset event), <dir>/runs.json (per-run stats).
// The driver does not judge: it logs what the real code returned; the trace specification decides.
// Exit 0 normally, 3 + "HARNESS-ERROR ..." for its own trouble, 4 + "REAL-CODE-PANIC ..." when thor code panicked.
package main

import (
	"bytes"
	"context"
	"encoding/binary"
	"encoding/json"
	"flag"
	"fmt"
	"math"
	"math/rand"
	"os"
	"path/filepath"
	"sort"
	"strings"

	"github.com/vechain/thor/v2/kv"
	"github.com/vechain/thor/v2/muxdb"
	"github.com/vechain/thor/v2/muxdb/engine"
	"github.com/vechain/thor/v2/thor"
	"github.com/vechain/thor/v2/trie"

	"verifharness/internal/kvrec"
	"verifharness/internal/trace"
)

const bigFactor = 1000000 // how math.MaxUint32 partition factors are written in the trace (NodeStore!BigFactor)

type ver struct{ Maj, Min uint32 }

func (v ver) js() []int { return []int{int(v.Maj), int(v.Min)} }

type rootRef struct {
	ok   bool // false: empty trie, nothing stored
	ver  ver
	hash thor.Bytes32
}

type config struct {
	Nib, KeyLen int
	Names       []string
	Main        map[string]bool
	Skip        map[string]bool
	HF, DF      uint32
	CacheMB     int
	TTL         uint16
	Disk        bool // the REAL muxdb.Open on a scratch directory (persisted layout config) instead of NewWithEngine
}

func (c config) String() string {
	var sk []string
	for _, n := range c.Names {
		if c.Skip[n] {
			sk = append(sk, n)
		}
	}
	f := func(x uint32) string {
		if x == math.MaxUint32 {
			return "max"
		}
		return fmt.Sprint(x)
	}
	d := ""
	if c.Disk {
		d = "disk-"
	}
	return fmt.Sprintf("%shf%s-df%s-cache%d-ttl%d-skip[%s]", d, f(c.HF), f(c.DF), c.CacheMB, c.TTL, strings.Join(sk, ","))
}

type runStat struct {
	Mode       string `json:"mode"`
	Seed       int64  `json:"seed"`
	Cfg        string `json:"cfg"`
	Events     int    `json:"events"`
	Blocks     int    `json:"blocks"`
	Forks      int    `json:"forks"`
	Prunes     int    `json:"prunes"`
	Reopens    int    `json:"reopens"`
	Reads      int    `json:"reads"`
	ErrReads   int    `json:"errReads"`
	DedupReads int    `json:"dedupServed"` // reads of retained blocks after at least one prune round
	Script     string `json:"script,omitempty"`
}

type world struct {
	c      config
	eng    *kvrec.Engine // recording engine (nil in disk mode)
	kve    engine.Engine // the engine under the open MuxDB (key spaces are read back from it)
	dir    string        // disk mode: database directory
	reqRng *rand.Rand    // disk mode: which Options a re-open asks for
	reqHF  uint32        // partition factors passed to the last Open
	reqDF  uint32
	db     *muxdb.MuxDB
	keys   [][]byte // universe, as key bytes
	nibs   [][]int  // universe, as nibble lists
	vers   []ver
	par    map[ver]ver
	anc    map[ver]map[ver]bool
	rootv  map[ver]map[string]rootRef
	cont   map[ver]map[string]map[string]int // block -> name -> key(string) -> value id
	base   uint32
	pend   uint32
	ckroot *ver
	rcache map[string]ver
	evs    []trace.Ev
	held   map[ver]map[string]*muxdb.Trie // readers that keep their trie objects (dropped when the db is re-opened)
	st     runStat
	nextID int
}

var genesis = ver{0, 0}

func must(err error) {
	if err != nil {
		fmt.Println("HARNESS-ERROR", err)
		os.Exit(3)
	}
}

// abortRun is panicked (and recovered per run) after the real code returned an error on an operation the design
// always allows (update / commit on a retained block, delete-history): the error is logged as an event, which the
// trace specification has no action for, and the run ends there.
type abortRun struct{}

func (w *world) real(op string, err error) {
	if err != nil {
		w.emit(trace.Ev{"e": "Error", "op": op, "err": err.Error()})
		panic(abortRun{})
	}
}

// guarded runs f; a real-code error ends the run (events so far are kept), anything else propagates
func guarded(f func()) (aborted bool) {
	defer func() {
		if r := recover(); r != nil {
			if _, ok := r.(abortRun); ok {
				aborted = true
				return
			}
			panic(r)
		}
	}()
	f()
	return false
}

// ---- universe ---------------------------------------------------------------------------------------------------

func universe(nib, keylen int) (keys [][]byte, nibs [][]int) {
	var rec func(cur []int)
	rec = func(cur []int) {
		if len(cur) == keylen {
			k := make([]byte, keylen/2)
			for i := 0; i < keylen; i += 2 {
				k[i/2] = byte(cur[i]<<4 | cur[i+1])
			}
			keys = append(keys, k)
			nibs = append(nibs, append([]int(nil), cur...))
			return
		}
		for x := 0; x < nib; x++ {
			rec(append(cur, x))
		}
	}
	rec(nil)
	return
}

// tiny: one-byte values. Full nodes whose consensus encoding stays below 32 bytes then have no hash and are embedded
// in their parent instead of being stored standalone (the design model assumes hashed full nodes, so histories
// recorded in this mode are validated on the observables only).
var tiny bool

// value id -> value of 26..33 bytes (leaf encodings of 31, 32 and 33 bytes occur: the embed-or-hash threshold) and,
// for every third id, metadata.  A full node has at least two children of >= 29 encoded bytes, so its own encoding
// is >= 32 bytes and every full node is hashed, i.e. stored standalone (Hashed == TRUE in NodeStore.tla).
func valBytes(id int) []byte {
	if tiny {
		return []byte{byte(id)}
	}
	b := bytes.Repeat([]byte{byte(0xA0 + id%7)}, 26+id%8)
	binary.BigEndian.PutUint16(b, uint16(id))
	return b
}
func metaBytes(id int) []byte {
	if id%3 == 0 {
		return []byte{'m', byte(id >> 8), byte(id)}
	}
	return nil
}
func decodeVal(val, meta []byte) int {
	if len(val) == 0 {
		return 0
	}
	if tiny {
		if len(val) != 1 || !bytes.Equal(meta, metaBytes(int(val[0]))) {
			return 9999
		}
		return int(val[0])
	}
	if len(val) < 26 || len(val) > 33 {
		return 9999
	}
	id := int(binary.BigEndian.Uint16(val))
	if !bytes.Equal(val, valBytes(id)) || !bytes.Equal(meta, metaBytes(id)) {
		return 9999
	}
	return id
}

// ---- world ------------------------------------------------------------------------------------------------------

func newWorld(c config, mode string, seed int64) *world {
	w := &world{c: c, par: map[ver]ver{}, anc: map[ver]map[ver]bool{}, rootv: map[ver]map[string]rootRef{},
		cont: map[ver]map[string]map[string]int{}, rcache: map[string]ver{}, nextID: 2}
	w.keys, w.nibs = universe(c.Nib, c.KeyLen)
	w.reqHF, w.reqDF = c.HF, c.DF
	if c.Disk {
		diskCount++
		w.dir = filepath.Join(diskRoot, fmt.Sprintf("db-%d", diskCount))
		w.reqRng = rand.New(rand.NewSource(seed ^ 0x5eed))
	} else {
		w.eng = kvrec.New()
	}
	must(w.open())
	w.vers = []ver{genesis}
	w.anc[genesis] = map[ver]bool{genesis: true}
	w.rootv[genesis] = map[string]rootRef{}
	w.cont[genesis] = map[string]map[string]int{}
	for _, n := range c.Names {
		w.rootv[genesis][n] = rootRef{}
		w.cont[genesis][n] = map[string]int{}
	}
	w.st.Mode, w.st.Seed, w.st.Cfg = mode, seed, c.String()
	var main, skip []string
	for _, n := range c.Names {
		if c.Main[n] {
			main = append(main, n)
		}
		if c.Skip[n] {
			skip = append(skip, n)
		}
	}
	fac := func(x uint32) int {
		if x == math.MaxUint32 {
			return bigFactor
		}
		return int(x)
	}
	w.emit(trace.Ev{"e": "Reset", "mode": mode, "seed": seed, "cfgname": c.String(), "tiny": tiny,
		"cfg": map[string]any{"hf": fac(c.HF), "df": fac(c.DF), "skip": strs(skip), "cache": c.CacheMB, "ttl": int(c.TTL),
			"nib": c.Nib, "keylen": c.KeyLen, "names": strs(c.Names), "main": strs(main)}})
	return w
}

func strs(s []string) []string {
	if s == nil {
		return []string{}
	}
	return s
}

var (
	diskRoot  string // scratch directory for disk-mode databases (under -out, removed after each run)
	diskCount int
)

// open (re-)opens the MuxDB. Disk mode: the real muxdb.Open with the partition factors w.reqHF / w.reqDF - the layout
// the database was created with is persisted in it and must win over whatever a later Open asks for.
func (w *world) open() error {
	if !w.c.Disk {
		w.db = muxdb.NewWithEngine(w.eng, muxdb.VerifOptions{CacheSizeMB: w.c.CacheMB, CachedNodeTTL: w.c.TTL,
			HistPartitionFactor: w.c.HF, DedupedPtnFactor: w.c.DF})
		w.kve = w.eng
		return nil
	}
	if w.db != nil {
		if err := w.db.Close(); err != nil {
			return err
		}
		w.db = nil
	}
	db, err := muxdb.Open(w.dir, &muxdb.Options{TrieNodeCacheSizeMB: w.c.CacheMB, TrieCachedNodeTTL: w.c.TTL,
		TrieHistPartitionFactor: w.reqHF, TrieDedupedPartitionFactor: w.reqDF, TrieWillCleanHistory: true,
		OpenFilesCacheCapacity: 16, ReadCacheMB: 1, WriteBufferMB: 1})
	if err != nil {
		return err
	}
	w.db = db
	w.kve = db.VerifEngine()
	return nil
}

// coldDB: a cache-less reader over the same engine that composes keys with the layout of creation
func (w *world) coldDB() *muxdb.MuxDB {
	return muxdb.NewWithEngine(w.kve, muxdb.VerifOptions{HistPartitionFactor: w.c.HF, DedupedPtnFactor: w.c.DF})
}

func (w *world) note(s string) {
	if w.eng != nil {
		w.eng.SetNote(s)
	}
}

func listKeys(e engine.Engine, space byte) [][]byte {
	it := e.Iterate(kv.Range{Start: []byte{space}, Limit: []byte{space + 1}})
	defer it.Release()
	var out [][]byte
	for it.Next() {
		out = append(out, append([]byte(nil), it.Key()...))
	}
	return out
}

func (w *world) emit(e trace.Ev) { w.evs = append(w.evs, e) }

func (w *world) root(b ver, n string) trie.Root {
	r := w.rootv[b][n]
	if !r.ok {
		return trie.Root{}
	}
	return trie.Root{Hash: r.hash, Ver: trie.Version{Major: r.ver.Maj, Minor: r.ver.Min}}
}

func (w *world) nextMinor(maj uint32) uint32 {
	c := uint32(0)
	for _, v := range w.vers {
		if v.Maj == maj {
			c++
		}
	}
	return c
}

type change struct {
	name string
	ki   int    // index into the universe
	op   string // set | del | touch | noop
	val  int
}

// refHash: the canonical Merkle-Patricia commitment of exactly this content, computed by the reference hasher of
// refhash.go (independent of package trie)
func refHash(keys [][]byte, content map[string]int) thor.Bytes32 {
	kv := map[string][]byte{}
	for _, k := range keys {
		if id := content[string(k)]; id != 0 {
			kv[string(k)] = valBytes(id)
		}
	}
	return refRoot(kv)
}

var skipRootHash = thor.BytesToBytes32([]byte{1}) // as chain.BlockSummary.IndexRoot: any non-zero hash

// block: Open(parent) ; updates ; Commit at (parent.major+1, number of blocks already at that height)
func (w *world) block(p ver, chs []change) ver {
	b := ver{p.Maj + 1, w.nextMinor(p.Maj + 1)}
	w.emit(trace.Ev{"e": "Open", "par": p.js()})
	tries := map[string]*muxdb.Trie{}
	cur := map[string]map[string]int{}
	touched := map[string]bool{}
	for _, n := range w.c.Names {
		tries[n] = w.db.NewTrie(n, w.root(p, n))
		cur[n] = map[string]int{}
		for k, v := range w.cont[p][n] {
			cur[n][k] = v
		}
	}
	// A storage-like trie hangs off an account leaf: whenever one is written, the holder leaf (key 0 of the first main
	// trie) is written in the same block, and the holder is not deleted while a storage-like trie is non-empty
	// (NodeStore!Linked).
	holder := w.c.Names[0]
	storage := false
	for _, n := range w.c.Names {
		if !w.c.Main[n] && len(cur[n]) > 0 {
			storage = true
		}
	}
	var extra []change
	for _, ch := range chs {
		if !w.c.Main[ch.name] && ch.op == "set" {
			storage = true
			if len(extra) == 0 {
				extra = append(extra, change{holder, 0, "set", ch.val})
			}
		}
	}
	if storage {
		// a hash-skipped holder trie that has to receive the holder leaf as a NEW key must not delete in the same
		// block (see below: such blocks are not generated) - otherwise the holder insert would be dropped and a
		// storage-like trie would be left below an empty main trie
		dropDels := len(extra) > 0 && w.c.Skip[holder] && cur[holder][string(w.keys[0])] == 0
		kept := chs[:0:0]
		for _, ch := range chs {
			if ch.name == holder && ch.op == "del" && (ch.ki == 0 || dropDels) {
				continue
			}
			kept = append(kept, ch)
		}
		chs = append(kept, extra...)
	}
	// Hash-skipped tries store short nodes standalone; when one block deletes a key (a full node collapses and absorbs
	// a sibling short node) and afterwards inserts a new key that splits it again, the sibling is re-created although
	// none of its keys was touched - whether that happens depends on the order of the two updates.  The design model
	// abstracts from update order, so such blocks are not generated (thor's only hash-skipped trie, the block-number
	// index, is insert-only).
	hasDel := map[string]bool{}
	for _, ch := range chs {
		if ch.op == "del" && cur[ch.name][string(w.keys[ch.ki])] != 0 {
			hasDel[ch.name] = true
		}
	}
	for _, ch := range chs {
		k := w.keys[ch.ki]
		t := tries[ch.name]
		have := cur[ch.name][string(k)]
		if w.c.Skip[ch.name] && hasDel[ch.name] && ch.op == "set" && have == 0 {
			continue
		}
		switch ch.op {
		case "set":
			if ch.val == have {
				w.real("update", t.Update(k, valBytes(ch.val), metaBytes(ch.val))) // no-op on the real trie, nothing for the spec
				continue
			}
			w.real("update", t.Update(k, valBytes(ch.val), metaBytes(ch.val)))
			cur[ch.name][string(k)] = ch.val
			touched[ch.name] = true
			w.emit(trace.Ev{"e": "Update", "n": ch.name, "k": w.nibs[ch.ki], "v": ch.val})
		case "del":
			w.real("update", t.Update(k, nil, nil))
			if have == 0 {
				continue
			}
			delete(cur[ch.name], string(k))
			touched[ch.name] = true
			w.emit(trace.Ev{"e": "Update", "n": ch.name, "k": w.nibs[ch.ki], "v": 0})
		case "touch":
			if have == 0 {
				continue
			}
			// overwrite with another value and restore: content unchanged, path dirty (no restructuring in between)
			w.real("update", t.Update(k, valBytes(have+1), metaBytes(have+1)))
			w.real("update", t.Update(k, valBytes(have), metaBytes(have)))
			touched[ch.name] = true
			w.emit(trace.Ev{"e": "Touch", "n": ch.name, "k": w.nibs[ch.ki]})
		}
	}
	// commit: storage-like tries that were written first, main tries always (state.Stage.Commit / chain.indexBlock)
	w.rootv[b] = map[string]rootRef{}
	w.cont[b] = map[string]map[string]int{}
	hashok := true
	order := append([]string(nil), w.c.Names...)
	sort.SliceStable(order, func(i, j int) bool { return !w.c.Main[order[i]] && w.c.Main[order[j]] })
	for _, n := range order {
		w.cont[b][n] = cur[n]
		if !w.c.Main[n] && !touched[n] {
			w.rootv[b][n] = w.rootv[p][n]
			continue
		}
		t := tries[n]
		h := t.Hash()
		if !w.c.Skip[n] {
			if h != refHash(w.keys, cur[n]) {
				hashok = false
			}
		}
		w.note(fmt.Sprintf("commit %s@%d.%d", n, b.Maj, b.Min))
		w.real("commit", t.Commit(trie.Version{Major: b.Maj, Minor: b.Min}, w.c.Skip[n]))
		if len(cur[n]) == 0 {
			w.rootv[b][n] = rootRef{}
			continue
		}
		if w.c.Skip[n] {
			h = skipRootHash
		}
		w.rootv[b][n] = rootRef{ok: true, ver: b, hash: h}
		w.rcache[n] = b
	}
	w.vers = append(w.vers, b)
	w.par[b] = p
	w.anc[b] = map[ver]bool{b: true}
	for a := range w.anc[p] {
		w.anc[b][a] = true
	}
	w.emit(trace.Ev{"e": "Commit", "ver": b.js(), "hashok": hashok})
	w.st.Blocks++
	if b.Min > 0 {
		w.st.Forks++
	}
	return b
}

func (w *world) retained(b ver) bool {
	lim := w.base
	if w.pend != 0 {
		lim = w.pend
	}
	return b.Maj >= lim && (w.ckroot == nil || w.anc[b][*w.ckroot])
}

// canPrune mirrors NodeStore!CanPrune (what thor guarantees before a prune round)
func (w *world) canPrune(t ver, target uint32) bool {
	if w.pend != 0 || target <= w.base || t.Maj != target-1 || !w.retained(t) {
		return false
	}
	above := false
	for _, b := range w.vers {
		if b.Maj >= target {
			above = true
			if !w.anc[b][t] {
				return false
			}
		}
	}
	if !above {
		return false
	}
	for _, n := range w.c.Names {
		if r, ok := w.rcache[n]; ok && r.Maj < target {
			return false
		}
	}
	return true
}

// checkpoint: what pruner.checkpointTries does, at the muxdb.Trie level
func (w *world) checkpoint(t ver, target uint32) {
	w.note(fmt.Sprintf("checkpoint %d.%d base %d", t.Maj, t.Min, w.base))
	for _, n := range w.c.Names {
		r := w.rootv[t][n]
		if !r.ok || (!w.c.Main[n] && r.ver.Maj < w.base) {
			continue
		}
		tr := w.db.NewTrie(n, w.root(t, n))
		tr.SetNoFillCache(true)
		if err := tr.Checkpoint(context.Background(), w.base, nil); err != nil {
			w.emit(trace.Ev{"e": "CheckpointError", "n": n, "err": err.Error()})
		}
	}
	w.pend = target
	tt := t
	w.ckroot = &tt
	w.emit(trace.Ev{"e": "Checkpoint", "t": t.js(), "target": int(target)})
}

func (w *world) deleteHist() {
	w.note(fmt.Sprintf("delete [%d,%d)", w.base, w.pend))
	w.real("delete-history", w.db.DeleteTrieHistoryNodes(context.Background(), w.base, w.pend))
	w.base, w.pend = w.pend, 0
	w.emit(trace.Ev{"e": "DeleteHist"})
	w.st.Prunes++
}

var reqFactors = []uint32{1, 2, 3, 4, 256, math.MaxUint32}

func (w *world) reopen() {
	if w.c.Disk {
		// another process start with other flags: any partition factors may be asked for
		w.reqHF = reqFactors[w.reqRng.Intn(len(reqFactors))]
		w.reqDF = reqFactors[w.reqRng.Intn(len(reqFactors))]
		if w.reqRng.Intn(4) == 0 {
			w.reqHF, w.reqDF = w.c.HF, w.c.DF
		}
	}
	w.held = nil
	w.real("reopen", w.open())
	w.rcache = map[string]ver{}
	fac := func(x uint32) int {
		if x == math.MaxUint32 {
			return bigFactor
		}
		return int(x)
	}
	w.emit(trace.Ev{"e": "Reopen", "req": map[string]any{"hf": fac(w.reqHF), "df": fac(w.reqDF)}})
	w.st.Reopens++
}

type readRes struct {
	ok       bool
	kv       map[string]map[string]int
	iterSame bool
}

// readBlock reads every key of every trie of block b through Get and through the NodeIterator.
// heldTrie: a reader that keeps its trie object: opened once through the live MuxDB (possibly from the cached live root
// node that later commits build on) and used again after every later step until the database is re-opened
func (w *world) heldTrie(b ver, n string) *muxdb.Trie {
	if w.held == nil {
		w.held = map[ver]map[string]*muxdb.Trie{}
	}
	if w.held[b] == nil {
		w.held[b] = map[string]*muxdb.Trie{}
	}
	if w.held[b][n] == nil {
		w.held[b][n] = w.db.NewTrie(n, w.root(b, n))
	}
	return w.held[b][n]
}

func (w *world) readBlock(db *muxdb.MuxDB, b ver, hold bool) (res map[string]any) {
	oks := map[string]any{}
	kvs := map[string]any{}
	iterSame := true
	mainErr := false
	names := append([]string(nil), w.c.Names...)
	sort.SliceStable(names, func(i, j int) bool { return w.c.Main[names[i]] && !w.c.Main[names[j]] })
	for _, n := range names {
		if mainErr && !w.c.Main[n] {
			// a storage-like trie is reached only through the main tries
			oks[n] = false
			kvs[n] = [][]any{}
			continue
		}
		t := db.NewTrie(n, w.root(b, n))
		if hold {
			t = w.heldTrie(b, n)
		}
		ok := true
		pairs := [][]any{}
		got := map[string]int{}
		for i, k := range w.keys {
			val, meta, err := t.Get(k)
			if err != nil {
				ok = false
				break
			}
			if id := decodeVal(val, meta); id != 0 {
				pairs = append(pairs, []any{w.nibs[i], id})
				got[string(k)] = id
			}
		}
		if ok {
			// the same root through a fresh iterator over a fresh trie object
			t2 := db.NewTrie(n, w.root(b, n))
			if hold {
				t2 = t
			}
			it := trie.NewIterator(t2.NodeIterator(nil, 0))
			seen := map[string]int{}
			for it.Next() {
				seen[string(it.Key)] = decodeVal(it.Value, it.Meta)
			}
			if it.Err != nil || len(seen) != len(got) {
				iterSame = false
			}
			for k, v := range got {
				if seen[k] != v {
					iterSame = false
				}
			}
		}
		if !ok {
			pairs = [][]any{}
			if w.c.Main[n] {
				mainErr = true
			}
		}
		oks[n] = ok
		kvs[n] = pairs
	}
	if mainErr {
		for _, n := range names {
			oks[n] = false
			kvs[n] = [][]any{}
		}
	}
	return map[string]any{"ok": oks, "kv": kvs, "itersame": iterSame}
}

// reads: every block version, through the live MuxDB (caches as configured) and through a fresh cache-less one
func (w *world) reads() []any {
	var out []any
	for _, b := range w.vers {
		for _, how := range []string{"live", "cold", "held"} {
			db, cold := w.db, how == "cold"
			if cold {
				db = w.coldDB()
			}
			r := w.readBlock(db, b, how == "held")
			out = append(out, map[string]any{"b": b.js(), "cold": cold, "how": how, "ok": r["ok"], "kv": r["kv"], "itersame": r["itersame"]})
			w.st.Reads++
			failed := false
			for _, v := range r["ok"].(map[string]any) {
				if !v.(bool) {
					failed = true
				}
			}
			if failed {
				w.st.ErrReads++
			} else if w.base > 0 && w.retained(b) {
				w.st.DedupReads++
			}
		}
	}
	return out
}

// ---- key spaces read back from the recording engine (projection evidence) ---------------------------------------

func (w *world) matchName(k []byte) (string, []byte, bool) {
	best := ""
	for _, n := range w.c.Names {
		if bytes.HasPrefix(k, []byte(n)) && len(n) > len(best) {
			best = n
		}
	}
	if best == "" {
		return "", nil, false
	}
	return best, k[len(best):], true
}

func decodePath(k []byte) (path []int, rest []byte, ok bool) {
	path = []int{}
	for {
		if len(k) < 2 {
			return nil, nil, false
		}
		a, b := k[0], k[1]
		k = k[2:]
		switch b & 0x0f {
		case 0:
			return path, k, true
		case 1:
			return append(path, int(a&0x0f)), k, true
		case 2:
			path = append(path, int(a&0x0f), int(b>>4))
			if a&0x10 == 0 {
				return path, k, true
			}
		default:
			return nil, nil, false
		}
	}
}

func (w *world) keySpaces() (hist [][]any, dedup [][]any, err error) {
	hist, dedup = [][]any{}, [][]any{}
	for _, k := range listKeys(w.kve, kvrec.SpaceHist) {
		r := k[1:]
		ptn := uint32(0)
		if w.c.HF != math.MaxUint32 {
			ptn = binary.BigEndian.Uint32(r)
			r = r[4:]
		}
		n, r, ok := w.matchName(r)
		if !ok {
			return nil, nil, fmt.Errorf("hist key with unknown trie name: %x", k)
		}
		path, r, ok := decodePath(r)
		if !ok {
			return nil, nil, fmt.Errorf("hist key with undecodable path: %x", k)
		}
		var mod uint32
		switch {
		case w.c.HF > 1<<24:
			mod, r = binary.BigEndian.Uint32(r), r[4:]
		case w.c.HF > 1<<16:
			mod, r = uint32(r[0])<<16|uint32(r[1])<<8|uint32(r[2]), r[3:]
		case w.c.HF > 1<<8:
			mod, r = uint32(r[0])<<8|uint32(r[1]), r[2:]
		case w.c.HF > 1:
			mod, r = uint32(r[0]), r[1:]
		}
		maj := mod
		if w.c.HF != math.MaxUint32 {
			maj = ptn*w.c.HF + mod
		}
		minor := uint64(0)
		if len(r) > 0 {
			var nn int
			minor, nn = binary.Uvarint(r)
			if nn <= 0 || nn != len(r) {
				return nil, nil, fmt.Errorf("hist key with trailing bytes: %x", k)
			}
		}
		hist = append(hist, []any{n, path, []int{int(maj), int(minor)}})
	}
	for _, k := range listKeys(w.kve, kvrec.SpaceDedup) {
		r := k[1:]
		ptn := uint32(0)
		if w.c.DF != math.MaxUint32 {
			ptn = binary.BigEndian.Uint32(r)
			r = r[4:]
		}
		n, r, ok := w.matchName(r)
		if !ok {
			return nil, nil, fmt.Errorf("deduped key with unknown trie name: %x", k)
		}
		path, r, ok := decodePath(r)
		if !ok || len(r) != 0 {
			return nil, nil, fmt.Errorf("deduped key with undecodable path: %x", k)
		}
		dedup = append(dedup, []any{int(ptn), n, path})
	}
	return hist, dedup, nil
}

// observe = key spaces + reads of every block, one event
func (w *world) observe() {
	ev := trace.Ev{"e": "Obs"}
	h, d, err := w.keySpaces()
	if err != nil {
		// the key layout is not the one this driver knows: no projection can be taken; say so in the trace
		ev["keysknown"] = false
		ev["keyserr"] = err.Error()
		ev["hist"], ev["dedup"] = [][]any{}, [][]any{}
	} else {
		ev["keysknown"] = true
		ev["hist"], ev["dedup"] = h, d
	}
	ev["reads"] = w.reads()
	w.emit(ev)
}

func (w *world) prune(t ver, target uint32, observeInFlight bool) {
	w.checkpoint(t, target)
	if observeInFlight {
		w.observe()
	}
	w.deleteHist()
}

func (w *world) finish() []trace.Ev {
	if w.c.Disk {
		if w.db != nil {
			w.db.Close()
		}
		os.RemoveAll(w.dir)
	}
	w.st.Events = len(w.evs)
	return w.evs
}

// canonical tip: the highest block, lowest minor among those descending from ckroot
func (w *world) tip() ver {
	best := genesis
	for _, b := range w.vers {
		if w.ckroot != nil && !w.anc[b][*w.ckroot] {
			continue
		}
		if b.Maj > best.Maj || (b.Maj == best.Maj && b.Min < best.Min) {
			best = b
		}
	}
	return best
}

func (w *world) ancestorAt(b ver, maj uint32) ver {
	for b.Maj > maj {
		b = w.par[b]
	}
	return b
}

func (w *world) fresh() int {
	w.nextID++
	if tiny && w.nextID > 120 {
		w.nextID = 3
	}
	return w.nextID
}

// ---- configurations ---------------------------------------------------------------------------------------------

func matrix(names []string, main map[string]bool) []config {
	var out []config
	type ct struct {
		mb  int
		ttl uint16
	}
	for _, cache := range []ct{{0, 32}, {1, 0}, {1, 1}, {1, 32}} {
		for _, hf := range []uint32{1, 2, math.MaxUint32} {
			for _, df := range []uint32{1, 2, math.MaxUint32} {
				for _, sk := range [][]string{{"i"}, {}, {"i", "a"}, {"i", "s1"}} {
					skip := map[string]bool{}
					for _, s := range sk {
						for _, n := range names {
							if n == s {
								skip[s] = true
							}
						}
					}
					out = append(out, config{Names: names, Main: main, Skip: skip, HF: hf, DF: df, CacheMB: cache.mb, TTL: cache.ttl})
				}
			}
		}
	}
	return out
}

// diskMatrix: option sets for histories over the real muxdb.Open (small and production partition factors)
func diskMatrix(names []string, main map[string]bool) []config {
	var out []config
	for _, ttl := range []uint16{32, 0, 1} {
		for _, hf := range []uint32{2, 3, 4, 256} {
			for _, df := range []uint32{math.MaxUint32, 1, 2, 3} {
				for _, sk := range [][]string{{"i"}, {"i", "a"}, {}} {
					skip := map[string]bool{}
					for _, s := range sk {
						skip[s] = true
					}
					out = append(out, config{Names: names, Main: main, Skip: skip, HF: hf, DF: df, CacheMB: 1, TTL: ttl, Disk: true})
				}
			}
		}
	}
	return out
}

// ---- seeded histories -------------------------------------------------------------------------------------------

func runSeeded(c config, seed int64, steps int) *world {
	rng := rand.New(rand.NewSource(seed))
	mode := "seeded"
	if c.Disk {
		mode = "disk"
	}
	w := newWorld(c, mode, seed)
	var pool []int // value ids used so far (re-used now and then so that contents and blobs can coincide)
	randChanges := func(p ver, many bool) []change {
		n := 1 + rng.Intn(3)
		if many {
			n = 3 + rng.Intn(4)
		}
		var chs []change
		val := w.fresh()
		pool = append(pool, val)
		for i := 0; i < n; i++ {
			name := c.Names[rng.Intn(len(c.Names))]
			if rng.Intn(3) > 0 {
				name = c.Names[0]
			}
			ki := rng.Intn(len(w.keys))
			present := w.cont[p][name][string(w.keys[ki])] != 0
			r := rng.Intn(10)
			switch {
			case r < 5 || !present:
				v := val
				if rng.Intn(6) == 0 {
					v = pool[rng.Intn(len(pool))]
				}
				chs = append(chs, change{name, ki, "set", v})
			case r < 8:
				chs = append(chs, change{name, ki, "del", 0})
			default:
				chs = append(chs, change{name, ki, "touch", 0})
			}
		}
		return chs
	}
	guarded(func() { runSeededSteps(w, c, rng, steps, randChanges) })
	return w
}

func runSeededSteps(w *world, c config, rng *rand.Rand, steps int, randChanges func(ver, bool) []change) {
	// a first block that populates the main tries
	w.block(genesis, randChanges(genesis, true))
	w.observe()
	for s := 0; s < steps; s++ {
		r := rng.Intn(100)
		tip := w.tip()
		switch {
		case w.c.Disk && r >= 78:
			// process restarts are the point of the disk mode
			w.reopen()
			w.observe()
		case r < 55:
			w.block(tip, randChanges(tip, rng.Intn(5) == 0))
			w.observe()
		case r < 68:
			// fork: another block on a retained ancestor of the tip (at most 2 blocks back), or on a fork block
			var cands []ver
			for _, b := range w.vers {
				if w.retained(b) && b.Maj+3 > tip.Maj && b.Maj < tip.Maj && w.nextMinor(b.Maj+1) < 3 {
					cands = append(cands, b)
				}
			}
			if len(cands) == 0 {
				continue
			}
			p := cands[rng.Intn(len(cands))]
			w.block(p, randChanges(p, false))
			w.observe()
		case r < 90:
			// prune to a random admissible target on the chain of the tip
			var cands []uint32
			for tg := w.base + 1; tg <= tip.Maj; tg++ {
				if w.canPrune(w.ancestorAt(tip, tg-1), tg) {
					cands = append(cands, tg)
				}
			}
			if len(cands) == 0 {
				if len(w.rcache) > 0 && rng.Intn(2) == 0 {
					w.reopen() // an old root in the root cache blocks pruning; a restart clears it
				}
				continue
			}
			tg := cands[rng.Intn(len(cands))]
			w.prune(w.ancestorAt(tip, tg-1), tg, true)
			w.observe()
		default:
			w.reopen()
			w.observe()
		}
	}
}

// ---- small exhaustive histories ---------------------------------------------------------------------------------

// actions available in the current world (deterministic order)
type action struct {
	kind   string // B | F | P | R
	ki     int
	op     string
	target uint32
}

func (w *world) actions() []action {
	var out []action
	tip := w.tip()
	name := w.c.Names[0]
	for ki := range w.keys {
		out = append(out, action{kind: "B", ki: ki, op: "set"})
		if w.cont[tip][name][string(w.keys[ki])] != 0 {
			out = append(out, action{kind: "B", ki: ki, op: "del"})
		}
	}
	if tip.Maj >= 1 && w.retained(w.par[tip]) && w.nextMinor(tip.Maj) < 2 {
		out = append(out, action{kind: "F", ki: 1, op: "set"})
	}
	for tg := w.base + 1; tg <= tip.Maj; tg++ {
		if w.canPrune(w.ancestorAt(tip, tg-1), tg) {
			out = append(out, action{kind: "P", target: tg})
		}
	}
	if len(w.rcache) > 0 {
		out = append(out, action{kind: "R"})
	}
	return out
}

func (a action) String() string {
	switch a.kind {
	case "B", "F":
		return fmt.Sprintf("%s%d%s", a.kind, a.ki, a.op[:1])
	case "P":
		return fmt.Sprintf("P%d", a.target)
	}
	return a.kind
}

func (w *world) apply(a action) {
	tip := w.tip()
	name := w.c.Names[0]
	switch a.kind {
	case "B":
		w.block(tip, []change{{name, a.ki, a.op, w.fresh()}})
	case "F":
		w.block(w.par[tip], []change{{name, a.ki, a.op, w.fresh()}})
	case "P":
		w.prune(w.ancestorAt(tip, a.target-1), a.target, false)
		w.observe()
	case "R":
		w.reopen()
	}
}

// runExhaustive enumerates every action sequence of the given depth after a fixed two-block prefix; each sequence is
// one run on a fresh store.
func runExhaustive(c config, depth int, emit func(*world)) {
	var rec func(script []action)
	replay := func(script []action) (w *world, aborted bool) {
		w = newWorld(c, "exhaustive", 0)
		aborted = guarded(func() { replayInto(w, c, script) })
		return
	}
	rec = func(script []action) {
		w, aborted := replay(script)
		if aborted || len(script) == depth {
			if !aborted {
				guarded(w.observe)
			}
			var s []string
			for _, a := range script {
				s = append(s, a.String())
			}
			w.st.Script = strings.Join(s, " ")
			emit(w)
			return
		}
		for _, a := range w.actions() {
			rec(append(append([]action(nil), script...), a))
		}
	}
	rec(nil)
}

func replayInto(w *world, c config, script []action) {
	{
		name := c.Names[0]
		var chs []change
		for ki := 0; ki < len(w.keys) && ki < 3; ki++ {
			chs = append(chs, change{name, ki, "set", 1})
		}
		for _, n := range c.Names[1:] {
			chs = append(chs, change{n, 0, "set", 1}, change{n, len(w.keys) - 1, "set", 1})
		}
		w.block(genesis, chs)
		w.block(w.tip(), []change{{name, len(w.keys) - 1, "set", 2}})
		for _, a := range script {
			w.apply(a)
		}
	}
}

// ---- the in-flight probe: reads of blocks inside [base, target) between Checkpoint and DeleteHist ----------------

func runInFlight(c config) *world {
	w := newWorld(c, "inflight", 0)
	guarded(func() { inFlightSteps(w, c) })
	return w
}

func inFlightSteps(w *world, c config) {
	n := c.Names[0]
	b1 := w.block(genesis, []change{{n, 0, "set", 3}, {n, 1, "set", 3}, {n, len(w.keys) - 1, "set", 3}})
	b2 := w.block(b1, []change{{n, len(w.keys) - 2, "set", 4}})
	b3 := w.block(b2, []change{{n, 1, "set", 5}})
	b4 := w.block(b3, []change{{n, len(w.keys) - 1, "set", 6}})
	b5 := w.block(b4, []change{{n, len(w.keys) - 2, "set", 7}})
	_ = b5
	w.reopen()
	w.observe()
	w.prune(b1, 2, true)
	w.observe()
	w.prune(b3, 4, true)
	w.observe()
}

func main() {
	out := flag.String("out", ".", "output directory")
	mode := flag.String("mode", "seeded", "seeded | exhaustive | inflight")
	runs := flag.Int("runs", 10, "number of seeded runs")
	seed := flag.Int64("seed", 1, "seed")
	nib := flag.Int("nib", 2, "nibble alphabet size")
	keylen := flag.Int("keylen", 2, "key length in nibbles (even)")
	depth := flag.Int("depth", 3, "exhaustive: sequence length")
	steps := flag.Int("steps", 10, "seeded: steps per run")
	flag.BoolVar(&tiny, "tiny", false, "one-byte values (full nodes without hash are embedded); observables only")
	cfgsel := flag.String("cfgs", "", "exhaustive/inflight: comma list of matrix indices (default: a fixed few)")
	flag.Parse()
	diskRoot = filepath.Join(*out, "dbs")
	if *keylen%2 != 0 {
		must(fmt.Errorf("keylen must be even"))
	}
	names := []string{"a", "i", "s1"}
	main := map[string]bool{"a": true, "i": true}
	mx := matrix(names, main)

	var all []trace.Ev
	var stats []runStat
	add := func(w *world) {
		evs := w.finish()
		all = append(all, evs...)
		stats = append(stats, w.st)
	}
	defer func() {
		if r := recover(); r != nil {
			fmt.Printf("REAL-CODE-PANIC %v\n", r)
			os.Exit(4)
		}
	}()
	pick := func(def []int) []config {
		idx := def
		if *cfgsel != "" {
			idx = nil
			for _, s := range strings.Split(*cfgsel, ",") {
				var i int
				fmt.Sscan(s, &i)
				idx = append(idx, i)
			}
		}
		var cs []config
		for _, i := range idx {
			cs = append(cs, mx[i%len(mx)])
		}
		return cs
	}
	switch *mode {
	case "seeded":
		rng := rand.New(rand.NewSource(*seed))
		off := rng.Intn(len(mx))
		for i := 0; i < *runs; i++ {
			// walk the option matrix with a stride (36+12+4+1, coprime to its size) that changes every dimension at every step
			c := mx[(off+i*53)%len(mx)]
			c.Nib, c.KeyLen = *nib, *keylen
			add(runSeeded(c, *seed*1000003+int64(i), *steps))
		}
	case "disk":
		// the same seeded histories over the real muxdb.Open on a scratch directory, re-opened with other Options
		dm := diskMatrix(names, main)
		rng := rand.New(rand.NewSource(*seed))
		off := rng.Intn(len(dm))
		for i := 0; i < *runs; i++ {
			c := dm[(off+i*65)%len(dm)] // 65 = 48+12+3+2: every dimension moves at every step, coprime to 144
			c.Nib, c.KeyLen = *nib, *keylen
			add(runSeeded(c, *seed*1000003+int64(i), *steps))
		}
	case "exhaustive":
		for _, c := range pick([]int{8, 77}) {
			c.Nib, c.KeyLen = *nib, *keylen
			runExhaustive(c, *depth, add)
		}
	case "inflight":
		for _, c := range pick([]int{8}) {
			c.Nib, c.KeyLen = *nib, *keylen
			add(runInFlight(c))
		}
	default:
		must(fmt.Errorf("unknown mode %s", *mode))
	}
	must(os.MkdirAll(*out, 0o755))
	must(trace.WriteNDJSON(filepath.Join(*out, "trace.ndjson"), all))
	f, err := os.Create(filepath.Join(*out, "runs.json"))
	must(err)
	must(json.NewEncoder(f).Encode(stats))
	f.Close()
	b, _ := json.Marshal(map[string]any{"runs": len(stats), "events": len(all)})
	fmt.Println(string(b))
}
