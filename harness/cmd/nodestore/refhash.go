package main

// Reference Merkle-Patricia commitment, independent of package trie (RLP, hex-prefix, blake2b-256 only).
// The functions rlpStr / rlpLen / rlpList / hexPrefix / enc / ref and the shape construction are the reference hasher of
// check C06 (harness/cmd/triecheck, package main there, hence copied), reduced to what this driver needs: the
// canonical shape of a key/value set over 16-ary nibble paths and its root hash.  Metadata and versions are not part
// of the commitment.

import (
	"bytes"
	"sort"

	"golang.org/x/crypto/blake2b"

	"github.com/vechain/thor/v2/thor"
)

type refNode struct {
	kind  string // val | short | full
	val   []byte
	key   []int
	child *refNode
	ch    [16]*refNode
}

func rlpStr(b []byte) []byte {
	if len(b) == 1 && b[0] < 0x80 {
		return b
	}
	return append(rlpLen(len(b), 0x80), b...)
}

func rlpLen(n int, off byte) []byte {
	if n < 56 {
		return []byte{off + byte(n)}
	}
	var be []byte
	for x := n; x > 0; x >>= 8 {
		be = append([]byte{byte(x)}, be...)
	}
	return append([]byte{off + 55 + byte(len(be))}, be...)
}

func rlpList(items ...[]byte) []byte {
	body := bytes.Join(items, nil)
	return append(rlpLen(len(body), 0xc0), body...)
}

func hexPrefix(nibs []int, leaf bool) []byte {
	flag := byte(0)
	if leaf {
		flag = 2
	}
	var out []byte
	if len(nibs)%2 == 1 {
		out = []byte{(flag|1)<<4 | byte(nibs[0])}
		nibs = nibs[1:]
	} else {
		out = []byte{flag << 4}
	}
	for i := 0; i < len(nibs); i += 2 {
		out = append(out, byte(nibs[i])<<4|byte(nibs[i+1]))
	}
	return out
}

// refEnc = consensus encoding of a short/full node (a value directly below a full node is the leaf with the empty key)
func refEnc(n *refNode) []byte {
	switch n.kind {
	case "val":
		return rlpList(rlpStr(hexPrefix(nil, true)), rlpStr(n.val))
	case "short":
		if n.child.kind == "val" {
			return rlpList(rlpStr(hexPrefix(n.key, true)), rlpStr(n.child.val))
		}
		return rlpList(rlpStr(hexPrefix(n.key, false)), refRef(n.child))
	default:
		items := make([][]byte, 17)
		for i := 0; i < 16; i++ {
			items[i] = []byte{0x80}
			if c := n.ch[i]; c != nil {
				items[i] = refRef(c)
			}
		}
		items[16] = []byte{0x80}
		return rlpList(items...)
	}
}

// a node whose encoding is shorter than 32 bytes is embedded, otherwise referred to by its hash
func refRef(n *refNode) []byte {
	e := refEnc(n)
	if len(e) < 32 {
		return e
	}
	h := blake2b.Sum256(e)
	return rlpStr(h[:])
}

type refEntry struct {
	nibs []int
	val  []byte
}

func refShape(es []refEntry, depth int) *refNode {
	switch {
	case len(es) == 0:
		return nil
	case len(es) == 1:
		v := &refNode{kind: "val", val: es[0].val}
		if depth == len(es[0].nibs) {
			return v
		}
		return &refNode{kind: "short", key: es[0].nibs[depth:], child: v}
	}
	cp := depth
	for ; cp < len(es[0].nibs); cp++ {
		same := true
		for _, e := range es[1:] {
			if e.nibs[cp] != es[0].nibs[cp] {
				same = false
				break
			}
		}
		if !same {
			break
		}
	}
	br := &refNode{kind: "full"}
	for x := 0; x < 16; x++ {
		var sub []refEntry
		for _, e := range es {
			if e.nibs[cp] == x {
				sub = append(sub, e)
			}
		}
		br.ch[x] = refShape(sub, cp+1)
	}
	if cp == depth {
		return br
	}
	return &refNode{kind: "short", key: es[0].nibs[depth:cp], child: br}
}

// refRoot: canonical root hash of the set {key -> value bytes} (keys of equal length)
func refRoot(kv map[string][]byte) thor.Bytes32 {
	var es []refEntry
	for k, v := range kv {
		var nibs []int
		for _, b := range []byte(k) {
			nibs = append(nibs, int(b>>4), int(b&0x0f))
		}
		es = append(es, refEntry{nibs, v})
	}
	sort.Slice(es, func(i, j int) bool {
		for x := range es[i].nibs {
			if es[i].nibs[x] != es[j].nibs[x] {
				return es[i].nibs[x] < es[j].nibs[x]
			}
		}
		return false
	})
	n := refShape(es, 0)
	if n == nil {
		return blake2b.Sum256([]byte{0x80})
	}
	return blake2b.Sum256(refEnc(n))
}
