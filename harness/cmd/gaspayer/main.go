// gaspayer replays behaviours of specs/exec/GasPayer.tla (exported by TLC) on the real code: the prototype builtin's
// native binding (credit plan, users, sponsors) and runtime.ExecuteTransaction.
//
//	gaspayer -beh behaviours.json -out result.json
//
// Every behaviour starts from a fresh state. Model amounts are units of one gas at the base gas price; the replay
// multiplies them by the real legacy base gas price. After EVERY step the energy of every account, every user's stored
// used-credit record and its current credit (Binding.UserCredit) are compared with the model; after a transaction also
// the payer, gas used, paid and reward of the receipt.
package main

import (
	"encoding/json"
	"flag"
	"fmt"
	"math"
	"math/big"
	"os"

	"github.com/ethereum/go-ethereum/rlp"

	"github.com/vechain/thor/v2/builtin"
	"github.com/vechain/thor/v2/chain"
	"github.com/vechain/thor/v2/genesis"
	"github.com/vechain/thor/v2/muxdb"
	"github.com/vechain/thor/v2/runtime"
	"github.com/vechain/thor/v2/state"
	"github.com/vechain/thor/v2/thor"
	"github.com/vechain/thor/v2/trie"
	"github.com/vechain/thor/v2/tx"
	"github.com/vechain/thor/v2/xenv"
)

func must(err error) {
	if err != nil {
		panic(err)
	}
}

// ioMust: trouble with the harness' own files is infrastructure (exit 3)
func ioMust(err error) {
	if err != nil {
		harnessError("i/o: %v", err)
	}
}

func harnessError(f string, a ...any) {
	fmt.Println("HARNESS-ERROR " + fmt.Sprintf(f, a...))
	os.Exit(3)
}

type step struct {
	A         string `json:"a"`
	Credit    int64  `json:"credit"`
	Rate      int64  `json:"rate"`
	User      string `json:"user"`
	Sponsor   string `json:"sponsor"`
	Dt        uint64 `json:"dt"`
	Delegated bool   `json:"delegated"`
	N         int    `json:"n"`
	Gas       uint64 `json:"gas"`
	Payer     string `json:"payer"`
	GasUsed   uint64 `json:"gasUsed"`
	Paid      int64  `json:"paid"`
	Reward    int64  `json:"reward"`
	Post      *struct {
		Energy map[string]int64 `json:"energy"`
		Used   map[string]int64 `json:"used"`
		Utime  map[string]int64 `json:"utime"`
	} `json:"post"`
}

type behaviour struct {
	Init struct {
		Energy map[string]int64 `json:"energy"`
		Warm   bool             `json:"warm"`
		Cur    string           `json:"cur"`
	} `json:"init"`
	Steps []step `json:"steps"`
}

type mismatch struct {
	Behaviour int    `json:"behaviour"`
	Step      int    `json:"step"`
	Action    string `json:"action"`
	Field     string `json:"field"`
	Want      string `json:"want"`
	Got       string `json:"got"`
}

const launch = uint64(1_700_000_000)

var (
	names = []string{"u1", "u2", "s1", "s2", "contract", "delegator", "benef"}
	keys  = map[string]genesis.DevAccount{}
	addrs = map[string]thor.Address{}
)

type world struct {
	stater *state.Stater
	repo   *chain.Repository
	chain  *chain.Chain
	root0  trie.Root
	fc     *thor.ForkConfig
	price  *big.Int
	tag    byte
}

func newWorld() *world {
	fc := &thor.ForkConfig{}
	fc.HAYABUSA = math.MaxUint32
	fc.GALACTICA = math.MaxUint32 // legacy fee rules: reward = 30 % of the fee
	devs := genesis.DevAccounts()
	for i, n := range names {
		keys[n] = devs[i+1]
		addrs[n] = devs[i+1].Address
	}
	mbp := uint64(1)
	g, err := genesis.NewCustomNet(&genesis.CustomGenesis{
		LaunchTime: launch,
		GasLimit:   10_000_000,
		Accounts:   []genesis.Account{{Address: devs[0].Address, Balance: (*genesis.HexOrDecimal256)(big.NewInt(1)), Energy: (*genesis.HexOrDecimal256)(big.NewInt(0))}},
		Authority:  []genesis.Authority{{MasterAddress: devs[0].Address, EndorsorAddress: devs[0].Address, Identity: thor.BytesToBytes32([]byte("m"))}},
		Params:     genesis.Params{ExecutorAddress: &devs[0].Address, MaxBlockProposers: &mbp},
		ForkConfig: fc,
	})
	must(err)
	db := muxdb.NewMem()
	stater := state.NewStater(db)
	b0, _, _, err := g.Build(stater)
	must(err)
	repo, err := chain.NewRepository(db, b0)
	must(err)
	w := &world{stater: stater, repo: repo, fc: fc, tag: repo.ChainTag()}
	w.chain = repo.NewChain(b0.Header().ID())
	w.root0 = trie.Root{Hash: b0.Header().StateRoot(), Ver: trie.Version{}}
	w.price, err = builtin.Params.Native(stater.NewState(w.root0)).Get(thor.KeyLegacyTxBaseGasPrice)
	must(err)
	return w
}

func (w *world) wei(units int64) *big.Int { return new(big.Int).Mul(big.NewInt(units), w.price) }

// units converts wei back; ok=false if not a multiple of the price.
func (w *world) units(v *big.Int) string {
	q, r := new(big.Int).QuoRem(v, w.price, new(big.Int))
	if r.Sign() != 0 {
		return v.String() + "wei"
	}
	return q.String()
}

func userRecord(st *state.State, self, user thor.Address) (*big.Int, uint64) {
	var v struct {
		UsedCredit *big.Int
		BlockTime  uint64
	}
	v.UsedCredit = new(big.Int)
	raw, err := st.GetRawStorage(builtin.Prototype.Address, thor.Blake2b(self.Bytes(), user.Bytes(), []byte("user")))
	must(err)
	if len(raw) > 0 {
		must(rlp.DecodeBytes(raw, &v))
	}
	return v.UsedCredit, v.BlockTime
}

// model of the bookkeeping the replayer keeps to know what to expect from steps without a post record
type model struct {
	energy map[string]int64
	used   map[string]int64
	utime  map[string]int64
	credit int64
	rate   int64
}

func (m *model) creditAt(u string, now int64) int64 {
	if m.used[u] == 0 && m.utime[u] == 0 {
		return 0
	}
	still := m.used[u]
	if still != 0 && now > m.utime[u] {
		still -= m.rate * (now - m.utime[u])
	}
	switch {
	case still <= 0:
		return m.credit
	case still >= m.credit:
		return 0
	}
	return m.credit - still
}

func main() {
	behPath := flag.String("beh", "", "behaviours exported by TLC (json array)")
	out := flag.String("out", "result.json", "result file")
	flag.Parse()
	var behs []behaviour
	b, err := os.ReadFile(*behPath)
	ioMust(err)
	ioMust(json.Unmarshal(b, &behs))
	w := newWorld()
	C := addrs["contract"]
	var mism []mismatch
	txs, payers := 0, map[string]int{}
	stepsRun := 0
	for bi, beh := range behs {
		st := w.stater.NewState(w.root0)
		now := uint64(1)
		m := &model{energy: map[string]int64{}, used: map[string]int64{}, utime: map[string]int64{}}
		for _, n := range names {
			m.energy[n] = beh.Init.Energy[n]
			must(st.SetEnergy(addrs[n], w.wei(beh.Init.Energy[n]), launch+now))
		}
		bind := builtin.Prototype.Native(st).Bind(C)
		if beh.Init.Warm {
			m.credit, m.rate = 100000, 1000
			must(bind.SetCreditPlan(w.wei(m.credit), w.wei(m.rate)))
			for _, u := range []string{"u1", "u2"} {
				must(bind.AddUser(addrs[u], launch+1))
				m.utime[u] = 1
			}
			for _, s := range []string{"s1", "s2"} {
				must(bind.Sponsor(addrs[s], true))
			}
			bind.SelectSponsor(addrs[beh.Init.Cur])
		}
		bad := func(si int, a, field, want, got string) {
			if len(mism) < 50 {
				mism = append(mism, mismatch{bi, si, a, field, want, got})
			}
		}
		for si, s := range beh.Steps {
			stepsRun++
			switch s.A {
			case "SetCreditPlan":
				m.credit, m.rate = s.Credit, s.Rate
				must(bind.SetCreditPlan(w.wei(s.Credit), w.wei(s.Rate)))
			case "AddUser":
				m.used[s.User], m.utime[s.User] = 0, int64(now)
				must(bind.AddUser(addrs[s.User], launch+now))
			case "RemoveUser":
				m.used[s.User], m.utime[s.User] = 0, 0
				must(bind.RemoveUser(addrs[s.User]))
			case "Sponsor":
				must(bind.Sponsor(addrs[s.Sponsor], true))
			case "Unsponsor":
				must(bind.Sponsor(addrs[s.Sponsor], false))
			case "SelectSponsor":
				bind.SelectSponsor(addrs[s.Sponsor])
			case "AdvanceTime":
				now += s.Dt
			case "ExecTx":
				txs++
				bld := tx.NewBuilder(tx.TypeLegacy).ChainTag(w.tag).BlockRef(tx.NewBlockRef(0)).Expiration(1000).
					Nonce(uint64(bi)<<16 | uint64(si)).Gas(s.Gas).GasPriceCoef(0)
				for i := 0; i < s.N; i++ {
					bld.Clause(tx.NewClause(&C))
				}
				var trx *tx.Transaction
				if s.Delegated {
					bld.Features(tx.DelegationFeature)
					trx = tx.MustSignDelegated(bld.Build(), keys[s.User].PrivateKey, keys["delegator"].PrivateKey)
				} else {
					trx = tx.MustSign(bld.Build(), keys[s.User].PrivateKey)
				}
				rt := runtime.New(w.chain, st, &xenv.BlockContext{Beneficiary: addrs["benef"], Signer: addrs["benef"], Number: 1,
					Time: launch + now, GasLimit: 10_000_000, TotalScore: 1}, w.fc)
				cp := st.NewCheckpoint()
				var receipt *tx.Receipt
				var execErr error
				func() {
					defer func() {
						if e := recover(); e != nil {
							execErr = fmt.Errorf("PANIC: %v", e)
						}
					}()
					receipt, execErr = rt.ExecuteTransaction(trx)
				}()
				got := "none"
				if execErr != nil {
					st.RevertTo(cp) // what the packer does with a tx that cannot start
				} else {
					got = "other"
					for _, n := range names {
						if addrs[n] == receipt.GasPayer {
							got = n
						}
					}
				}
				payers[got]++
				if got != s.Payer {
					bad(si, s.A, "payer", s.Payer, got+fmt.Sprintf(" (err=%v)", execErr))
				}
				if execErr == nil {
					if receipt.GasUsed != s.GasUsed {
						bad(si, s.A, "gasUsed", fmt.Sprint(s.GasUsed), fmt.Sprint(receipt.GasUsed))
					}
					if w.units(receipt.Paid) != fmt.Sprint(s.Paid) {
						bad(si, s.A, "paid", fmt.Sprint(s.Paid), w.units(receipt.Paid))
					}
					if w.units(receipt.Reward) != fmt.Sprint(s.Reward) {
						bad(si, s.A, "reward", fmt.Sprint(s.Reward), w.units(receipt.Reward))
					}
					if receipt.Reverted {
						bad(si, s.A, "reverted", "false", "true")
					}
				}
				for _, n := range names {
					m.energy[n] = s.Post.Energy[n]
				}
				for _, u := range []string{"u1", "u2"} {
					m.used[u], m.utime[u] = s.Post.Used[u], s.Post.Utime[u]
				}
			default:
				harnessError("unknown action %q", s.A)
			}
			// compare the whole abstract state after every step
			for _, n := range names {
				e, err := st.GetEnergy(addrs[n], launch+now, math.MaxUint64)
				must(err)
				if w.units(e) != fmt.Sprint(m.energy[n]) {
					bad(si, s.A, "energy:"+n, fmt.Sprint(m.energy[n]), w.units(e))
				}
			}
			for _, u := range []string{"u1", "u2"} {
				used, ut := userRecord(st, C, addrs[u])
				wantT := uint64(0)
				if m.utime[u] != 0 {
					wantT = launch + uint64(m.utime[u])
				}
				if w.units(used) != fmt.Sprint(m.used[u]) || ut != wantT {
					bad(si, s.A, "used-credit:"+u, fmt.Sprintf("%d@%d", m.used[u], wantT), fmt.Sprintf("%s@%d", w.units(used), ut))
				}
				c, err := bind.UserCredit(addrs[u], launch+now)
				must(err)
				if want := m.creditAt(u, int64(now)); w.units(c) != fmt.Sprint(want) {
					bad(si, s.A, "credit:"+u, fmt.Sprint(want), w.units(c))
				}
			}
		}
	}
	res := map[string]any{"behaviours": len(behs), "steps": stepsRun, "txs": txs, "payers": payers, "mismatches": mism}
	rb, _ := json.Marshal(res)
	ioMust(os.WriteFile(*out, rb, 0o644))
	fmt.Printf("{\"behaviours\":%d,\"steps\":%d,\"txs\":%d,\"mismatches\":%d}\n", len(behs), stepsRun, txs, len(mism))
}
