// txwindow records verdicts of the REAL consensus (Node.Deliver -> consensus.Process), of the real packer (flow.Adopt)
// and the tx lookups of the node's repository for Trace_ChainIndex.tla (C09, consensus level).
//
//	txwindow -out <dir> -runs N -seed S -mode short|long[,...]
//
// A run builds a trunk and a side branch on a PoA network of internal/sim (real packer, consensus, bft, node import
// path). Filler blocks are minted with the real packer. Every block that carries transactions is a *candidate*:
//
//  1. the candidate txs are offered one by one to a real packer flow scheduled on the parent (Adopt events);
//  2. a block is FORGED that is valid in every respect except possibly the admission of its txs: same slot, proposer,
//     header fields as a real empty block E packed on that parent, the txs executed by the real runtime on E's state
//     (which is the pre-execution state of the slot), gasUsed / receipts root / state root taken from that execution,
//     signed (ECDSA + VRF) by the legitimate proposer;
//  3. the forged block is delivered to the node under test (Process event: verdict, reason, store digest unchanged?);
//  4. if the node accepted it, the block is part of the node's tree (Add event with what the node's repository says).
//
// Whether a candidate must be accepted is decided by Trace_ChainIndex (AcceptBlock), not here. The driver only steers:
// (i) a tx already on the parent chain, (ii) the same tx twice, (iii) block ref in the future, (iv) expired,
// (v) dependency missing / only on the sibling branch / later in the block / reverted (on chain, in block),
// (vi) foreign chain tag - each next to twins that differ only in the broken rule (window boundaries ref = num and
// ref+exp = num, dependency satisfied, the same tx on the SIBLING branch where it is not yet included).
// mode long repeats the path-dependent classes with parents 98..103 blocks above the block refs, so that the real
// HasTransaction answers through its recent-ancestor scan and through the filter/index path for the same txs.
//
// A self-test per run checks the forge: for an admissible tx set the forged block has the SAME ID as the block the
// real packer produces in that slot.
package main

import (
	"encoding/json"
	"flag"
	"fmt"
	"math"
	"math/big"
	"math/rand"
	"os"
	"path/filepath"
	"strings"

	"github.com/ethereum/go-ethereum/crypto"

	"github.com/vechain/thor/v2/block"
	"github.com/vechain/thor/v2/consensus"
	"github.com/vechain/thor/v2/consensus/upgrade/galactica"
	"github.com/vechain/thor/v2/packer"
	"github.com/vechain/thor/v2/runtime"
	"github.com/vechain/thor/v2/thor"
	"github.com/vechain/thor/v2/trie"
	"github.com/vechain/thor/v2/tx"
	"github.com/vechain/thor/v2/txpool"
	"github.com/vechain/thor/v2/vrf"
	"github.com/vechain/thor/v2/xenv"

	"verifharness/internal/sim"
	"verifharness/internal/trace"
)

type runStat struct {
	Mode         string         `json:"mode"`
	Seed         int64          `json:"seed"`
	Events       int            `json:"events"`
	Blocks       int            `json:"blocks"`
	MaxHeight    uint32         `json:"maxHeight"`
	Candidates   int            `json:"candidates"`
	Accepted     int            `json:"accepted"`
	Rejected     int            `json:"rejected"`
	Classes      map[string]int `json:"classes"`
	Reasons      map[string]int `json:"reasons"`
	Adopts       int            `json:"adopts"`
	AdoptClasses map[string]int `json:"adoptClasses"`
	PoolEvals    int            `json:"poolEvaluations"`
	WideWindows  int            `json:"windowsBeyond32Bits"` // candidates with ref + exp >= 2^32
	Restarts     int            `json:"restarts"`
	LateFirst    int            `json:"lookedUpBeforeLateInclusion"`
	AdoptRefuse  int            `json:"adoptRefused"`
	DupRecent    int            `json:"dupChecksRecentPath"`  // candidates re-including a tx, parent - ref < 100
	DupIndexed   int            `json:"dupChecksIndexedPath"` // ... parent - ref >= 100
	Lookups      int            `json:"lookups"`
	LookIndexed  int            `json:"lookupsIndexedPath"`
	Errors       []string       `json:"errors,omitempty"`
}

type txr struct {
	tx     *tx.Transaction
	name   string
	ref    uint32
	exp    uint32
	dep    *txr
	tagok  bool
	revert bool
	fund   bool // sends a few wei to the account O
	onFund bool // O transfers more than its genesis balance to itself: succeeds only after a fund tx on the same chain
}

type blk struct {
	id     thor.Bytes32
	name   string
	parent *blk
	num    uint32
	txs    []*txr
	revs   []bool
}

type run struct {
	rng    *rand.Rand
	net    *sim.Net
	node   *sim.Node
	bids   *trace.Interner
	tids   *trace.Interner
	pids   *trace.Interner
	evs    []trace.Ev
	byID   map[thor.Bytes32]*blk
	blocks []*blk
	txs    []*txr
	nonce  uint64
	who    int
	st     runStat
}

func must(err error) {
	if err != nil {
		fmt.Println("HARNESS-ERROR", err)
		os.Exit(3)
	}
}

func (r *run) emit(e trace.Ev) { r.evs = append(r.evs, e) }

func (r *run) bname(id thor.Bytes32) string {
	if b, ok := r.byID[id]; ok {
		return b.name
	}
	return fmt.Sprintf("unknown-%x", id[:6])
}

func onChain(head *blk, t *txr) (bool, bool) {
	for x := head; x != nil; x = x.parent {
		for i, y := range x.txs {
			if y == t {
				return true, x.revs[i]
			}
		}
	}
	return false, false
}

var huge = new(big.Int).Mul(sim.BigBalance, big.NewInt(4))

const nOrigins = 5 // extra accounts used as ordinary origins; the next one is O

func sat(x uint32) uint32 { return min(x, 1<<31-1) } // TLC integers are 32-bit signed (see InWindow in ChainIndex.tla)

// revertsOn: will t be included as reverted in a block on parent after the txs prior? Ordinary txs revert by
// construction or never; an onFund tx reverts unless a fund tx precedes it on that very chain.
func (t *txr) revertsOn(parent *blk, prior []*txr) bool {
	if !t.onFund {
		return t.revert
	}
	for _, p := range prior {
		if p.fund {
			return false
		}
	}
	for x := parent; x != nil; x = x.parent {
		for _, y := range x.txs {
			if y.fund {
				return false
			}
		}
	}
	return true
}

// newTx builds a signed legacy transfer. revert: the transfer exceeds the origin's balance, so the clause fails and the
// tx is included as reverted whatever the state is.
func (r *run) newTx(ref, exp uint32, dep *txr, tagok, revert bool) *txr {
	return r.newTxKind(ref, exp, dep, tagok, revert, "")
}

// newTxKind: kind "fund" = an ordinary origin sends 10 wei to O; "onfund" = O sends its genesis balance + 5 wei to itself.
func (r *run) newTxKind(ref, exp uint32, dep *txr, tagok, revert bool, kind string) *txr {
	r.nonce++
	tag := r.node.Repo.ChainTag()
	if !tagok {
		tag ^= 0x55
	}
	to := r.net.Devs[9].Address
	val := big.NewInt(1)
	if revert {
		val = huge
	}
	b := tx.NewBuilder(tx.TypeLegacy).ChainTag(tag).BlockRef(tx.NewBlockRef(ref)).Expiration(exp).Gas(60000).
		Nonce(r.nonce).Clause(tx.NewClause(&to).WithValue(val))
	depName := "none"
	if dep != nil {
		id := dep.tx.ID()
		b.DependsOn(&id)
		depName = dep.name
	}
	origin := r.net.Opt.Validators + int(r.nonce)%nOrigins
	oAcc := r.net.Devs[r.net.Opt.Validators+nOrigins]
	switch kind {
	case "fund":
		b = tx.NewBuilder(tx.TypeLegacy).ChainTag(tag).BlockRef(tx.NewBlockRef(ref)).Expiration(exp).Gas(60000).
			Nonce(r.nonce).Clause(tx.NewClause(&oAcc.Address).WithValue(big.NewInt(10)))
	case "onfund":
		b = tx.NewBuilder(tx.TypeLegacy).ChainTag(tag).BlockRef(tx.NewBlockRef(ref)).Expiration(exp).Gas(60000).
			Nonce(r.nonce).Clause(tx.NewClause(&oAcc.Address).WithValue(new(big.Int).Add(sim.BigBalance, big.NewInt(5))))
		origin = r.net.Opt.Validators + nOrigins
	}
	if kind != "" && dep != nil {
		id := dep.tx.ID()
		b.DependsOn(&id)
	}
	t := tx.MustSign(b.Build(), r.net.Devs[origin].PrivateKey)
	id := t.ID()
	x := &txr{tx: t, ref: ref, exp: exp, dep: dep, tagok: tagok, revert: revert, fund: kind == "fund", onFund: kind == "onfund"}
	x.name = r.tids.Name(id[:])
	r.txs = append(r.txs, x)
	r.emit(trace.Ev{"e": "Tx", "t": x.name, "tagok": tagok, "ref": sat(t.BlockRef().Number()), "exp": sat(t.Expiration()), "dep": depName,
		"pfx": r.pids.Name(id[:8]), "ref64": uint64(t.BlockRef().Number()), "exp64": uint64(t.Expiration()), "kind": kind})
	return x
}

// noteAdd records a block the node under test has stored, with what the node's repository reports about it.
func (r *run) noteAdd(b *block.Block, parent *blk, txs []*txr) *blk {
	repo := r.node.Repo
	h := b.Header()
	sum, err := repo.GetBlockSummary(h.ID())
	must(err)
	rcs, err := repo.GetBlockReceipts(h.ID())
	must(err)
	n := &blk{id: h.ID(), parent: parent, num: h.Number(), txs: txs}
	n.name = r.bids.Name(n.id[:])
	revs, sers, tn := []bool{}, []uint64{}, []string{}
	for i, rc := range rcs {
		revs = append(revs, rc.Reverted)
		sers = append(sers, rc.GasUsed)
		tn = append(tn, txs[i].name)
		if want := txs[i].revertsOn(parent, txs[:i]); rc.Reverted != want {
			must(fmt.Errorf("tx %s: reverted=%v, planned %v", txs[i].name, rc.Reverted, want))
		}
	}
	n.revs = revs
	r.byID[n.id] = n
	r.blocks = append(r.blocks, n)
	if n.num > r.st.MaxHeight {
		r.st.MaxHeight = n.num
	}
	heads, err := repo.ScanHeads(0)
	must(err)
	confl, err := repo.GetConflicts(n.num)
	must(err)
	hn, cn := []string{}, []string{}
	for _, x := range heads {
		hn = append(hn, r.bname(x))
	}
	for _, x := range confl {
		cn = append(cn, r.bname(x))
	}
	best := repo.BestBlockSummary().Header.ID()
	r.emit(trace.Ev{"e": "Add", "b": n.name, "p": parent.name, "num": n.num, "ts": h.Timestamp(), "conflicts": sum.Conflicts,
		"txs": tn, "revs": revs, "sers": sers, "asbest": best == n.id, "best": r.bname(best), "heads": hn, "confl": cn})
	return n
}

// filler mints an empty block with the real packer and delivers it to the node.
func (r *run) filler(parent *blk) *blk {
	r.who = (r.who + 1) % r.net.Opt.Validators
	b, err := r.net.Mint(parent.id, r.who, false, 0)
	must(err)
	class, err := r.node.Deliver(b)
	if class != "ok" {
		must(fmt.Errorf("node refused an empty block minted by the real packer: %s %v", class, err))
	}
	return r.noteAdd(b, parent, nil)
}

// forge builds the block described in the package comment from the empty block e packed on parent.
func (r *run) forge(parent *blk, e *block.Block, txs []*txr) (*block.Block, []bool, error) {
	g := r.net.God
	es, err := g.Repo.GetBlockSummary(e.Header().ID())
	if err != nil {
		return nil, nil, err
	}
	eh := e.Header()
	signer, err := eh.Signer()
	if err != nil {
		return nil, nil, err
	}
	st := g.Stater.NewState(es.Root())
	rt := runtime.New(g.Repo.NewChain(parent.id), st, &xenv.BlockContext{Beneficiary: eh.Beneficiary(), Signer: signer,
		Number: eh.Number(), Time: eh.Timestamp(), GasLimit: eh.GasLimit(), TotalScore: eh.TotalScore(), BaseFee: eh.BaseFee()}, r.net.FC)
	var receipts tx.Receipts
	var gasUsed uint64
	revs := []bool{}
	bb := new(block.Builder).Beneficiary(eh.Beneficiary()).GasLimit(eh.GasLimit()).ParentID(parent.id).Timestamp(eh.Timestamp()).
		TotalScore(eh.TotalScore()).TransactionFeatures(eh.TxsFeatures()).BaseFee(eh.BaseFee()).Alpha(eh.Alpha())
	if eh.COM() {
		bb.COM()
	}
	for _, t := range txs {
		rc, err := rt.ExecuteTransaction(t.tx)
		if err != nil {
			return nil, nil, fmt.Errorf("runtime cannot execute %s: %w", t.name, err)
		}
		receipts = append(receipts, rc)
		gasUsed += rc.GasUsed
		revs = append(revs, rc.Reverted)
		bb.Transaction(t.tx)
	}
	stage, err := st.Stage(trie.Version{Major: eh.Number(), Minor: 1 << 20})
	if err != nil {
		return nil, nil, err
	}
	nb := bb.GasUsed(gasUsed).ReceiptsRoot(receipts.RootHash()).StateRoot(stage.Hash()).Build()
	var key = r.net.Key(r.net.SignerOf(eh))
	ec, err := crypto.Sign(nb.Header().SigningHash().Bytes(), key)
	if err != nil {
		return nil, nil, err
	}
	_, proof, err := vrf.Prove(key, eh.Alpha())
	if err != nil {
		return nil, nil, err
	}
	sig, err := block.NewComplexSignature(ec, proof)
	if err != nil {
		return nil, nil, err
	}
	return nb.WithSignature(sig), revs, nil
}

var txReasons = []string{"tx already exists", "tx dep broken", "tx dep reverted", "tx chain tag mismatch", "tx ref future block", "tx expired"}

// candidate runs steps 1-4 of the package comment. Returns the stored block if the node accepted it.
func (r *run) candidate(parent *blk, class string, txs []*txr) *blk {
	r.st.Candidates++
	r.st.Classes[class]++
	for _, t := range txs {
		if t.incl(r) {
			if t.ref <= parent.num {
				if parent.num-t.ref < 100 {
					r.st.DupRecent++
				} else {
					r.st.DupIndexed++
				}
			}
			break
		}
	}
	// the slot: an empty block by the next proposer (God stores it; the node under test never sees it)
	r.who = (r.who + 1) % r.net.Opt.Validators
	e, err := r.net.Mint(parent.id, r.who, false, 0)
	must(err)
	g := r.net.God
	// 1. the real packer, scheduled for the same proposer on the same parent
	acc := r.net.Devs[r.who]
	ps, err := g.Repo.GetBlockSummary(parent.id)
	must(err)
	flow, err := packer.New(g.Repo, g.Stater, acc.Address, &acc.Address, r.net.FC, 0).Schedule(ps, e.Header().Timestamp())
	must(err)
	if flow.When() != e.Header().Timestamp() {
		must(fmt.Errorf("packer scheduled another slot"))
	}
	// 0. the pool's admission rule (TxObject.Evaluate) for every candidate tx against the parent as head
	pst := g.Stater.NewState(ps.Root())
	for i, t := range txs {
		if !t.tagok || (i > 0 && txs[i-1] == t) {
			continue // the chain tag is checked elsewhere in the pool
		}
		obj, err := txpool.ResolveTx(t.tx, false)
		must(err)
		exec, _, err := obj.Evaluate(g.Repo.NewChain(parent.id), pst, ps.Header, r.net.FC, galactica.CalcBaseFee(ps.Header, r.net.FC), false)
		cls := "waiting"
		if err != nil {
			cls = "rejected"
		} else if exec {
			cls = "executable"
		}
		ev := trace.Ev{"e": "Pool", "h": parent.name, "t": t.name, "cls": cls}
		if err != nil {
			ev["err"] = err.Error()
		}
		r.emit(ev)
		r.st.PoolEvals++
	}
	prior, priorrevs := []string{}, []bool{}
	var adopted []*txr
	for _, t := range txs {
		err := flow.Adopt(t.tx)
		r.st.Adopts++
		cls := "ok"
		switch {
		case err == nil:
		case packer.IsBadTx(err):
			cls = "bad"
		case packer.IsTxNotAdoptableNow(err):
			cls = "later"
		case packer.IsGasLimitReached(err):
			cls = "gaslimit"
		case err.Error() == "known tx":
			cls = "known"
		case err.Error() == "tx not adoptable forever":
			cls = "never"
		default:
			cls = "other: " + err.Error()
		}
		ev := trace.Ev{"e": "Adopt", "p": parent.name, "prior": append([]string{}, prior...), "priorrevs": append([]bool{}, priorrevs...),
			"t": t.name, "ok": err == nil, "cls": cls}
		if err != nil {
			ev["err"] = err.Error()
			r.st.AdoptRefuse++
			r.st.AdoptClasses[cls]++
		} else {
			prior = append(prior, t.name)
			priorrevs = append(priorrevs, t.revertsOn(parent, adopted))
			adopted = append(adopted, t)
		}
		r.emit(ev)
	}
	// 2. forge
	fb, revs, err := r.forge(parent, e, txs)
	must(err)
	tn := []string{}
	for i, t := range txs {
		tn = append(tn, t.name)
		if want := t.revertsOn(parent, txs[:i]); revs[i] != want {
			must(fmt.Errorf("tx %s: reverted=%v in the forge, planned %v", t.name, revs[i], want))
		}
	}
	// 3. deliver to the node under test
	before := r.node.KV.Digest()
	class2, derr := r.node.Deliver(fb)
	ev := trace.Ev{"e": "Process", "p": parent.name, "num": parent.num + 1, "txs": tn, "revs": revs, "class": class, "how": "deliver"}
	switch {
	case class2 == "known":
		// the very same block (same parent, slot, proposer, txs) was offered before: nothing new to observe
		r.st.Classes["repeat"]++
		return nil
	case class2 == "ok":
		ev["ok"] = true
		ev["same"] = false
		r.st.Accepted++
	case class2 == "error" && consensus.IsCritical(derr):
		ev["ok"] = false
		ev["same"] = r.node.KV.Digest() == before
		ev["reason"] = derr.Error()
		r.st.Rejected++
		known := "other: " + derr.Error()
		for _, k := range txReasons {
			if strings.Contains(derr.Error(), k) {
				known = k
			}
		}
		r.st.Reasons[known]++
	default:
		must(fmt.Errorf("unexpected import outcome %s: %v", class2, derr))
	}
	r.emit(ev)
	if class2 != "ok" {
		return nil
	}
	// 4. part of the node's tree now; the scratch stack learns it through its own (real) validator
	n := r.noteAdd(fb, parent, txs)
	must(r.net.GodLearn(fb))
	return n
}

func (t *txr) incl(r *run) bool {
	for _, b := range r.blocks {
		for _, y := range b.txs {
			if y == t {
				return true
			}
		}
	}
	return false
}

func (r *run) lookups(heads []*blk) {
	for _, h := range heads {
		c := r.node.Repo.NewChain(h.id)
		q := []trace.Ev{}
		for _, t := range r.txs {
			id := t.tx.ID()
			has, err := c.HasTransaction(id, t.tx.BlockRef().Number())
			must(err)
			e := trace.Ev{"t": t.name, "has": has}
			meta, err := c.GetTransactionMeta(id)
			switch {
			case err == nil:
				e["found"], e["num"], e["conflicts"], e["idx"], e["rev"] = true, meta.BlockNum, meta.BlockConflicts, meta.Index, meta.Reverted
				gt, _, err := c.GetTransaction(id)
				must(err)
				gid := gt.ID()
				e["gt"] = "unknown"
				if r.tids.Known(gid[:]) {
					e["gt"] = r.tids.Name(gid[:])
				}
				rc, err := c.GetTransactionReceipt(id)
				must(err)
				e["rrev"], e["ser"] = rc.Reverted, rc.GasUsed
			case c.IsNotFound(err):
				e["found"] = false
			default:
				must(err)
			}
			q = append(q, e)
			r.st.Lookups++
			if t.ref <= h.num && h.num-t.ref >= 100 {
				r.st.LookIndexed++
			}
		}
		r.emit(trace.Ev{"e": "Lookup", "h": h.name, "q": q})
	}
}

// phase offers a batch of candidates of every class on the given parents. other[i] is a block of the competing
// branch used to find txs that are "only on the sibling branch".
func (r *run) phase(parents []*blk, rounds int, far bool) {
	fresh := func(num uint32, revert bool) *txr {
		return r.newTx(num-uint32(r.rng.Intn(int(min(num, 3))+1)), 1000, nil, true, revert)
	}
	for k := 0; k < rounds; k++ {
		p := parents[r.rng.Intn(len(parents))]
		num := p.num + 1
		var onP, offP, revOnP, okOnP []*txr
		for _, t := range r.txs {
			if !t.incl(r) {
				continue
			}
			if on, rev := onChain(p, t); on {
				onP = append(onP, t)
				if rev {
					revOnP = append(revOnP, t)
				} else {
					okOnP = append(okOnP, t)
				}
			} else {
				offP = append(offP, t)
			}
		}
		pick := func(s []*txr) *txr {
			if far {
				// far above the early block refs: prefer the early txs, so that the lookups behind the verdict take the index path
				var early []*txr
				for _, t := range s {
					if t.ref+100 <= p.num {
						early = append(early, t)
					}
				}
				if len(early) > 0 {
					s = early
				}
			}
			if len(s) == 0 {
				return nil
			}
			return s[r.rng.Intn(len(s))]
		}
		var txs []*txr
		class := ""
		var funded, unfunded []*txr // onFund txs on the chain of p, by how they fared there
		for _, t := range onP {
			if t.onFund {
				if _, rev := onChain(p, t); rev {
					unfunded = append(unfunded, t)
				} else {
					funded = append(funded, t)
				}
			}
		}
		if far && p.num >= 101 && r.rng.Intn(4) == 0 {
			// A tx whose block ref lies >= 100 blocks below is looked up BEFORE it is ever included (pool rule, packer,
			// consensus - all through the index path), then included, then looked up and offered again on top of its own
			// block: same repository objects throughout, no restart in between. A lookup must not change a later answer.
			u := r.newTx(uint32(r.rng.Intn(int(p.num-100))), 1000, nil, true, r.rng.Intn(3) == 0)
			r.lookups([]*blk{p})
			if n := r.candidate(p, "late-first-inclusion", []*txr{u}); n != nil {
				r.lookups([]*blk{n, p})
				r.candidate(n, "late-reinclusion", []*txr{u})
				r.candidate(n, "late-reinclusion", []*txr{r.newTx(n.num+1, 1000, nil, true, false), u})
				r.st.LateFirst++
			}
			continue
		}
		c := r.rng.Intn(20)
		if far && r.rng.Intn(100) < 60 {
			c = []int{0, 1, 2, 3, 8, 10, 13, 17}[r.rng.Intn(8)] // the classes whose verdict depends on a lookup
		}
		switch c {
		case 0, 1: // (i) a tx already on the parent chain
			class = "dup-on-chain"
			if t := pick(onP); t != nil {
				txs = []*txr{t}
				if r.rng.Intn(3) == 0 {
					txs = []*txr{fresh(num, false), t}
				}
			}
		case 2, 3: // the same tx on the SIBLING branch, where it is not included yet
			class = "sibling-reinclusion"
			if t := pick(offP); t != nil {
				txs = []*txr{t}
			}
		case 4: // (ii) twice in the block
			class = "twice-in-block"
			t := fresh(num, r.rng.Intn(2) == 0)
			txs = []*txr{t, t}
		case 5: // (iii) block ref in the future / exactly at the block
			if r.rng.Intn(2) == 0 {
				class = "ref-future"
				txs = []*txr{r.newTx(num+1+uint32(r.rng.Intn(2)), 100, nil, true, false)}
			} else {
				class = "ref-at-block"
				txs = []*txr{r.newTx(num, 0, nil, true, false)}
			}
		case 6: // (iv) expired / last block of the window
			ref := num - 1 - uint32(r.rng.Intn(int(min(num-1, 4))+1))
			if r.rng.Intn(2) == 0 && num >= 2 {
				class = "expired"
				txs = []*txr{r.newTx(ref, num-1-ref, nil, true, false)}
			} else {
				class = "expires-at-block"
				txs = []*txr{r.newTx(ref, num-ref, nil, true, false)}
			}
		case 7: // (v) dependency never included
			class = "dep-missing"
			x := fresh(num, false)
			txs = []*txr{r.newTx(num, 1000, x, true, false)}
		case 8: // dependency only on the sibling branch
			class = "dep-on-sibling-only"
			if t := pick(offP); t != nil && !t.revert {
				txs = []*txr{r.newTx(num, 1000, t, true, false)}
			}
		case 9: // dependency later / earlier in the same block
			x := fresh(num, false)
			y := r.newTx(num, 1000, x, true, false)
			if r.rng.Intn(2) == 0 {
				class = "dep-later-in-block"
				txs = []*txr{y, x}
			} else {
				class = "dep-earlier-in-block"
				txs = []*txr{x, y}
			}
		case 10: // dependency reverted on the chain / fine on the chain
			if r.rng.Intn(2) == 0 {
				class = "dep-reverted-on-chain"
				if t := pick(revOnP); t != nil {
					txs = []*txr{r.newTx(num, 1000, t, true, false)}
				}
			} else {
				class = "dep-on-chain"
				if t := pick(okOnP); t != nil {
					txs = []*txr{r.newTx(num, 1000, t, true, r.rng.Intn(3) == 0)}
				}
			}
		case 11: // dependency reverted earlier in the block
			class = "dep-reverted-in-block"
			x := fresh(num, true)
			txs = []*txr{x, r.newTx(num, 1000, x, true, false)}
		case 12: // (vi) foreign chain tag
			class = "chain-tag"
			txs = []*txr{r.newTx(num, 1000, nil, false, false)}
		case 13: // a good tx followed by a bad one: the position must not matter
			class = "good-then-dup"
			if t := pick(onP); t != nil {
				txs = []*txr{fresh(num, false), fresh(num, true), t}
			}
		case 14: // the window at scale: ref + exp around and beyond 2^32 (the code adds in 64 bits), expiration = MaxUint32
			class = "window-wide"
			ref := num - uint32(r.rng.Intn(int(min(num-1, 3))+1)) // >= 1
			exp := []uint32{math.MaxUint32 - ref - 1, math.MaxUint32 - ref, math.MaxUint32 - ref + 1,
				math.MaxUint32 - ref + 1 + uint32(r.rng.Intn(int(ref))), math.MaxUint32}[r.rng.Intn(5)]
			txs = []*txr{r.newTx(ref, exp, nil, true, false)}
			if uint64(ref)+uint64(exp) >= 1<<32 {
				r.st.WideWindows++
			}
		case 15: // block refs near the top of the range
			class = "ref-huge"
			txs = []*txr{r.newTx(math.MaxUint32-uint32(r.rng.Intn(3)), uint32(r.rng.Intn(20)), nil, true, false)}
		case 16: // the state-dependent tx itself: succeeds after a fund tx on this chain, reverts elsewhere
			class = "state-dependent"
			txs = []*txr{r.newTxKind(num-1, 1000, nil, true, false, "onfund")}
			if r.rng.Intn(3) == 0 {
				txs = []*txr{r.newTxKind(num, 1000, nil, true, false, "fund"), txs[0]}
			}
		case 17: // a tx depending on a state-dependent tx that is on this chain: fine where it succeeded, refused where it reverted
			if t := pick(append(append([]*txr{}, funded...), unfunded...)); t != nil {
				class = "dep-on-state-dependent"
				txs = []*txr{r.newTx(num, 1000, t, true, false)}
			}
		case 18: // the state-dependent tx of the OTHER branch (with the other outcome there), then a dependent in the same block
			for _, t := range offP {
				if t.onFund && uint64(num) <= uint64(t.ref)+uint64(t.exp) {
					class = "state-dependent-reincluded"
					txs = []*txr{t, r.newTx(num, 1000, t, true, false)}
				}
			}
		default: // plain admissible blocks keep the pool of included txs growing
			class = "admissible"
			txs = []*txr{fresh(num, false), fresh(num, r.rng.Intn(2) == 0)}
		}
		if len(txs) == 0 {
			class = "admissible"
			txs = []*txr{fresh(num, false), fresh(num, true)}
		}
		r.candidate(p, class, txs)
	}
}

// restart drops every in-memory object of the node under test and rebuilds the stack over the same store (cold
// repository caches, index read back from the key-value engine); what the new repository says about itself is logged.
func (r *run) restart() {
	r.node = r.net.Restart(0)
	r.st.Restarts++
	repo := r.node.Repo
	heads, err := repo.ScanHeads(0)
	must(err)
	hn := []string{}
	for _, h := range heads {
		hn = append(hn, r.bname(h))
	}
	mx, err := repo.GetMaxBlockNum()
	must(err)
	r.emit(trace.Ev{"e": "Reopen", "best": r.bname(repo.BestBlockSummary().Header.ID()), "heads": hn, "maxnum": mx,
		"g": r.bname(repo.GenesisBlock().Header().ID())})
}

func (r *run) selfTest(parent *blk) {
	// the forge must reproduce the real packer: same id for an admissible tx set in the same slot
	t := r.newTx(parent.num+1, 10, nil, true, false)
	r.who = (r.who + 1) % r.net.Opt.Validators
	e, err := r.net.Mint(parent.id, r.who, false, 0)
	must(err)
	fb, _, err := r.forge(parent, e, []*txr{t})
	must(err)
	pb, err := r.net.Mint(parent.id, r.who, false, 0, t.tx)
	must(err)
	if fb.Header().ID() != pb.Header().ID() {
		must(fmt.Errorf("forge self-test: forged block %v differs from the packer's block %v", fb.Header(), pb.Header()))
	}
}

func oneRun(seed int64, mode string) *run {
	rng := rand.New(rand.NewSource(seed))
	nv := 2 + rng.Intn(2)
	net := sim.NewNet(sim.Options{Validators: nv, Nodes: 1, ExtraAccts: nOrigins + 1, SkipLogs: true, EpochLength: 180,
		LaunchTime: sim.DefaultLaunch + uint64(seed%100_003)*10})
	defer net.Close()
	r := &run{rng: rng, net: net, node: net.Nodes[0], bids: trace.NewInterner("b"), tids: trace.NewInterner("t"),
		pids: trace.NewInterner("p"), byID: map[thor.Bytes32]*blk{}}
	r.st = runStat{Mode: mode, Seed: seed, Classes: map[string]int{}, Reasons: map[string]int{}, AdoptClasses: map[string]int{}}
	g := &blk{id: net.B0.Header().ID()}
	g.name = r.bids.Name(g.id[:])
	r.byID[g.id] = g
	r.blocks = []*blk{g}
	r.emit(trace.Ev{"e": "Reset", "g": g.name, "ts": net.B0.Header().Timestamp(), "mode": mode, "seed": seed})

	trunk := g
	f := uint32(1 + rng.Intn(3))
	for trunk.num < f {
		trunk = r.filler(trunk)
	}
	r.selfTest(trunk)
	side := trunk
	// early inclusions: a plain tx, a reverted one, a dependent one; the side branch gets some of them at other heights
	a := r.newTx(uint32(rng.Intn(int(f)+1)), 1000, nil, true, false)
	br := r.newTx(uint32(rng.Intn(int(f)+1)), 1000, nil, true, true)
	d := r.newTx(f+2, 1000, nil, true, false) // will sit exactly at its ref block
	step := func(tip *blk, class string, txs ...*txr) *blk {
		if n := r.candidate(tip, class, txs); n != nil {
			return n
		}
		return r.filler(tip)
	}
	// O is funded on the trunk only: the same state-dependent tx s succeeds on the trunk and reverts on the side branch
	fnd := r.newTxKind(uint32(rng.Intn(int(f)+1)), 1000, nil, true, false, "fund")
	sd := r.newTxKind(uint32(rng.Intn(int(f)+1)), 1000, nil, true, false, "onfund")
	trunk = step(trunk, "seed-trunk", a, br, fnd)
	c := r.newTx(f, 1000, a, true, false)
	trunk = step(trunk, "seed-trunk", d, c, sd)
	side = r.filler(side)
	side = step(side, "seed-side", br, sd)
	side = step(side, "seed-side", a)
	r.lookups([]*blk{trunk, side, trunk.parent, side.parent})
	r.phase([]*blk{trunk, side, trunk.parent, side.parent}, 16, false)
	r.lookups([]*blk{trunk, side})
	r.restart()
	r.lookups([]*blk{trunk, side, trunk.parent, side.parent})
	r.phase([]*blk{trunk, side}, 4, false)
	if mode == "long" {
		// parents 98..103 above the early refs: the same txs are now judged through the other lookup path
		for trunk.num < 97 {
			trunk = r.filler(trunk)
			side = r.filler(side)
		}
		for trunk.num < 104 {
			r.phase([]*blk{trunk, side}, 8, true)
			if trunk.num == 100 {
				r.restart()
			}
			trunk = r.filler(trunk)
			side = r.filler(side)
		}
		var hs []*blk
		for x, y := trunk, side; x.num > 95; x, y = x.parent, y.parent {
			hs = append(hs, x, y)
		}
		r.lookups(hs)
	} else {
		for k := 0; k < 3; k++ {
			trunk = r.filler(trunk)
			side = r.filler(side)
			r.phase([]*blk{trunk, side, trunk.parent}, 8, false)
		}
		r.lookups([]*blk{trunk, side, trunk.parent, side.parent})
	}
	r.st.Events = len(r.evs)
	r.st.Blocks = len(r.blocks) - 1
	return r
}

func main() {
	out := flag.String("out", ".", "output directory")
	runs := flag.Int("runs", 1, "number of runs")
	seed := flag.Int64("seed", 1, "seed")
	mode := flag.String("mode", "short", "comma separated modes, cycled over the runs")
	flag.Parse()
	modes := strings.Split(*mode, ",")
	must(os.MkdirAll(*out, 0o755))
	var all []trace.Ev
	var stats []runStat
	for i := 0; i < *runs; i++ {
		r := oneRun((*seed*7919+int64(i))*104729+777, modes[i%len(modes)])
		all = append(all, r.evs...)
		stats = append(stats, r.st)
	}
	must(trace.WriteNDJSON(filepath.Join(*out, "trace.ndjson"), all))
	js, _ := json.MarshalIndent(stats, "", " ")
	must(os.WriteFile(filepath.Join(*out, "runs.json"), js, 0o644))
	sum, _ := json.Marshal(map[string]any{"runs": len(stats), "events": len(all)})
	fmt.Println(string(sum))
}
