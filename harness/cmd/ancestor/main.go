// Command ancestor drives the REAL comm.findCommonAncestor (hook H6) over every (H, A, R) instance:
//
//	H  number of the local best block            A  last height at which local and remote hold the same block
//	R  number of the remote best block (A, A+1, H, H+3 - shorter / equal / longer than the local chain)
//
// Per instance: a local chain.Repository (trunk c0..cA, then local-only blocks up to H), a remote repository (trunk,
// then remote-only blocks up to R) served by a real comm.Communicator (servePeer -> rpc.Serve -> handleRPC) over the
// in-process message pipe. The GetBlockIDByNumber requests and answers are observed at the pipe and written, with the
// returned ancestor, as a trace for specs/net/Trace_Sync.tla. Blocks are cheap (no state) but signed, so that every
// block has its own id.
package main

import (
	"context"
	"crypto/ecdsa"
	"encoding/json"
	"flag"
	"fmt"
	"os"
	"path/filepath"
	"sync"
	"sync/atomic"
	"time"

	"github.com/ethereum/go-ethereum/crypto"
	"github.com/ethereum/go-ethereum/rlp"

	"github.com/vechain/thor/v2/block"
	"github.com/vechain/thor/v2/chain"
	"github.com/vechain/thor/v2/comm"
	"github.com/vechain/thor/v2/comm/proto"
	"github.com/vechain/thor/v2/genesis"
	"github.com/vechain/thor/v2/muxdb"
	"github.com/vechain/thor/v2/p2p"
	"github.com/vechain/thor/v2/p2p/discover"
	"github.com/vechain/thor/v2/thor"

	"verifharness/internal/pipe"
	"verifharness/internal/trace"
)

func fail(f string, a ...any) {
	fmt.Printf("HARNESS-ERROR "+f+"\n", a...)
	os.Exit(3)
}

func must(err error) {
	if err != nil {
		fail("%v", err)
	}
}

func mkBlock(parent *block.Block, key *ecdsa.PrivateKey, ts uint64) *block.Block {
	b := new(block.Builder).
		ParentID(parent.Header().ID()).
		Timestamp(ts).
		TotalScore(parent.Header().TotalScore() + 1).
		GasLimit(10_000_000).
		Build()
	sig, err := crypto.Sign(b.Header().SigningHash().Bytes(), key)
	must(err)
	return b.WithSignature(sig)
}

type side struct {
	repo *chain.Repository
	comm *comm.Communicator
	head *block.Block
}

func newSide(b0 *block.Block, trunk []*block.Block, a int) *side {
	repo, err := chain.NewRepository(muxdb.NewMem(), b0)
	must(err)
	s := &side{repo: repo, head: b0}
	for i := 1; i <= a; i++ {
		s.add(trunk[i])
	}
	return s
}

func (s *side) add(b *block.Block) {
	conflicts, err := s.repo.ScanConflicts(b.Header().Number())
	must(err)
	must(s.repo.AddBlock(b, nil, conflicts, true))
	s.head = b
}

// addSide stores b without making it part of the best chain (a side branch the node has seen).
func (s *side) addSide(b *block.Block) {
	conflicts, err := s.repo.ScanConflicts(b.Header().Number())
	must(err)
	must(s.repo.AddBlock(b, nil, conflicts, false))
}

// growTo extends the side with branch blocks (indexed by height) until its head has number n.
func (s *side) growTo(branch map[int]*block.Block, n int) {
	for int(s.head.Header().Number()) < n {
		s.add(branch[int(s.head.Header().Number())+1])
	}
}

type probe struct {
	callID uint32
	n      uint32
	id     thor.Bytes32
	got    bool
}

type stats struct {
	Instances    int            `json:"instances"`
	Probes       int            `json:"probes"`
	MaxProbes    int            `json:"maxProbes"`
	Mismatches   int            `json:"mismatches"`
	Errors       int            `json:"errors"`
	Panics       int            `json:"panics"`
	ByRemote     map[string]int `json:"byRemote"`
	Nontrivial   int            `json:"nontrivial"`
	FirstBad     map[string]any `json:"firstBad,omitempty"`
	DistinctSeqs int            `json:"distinctProbeSequences"`
}

func main() {
	out := flag.String("out", ".", "output directory")
	maxH := flag.Int("maxh", 16, "largest local head number")
	seed := flag.Int64("seed", 1, "seed (block timestamps => ids)")
	flag.Parse()

	devs := genesis.DevAccounts()
	b0 := new(block.Builder).ParentID(thor.Bytes32{0xff, 0xff, 0xff, 0xff}).Timestamp(uint64(*seed)).Build()
	ts := func(n int, off uint64) uint64 { return uint64(*seed)*100000 + uint64(n)*10 + off }

	trunk := make([]*block.Block, *maxH+1)
	trunk[0] = b0
	for i := 1; i <= *maxH; i++ {
		trunk[i] = mkBlock(trunk[i-1], devs[0].PrivateKey, ts(i, 0))
	}

	w := &trace.Writer{}
	st := &stats{ByRemote: map[string]int{}}
	seqs := map[string]bool{}
	nodeSeq := byte(0)

	for a := 0; a <= *maxH; a++ {
		// branches above the trunk prefix 0..a
		lb, rb := map[int]*block.Block{}, map[int]*block.Block{}
		lp, rp := trunk[a], trunk[a]
		for n := a + 1; n <= *maxH+3; n++ {
			lp = mkBlock(lp, devs[1].PrivateKey, ts(n, 1))
			rp = mkBlock(rp, devs[2].PrivateKey, ts(n, 2))
			lb[n], rb[n] = lp, rp
		}
		local := newSide(b0, trunk, a)
		// a second local node that has, besides its own best chain, the first two blocks of the REMOTE branch stored as a
		// side branch: the search is over best chains, a block that is merely known must not count as common
		localSide := newSide(b0, trunk, a)
		localSide.addSide(rb[a+1])
		localSide.addSide(rb[a+2])
		remotes := map[string]*side{"A": newSide(b0, trunk, a), "A+1": newSide(b0, trunk, a), "H": newSide(b0, trunk, a), "H+3": newSide(b0, trunk, a)}
		for _, r := range remotes {
			r.comm = comm.New(r.repo, nil)
		}
		remotes["A+1"].growTo(rb, a+1)

		for h := a; h <= *maxH; h++ {
			local.growTo(lb, h)
			localSide.growTo(lb, h)
			remotes["H"].growTo(rb, h)
			remotes["H+3"].growTo(rb, h+3)
			seen := map[int]bool{}
			for _, name := range []string{"A", "A+1", "H", "H+3"} {
				r := remotes[name]
				rlen := int(r.head.Header().Number())
				if seen[rlen] {
					continue
				}
				seen[rlen] = true
				nodeSeq++
				runInstance(w, st, seqs, local, r, h, a, rlen, name, nodeSeq)
				if h > a && rlen > a { // both have left the trunk: the stored side blocks are the remote's
					nodeSeq++
					runInstance(w, st, seqs, localSide, r, h, a, rlen, name+"/side", nodeSeq)
				}
			}
		}
	}
	st.DistinctSeqs = len(seqs)
	must(os.MkdirAll(*out, 0o755))
	must(w.WriteFile(filepath.Join(*out, "trace.ndjson")))
	js, _ := json.MarshalIndent(st, "", " ")
	must(os.WriteFile(filepath.Join(*out, "stats.json"), js, 0o644))
	fmt.Printf("ancestor: %d instances, %d probes (max %d per instance), %d distinct probe sequences, %d mismatches, %d errors, %d panics\n",
		st.Instances, st.Probes, st.MaxProbes, st.DistinctSeqs, st.Mismatches, st.Errors, st.Panics)
}

// attempt runs the real findCommonAncestor once over a fresh pipe.
func attempt(local, remote *side, h, a int, seq byte, try byte) (anc uint32, err error, panicked any, probes []*probe, hungUp bool) {
	le, re := pipe.New()
	var mu sync.Mutex
	le.Tap = func(code uint64, payload []byte) { // local -> remote
		if code != proto.MsgGetBlockIDByNumber {
			return
		}
		env, err := pipe.ParseEnvelope(payload)
		if err != nil || env.IsResult {
			return
		}
		var n uint32
		if rlp.DecodeBytes(env.Payload, &n) != nil {
			return
		}
		mu.Lock()
		probes = append(probes, &probe{callID: env.CallID, n: n})
		mu.Unlock()
	}
	re.Tap = func(code uint64, payload []byte) { // remote -> local
		if code != proto.MsgGetBlockIDByNumber {
			return
		}
		env, err := pipe.ParseEnvelope(payload)
		if err != nil || !env.IsResult {
			return
		}
		var id thor.Bytes32
		if rlp.DecodeBytes(env.Payload, &id) != nil {
			return
		}
		mu.Lock()
		for _, p := range probes {
			if p.callID == env.CallID && !p.got {
				p.id, p.got = id, true
			}
		}
		mu.Unlock()
	}
	served := make(chan error, 1)
	var closedByUs atomic.Bool
	go func() {
		rerr := remote.comm.Protocols()[0].Run(p2p.NewPeer(discover.NodeID{0x10, seq, byte(h), byte(a), try}, "local", nil), re)
		// the protocol handler returned: the p2p server drops the connection
		if !closedByUs.Load() {
			hungUp = true
		}
		re.Close()
		served <- rerr
	}()

	// no deadline of the harness inside the call (Communicator.Sync has none either). Hang rule: hangPolls consecutive polls
	// (>= 15 s of them) without a single new probe while the call has not returned; the absolute cap is harness trouble.
	ctx, cancel := context.WithCancel(context.Background())
	type out struct {
		anc uint32
		err error
		pan any
	}
	done := make(chan out, 1)
	go func() {
		var o out
		func() {
			defer func() { o.pan = recover() }()
			o.anc, o.err = comm.VerifFindCommonAncestor(ctx, local.repo, le, uint32(h))
		}()
		done <- o
	}()
	const hangPolls = 300
	idle, lastProbes := 0, -1
	capAt := time.Now().Add(240 * time.Second)
wait:
	for {
		select {
		case o := <-done:
			anc, err, panicked = o.anc, o.err, o.pan
			break wait
		case <-time.After(50 * time.Millisecond):
		}
		mu.Lock()
		np := len(probes)
		mu.Unlock()
		if np != lastProbes {
			lastProbes, idle = np, 0
		} else {
			idle++
		}
		if idle >= hangPolls {
			err = fmt.Errorf("findCommonAncestor did not return: no probe for %d polls after %d probes", hangPolls, np)
			break wait
		}
		if time.Now().After(capAt) {
			fail("ancestor instance H=%d A=%d neither finished nor came to rest within the absolute cap", h, a)
		}
	}
	cancel()
	closedByUs.Store(true)
	le.Close()
	<-served
	mu.Lock()
	defer mu.Unlock()
	return
}

func runInstance(w *trace.Writer, st *stats, seqs map[string]bool, local, remote *side, h, a, rlen int, rname string, seq byte) {
	// the remote is an honest real Communicator: an error is an observation on the real code. One retry rules out load.
	anc, err, panicked, probes, hungUp := attempt(local, remote, h, a, seq, 0)
	attempts := 1
	if err != nil && panicked == nil {
		anc, err, panicked, probes, hungUp = attempt(local, remote, h, a, seq, 1)
		attempts = 2
	}
	var mu sync.Mutex

	w.Emit(trace.Ev{"e": "AStart", "H": h, "A": a, "R": rlen})
	bestChain := local.repo.NewBestChain()
	key := fmt.Sprintf("%d:", h)
	mu.Lock()
	for _, p := range probes {
		lid, lerr := bestChain.GetBlockID(p.n)
		ov := lerr == nil && p.got && lid == p.id
		w.Emit(trace.Ev{"e": "Probe", "n": p.n, "ov": ov})
		key += fmt.Sprintf("%d,", p.n)
	}
	np := len(probes)
	mu.Unlock()
	seqs[key] = true
	errs := ""
	if err != nil {
		errs = err.Error()
		st.Errors++
	}
	if panicked != nil {
		errs = fmt.Sprintf("panic: %v", panicked)
		st.Panics++
	}
	w.Emit(trace.Ev{"e": "AResult", "anc": anc, "err": errs, "np": np, "attempts": attempts, "hungUp": hungUp})

	st.Instances++
	st.Probes += np
	if np > st.MaxProbes {
		st.MaxProbes = np
	}
	st.ByRemote[rname]++
	if a < h && a > 0 {
		st.Nontrivial++
	}
	if (int(anc) != a || errs != "") && st.FirstBad == nil {
		st.Mismatches++
		st.FirstBad = map[string]any{"H": h, "A": a, "R": rlen, "got": anc, "err": errs}
	} else if int(anc) != a || errs != "" {
		st.Mismatches++
	}
}
