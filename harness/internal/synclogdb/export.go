// Package synclogdb wraps thor's log-db resynchronisation. cmd/thor/sync_logdb.go is `package main` and cannot be
// imported, so the runner copies it from /repo's CURRENT tree into this directory at build time with the package
// clause rewritten (sync_logdb_copied.go, not under version control) - edits to it in thor are picked up.
package synclogdb

import (
	"context"

	"github.com/vechain/thor/v2/chain"
	"github.com/vechain/thor/v2/logdb"
)

// Sync runs thor's syncLogDB.
func Sync(ctx context.Context, repo *chain.Repository, ldb *logdb.LogDB, verify bool) error {
	return syncLogDB(ctx, repo, ldb, verify)
}
