// Package sim is the multi-node simulator of DESIGN 3.6: N real stacks (muxdb over kvrec, chain.Repository,
// state.Stater, logdb, bft.Engine, consensus, packer, node.Node) in one process. Delivery and proposal are explicit
// simulator actions, so all events are totally ordered by the (single-threaded) simulator.
package sim

import (
	"context"
	"crypto/ecdsa"
	"errors"
	"fmt"
	"math"
	"math/big"
	"os"
	"sync"
	"sync/atomic"
	"time"

	"github.com/ethereum/go-ethereum/event"

	"github.com/vechain/thor/v2/bft"
	"github.com/vechain/thor/v2/block"
	"github.com/vechain/thor/v2/chain"
	"github.com/vechain/thor/v2/cmd/thor/node"
	"github.com/vechain/thor/v2/comm"
	"github.com/vechain/thor/v2/consensus"
	"github.com/vechain/thor/v2/genesis"
	"github.com/vechain/thor/v2/logdb"
	"github.com/vechain/thor/v2/muxdb"
	"github.com/vechain/thor/v2/packer"
	"github.com/vechain/thor/v2/state"
	"github.com/vechain/thor/v2/thor"
	"github.com/vechain/thor/v2/tx"
	"github.com/vechain/thor/v2/txpool"

	"verifharness/internal/kvrec"
)

// Options of a simulated network.
type Options struct {
	Validators  int    // number of authority nodes / genesis stakers
	Nodes       int    // number of simulated full stacks (<= Validators); node i runs validator i
	PoS         bool   // HAYABUSA at genesis with genesis stakers (else PoA, HAYABUSA never)
	EpochLength uint32 // thor.Config.EpochLength
	MBP         uint64 // MaxBlockProposers (0 => Validators)
	SkipLogs    bool
	ExtraAccts  int    // additional funded dev accounts (indices Validators..)
	Galactica   uint32 // GALACTICA fork height (0 = from genesis, math.MaxUint32 = never); default 0
	NoGalactica bool
	LaunchTime  uint64 // genesis timestamp; 0 = DefaultLaunch
	// StakingPeriod, if > 0, is used for the low/medium/high staking periods (blocks); default = thor's defaults.
	StakingPeriod uint32
	// RealRun starts the node through its real Node.Run (start-up initialisation, housekeeping, tx-stash and packer
	// loops; the packer loop stays parked because the mock communicator never reports "synced") instead of the
	// VerifInit hook. Blocks are still fed through VerifProcessBlock / VerifDoPack.
	RealRun bool
	// DelegatorAcct, if > 0, makes dev account number DelegatorAcct-1 the "delegator contract" of the staker
	// (params key delegator-contract-address): that account may call staker.addDelegation.
	DelegatorAcct int
	// Finality puts the FINALITY fork at this height (0 = from genesis).
	Finality uint32
	// HayabusaTP is thor.Config.HayabusaTP (transition period in blocks); 0 keeps the default of this simulator (0).
	HayabusaTP uint32
	// Hayabusa, with PoS, puts the HAYABUSA fork at this height instead of 0.
	Hayabusa uint32
	// NoGenesisStakers, with PoS, leaves genesis.Stakers empty: the chain starts in PoA with the authorities and
	// validators have to queue through real addValidation transactions; the real SyncPOS transition fires once enough
	// are queued.
	NoGenesisStakers bool
}

// DefaultLaunch is a fixed genesis time far enough in the past that no generated block is a "future block".
const DefaultLaunch = uint64(1_700_000_000)

// Net is the simulated network.
type Net struct {
	Opt    Options
	FC     *thor.ForkConfig
	Gen    *genesis.Genesis
	B0     *block.Block
	Devs   []genesis.DevAccount
	Nodes  []*Node
	God    *Node // omniscient scratch stack used to mint adversarial (but valid) blocks; imports everything
	Launch uint64
	tmp    string
}

// Node is one real stack.
type Node struct {
	Net    *Net
	Idx    int
	Acc    genesis.DevAccount
	KV     *kvrec.Engine
	DB     *muxdb.MuxDB
	Repo   *chain.Repository
	Stater *state.Stater
	LogDB  *logdb.LogDB
	BFT    *bft.Engine
	Cons   *consensus.Consensus
	Packer *packer.Packer
	Node   *node.Node
	Comm   *Comm
	Pool   *Pool
	stop   func() // RealRun: cancels Node.Run and waits for it
}

// Comm is the mock communicator; it captures broadcast blocks.
type Comm struct {
	Out      []*block.Block
	synced   chan struct{}
	syncOnce sync.Once
	started  chan struct{} // closed when Node.Run has started its loops (Sync is called from one of them)
}

func (c *Comm) Sync(ctx context.Context, handler comm.HandleBlockStream) {
	c.syncOnce.Do(func() { close(c.started) })
}
func (c *Comm) SubscribeBlock(ch chan *comm.NewBlockEvent) event.Subscription {
	return event.NewSubscription(func(quit <-chan struct{}) error { <-quit; return nil })
}
func (c *Comm) BroadcastBlock(blk *block.Block) { c.Out = append(c.Out, blk) }
func (c *Comm) PeerCount() int                  { return 1 }
func (c *Comm) Synced() <-chan struct{}         { return c.synced }

// Pool is a trivial tx pool: a list of txs offered as executables.
type Pool struct {
	Txs     tx.Transactions
	Removed []thor.Bytes32
	Added   tx.Transactions
}

func (p *Pool) Get(id thor.Bytes32) *tx.Transaction { return nil }
func (p *Pool) Add(t *tx.Transaction) error         { p.Added = append(p.Added, t); return nil }
func (p *Pool) AddLocal(t *tx.Transaction) error    { return nil }
func (p *Pool) StrictlyAdd(t *tx.Transaction) error { return nil }
func (p *Pool) Remove(h thor.Bytes32, id thor.Bytes32) bool {
	p.Removed = append(p.Removed, id)
	return true
}
func (p *Pool) Dump() tx.Transactions { return nil }
func (p *Pool) Len() int              { return len(p.Txs) }
func (p *Pool) SubscribeTxEvent(ch chan *txpool.TxEvent) event.Subscription {
	return event.NewSubscription(func(quit <-chan struct{}) error { <-quit; return nil })
}
func (p *Pool) Executables() tx.Transactions { return p.Txs }
func (p *Pool) Fill(txs tx.Transactions)     {}
func (p *Pool) Close()                       {}

func must(err error) {
	if err != nil {
		panic(err)
	}
}

// BigBalance is the VET/VTHO every dev account gets at genesis.
var BigBalance, _ = new(big.Int).SetString("1000000000000000000000000000", 10)

// NewNet builds the genesis and the stacks.
func NewNet(o Options) *Net {
	if o.MBP == 0 {
		o.MBP = uint64(o.Validators)
	}
	if o.Nodes == 0 {
		o.Nodes = o.Validators
	}
	if o.EpochLength == 0 {
		o.EpochLength = 3
	}
	fc := &thor.ForkConfig{} // every fork at 0
	fc.FINALITY = o.Finality
	if !o.PoS {
		fc.HAYABUSA = math.MaxUint32
	} else if o.Hayabusa != 0 {
		fc.HAYABUSA = o.Hayabusa
	}
	if o.NoGalactica {
		fc.GALACTICA = math.MaxUint32
		fc.HAYABUSA = math.MaxUint32
	} else if o.Galactica != 0 {
		fc.GALACTICA = o.Galactica
	}
	devs := genesis.DevAccounts()
	var accs []genesis.Account
	var auths []genesis.Authority
	for i := 0; i < o.Validators+o.ExtraAccts && i < len(devs); i++ {
		accs = append(accs, genesis.Account{Address: devs[i].Address, Balance: (*genesis.HexOrDecimal256)(BigBalance), Energy: (*genesis.HexOrDecimal256)(BigBalance)})
	}
	for i := 0; i < o.Validators; i++ {
		auths = append(auths, genesis.Authority{MasterAddress: devs[i].Address, EndorsorAddress: devs[i].Address, Identity: thor.BytesToBytes32([]byte("m"))})
	}
	var stakers []genesis.Validator
	if o.PoS && !o.NoGenesisStakers {
		for i := 0; i < o.Validators; i++ {
			stakers = append(stakers, genesis.Validator{Master: devs[i].Address, Endorser: devs[i].Address})
		}
	}
	tp := o.HayabusaTP
	mbp := o.MBP
	launch := o.LaunchTime
	if launch == 0 {
		launch = DefaultLaunch // constant: block ids are reproducible from the seed
	}
	g, err := genesis.NewCustomNet(&genesis.CustomGenesis{
		LaunchTime: launch,
		GasLimit:   40_000_000,
		Accounts:   accs,
		Authority:  auths,
		Stakers:    stakers,
		Params:     genesis.Params{ExecutorAddress: &devs[0].Address, MaxBlockProposers: &mbp, DelegatorContract: delegator(o, devs)},
		ForkConfig: fc,
		Config:     netConfig(o, &tp),
	})
	must(err)
	tmp, err := os.MkdirTemp("", "verif-sim-")
	must(err)
	n := &Net{Opt: o, FC: fc, Gen: g, Devs: devs, Launch: launch, tmp: tmp}
	for i := 0; i < o.Nodes; i++ {
		n.Nodes = append(n.Nodes, n.openNode(i, kvrec.New(), true))
	}
	n.God = n.openNode(-1, kvrec.New(), true)
	n.B0 = n.God.Repo.GenesisBlock()
	return n
}

func delegator(o Options, devs []genesis.DevAccount) *thor.Address {
	if o.DelegatorAcct <= 0 {
		return nil
	}
	return &devs[o.DelegatorAcct-1].Address
}

// netConfig: thor.SetConfig ignores zero fields and is process-global, so every net sets every field it may have
// changed before, explicitly.
func netConfig(o Options, tp *uint32) *thor.Config {
	c := &thor.Config{EpochLength: o.EpochLength, HayabusaTP: tp,
		LowStakingPeriod: 8640 * 7, MediumStakingPeriod: 8640 * 15, HighStakingPeriod: 8640 * 30, CooldownPeriod: 8640}
	if o.StakingPeriod > 0 {
		c.LowStakingPeriod, c.MediumStakingPeriod, c.HighStakingPeriod = o.StakingPeriod, o.StakingPeriod, o.StakingPeriod
		c.CooldownPeriod = o.EpochLength
	}
	return c
}

// Close removes temporary directories.
func (n *Net) Close() {
	for _, x := range n.Nodes {
		x.Close()
	}
	n.God.Close()
	os.RemoveAll(n.tmp)
}

// openNode builds a full stack over the given engine. fresh = build genesis state into it.
func (n *Net) openNode(idx int, e *kvrec.Engine, fresh bool) *Node {
	nd, err := n.OpenNodeErr(idx, e, fresh)
	must(err)
	return nd
}

// OpenNodeErr is openNode returning errors (used by crash-cut enumeration where opening may legitimately fail).
func (n *Net) OpenNodeErr(idx int, e *kvrec.Engine, fresh bool) (nd *Node, err error) {
	acc := n.Devs[0]
	if idx >= 0 {
		acc = n.Devs[idx]
	}
	db := muxdb.NewWithEngine(e, muxdb.VerifOptions{})
	stater := state.NewStater(db)
	var b0 *block.Block
	if fresh || n.B0 == nil {
		rec := e.Len()
		_ = rec
		e.SetNote("genesis")
		b0, _, _, err = n.Gen.Build(stater)
		if err != nil {
			return nil, err
		}
	} else {
		b0 = n.B0
	}
	repo, err := chain.NewRepository(db, b0)
	if err != nil {
		return nil, fmt.Errorf("open repository: %w", err)
	}
	ldb, err := logdb.NewMem()
	if err != nil {
		return nil, err
	}
	eng, err := bft.NewEngine(repo, db, n.FC, acc.Address)
	if err != nil {
		return nil, fmt.Errorf("open bft engine: %w", err)
	}
	cons := consensus.New(repo, stater, n.FC)
	pk := packer.New(repo, stater, acc.Address, &acc.Address, n.FC, 0)
	cm := &Comm{synced: make(chan struct{}), started: make(chan struct{})}
	pool := &Pool{}
	nn := node.New(&node.Master{PrivateKey: acc.PrivateKey, Beneficiary: &acc.Address}, repo, eng, stater, ldb, pool,
		n.stashDir(), cm, n.FC, node.Options{SkipLogs: n.Opt.SkipLogs}, cons, pk)
	stop, err := n.start(nn, cm)
	if err != nil {
		return nil, err
	}
	return &Node{Net: n, Idx: idx, Acc: acc, KV: e, DB: db, Repo: repo, Stater: stater, LogDB: ldb, BFT: eng, Cons: cons,
		Packer: pk, Node: nn, Comm: cm, Pool: pool, stop: stop}, nil
}

var stashSeq atomic.Int64

// stashDir gives every node instance its own tx-stash directory (Node.Run opens a leveldb there).
func (n *Net) stashDir() string {
	return fmt.Sprintf("%s/stash-%d", n.tmp, stashSeq.Add(1))
}

// start brings the node up: through the real Node.Run when Options.RealRun is set (waiting until its loops run, so
// that Run's own start-up initialisation has happened), else through the VerifInit hook. The returned function
// stops it again.
func (n *Net) start(nn *node.Node, cm *Comm) (func(), error) {
	if !n.Opt.RealRun {
		if err := nn.VerifInit(); err != nil {
			return nil, err
		}
		return nn.VerifClose, nil
	}
	ctx, cancel := context.WithCancel(context.Background())
	done := make(chan error, 1)
	go func() { done <- nn.Run(ctx) }()
	select {
	case <-cm.started:
	case err := <-done:
		cancel()
		return nil, fmt.Errorf("Node.Run returned at start-up: %v", err)
	case <-time.After(5 * time.Minute):
		// wall-clock trouble of the machine (load, disk), not an observation on the code: never a verdict
		fmt.Println("HARNESS-ERROR Node.Run did not start its loops within 5 minutes")
		os.Exit(3)
	}
	return func() { cancel(); <-done }, nil
}

// Close stops the node (its log worker, and Node.Run when RealRun).
func (x *Node) Close() {
	if x.stop != nil {
		x.stop()
		x.stop = nil
	}
}

// Restart drops every in-memory object of node i and rebuilds the stack over the same store.
func (n *Net) Restart(i int) *Node {
	old := n.Nodes[i]
	old.Close()
	nd := n.openNode(i, old.KV, false)
	n.Nodes[i] = nd
	return nd
}

// Best is the node's best block summary.
func (x *Node) Best() *chain.BlockSummary { return x.Repo.BestBlockSummary() }

// ErrNotScheduled is returned when the packer cannot schedule.
var ErrNotScheduled = errors.New("not scheduled")

// Propose lets the node produce a block on its own best through the real doPack path (ShouldVote, Select, commitBlock),
// at the proposer's earliest own slot not before minTime (0 = parent time + interval). Returns the broadcast block.
func (x *Node) Propose(minTime uint64) (*block.Block, error) {
	best := x.Repo.BestBlockSummary()
	if minTime == 0 {
		minTime = best.Header.Timestamp() + thor.BlockInterval()
	}
	flow, err := x.Packer.Schedule(best, minTime)
	if err != nil {
		return nil, fmt.Errorf("%w: %v", ErrNotScheduled, err)
	}
	before := len(x.Comm.Out)
	if err := x.Node.VerifDoPack(flow); err != nil {
		return nil, err
	}
	if len(x.Comm.Out) != before+1 {
		return nil, errors.New("doPack did not broadcast a block")
	}
	return x.Comm.Out[len(x.Comm.Out)-1], nil
}

// ProposeOn is Propose on an explicit (stored) parent block, at the proposer's earliest own slot not before minTime.
func (x *Node) ProposeOn(parent *chain.BlockSummary, minTime uint64) (*block.Block, error) {
	flow, err := x.Packer.Schedule(parent, minTime)
	if err != nil {
		return nil, fmt.Errorf("%w: %v", ErrNotScheduled, err)
	}
	return x.Pack(flow)
}

// Schedule prepares a packing flow on the node's current best, as packerLoop does, without packing yet.
func (x *Node) Schedule(minTime uint64) (*packer.Flow, error) {
	best := x.Repo.BestBlockSummary()
	if minTime == 0 {
		minTime = best.Header.Timestamp() + thor.BlockInterval()
	}
	flow, err := x.Packer.Schedule(best, minTime)
	if err != nil {
		return nil, fmt.Errorf("%w: %v", ErrNotScheduled, err)
	}
	return flow, nil
}

// Pack packs on a previously scheduled flow through the real doPack (the best block may have moved meanwhile:
// packerLoop checks for a new best only once per second).
func (x *Node) Pack(flow *packer.Flow) (*block.Block, error) {
	before := len(x.Comm.Out)
	if err := x.Node.VerifDoPack(flow); err != nil {
		return nil, err
	}
	if len(x.Comm.Out) != before+1 {
		return nil, errors.New("doPack did not broadcast a block")
	}
	return x.Comm.Out[len(x.Comm.Out)-1], nil
}

// Deliver imports a received block through the real processBlock. Returns the error class (node.VerifErrClass).
func (x *Node) Deliver(blk *block.Block) (string, error) {
	_, class, err := x.Node.VerifProcessBlock(blk)
	return class, err
}

// Mint builds a *valid* block by validator `who` on top of parent (which God must know), with the given COM bit and
// txs, at the validator's earliest own slot >= minTime. God imports the block itself (bypassing BFT rules) so that
// later blocks can be minted on top of it. Used for adversarial and scripted scenarios.
func (n *Net) Mint(parentID thor.Bytes32, who int, com bool, minTime uint64, txs ...*tx.Transaction) (*block.Block, error) {
	g := n.God
	parent, err := g.Repo.GetBlockSummary(parentID)
	if err != nil {
		return nil, fmt.Errorf("god does not know parent: %w", err)
	}
	acc := n.Devs[who]
	p := packer.New(g.Repo, g.Stater, acc.Address, &acc.Address, n.FC, 0)
	if minTime == 0 {
		minTime = parent.Header.Timestamp() + thor.BlockInterval()
	}
	flow, err := p.Schedule(parent, minTime)
	if err != nil {
		return nil, fmt.Errorf("%w: %v", ErrNotScheduled, err)
	}
	for _, t := range txs {
		if err := flow.Adopt(t); err != nil {
			return nil, fmt.Errorf("adopt: %w", err)
		}
	}
	conflicts, err := g.Repo.ScanConflicts(parent.Header.Number() + 1)
	if err != nil {
		return nil, err
	}
	blk, stage, receipts, err := flow.Pack(acc.PrivateKey, conflicts, com)
	if err != nil {
		return nil, err
	}
	if _, err := g.Repo.GetBlockSummary(blk.Header().ID()); err == nil {
		// the very same block was minted before (same parent, signer, slot, bit): storing it again would commit
		// a second state under a version that another block at this height may own
		return blk, nil
	}
	if _, err := stage.Commit(); err != nil {
		return nil, err
	}
	asBest := blk.Header().BetterThan(g.Repo.BestBlockSummary().Header)
	if err := g.Repo.AddBlock(blk, receipts, conflicts, asBest); err != nil {
		return nil, err
	}
	return blk, nil
}

// GodLearn makes God store a block produced elsewhere (an honest node), so that Mint can build on it.
func (n *Net) GodLearn(blk *block.Block) error {
	g := n.God
	if _, err := g.Repo.GetBlockSummary(blk.Header().ID()); err == nil {
		return nil
	}
	parent, err := g.Repo.GetBlockSummary(blk.Header().ParentID())
	if err != nil {
		return fmt.Errorf("god: parent missing: %w", err)
	}
	conflicts, err := g.Repo.ScanConflicts(blk.Header().Number())
	if err != nil {
		return err
	}
	stage, receipts, err := g.Cons.Process(parent, blk, uint64(time.Now().Unix()), conflicts)
	if err != nil {
		// diagnose: does a cache-less validator over the same store agree?
		_, _, err2 := consensus.New(g.Repo, g.Stater, n.FC).Process(parent, blk, uint64(time.Now().Unix()), conflicts)
		return fmt.Errorf("god: consensus: %w (fresh validator: %v) parent=%d/%x blk=%d signer=%d", err, err2,
			parent.Header.Number(), parent.Header.ID().Bytes()[28:], blk.Header().Number(), n.SignerOf(blk.Header()))
	}
	if _, err := stage.Commit(); err != nil {
		return err
	}
	asBest := blk.Header().BetterThan(g.Repo.BestBlockSummary().Header)
	return g.Repo.AddBlock(blk, receipts, conflicts, asBest)
}

// SignerOf returns the dev-account index of a block's signer (-1 if unknown).
func (n *Net) SignerOf(h *block.Header) int {
	s, err := h.Signer()
	if err != nil {
		return -1
	}
	for i, d := range n.Devs {
		if d.Address == s {
			return i
		}
	}
	return -1
}

// Key returns the private key of dev account i.
func (n *Net) Key(i int) *ecdsa.PrivateKey { return n.Devs[i].PrivateKey }

// OpenStack builds a full stack over an existing store and log db, following the start-up order of cmd/thor/main.go:
// genesis build, repository, genesis logs, log-db resynchronisation (thor's own syncLogDB), bft engine, node.
// Logs are enabled for this node regardless of Options.SkipLogs.
func (n *Net) OpenStack(idx int, e *kvrec.Engine, ldb *logdb.LogDB, syncLogs func(*chain.Repository, *logdb.LogDB) error) (nd *Node, err error) {
	defer func() {
		if r := recover(); r != nil {
			if _, ok := r.(kvrec.CrashSentinel); ok {
				panic(r)
			}
			err = fmt.Errorf("panic while opening the stack: %v", r)
		}
	}()
	acc := n.Devs[0]
	if idx >= 0 {
		acc = n.Devs[idx]
	}
	db := muxdb.NewWithEngine(e, muxdb.VerifOptions{})
	stater := state.NewStater(db)
	e.SetNote("genesis")
	b0, gEvents, gTransfers, err := n.Gen.Build(stater)
	if err != nil {
		return nil, err
	}
	repo, err := chain.NewRepository(db, b0)
	if err != nil {
		return nil, fmt.Errorf("open repository: %w", err)
	}
	w := ldb.NewWriter()
	if err := w.Write(b0, tx.Receipts{{Outputs: []*tx.Output{{Events: gEvents, Transfers: gTransfers}}}}); err != nil {
		return nil, err
	}
	if err := w.Commit(); err != nil {
		return nil, err
	}
	if syncLogs != nil {
		if err := syncLogs(repo, ldb); err != nil {
			return nil, fmt.Errorf("sync log db: %w", err)
		}
	}
	eng, err := bft.NewEngine(repo, db, n.FC, acc.Address)
	if err != nil {
		return nil, fmt.Errorf("open bft engine: %w", err)
	}
	cons := consensus.New(repo, stater, n.FC)
	pk := packer.New(repo, stater, acc.Address, &acc.Address, n.FC, 0)
	cm := &Comm{synced: make(chan struct{}), started: make(chan struct{})}
	pool := &Pool{}
	nn := node.New(&node.Master{PrivateKey: acc.PrivateKey, Beneficiary: &acc.Address}, repo, eng, stater, ldb, pool,
		n.stashDir(), cm, n.FC, node.Options{SkipLogs: false}, cons, pk)
	stop, err := n.start(nn, cm)
	if err != nil {
		return nil, err
	}
	return &Node{Net: n, Idx: idx, Acc: acc, KV: e, DB: db, Repo: repo, Stater: stater, LogDB: ldb, BFT: eng, Cons: cons,
		Packer: pk, Node: nn, Comm: cm, Pool: pool, stop: stop}, nil
}
