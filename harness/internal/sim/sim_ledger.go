// sim_ledger.go - additions for the exec/ledger drivers (C07, C08). New file; sim.go is untouched.
//
//   - NewNetX: NewNet with extra genesis knobs (HAYABUSA height and transition period, gas limit, extra genesis
//     accounts with code/storage/energy, so that test contracts exist from block 0).
//   - MintLoose: like Mint, but a tx the packer refuses is skipped and reported instead of failing the block.
//   - WalkAccounts / WalkStorage: iterate every leaf of the account trie / of one storage trie of a committed state.
package sim

import (
	"fmt"
	"math"
	"os"

	"github.com/ethereum/go-ethereum/rlp"

	"github.com/vechain/thor/v2/block"
	"github.com/vechain/thor/v2/genesis"
	"github.com/vechain/thor/v2/muxdb"
	"github.com/vechain/thor/v2/packer"
	"github.com/vechain/thor/v2/state"
	"github.com/vechain/thor/v2/thor"
	"github.com/vechain/thor/v2/trie"
	"github.com/vechain/thor/v2/tx"

	"verifharness/internal/kvrec"
)

// Extra are genesis knobs NewNet does not have.
type Extra struct {
	Hayabusa   *uint32           // HAYABUSA fork height (nil: 0 when Options.PoS, never otherwise)
	HayabusaTP *uint32           // transition period in blocks (nil: 0)
	GasLimit   uint64            // genesis gas limit (0: 40_000_000)
	Accounts   []genesis.Account // extra genesis accounts (contracts with code / storage / energy)
	NoStakers  bool              // with Options.PoS: do not put genesis stakers (validators stake by transactions)
	Periods    [3]uint32         // low / medium / high staking period in blocks (0: thor's default)
	Cooldown   uint32            // cooldown period in blocks (0: default)
	EvictAfter uint32            // validator eviction threshold in blocks (0: default)
	EvictEvery uint32            // eviction check interval in blocks (0: default)
}

// NewNetX is NewNet plus Extra.
func NewNetX(o Options, x Extra) *Net {
	if o.MBP == 0 {
		o.MBP = uint64(o.Validators)
	}
	if o.Nodes == 0 {
		o.Nodes = o.Validators
	}
	if o.EpochLength == 0 {
		o.EpochLength = 3
	}
	fc := &thor.ForkConfig{}
	if !o.PoS {
		fc.HAYABUSA = math.MaxUint32
	}
	if o.NoGalactica {
		fc.GALACTICA = math.MaxUint32
		fc.HAYABUSA = math.MaxUint32
	} else if o.Galactica != 0 {
		fc.GALACTICA = o.Galactica
	}
	if x.Hayabusa != nil {
		fc.HAYABUSA = *x.Hayabusa
	}
	devs := genesis.DevAccounts()
	var accs []genesis.Account
	var auths []genesis.Authority
	for i := 0; i < o.Validators+o.ExtraAccts && i < len(devs); i++ {
		accs = append(accs, genesis.Account{Address: devs[i].Address, Balance: (*genesis.HexOrDecimal256)(BigBalance), Energy: (*genesis.HexOrDecimal256)(BigBalance)})
	}
	accs = append(accs, x.Accounts...)
	for i := 0; i < o.Validators; i++ {
		auths = append(auths, genesis.Authority{MasterAddress: devs[i].Address, EndorsorAddress: devs[i].Address, Identity: thor.BytesToBytes32([]byte("m"))})
	}
	var stakers []genesis.Validator
	if o.PoS && !x.NoStakers && fc.HAYABUSA == 0 {
		for i := 0; i < o.Validators; i++ {
			stakers = append(stakers, genesis.Validator{Master: devs[i].Address, Endorser: devs[i].Address})
		}
	}
	tp := uint32(0)
	if x.HayabusaTP != nil {
		tp = *x.HayabusaTP
	}
	mbp := o.MBP
	launch := o.LaunchTime
	if launch == 0 {
		launch = DefaultLaunch
	}
	gl := x.GasLimit
	if gl == 0 {
		gl = 40_000_000
	}
	g, err := genesis.NewCustomNet(&genesis.CustomGenesis{
		LaunchTime: launch,
		GasLimit:   gl,
		Accounts:   accs,
		Authority:  auths,
		Stakers:    stakers,
		Params:     genesis.Params{ExecutorAddress: &devs[0].Address, MaxBlockProposers: &mbp},
		ForkConfig: fc,
		Config: &thor.Config{EpochLength: o.EpochLength, HayabusaTP: &tp, LowStakingPeriod: x.Periods[0],
			MediumStakingPeriod: x.Periods[1], HighStakingPeriod: x.Periods[2], CooldownPeriod: x.Cooldown,
			ValidatorEvictionThreshold: x.EvictAfter, EvictionCheckInterval: x.EvictEvery},
	})
	must(err)
	tmp, err := os.MkdirTemp("", "verif-sim-")
	must(err)
	n := &Net{Opt: o, FC: fc, Gen: g, Devs: devs, Launch: launch, tmp: tmp}
	for i := 0; i < o.Nodes; i++ {
		n.Nodes = append(n.Nodes, n.openNode(i, kvrec.New(), true))
	}
	n.God = n.openNode(-1, kvrec.New(), true)
	n.B0 = n.God.Repo.GenesisBlock()
	return n
}

// Refused is a tx the packer did not adopt.
type Refused struct {
	Index int
	Tx    *tx.Transaction
	Err   error
}

// MintLoose is Mint, except that transactions refused by flow.Adopt are skipped and returned.
// It also returns the receipts of the adopted transactions.
func (n *Net) MintLoose(parentID thor.Bytes32, who int, com bool, minTime uint64, txs ...*tx.Transaction) (*block.Block, tx.Receipts, []Refused, error) {
	return n.MintLooseTo(parentID, who, nil, com, minTime, txs...)
}

// MintLooseTo is MintLoose with the packer's beneficiary option set to an arbitrary address (nil: the validator itself).
func (n *Net) MintLooseTo(parentID thor.Bytes32, who int, beneficiary *thor.Address, com bool, minTime uint64, txs ...*tx.Transaction) (*block.Block, tx.Receipts, []Refused, error) {
	return n.MintLooseOpt(parentID, who, MintOpt{Beneficiary: beneficiary}, com, minTime, txs...)
}

// MintOpt are the packer options of one minted block.
type MintOpt struct {
	Beneficiary    *thor.Address // nil: the validator itself
	TargetGasLimit uint64        // 0: keep the parent's gas limit
}

// MintLooseOpt is MintLoose with packer options.
func (n *Net) MintLooseOpt(parentID thor.Bytes32, who int, opt MintOpt, com bool, minTime uint64, txs ...*tx.Transaction) (*block.Block, tx.Receipts, []Refused, error) {
	beneficiary := opt.Beneficiary
	g := n.God
	parent, err := g.Repo.GetBlockSummary(parentID)
	if err != nil {
		return nil, nil, nil, fmt.Errorf("god does not know parent: %w", err)
	}
	acc := n.Devs[who]
	if beneficiary == nil {
		beneficiary = &acc.Address
	}
	p := packer.New(g.Repo, g.Stater, acc.Address, beneficiary, n.FC, 0)
	if opt.TargetGasLimit != 0 {
		p.SetTargetGasLimit(opt.TargetGasLimit)
	}
	if minTime == 0 {
		minTime = parent.Header.Timestamp() + thor.BlockInterval()
	}
	flow, err := p.Schedule(parent, minTime)
	if err != nil {
		return nil, nil, nil, fmt.Errorf("%w: %v", ErrNotScheduled, err)
	}
	var refused []Refused
	for i, t := range txs {
		if err := flow.Adopt(t); err != nil {
			refused = append(refused, Refused{i, t, err})
		}
	}
	conflicts, err := g.Repo.ScanConflicts(parent.Header.Number() + 1)
	if err != nil {
		return nil, nil, nil, err
	}
	blk, stage, receipts, err := flow.Pack(acc.PrivateKey, conflicts, com)
	if err != nil {
		return nil, nil, nil, err
	}
	if _, err := g.Repo.GetBlockSummary(blk.Header().ID()); err == nil {
		return blk, receipts, refused, nil
	}
	if _, err := stage.Commit(); err != nil {
		return nil, nil, nil, err
	}
	asBest := blk.Header().BetterThan(g.Repo.BestBlockSummary().Header)
	if err := g.Repo.AddBlock(blk, receipts, conflicts, asBest); err != nil {
		return nil, nil, nil, err
	}
	return blk, receipts, refused, nil
}

// Leaf is one account-trie leaf of a committed state.
type Leaf struct {
	Key  thor.Bytes32 // secure key = blake2b(address)
	Acc  state.Account
	Meta state.AccountMetadata
}

// WalkAccounts calls fn for every leaf of the account trie at root (ascending key order).
func WalkAccounts(db *muxdb.MuxDB, root trie.Root, fn func(l *Leaf) error) error {
	t := db.NewTrie(muxdb.AccountTrieName, root)
	it := trie.NewIterator(t.NodeIterator(nil, 0))
	for it.Next() {
		var l Leaf
		l.Key = thor.BytesToBytes32(it.Key)
		if err := rlp.DecodeBytes(it.Value, &l.Acc); err != nil {
			return fmt.Errorf("account leaf %x: %w", it.Key, err)
		}
		if len(it.Meta) > 0 {
			if err := rlp.DecodeBytes(it.Meta, &l.Meta); err != nil {
				return fmt.Errorf("account meta %x: %w", it.Key, err)
			}
		}
		if err := fn(&l); err != nil {
			return err
		}
	}
	return it.Err
}

// WalkStorage calls fn(hashedKey, preimage, rawValue) for every leaf of the storage trie of the account leaf.
func WalkStorage(db *muxdb.MuxDB, l *Leaf, fn func(hkey thor.Bytes32, preimage []byte, raw []byte) error) error {
	if len(l.Acc.StorageRoot) == 0 {
		return nil
	}
	t := db.NewTrie(state.StorageTrieName(l.Meta.StorageID), trie.Root{
		Hash: thor.BytesToBytes32(l.Acc.StorageRoot),
		Ver:  trie.Version{Major: l.Meta.StorageMajorVer, Minor: l.Meta.StorageMinorVer},
	})
	it := trie.NewIterator(t.NodeIterator(nil, 0))
	for it.Next() {
		if err := fn(thor.BytesToBytes32(it.Key), append([]byte(nil), it.Meta...), append([]byte(nil), it.Value...)); err != nil {
			return err
		}
	}
	return it.Err
}
