// sim_production.go - additions for the block production driver (C01). New file; sim.go is untouched.
//
//   - NewNetProd: a network whose authority endorsors are accounts of their own with chosen VET balances, a chosen
//     proposer-endorsement, only a prefix of the validators listed at genesis (the rest can be added by Authority.add),
//     and chosen staking periods.
//   - MintAt: Mint that also reports the conflicts ordinal God stored the block under.
package sim

import (
	"fmt"
	"math"
	"math/big"
	"os"

	"github.com/vechain/thor/v2/block"
	"github.com/vechain/thor/v2/genesis"
	"github.com/vechain/thor/v2/packer"
	"github.com/vechain/thor/v2/thor"
	"github.com/vechain/thor/v2/tx"

	"verifharness/internal/kvrec"
)

// Prod are the genesis knobs of the production driver.
type Prod struct {
	Listed      int        // authorities listed at genesis: validators 0..Listed-1 (0 = all)
	Endorsor    []int      // dev index of the endorsor of validator i (nil: the master itself)
	EndorsorVET []*big.Int // genesis VET balance (wei) of those endorsors (nil entry: BigBalance)
	Endorsement *big.Int   // params[proposer-endorsement] in wei (nil: thor's default, 25M VET)
	Periods     [3]uint32  // low / medium / high staking period (0: thor's default)
	Cooldown    uint32
	Interval    uint64 // thor.BlockInterval in seconds (0: unchanged; process-global)
	Seeder      uint32 // thor.SeederInterval (0: thor's default 8640; the config is process-global, so it is always set)
	TP          uint32 // HAYABUSA transition period in blocks (0 with Options.PoS: PoS is active from genesis)
	Funded      int    // dev accounts 0..Funded-1 get BigBalance VET and VTHO (0 = all ten)
}

// NewNetProd is NewNet plus Prod.
func NewNetProd(o Options, p Prod) *Net {
	if o.MBP == 0 {
		o.MBP = uint64(o.Validators)
	}
	if o.Nodes == 0 {
		o.Nodes = o.Validators
	}
	if o.EpochLength == 0 {
		o.EpochLength = 3
	}
	fc := &thor.ForkConfig{}
	if !o.PoS {
		fc.HAYABUSA = math.MaxUint32
	}
	if o.NoGalactica {
		fc.GALACTICA = math.MaxUint32
		fc.HAYABUSA = math.MaxUint32
	} else if o.Galactica != 0 {
		fc.GALACTICA = o.Galactica
	}
	devs := genesis.DevAccounts()
	funded := p.Funded
	if funded == 0 || funded > len(devs) {
		funded = len(devs)
	}
	special := map[int]*big.Int{}
	for i, e := range p.Endorsor {
		if i < len(p.EndorsorVET) && p.EndorsorVET[i] != nil {
			special[e] = p.EndorsorVET[i]
		}
	}
	var accs []genesis.Account
	for i := 0; i < funded; i++ {
		bal := BigBalance
		if b, ok := special[i]; ok {
			bal = b
		}
		accs = append(accs, genesis.Account{Address: devs[i].Address, Balance: (*genesis.HexOrDecimal256)(bal), Energy: (*genesis.HexOrDecimal256)(BigBalance)})
	}
	listed := p.Listed
	if listed == 0 {
		listed = o.Validators
	}
	var auths []genesis.Authority
	for i := 0; i < listed; i++ {
		e := devs[i].Address
		if i < len(p.Endorsor) {
			e = devs[p.Endorsor[i]].Address
		}
		auths = append(auths, genesis.Authority{MasterAddress: devs[i].Address, EndorsorAddress: e, Identity: thor.BytesToBytes32([]byte("m"))})
	}
	var stakers []genesis.Validator
	if o.PoS && fc.HAYABUSA == 0 {
		for i := 0; i < listed; i++ {
			stakers = append(stakers, genesis.Validator{Master: devs[i].Address, Endorser: devs[i].Address})
		}
	}
	tp := p.TP
	mbp := o.MBP
	launch := o.LaunchTime
	if launch == 0 {
		launch = DefaultLaunch
	}
	seeder := p.Seeder
	if seeder == 0 {
		seeder = 8640
	}
	params := genesis.Params{ExecutorAddress: &devs[0].Address, MaxBlockProposers: &mbp}
	if p.Endorsement != nil {
		params.ProposerEndorsement = (*genesis.HexOrDecimal256)(p.Endorsement)
	}
	g, err := genesis.NewCustomNet(&genesis.CustomGenesis{
		LaunchTime: launch,
		GasLimit:   40_000_000,
		Accounts:   accs,
		Authority:  auths,
		Stakers:    stakers,
		Params:     params,
		ForkConfig: fc,
		Config: &thor.Config{BlockInterval: p.Interval, EpochLength: o.EpochLength, HayabusaTP: &tp, SeederInterval: seeder, LowStakingPeriod: p.Periods[0],
			MediumStakingPeriod: p.Periods[1], HighStakingPeriod: p.Periods[2], CooldownPeriod: p.Cooldown},
	})
	must(err)
	tmp, err := os.MkdirTemp("", "verif-sim-")
	must(err)
	n := &Net{Opt: o, FC: fc, Gen: g, Devs: devs, Launch: launch, tmp: tmp}
	for i := 0; i < o.Nodes; i++ {
		n.Nodes = append(n.Nodes, n.openNode(i, kvrec.New(), true))
	}
	n.God = n.openNode(-1, kvrec.New(), true)
	n.B0 = n.God.Repo.GenesisBlock()
	return n
}

// Minted is what MintAt returns besides the block.
type Minted struct {
	Block     *block.Block
	Receipts  tx.Receipts
	Conflicts uint32 // ordinal God stored the block under
	Known     bool   // the very same block existed already (nothing was stored)
	Refused   []Refused
}

// MintAt is MintLoose reporting the conflicts ordinal.  benef is the packer's beneficiary option (nil: none, the packer
// falls back to the endorsor / the staker-set beneficiary).
func (n *Net) MintAt(parentID thor.Bytes32, who int, benef *thor.Address, com bool, minTime uint64, txs ...*tx.Transaction) (*Minted, error) {
	g := n.God
	parent, err := g.Repo.GetBlockSummary(parentID)
	if err != nil {
		return nil, fmt.Errorf("god does not know parent: %w", err)
	}
	acc := n.Devs[who]
	p := packer.New(g.Repo, g.Stater, acc.Address, benef, n.FC, 0)
	if minTime == 0 {
		minTime = parent.Header.Timestamp() + thor.BlockInterval()
	}
	flow, err := p.Schedule(parent, minTime)
	if err != nil {
		return nil, fmt.Errorf("%w: %v", ErrNotScheduled, err)
	}
	m := &Minted{}
	for i, t := range txs {
		if err := flow.Adopt(t); err != nil {
			m.Refused = append(m.Refused, Refused{i, t, err})
		}
	}
	conflicts, err := g.Repo.ScanConflicts(parent.Header.Number() + 1)
	if err != nil {
		return nil, err
	}
	blk, stage, receipts, err := flow.Pack(acc.PrivateKey, conflicts, com)
	if err != nil {
		return nil, err
	}
	m.Block, m.Receipts, m.Conflicts = blk, receipts, conflicts
	if _, err := g.Repo.GetBlockSummary(blk.Header().ID()); err == nil {
		m.Known = true
		return m, nil
	}
	if _, err := stage.Commit(); err != nil {
		return nil, err
	}
	asBest := blk.Header().BetterThan(g.Repo.BestBlockSummary().Header)
	if err := g.Repo.AddBlock(blk, receipts, conflicts, asBest); err != nil {
		return nil, err
	}
	return m, nil
}

// MarkSynced makes the mock communicator report "synced": a RealRun node's packer loop leaves its initial wait.
// Call it once per node.
func (c *Comm) MarkSynced() { close(c.synced) }
