// sim_blockrules.go - addition for the block-rule drivers (C02). New file; sim.go and sim_ledger.go are untouched.
//
//   - NewNetForks: NewNetX with a callback that may set every fork height (VIP191, VIP214, FINALITY, ...) so that
//     pre-VIP214 / pre-FINALITY / fork-boundary chains can be built.
//   - OpenOn: open a further full stack over a given engine (a clone of another node's store).
package sim

import (
	"math"
	"os"

	"github.com/vechain/thor/v2/genesis"
	"github.com/vechain/thor/v2/thor"

	"verifharness/internal/kvrec"
)

// NewNetForks is NewNetX, except that tweak (if not nil) edits the fork configuration last.
func NewNetForks(o Options, x Extra, tweak func(fc *thor.ForkConfig)) *Net {
	if o.MBP == 0 {
		o.MBP = uint64(o.Validators)
	}
	if o.Nodes == 0 {
		o.Nodes = o.Validators
	}
	if o.EpochLength == 0 {
		o.EpochLength = 3
	}
	fc := &thor.ForkConfig{}
	if !o.PoS {
		fc.HAYABUSA = math.MaxUint32
	}
	if o.NoGalactica {
		fc.GALACTICA = math.MaxUint32
		fc.HAYABUSA = math.MaxUint32
	} else if o.Galactica != 0 {
		fc.GALACTICA = o.Galactica
	}
	if x.Hayabusa != nil {
		fc.HAYABUSA = *x.Hayabusa
	}
	if tweak != nil {
		tweak(fc)
	}
	devs := genesis.DevAccounts()
	var accs []genesis.Account
	var auths []genesis.Authority
	for i := 0; i < o.Validators+o.ExtraAccts && i < len(devs); i++ {
		accs = append(accs, genesis.Account{Address: devs[i].Address, Balance: (*genesis.HexOrDecimal256)(BigBalance), Energy: (*genesis.HexOrDecimal256)(BigBalance)})
	}
	accs = append(accs, x.Accounts...)
	for i := 0; i < o.Validators; i++ {
		auths = append(auths, genesis.Authority{MasterAddress: devs[i].Address, EndorsorAddress: devs[i].Address, Identity: thor.BytesToBytes32([]byte("m"))})
	}
	var stakers []genesis.Validator
	if o.PoS && !x.NoStakers && fc.HAYABUSA == 0 {
		for i := 0; i < o.Validators; i++ {
			stakers = append(stakers, genesis.Validator{Master: devs[i].Address, Endorser: devs[i].Address})
		}
	}
	tp := uint32(0)
	if x.HayabusaTP != nil {
		tp = *x.HayabusaTP
	}
	mbp := o.MBP
	launch := o.LaunchTime
	if launch == 0 {
		launch = DefaultLaunch
	}
	gl := x.GasLimit
	if gl == 0 {
		gl = 40_000_000
	}
	g, err := genesis.NewCustomNet(&genesis.CustomGenesis{
		LaunchTime: launch,
		GasLimit:   gl,
		Accounts:   accs,
		Authority:  auths,
		Stakers:    stakers,
		Params:     genesis.Params{ExecutorAddress: &devs[0].Address, MaxBlockProposers: &mbp},
		ForkConfig: fc,
		Config: &thor.Config{EpochLength: o.EpochLength, HayabusaTP: &tp, LowStakingPeriod: x.Periods[0],
			MediumStakingPeriod: x.Periods[1], HighStakingPeriod: x.Periods[2], CooldownPeriod: x.Cooldown},
	})
	must(err)
	tmp, err := os.MkdirTemp("", "verif-sim-")
	must(err)
	n := &Net{Opt: o, FC: fc, Gen: g, Devs: devs, Launch: launch, tmp: tmp}
	for i := 0; i < o.Nodes; i++ {
		n.Nodes = append(n.Nodes, n.openNode(i, kvrec.New(), true))
	}
	n.God = n.openNode(-1, kvrec.New(), true)
	n.B0 = n.God.Repo.GenesisBlock()
	return n
}

// OpenOn opens a further full stack (not registered in n.Nodes) over an existing store, e.g. a clone of a node's
// store: "the same node, restarted over a copy of its disk". The caller closes it with Node.Node.VerifClose().
func (n *Net) OpenOn(idx int, e *kvrec.Engine) (*Node, error) {
	return n.OpenNodeErr(idx, e, false)
}
