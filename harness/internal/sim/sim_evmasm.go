// sim_evmasm.go - a tiny EVM assembler and the test contracts shared by cmd/txexec (C07) and cmd/ledger (C08).
// New file; nothing else in the package depends on it.
package sim

import (
	"encoding/binary"
	"fmt"
	"math/big"
	"strings"

	"github.com/vechain/thor/v2/thor"
)

var opcodes = map[string]byte{
	"STOP": 0x00, "ADD": 0x01, "MUL": 0x02, "SUB": 0x03, "EQ": 0x14, "ISZERO": 0x15, "SHL": 0x1b,
	"ADDRESS": 0x30, "CALLVALUE": 0x34, "CALLDATALOAD": 0x35, "CALLDATASIZE": 0x36, "CODECOPY": 0x39,
	"POP": 0x50, "MLOAD": 0x51, "MSTORE": 0x52, "SLOAD": 0x54, "SSTORE": 0x55, "JUMP": 0x56, "JUMPI": 0x57, "GAS": 0x5a,
	"JUMPDEST": 0x5b, "DUP1": 0x80, "DUP2": 0x81, "SWAP1": 0x90, "LOG0": 0xa0, "LOG1": 0xa1,
	"CREATE": 0xf0, "CALL": 0xf1, "CREATE2": 0xf5, "RETURN": 0xf3, "STATICCALL": 0xfa, "REVERT": 0xfd, "INVALID": 0xfe, "SELFDESTRUCT": 0xff,
}

// Asm assembles a whitespace separated program. Tokens: opcode names; decimal or 0x literals (PUSH of minimal width);
// "@name" pushes the 2-byte offset of label name; "name:" defines a label and emits JUMPDEST.
func Asm(src string) []byte {
	toks := strings.Fields(src)
	labels := map[string]int{}
	var out []byte
	type fix struct {
		at   int
		name string
	}
	var fixes []fix
	for _, t := range toks {
		switch {
		case strings.HasSuffix(t, ":"):
			labels[strings.TrimSuffix(t, ":")] = len(out)
			out = append(out, opcodes["JUMPDEST"])
		case strings.HasPrefix(t, "@"):
			out = append(out, 0x61, 0, 0)
			fixes = append(fixes, fix{len(out) - 2, t[1:]})
		default:
			if op, ok := opcodes[t]; ok {
				out = append(out, op)
				continue
			}
			v, ok := new(big.Int).SetString(t, 0)
			if !ok {
				panic("asm: bad token " + t)
			}
			b := v.Bytes()
			if len(b) == 0 {
				b = []byte{0}
			}
			if len(b) > 32 {
				panic("asm: literal too wide")
			}
			out = append(out, byte(0x60+len(b)-1))
			out = append(out, b...)
		}
	}
	for _, f := range fixes {
		pos, ok := labels[f.name]
		if !ok {
			panic("asm: undefined label " + f.name)
		}
		binary.BigEndian.PutUint16(out[f.at:], uint16(pos))
	}
	return out
}

// Operations of the universal test contract U. Calldata = 32-byte words [op, a, b, c, d].
const (
	OpStore   = 1  // sstore(a, b); log1(topic a)
	OpRevert  = 2  // sstore(a, b); REVERT
	OpInvalid = 3  // sstore(a, b); INVALID
	OpLoop    = 4  // sstore(a, b); loop until out of gas
	OpNest    = 5  // sstore(a, b); call U' = c with [d, a, b] (result ignored); sstore(a+1, b)
	OpDestroy = 6  // SELFDESTRUCT(a)
	OpClear   = 7  // sstore(a, 0); sstore(a+1, 0); sstore(a+2, 0)
	OpSend    = 8  // call a with value b (no data); reverts if the call fails
	OpEnergy  = 9  // call the energy builtin: transfer(a, b); reverts if the call fails
	OpNestDie = 10 // sstore(a, b); call U' = c with [d, a, b]; then REVERT  (outer fails after an inner success)
	OpNest3   = 11 // sstore(a, b); call U' = c with [d, a, b, e, f] (100000 gas, result ignored); sstore(a+1, b)
	OpCreate  = 13 // sstore(a, b); CREATE a child whose constructor writes storage, logs, and returns 20000 bytes of code
	//                (the code deposit cannot be paid: code-store out of gas); the 0 result is ignored; STOP
	OpCreate2 = 14 // the same with CREATE2
	OpStatic  = 12 // STATICCALL the energy builtin: transfer(a, b) - a state-changing native call in a read-only frame
)

// EnergyTransferSelector is the ABI selector of transfer(address,uint256).
const EnergyTransferSelector = "0xa9059cbb"

// UCode is the runtime bytecode of the universal test contract.
func UCode() []byte {
	store := " 64 CALLDATALOAD 32 CALLDATALOAD SSTORE "
	// inner call: mem[0]=d, mem[32]=a, mem[64]=b; CALL(gas, c, 0, 0, 96, 0, 0)
	inner := " 128 CALLDATALOAD 0 MSTORE 32 CALLDATALOAD 32 MSTORE 64 CALLDATALOAD 64 MSTORE " +
		" 0 0 96 0 0 96 CALLDATALOAD 40000 CALL POP " // inner frame gets a fixed 40000 gas
	src := " 0 CALLDATALOAD "
	for op := 1; op <= 14; op++ {
		src += fmt.Sprintf(" DUP1 %d EQ @op%d JUMPI ", op, op)
	}
	src += " STOP "
	src += " op1: " + store + " 32 CALLDATALOAD 0 0 LOG1 STOP "
	src += " op2: " + store + " 0 0 REVERT "
	src += " op3: " + store + " INVALID "
	src += " op4: " + store + " loop: @loop JUMP "
	src += " op5: " + store + inner + " 64 CALLDATALOAD 32 CALLDATALOAD 1 ADD SSTORE STOP "
	src += " op6: 32 CALLDATALOAD SELFDESTRUCT "
	src += " op7: 0 32 CALLDATALOAD SSTORE 0 32 CALLDATALOAD 1 ADD SSTORE 0 32 CALLDATALOAD 2 ADD SSTORE STOP "
	src += " op8: 0 0 0 0 64 CALLDATALOAD 32 CALLDATALOAD GAS CALL POP STOP "
	src += " op9: " + EnergyTransferSelector + " 224 SHL 0 MSTORE 32 CALLDATALOAD 4 MSTORE 64 CALLDATALOAD 36 MSTORE " +
		fmt.Sprintf(" 0 0 68 0 0 0x%x GAS CALL ISZERO @fail JUMPI STOP ", energyAddr())
	src += " op10: " + store + inner + " 0 0 REVERT "
	src += " op11: " + store +
		" 128 CALLDATALOAD 0 MSTORE 32 CALLDATALOAD 32 MSTORE 64 CALLDATALOAD 64 MSTORE 160 CALLDATALOAD 96 MSTORE 192 CALLDATALOAD 128 MSTORE " +
		" 0 0 160 0 0 96 CALLDATALOAD 100000 CALL POP 64 CALLDATALOAD 32 CALLDATALOAD 1 ADD SSTORE STOP "
	src += " op12: " + EnergyTransferSelector + " 224 SHL 0 MSTORE 32 CALLDATALOAD 4 MSTORE 64 CALLDATALOAD 36 MSTORE " +
		fmt.Sprintf(" 0 0 68 0 0x%x GAS STATICCALL POP STOP ", energyAddr())
	// the child's creation code lives behind the label "child" (one JUMPDEST byte, then the code)
	child := Asm(" 7 5 SSTORE 0 0 LOG0 20000 0 RETURN ")
	n := len(child)
	src += " op13: " + store + fmt.Sprintf(" %d @child 1 ADD 0 CODECOPY %d 0 0 CREATE POP STOP ", n, n)
	src += " op14: " + store + fmt.Sprintf(" %d @child 1 ADD 0 CODECOPY 99 %d 0 0 CREATE2 POP STOP ", n, n)
	src += " fail: 0 0 REVERT " // a failed inner call of op8 / op9 fails the whole frame
	return append(Asm(src+" child: "), child...)
}

func energyAddr() []byte {
	a := thor.BytesToAddress([]byte("Energy"))
	return a[:]
}

// SelfDestructSelfCode is the runtime bytecode ADDRESS SELFDESTRUCT (finding F3).
func SelfDestructSelfCode() []byte { return []byte{0x30, 0xff} }

// InitCode wraps a runtime bytecode into creation code; if key != nil the constructor first does sstore(key, val).
func InitCode(runtime []byte, key, val *big.Int) []byte {
	pre := ""
	if key != nil {
		pre = fmt.Sprintf(" 0x%x 0x%x SSTORE ", val, key)
	}
	// CODECOPY(destOffset 0, offset @code, size); RETURN(0, size)
	n := len(runtime)
	// the code offset is the length of the head itself: iterate to the fixed point
	l := 0
	for {
		head := Asm(pre + fmt.Sprintf(" %d %d 0 CODECOPY %d 0 RETURN ", n, l, n))
		if len(head) == l {
			return append(head, runtime...)
		}
		l = len(head)
	}
}

// RevertingInitCode is creation code that stores and then reverts.
func RevertingInitCode(key, val *big.Int) []byte {
	return Asm(fmt.Sprintf(" 0x%x 0x%x SSTORE 0 0 REVERT ", val, key))
}

// Word encodes v as a 32-byte big-endian word.
func Word(v *big.Int) []byte {
	var w [32]byte
	v.FillBytes(w[:])
	return w[:]
}

// AddrWord encodes an address as a word.
func AddrWord(a thor.Address) *big.Int { return new(big.Int).SetBytes(a[:]) }

// UCall builds calldata for U.
func UCall(op int, args ...*big.Int) []byte {
	out := Word(big.NewInt(int64(op)))
	for _, a := range args {
		if a == nil {
			a = new(big.Int)
		}
		out = append(out, Word(a)...)
	}
	return out
}
