// Package kvrec is a recording / cutting / faulting key-value engine that sits under a real muxdb.MuxDB
// (hook H3, muxdb.NewWithEngine). Every atomic mutation becomes one entry of an ordered write log.
//
// Trusted base: one leveldb batch is atomic, batches become durable in issue order.
package kvrec

import (
	"bytes"
	"context"
	"crypto/sha256"
	"encoding/hex"
	"fmt"
	"sort"
	"sync"

	"github.com/syndtr/goleveldb/leveldb"
	"github.com/syndtr/goleveldb/leveldb/storage"

	"github.com/vechain/thor/v2/kv"
	"github.com/vechain/thor/v2/muxdb/engine"
)

// Op is a single put or delete.
type Op struct {
	Del      bool
	Key, Val []byte
}

// Batch is one atomic mutation of the store.
type Batch struct {
	Ops  []Op
	Note string // free-form label set by the driver (e.g. "import b7")
	Kind string // put | delete | bulk | range
}

// Engine implements muxdb/engine.Engine.
type Engine struct {
	mu      sync.Mutex
	inner   engine.Engine
	log     []Batch
	note    string
	record  bool
	armed   bool
	crashAt int
	OnWrite func(idx int, b *Batch) // called under mu after the batch was applied
	// ReadFault, if set, is consulted on every Get/Has; a non-nil error is returned to the caller.
	ReadFault func(key []byte) error
}

func newMem() engine.Engine {
	ldb, _ := leveldb.Open(storage.NewMemStorage(), nil)
	return engine.NewLevelEngine(ldb)
}

// New returns an empty recording engine.
func New() *Engine { return &Engine{inner: newMem(), record: true} }

// SetNote labels subsequent writes.
func (e *Engine) SetNote(n string) { e.mu.Lock(); e.note = n; e.mu.Unlock() }

// SetRecording switches logging of writes on/off (writes are always applied).
func (e *Engine) SetRecording(on bool) { e.mu.Lock(); e.record = on; e.mu.Unlock() }

// Len is the number of recorded atomic writes.
func (e *Engine) Len() int { e.mu.Lock(); defer e.mu.Unlock(); return len(e.log) }

// Log returns the recorded writes (shared slice header copy).
func (e *Engine) Log() []Batch {
	e.mu.Lock()
	defer e.mu.Unlock()
	return append([]Batch(nil), e.log...)
}

func cp(b []byte) []byte { return append([]byte(nil), b...) }

func (e *Engine) apply(b Batch) error {
	if e.armed && e.record && len(e.log) >= e.crashAt {
		e.mu.Unlock() // apply is always called with mu held; release it before unwinding
		panic(CrashSentinel{At: e.crashAt, Class: WriteClass(&b)})
	}
	bulk := e.inner.Bulk()
	for _, o := range b.Ops {
		if o.Del {
			if err := bulk.Delete(o.Key); err != nil {
				return err
			}
		} else if err := bulk.Put(o.Key, o.Val); err != nil {
			return err
		}
	}
	if err := bulk.Write(); err != nil {
		return err
	}
	if e.record {
		b.Note = e.note
		e.log = append(e.log, b)
		if e.OnWrite != nil {
			e.OnWrite(len(e.log)-1, &e.log[len(e.log)-1])
		}
	}
	return nil
}

func (e *Engine) Close() error              { return nil }
func (e *Engine) IsNotFound(err error) bool { return e.inner.IsNotFound(err) }

func (e *Engine) Get(key []byte) ([]byte, error) {
	if f := e.ReadFault; f != nil {
		if err := f(key); err != nil {
			return nil, err
		}
	}
	return e.inner.Get(key)
}

func (e *Engine) Has(key []byte) (bool, error) {
	if f := e.ReadFault; f != nil {
		if err := f(key); err != nil {
			return false, err
		}
	}
	return e.inner.Has(key)
}

func (e *Engine) Put(key, val []byte) error {
	e.mu.Lock()
	err := e.apply(Batch{Ops: []Op{{false, cp(key), cp(val)}}, Kind: "put"})
	e.mu.Unlock()
	return err
}

func (e *Engine) Delete(key []byte) error {
	e.mu.Lock()
	err := e.apply(Batch{Ops: []Op{{true, cp(key), nil}}, Kind: "delete"})
	e.mu.Unlock()
	return err
}

func (e *Engine) Snapshot() kv.Snapshot          { return e.inner.Snapshot() }
func (e *Engine) Iterate(r kv.Range) kv.Iterator { return e.inner.Iterate(r) }

type bulk struct {
	e         *Engine
	ops       []Op
	size      int
	autoFlush bool
}

const idealBatchSize = 128 * 1024 // as LevelEngine.Bulk

func (b *bulk) flush(min int) error {
	if len(b.ops) > 0 && b.size >= min {
		b.e.mu.Lock()
		err := b.e.apply(Batch{Ops: b.ops, Kind: "bulk"})
		b.e.mu.Unlock()
		b.ops, b.size = nil, 0
		return err
	}
	return nil
}
func (b *bulk) Put(k, v []byte) error {
	b.ops = append(b.ops, Op{false, cp(k), cp(v)})
	b.size += len(k) + len(v) + 8
	if b.autoFlush {
		return b.flush(idealBatchSize)
	}
	return nil
}
func (b *bulk) Delete(k []byte) error {
	b.ops = append(b.ops, Op{true, cp(k), nil})
	b.size += len(k) + 8
	if b.autoFlush {
		return b.flush(idealBatchSize)
	}
	return nil
}
func (b *bulk) EnableAutoFlush() { b.autoFlush = true }
func (b *bulk) Write() error     { return b.flush(0) }

func (e *Engine) Bulk() kv.Bulk { return &bulk{e: e} }

func (e *Engine) DeleteRange(ctx context.Context, r kv.Range) error {
	it := e.inner.Iterate(r)
	var keys [][]byte
	for it.Next() {
		keys = append(keys, cp(it.Key()))
	}
	it.Release()
	if err := it.Error(); err != nil {
		return err
	}
	b := &bulk{e: e, autoFlush: true}
	for _, k := range keys {
		if err := b.Delete(k); err != nil {
			return err
		}
	}
	return b.Write()
}

// Materialize returns a fresh, non-recording-so-far engine that contains exactly log[0:k).
func Materialize(log []Batch, k int) *Engine {
	e := New()
	e.record = false
	for _, b := range log[:k] {
		if err := e.apply(Batch{Ops: b.Ops}); err != nil {
			panic(err)
		}
	}
	e.record = true
	return e
}

// Clone returns an independent engine with the same content and an empty log.
func (e *Engine) Clone() *Engine {
	n := New()
	n.record = false
	it := e.inner.Iterate(kv.Range{})
	bl := n.inner.Bulk()
	for it.Next() {
		bl.Put(cp(it.Key()), cp(it.Value()))
	}
	it.Release()
	bl.Write()
	n.record = true
	return n
}

// Digest is a hash over the whole content of the store (read-only-ness checks).
func (e *Engine) Digest() string {
	h := sha256.New()
	it := e.inner.Iterate(kv.Range{})
	n := 0
	for it.Next() {
		var l [8]byte
		k, v := it.Key(), it.Value()
		l[0], l[1], l[2], l[3] = byte(len(k)>>8), byte(len(k)), byte(len(v)>>16), byte(len(v)>>8)
		l[4] = byte(len(v))
		h.Write(l[:])
		h.Write(k)
		h.Write(v)
		n++
	}
	it.Release()
	return fmt.Sprintf("%d:%s", n, hex.EncodeToString(h.Sum(nil)[:12]))
}

// Keys returns all keys with the given prefix, sorted.
func (e *Engine) Keys(prefix []byte) [][]byte {
	it := e.inner.Iterate(kv.Range{})
	var out [][]byte
	for it.Next() {
		if bytes.HasPrefix(it.Key(), prefix) {
			out = append(out, cp(it.Key()))
		}
	}
	it.Release()
	sort.Slice(out, func(i, j int) bool { return bytes.Compare(out[i], out[j]) < 0 })
	return out
}

// Key spaces of muxdb (muxdb.go).
const (
	SpaceHist  = byte(0)
	SpaceDedup = byte(1)
	SpaceNamed = byte(2)
)

// Classify gives a coarse class for a batch: which key spaces / named stores it touches.
func Classify(b *Batch) string {
	seen := map[string]bool{}
	var out []string
	add := func(s string) {
		if !seen[s] {
			seen[s] = true
			out = append(out, s)
		}
	}
	for _, o := range b.Ops {
		if len(o.Key) == 0 {
			add("empty")
			continue
		}
		switch o.Key[0] {
		case SpaceHist:
			add("trie-hist")
		case SpaceDedup:
			add("trie-dedup")
		case SpaceNamed:
			add("store:" + storeName(o.Key[1:]))
		default:
			add("other")
		}
	}
	sort.Strings(out)
	return fmt.Sprint(out)
}

var knownStores = []string{"chain.hdr", "chain.body", "chain.props", "chain.heads", "chain.txi", "chain.data", "chain.flt",
	"bft.engine", "muxdb.props", "state.code", "pruner.props", "chain.head"}

func storeName(k []byte) string {
	best := ""
	for _, s := range knownStores {
		if bytes.HasPrefix(k, []byte(s)) && len(s) > len(best) {
			best = s
		}
	}
	if best == "" {
		n := 12
		if len(k) < n {
			n = len(k)
		}
		return "?" + string(k[:n])
	}
	return best
}

// WriteClass maps an atomic write of a node's block import to the step of store/ImportCrash.tla it belongs to:
// state (account/storage tries, code bulk) | idx (block-number index trie) | blk (block bulk incl. best pointer) |
// q (persisted quality of a store-point) | fin (finalized checkpoint) | resync | other | mixed.
// Assumes HistPartitionFactor = 1 (the default of NewWithEngine): hist key = 0 | u32 partition | trie name | ...
func WriteClass(b *Batch) string {
	cls := ""
	add := func(c string) {
		if cls == "" || cls == c {
			cls = c
		} else {
			cls = "mixed"
		}
	}
	for _, o := range b.Ops {
		k := o.Key
		switch {
		case len(k) > 5 && (k[0] == SpaceHist || k[0] == SpaceDedup):
			if k[5] == 'i' {
				add("idx")
			} else {
				add("state")
			}
		case len(k) > 1 && k[0] == SpaceNamed:
			n := k[1:]
			switch {
			case bytes.HasPrefix(n, []byte("state.code")):
				add("state")
			case bytes.HasPrefix(n, []byte("chain.")):
				add("blk")
			case bytes.HasPrefix(n, []byte("bft.enginefinalized")):
				add("fin")
			case bytes.HasPrefix(n, []byte("bft.enginebft.resync")):
				add("resync")
			case bytes.HasPrefix(n, []byte("bft.engine")):
				add("q")
			default:
				add("other")
			}
		default:
			add("other")
		}
	}
	return cls
}

// CrashSentinel is the panic value raised by an engine armed with CrashAt.
type CrashSentinel struct {
	At    int
	Class string // WriteClass of the write that was not applied
}

// CrashAt arms the engine: the write that would become log entry number n (0-based) is NOT applied and the calling
// goroutine panics with CrashSentinel — the process "dies" between write n-1 and write n. n < 0 disarms.
func (e *Engine) CrashAt(n int) { e.mu.Lock(); e.crashAt = n; e.armed = n >= 0; e.mu.Unlock() }
