package kvrec

import (
	"bytes"
	"fmt"
	"math/rand"

	"github.com/vechain/thor/v2/kv"
)

// CheckRealBulkContract validates the assumption under which Engine stands in for thor's LevelEngine: a kv.Bulk of
// the REAL muxdb/engine.LevelEngine makes nothing visible before Write() unless EnableAutoFlush was called (that is
// what block import relies on: chain.saveBlock's bulk is one atomic batch); with auto-flush the exact flush points
// depend on leveldb's batch encoding and are not part of the contract - there only the ORDER is: what is visible at any
// moment is a prefix of the operations issued so far, and everything is visible after Write. Random put/delete sequences (the write pattern of chain.saveBlock among them:
// large values, a delete in the middle) are applied to a real LevelEngine over a memory leveldb and to a fresh
// recording Engine; after every operation the visible content of both must be equal.
func CheckRealBulkContract(seed int64, rounds int) error {
	rng := rand.New(rand.NewSource(seed))
	for r := 0; r < rounds; r++ {
		real := newMem() // the real LevelEngine
		model := New()
		// pre-populate both with a few keys so that deletes have something to remove
		for i := 0; i < 8; i++ {
			k, v := []byte(fmt.Sprintf("pre-%d", i)), []byte{byte(i)}
			if err := real.Put(k, v); err != nil {
				return err
			}
			if err := model.Put(k, v); err != nil {
				return err
			}
		}
		auto := r%3 == 2
		rb, mb := real.Bulk(), model.Bulk()
		if auto {
			rb.EnableAutoFlush()
			mb.EnableAutoFlush()
		}
		nops := 5 + rng.Intn(40)
		var touched, puts [][]byte
		for i := 0; i < nops; i++ {
			var k []byte
			del := rng.Intn(6) == 0
			if del {
				k = []byte(fmt.Sprintf("pre-%d", rng.Intn(8)))
				if err := rb.Delete(k); err != nil {
					return err
				}
				if err := mb.Delete(k); err != nil {
					return err
				}
			} else {
				k = []byte(fmt.Sprintf("k-%d-%d", r, i))
				size := 1 + rng.Intn(64)
				switch rng.Intn(5) {
				case 0:
					size = 20_000 + rng.Intn(60_000) // tx / receipt blobs
				case 1:
					size = 130_000 + rng.Intn(40_000) // a single value above the ideal batch size
				}
				v := bytes.Repeat([]byte{byte(i)}, size)
				if err := rb.Put(k, v); err != nil {
					return err
				}
				if err := mb.Put(k, v); err != nil {
					return err
				}
			}
			touched = append(touched, k)
			where := fmt.Sprintf("round %d (autoflush=%v) after op %d/%d (delete=%v)", r, auto, i+1, nops, del)
			if !del {
				puts = append(puts, k)
			}
			if auto {
				// prefix rule over the puts (unique keys): no invisible put may be followed by a visible one
				gap := -1
				for j, pk := range puts {
					_, err := real.Get(pk)
					if err != nil && gap < 0 {
						gap = j
					}
					if err == nil && gap >= 0 {
						return fmt.Errorf("%s: put %q is visible in the real LevelEngine although the earlier put %q is not (auto-flush must keep the order)", where, pk, puts[gap])
					}
				}
				continue
			}
			if err := sameVisible(real, model, touched, where); err != nil {
				return err
			}
		}
		if err := rb.Write(); err != nil {
			return err
		}
		if err := mb.Write(); err != nil {
			return err
		}
		if err := sameVisible(real, model, touched, fmt.Sprintf("round %d after Write", r)); err != nil {
			return err
		}
	}
	return nil
}

func sameVisible(real kv.Store, model kv.Store, keys [][]byte, where string) error {
	for _, k := range keys {
		rv, rerr := real.Get(k)
		mv, merr := model.Get(k)
		rfound, mfound := rerr == nil, merr == nil
		if rfound != mfound || (rfound && !bytes.Equal(rv, mv)) {
			return fmt.Errorf("%s: key %q is %s in the real LevelEngine but %s under the atomic-bulk contract",
				where, k, vis(rfound), vis(mfound))
		}
	}
	return nil
}

func vis(b bool) string {
	if b {
		return "visible"
	}
	return "not visible"
}
