// Package pipe is the in-process message pipe between two thor p2p protocol endpoints (DESIGN App. B).
//
// p2p.MsgPipe cannot be used with p2psrv/rpc.Serve: its payload is not an io.ByteReader, so rlp.NewStream wraps it in
// a read-ahead buffer and the handler's second-phase msg.Decode sees EOF. The ends here hand out messages whose
// Payload is a bytes.Reader over a private copy, which is what the devp2p frame reader effectively provides.
//
// An End can be tapped (every message written through it is reported with its raw payload) and can inject
// arbitrary raw messages, including messages whose Size field lies about the payload.
package pipe

import (
	"bytes"
	"errors"
	"io"
	"sync"
	"time"

	"github.com/ethereum/go-ethereum/rlp"

	"github.com/vechain/thor/v2/p2p"
)

// ErrClosed is returned by WriteMsg on a closed pipe.
var ErrClosed = errors.New("pipe closed")

type shared struct {
	closed chan struct{}
	once   sync.Once
}

// End is one side of the pipe; it implements p2p.MsgReadWriter.
type End struct {
	in  chan p2p.Msg
	out chan p2p.Msg
	sh  *shared
	// Tap, if set, is called for every message written through this end (before delivery), with a private
	// copy of the payload. It runs on the writer's goroutine.
	Tap func(code uint64, payload []byte)
	// Fixed, if set, replaces ReceivedAt (drivers must not depend on the wall clock).
	Fixed time.Time
	// OnRead, if set, is called for every message handed out by ReadMsg, with a private copy of the payload, on the
	// reader's goroutine, before the message is returned.
	OnRead func(code uint64, payload []byte)
	// wmu makes Tap + delivery of one message atomic: the order seen by the tap is the order on the wire.
	wmu sync.Mutex
}

// New returns the two connected ends. Each direction buffers up to 256 messages.
func New() (*End, *End) {
	a, b := make(chan p2p.Msg, 256), make(chan p2p.Msg, 256)
	sh := &shared{closed: make(chan struct{})}
	return &End{in: a, out: b, sh: sh}, &End{in: b, out: a, sh: sh}
}

// Close disconnects both ends: ReadMsg fails with io.EOF once the buffered messages are drained, WriteMsg with ErrClosed.
func (e *End) Close() { e.sh.once.Do(func() { close(e.sh.closed) }) }

// Closed reports whether the pipe was closed.
func (e *End) Closed() bool {
	select {
	case <-e.sh.closed:
		return true
	default:
		return false
	}
}

// ReadMsg implements p2p.MsgReader.
func (e *End) ReadMsg() (p2p.Msg, error) {
	// what was written before the pipe was closed is still delivered (as data precedes FIN on a socket)
	select {
	case m := <-e.in:
		return e.observe(m), nil
	default:
	}
	select {
	case m := <-e.in:
		return e.observe(m), nil
	case <-e.sh.closed:
		return p2p.Msg{}, io.EOF
	}
}

func (e *End) observe(m p2p.Msg) p2p.Msg {
	if e.OnRead == nil {
		return m
	}
	data, _ := io.ReadAll(m.Payload)
	e.OnRead(m.Code, append([]byte(nil), data...))
	m.Payload = bytes.NewReader(data)
	return m
}

// WriteMsg implements p2p.MsgWriter: the payload is consumed and delivered as a bytes.Reader.
func (e *End) WriteMsg(m p2p.Msg) error {
	data, err := io.ReadAll(m.Payload)
	if err != nil {
		return err
	}
	return e.Inject(m.Code, uint32(len(data)), data)
}

// Inject delivers a raw message with an explicit Size field (which may differ from len(payload)).
func (e *End) Inject(code uint64, size uint32, payload []byte) error {
	if e.Closed() {
		return ErrClosed
	}
	e.wmu.Lock()
	defer e.wmu.Unlock()
	if e.Tap != nil {
		e.Tap(code, append([]byte(nil), payload...))
	}
	m := p2p.Msg{Code: code, Size: size, Payload: bytes.NewReader(append([]byte(nil), payload...)), ReceivedAt: e.Fixed}
	select {
	case e.out <- m:
		return nil
	case <-e.sh.closed:
		return ErrClosed
	}
}

// Send delivers a raw payload with a truthful Size field.
func (e *End) Send(code uint64, payload []byte) error {
	return e.Inject(code, uint32(len(payload)), payload)
}

// Envelope is the rpc framing of p2psrv/rpc: [callID, isResult, payload].
type Envelope struct {
	CallID   uint32
	IsResult bool
	Payload  rlp.RawValue
}

// Encode returns the rlp bytes of the envelope.
func (v Envelope) Encode() []byte {
	b, err := rlp.EncodeToBytes(&v)
	if err != nil {
		panic(err)
	}
	return b
}

// Frame encodes [callID, isResult, arg].
func Frame(callID uint32, isResult bool, arg any) []byte {
	raw, err := rlp.EncodeToBytes(arg)
	if err != nil {
		panic(err)
	}
	return Envelope{callID, isResult, raw}.Encode()
}

// ParseEnvelope decodes the rpc framing of a payload.
func ParseEnvelope(payload []byte) (Envelope, error) {
	var v Envelope
	err := rlp.DecodeBytes(payload, &v)
	return v, err
}
