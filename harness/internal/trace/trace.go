// Package trace writes ndjson event traces (DESIGN 3.1) and interns 32-byte ids to short names.
package trace

import (
	"bufio"
	"encoding/json"
	"fmt"
	"math/big"
	"os"
	"sort"
)

// Ev is one event.
type Ev map[string]any

// Writer collects events; Flush writes them.
type Writer struct {
	Events []Ev
}

// Emit appends an event.
func (w *Writer) Emit(e Ev) { w.Events = append(w.Events, e) }

// WriteFile writes all events as ndjson (keys sorted by encoding/json).
func (w *Writer) WriteFile(path string) error {
	return WriteNDJSON(path, w.Events)
}

// WriteNDJSON writes events to path.
func WriteNDJSON(path string, evs []Ev) error {
	f, err := os.Create(path)
	if err != nil {
		return err
	}
	bw := bufio.NewWriter(f)
	enc := json.NewEncoder(bw)
	for _, e := range evs {
		if err := enc.Encode(e); err != nil {
			return err
		}
	}
	if err := bw.Flush(); err != nil {
		return err
	}
	return f.Close()
}

// Interner maps opaque ids to short stable names in first-seen order.
type Interner struct {
	prefix string
	names  map[string]string
	order  []string
}

// NewInterner creates an interner producing prefix0, prefix1, ...
func NewInterner(prefix string) *Interner {
	return &Interner{prefix: prefix, names: map[string]string{}}
}

// Name returns the short name of id (raw bytes as string key).
func (in *Interner) Name(id []byte) string {
	k := string(id)
	if n, ok := in.names[k]; ok {
		return n
	}
	n := fmt.Sprintf("%s%d", in.prefix, len(in.order))
	in.names[k] = n
	in.order = append(in.order, k)
	return n
}

// Known tells whether id has a name already.
func (in *Interner) Known(id []byte) bool { _, ok := in.names[string(id)]; return ok }

// Ranks returns, for every interned id, its rank in ascending byte order (the tie-break order of ids).
func (in *Interner) Ranks() map[string]int {
	ks := append([]string(nil), in.order...)
	sort.Strings(ks)
	out := map[string]int{}
	for i, k := range ks {
		out[in.names[k]] = i
	}
	return out
}

// Table returns name -> hex id.
func (in *Interner) Table() map[string]string {
	out := map[string]string{}
	for k, n := range in.names {
		out[n] = fmt.Sprintf("%x", k)
	}
	return out
}

// Limbs encodes a non-negative big integer as little-endian base-2^15 limbs (BigNat.tla).
func Limbs(v *big.Int) []int {
	if v.Sign() < 0 {
		panic("negative value")
	}
	x := new(big.Int).Set(v)
	var out []int
	m := big.NewInt(1 << 15)
	r := new(big.Int)
	for x.Sign() > 0 {
		x.DivMod(x, m, r)
		out = append(out, int(r.Int64()))
	}
	if out == nil {
		out = []int{}
	}
	return out
}
