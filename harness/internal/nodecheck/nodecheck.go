// Package nodecheck holds observations on a real node stack that several drivers share: a complete walk of the
// state of a block, "best block is complete" reads, and the comparison of the log db with the canonical chain.
package nodecheck

import (
	"context"
	"crypto/sha256"
	"encoding/hex"
	"fmt"
	"sort"
	"strings"

	"github.com/ethereum/go-ethereum/rlp"

	"github.com/vechain/thor/v2/block"
	"github.com/vechain/thor/v2/chain"
	"github.com/vechain/thor/v2/logdb"
	"github.com/vechain/thor/v2/muxdb"
	"github.com/vechain/thor/v2/state"
	"github.com/vechain/thor/v2/thor"
	"github.com/vechain/thor/v2/trie"
	"github.com/vechain/thor/v2/tx"
)

// StateDigest walks the whole account trie of a block and every storage trie it references and returns a digest of
// the logical content (account key -> consensus account encoding, storage key -> value). Metadata (storage ids,
// versions) is not part of it. Any unreadable node is an error.
func StateDigest(db *muxdb.MuxDB, root trie.Root) (digest string, accounts, slots int, err error) {
	defer func() {
		if r := recover(); r != nil {
			err = fmt.Errorf("panic while walking state: %v", r)
		}
	}()
	h := sha256.New()
	acc := db.NewTrie(muxdb.AccountTrieName, root)
	it := acc.NodeIterator(nil, 0)
	for it.Next(true) {
		leaf := it.Leaf()
		if leaf == nil {
			continue
		}
		key := it.LeafKey()
		accounts++
		h.Write([]byte{0xa})
		h.Write(key)
		h.Write(leaf.Value)
		var a state.Account
		if e := rlp.DecodeBytes(leaf.Value, &a); e != nil {
			return "", 0, 0, fmt.Errorf("decode account: %w", e)
		}
		if len(a.StorageRoot) > 0 {
			var meta state.AccountMetadata
			if len(leaf.Meta) == 0 {
				return "", 0, 0, fmt.Errorf("account with storage root but no metadata")
			}
			if e := rlp.DecodeBytes(leaf.Meta, &meta); e != nil {
				return "", 0, 0, fmt.Errorf("decode account metadata: %w", e)
			}
			st := db.NewTrie(state.StorageTrieName(meta.StorageID), trie.Root{
				Hash: thor.BytesToBytes32(a.StorageRoot),
				Ver:  trie.Version{Major: meta.StorageMajorVer, Minor: meta.StorageMinorVer}})
			sit := st.NodeIterator(nil, 0)
			for sit.Next(true) {
				if l := sit.Leaf(); l != nil {
					slots++
					h.Write([]byte{0x5})
					h.Write(sit.LeafKey())
					h.Write(l.Value)
				}
			}
			if e := sit.Error(); e != nil {
				return "", 0, 0, fmt.Errorf("storage trie of %x: %w", key, e)
			}
		}
	}
	if e := it.Error(); e != nil {
		return "", 0, 0, fmt.Errorf("account trie: %w", e)
	}
	return hex.EncodeToString(h.Sum(nil)[:12]), accounts, slots, nil
}

// BestComplete performs the reads a node (or an API client) relies on for the best block: header, transactions,
// receipts, the by-number index for every height, tx lookups, and a complete walk of its state.
func BestComplete(repo *chain.Repository, db *muxdb.MuxDB) (stateDigest string, err error) {
	defer func() {
		if r := recover(); r != nil {
			err = fmt.Errorf("panic: %v", r)
		}
	}()
	best := repo.BestBlockSummary()
	id := best.Header.ID()
	blk, err := repo.GetBlock(id)
	if err != nil {
		return "", fmt.Errorf("best block %d unreadable: %w", best.Header.Number(), err)
	}
	if blk.Header().ID() != id {
		return "", fmt.Errorf("best block id mismatch")
	}
	receipts, err := repo.GetBlockReceipts(id)
	if err != nil {
		return "", fmt.Errorf("receipts of best unreadable: %w", err)
	}
	if len(receipts) != len(blk.Transactions()) {
		return "", fmt.Errorf("best has %d txs but %d receipts", len(blk.Transactions()), len(receipts))
	}
	if blk.Header().TxsRoot() != blk.Transactions().RootHash() || blk.Header().ReceiptsRoot() != receipts.RootHash() {
		return "", fmt.Errorf("best block body does not match its header roots")
	}
	c := repo.NewChain(id)
	prev := thor.Bytes32{}
	for n := uint32(0); n <= best.Header.Number(); n++ {
		bid, err := c.GetBlockID(n)
		if err != nil {
			return "", fmt.Errorf("number index at %d (best %d): %w", n, best.Header.Number(), err)
		}
		if block.Number(bid) != n {
			return "", fmt.Errorf("number index at %d returns block %d", n, block.Number(bid))
		}
		sum, err := repo.GetBlockSummary(bid)
		if err != nil {
			return "", fmt.Errorf("ancestor %d unreadable: %w", n, err)
		}
		if n > 0 && sum.Header.ParentID() != prev {
			return "", fmt.Errorf("ancestor %d is not the child of ancestor %d", n, n-1)
		}
		prev = bid
		txs, err := repo.GetBlockTransactions(bid)
		if err != nil {
			return "", fmt.Errorf("txs of ancestor %d: %w", n, err)
		}
		for _, t := range txs {
			meta, err := c.GetTransactionMeta(t.ID())
			if err != nil {
				return "", fmt.Errorf("tx %x of ancestor %d not found from best: %w", t.ID().Bytes()[:4], n, err)
			}
			if meta.BlockNum != n {
				return "", fmt.Errorf("tx meta points to block %d, expected %d", meta.BlockNum, n)
			}
		}
	}
	if prev != id {
		return "", fmt.Errorf("number index at best height is not best")
	}
	d, _, _, err := StateDigest(db, best.Root())
	if err != nil {
		return "", fmt.Errorf("state of best block %d: %w", best.Header.Number(), err)
	}
	return d, nil
}

// CanonicalLogs flattens the receipts of the canonical chain (best) into normalised rows, in chain order.
func CanonicalLogs(repo *chain.Repository) (events, transfers []string, err error) {
	best := repo.BestBlockSummary()
	c := repo.NewChain(best.Header.ID())
	for n := uint32(1); n <= best.Header.Number(); n++ {
		id, err := c.GetBlockID(n)
		if err != nil {
			return nil, nil, err
		}
		blk, err := repo.GetBlock(id)
		if err != nil {
			return nil, nil, err
		}
		receipts, err := repo.GetBlockReceipts(id)
		if err != nil {
			return nil, nil, err
		}
		e, t := BlockLogs(blk, receipts)
		events = append(events, e...)
		transfers = append(transfers, t...)
	}
	return
}

// BlockLogs flattens one block's receipts into normalised rows (block-wide log indices, separate counters).
func BlockLogs(blk *block.Block, receipts tx.Receipts) (events, transfers []string) {
	ei, ti := 0, 0
	txs := blk.Transactions()
	for txi, r := range receipts {
		origin, _ := txs[txi].Origin()
		for ci, o := range r.Outputs {
			for _, ev := range o.Events {
				var tp []string
				for _, t := range ev.Topics {
					tp = append(tp, hex.EncodeToString(t[:]))
				}
				events = append(events, fmt.Sprintf("E n=%d li=%d b=%x t=%d tx=%x ti=%d o=%x c=%d a=%x tp=%s d=%x",
					blk.Header().Number(), ei, blk.Header().ID().Bytes()[28:], blk.Header().Timestamp(), txs[txi].ID().Bytes()[:6], txi,
					origin[:4], ci, ev.Address[:4], strings.Join(tp, ","), ev.Data))
				ei++
			}
			for _, tr := range o.Transfers {
				transfers = append(transfers, fmt.Sprintf("T n=%d li=%d b=%x t=%d tx=%x ti=%d o=%x c=%d s=%x r=%x v=%s",
					blk.Header().Number(), ti, blk.Header().ID().Bytes()[28:], blk.Header().Timestamp(), txs[txi].ID().Bytes()[:6], txi,
					origin[:4], ci, tr.Sender[:4], tr.Recipient[:4], tr.Amount))
				ti++
			}
		}
	}
	return
}

// DumpLogDB returns the whole tables in the same normalised form (genesis rows, block 0, are skipped).
func DumpLogDB(ldb *logdb.LogDB) (events, transfers []string, err error) {
	evs, err := ldb.FilterEvents(context.Background(), &logdb.EventFilter{})
	if err != nil {
		return nil, nil, err
	}
	for _, ev := range evs {
		if ev.BlockNumber == 0 {
			continue
		}
		var tp []string
		for _, t := range ev.Topics {
			if t != nil {
				tp = append(tp, hex.EncodeToString(t[:]))
			}
		}
		events = append(events, fmt.Sprintf("E n=%d li=%d b=%x t=%d tx=%x ti=%d o=%x c=%d a=%x tp=%s d=%x",
			ev.BlockNumber, ev.LogIndex, ev.BlockID.Bytes()[28:], ev.BlockTime, ev.TxID.Bytes()[:6], ev.TxIndex, ev.TxOrigin[:4],
			ev.ClauseIndex, ev.Address[:4], strings.Join(tp, ","), ev.Data))
	}
	trs, err := ldb.FilterTransfers(context.Background(), &logdb.TransferFilter{})
	if err != nil {
		return nil, nil, err
	}
	for _, tr := range trs {
		if tr.BlockNumber == 0 {
			continue
		}
		transfers = append(transfers, fmt.Sprintf("T n=%d li=%d b=%x t=%d tx=%x ti=%d o=%x c=%d s=%x r=%x v=%s",
			tr.BlockNumber, tr.LogIndex, tr.BlockID.Bytes()[28:], tr.BlockTime, tr.TxID.Bytes()[:6], tr.TxIndex, tr.TxOrigin[:4],
			tr.ClauseIndex, tr.Sender[:4], tr.Recipient[:4], tr.Amount))
	}
	return
}

// DiffRows describes the first difference of two row lists ("" if equal).
func DiffRows(want, got []string) string {
	for i := 0; i < len(want) || i < len(got); i++ {
		switch {
		case i >= len(want):
			return fmt.Sprintf("extra row %d in log db: %s", i, got[i])
		case i >= len(got):
			return fmt.Sprintf("missing row %d: %s", i, want[i])
		case want[i] != got[i]:
			return fmt.Sprintf("row %d differs:\n  chain : %s\n  log db: %s", i, want[i], got[i])
		}
	}
	return ""
}

// LogDBMatchesChain compares the log db with the canonical chain.
func LogDBMatchesChain(repo *chain.Repository, ldb *logdb.LogDB) error {
	we, wt, err := CanonicalLogs(repo)
	if err != nil {
		return err
	}
	ge, gt, err := DumpLogDB(ldb)
	if err != nil {
		return err
	}
	if d := DiffRows(we, ge); d != "" {
		return fmt.Errorf("events: %s", d)
	}
	if d := DiffRows(wt, gt); d != "" {
		return fmt.Errorf("transfers: %s", d)
	}
	return nil
}

// SortedKeys is a helper for deterministic output.
func SortedKeys[M ~map[string]V, V any](m M) []string {
	ks := make([]string, 0, len(m))
	for k := range m {
		ks = append(ks, k)
	}
	sort.Strings(ks)
	return ks
}

// TxLookupConsistent checks, for every known transaction id, that the repository finds it from the best head exactly
// when one of the blocks containing it lies on best's chain, and that the meta then points to that block.
// where: tx id -> ids of the blocks (anywhere in the tree, stored or not) that contain it.
func TxLookupConsistent(repo *chain.Repository, where map[thor.Bytes32][]thor.Bytes32) error {
	best := repo.BestBlockSummary()
	c := repo.NewChain(best.Header.ID())
	for id, blocks := range where {
		var on *thor.Bytes32
		for i := range blocks {
			if block.Number(blocks[i]) > best.Header.Number() {
				continue
			}
			if has, err := c.HasBlock(blocks[i]); err == nil && has {
				on = &blocks[i]
				break
			}
		}
		meta, err := c.GetTransactionMeta(id)
		switch {
		case err != nil && !repo.IsNotFound(err):
			return fmt.Errorf("tx %x: lookup error: %w", id.Bytes()[:4], err)
		case err == nil && on == nil:
			return fmt.Errorf("tx %x is reported at block #%d.%d but no block containing it is on the best chain", id.Bytes()[:4], meta.BlockNum, meta.BlockConflicts)
		case err != nil && on != nil:
			return fmt.Errorf("tx %x is on the best chain (block #%d) but not found by id", id.Bytes()[:4], block.Number(*on))
		case err == nil && meta.BlockNum != block.Number(*on):
			return fmt.Errorf("tx %x: meta points to block #%d, it is in #%d", id.Bytes()[:4], meta.BlockNum, block.Number(*on))
		}
		if err == nil {
			if t, _, e := c.GetTransaction(id); e != nil {
				return fmt.Errorf("tx %x: body unreadable: %w", id.Bytes()[:4], e)
			} else if t.ID() != id {
				return fmt.Errorf("tx %x: lookup returns another transaction (%x)", id.Bytes()[:4], t.ID().Bytes()[:4])
			}
			if _, e := c.GetTransactionReceipt(id); e != nil {
				return fmt.Errorf("tx %x: receipt unreadable: %w", id.Bytes()[:4], e)
			}
		}
	}
	return nil
}
