// Package txkit builds signed thor transactions from small templates.  It is shared by the block production /
// block rule drivers (C01, C02): a transaction is  Build(env, originKey, opt, clauses...)  where the clauses come from
// the helpers below (VET / VTHO transfer, executor calls to the Authority and Params built-ins, Staker calls, a clause
// that always reverts, a clause that makes the runtime abort) and Opt selects the envelope: legacy or dynamic-fee (typed), VIP-191 delegated, dependent
// (DependsOn), explicit gas / expiration / block ref.
//
// Nothing here reads a chain: the caller supplies the chain tag, the block ref and (after GALACTICA) the base fee
// of the block the transaction is meant for.  All functions are deterministic; nonces come from Env.Nonce.
package txkit

import (
	"crypto/ecdsa"
	"math"
	"math/big"

	"github.com/vechain/thor/v2/abi"
	"github.com/vechain/thor/v2/builtin"
	"github.com/vechain/thor/v2/thor"
	"github.com/vechain/thor/v2/tx"
)

// Env is what a template needs to know about the chain and the block the transaction is meant for.
type Env struct {
	ChainTag byte
	Ref      uint32   // block ref (a block number at or below the target block)
	BaseFee  *big.Int // base fee of the target block; nil before GALACTICA (typed transactions are then not built)
	nonce    uint64
}

// NewEnv starts a nonce sequence at seed<<20 so that transactions of different runs differ.
func NewEnv(chainTag byte, seed uint64) *Env { return &Env{ChainTag: chainTag, nonce: seed << 20} }

// For returns a copy of e aimed at a block with the given ref and base fee, sharing the nonce sequence.
func (e *Env) For(ref uint32, baseFee *big.Int) *Env { e.Ref, e.BaseFee = ref, baseFee; return e }

func (e *Env) next() uint64 { e.nonce++; return e.nonce }

// Opt selects the envelope of a transaction.
type Opt struct {
	Typed      bool              // dynamic-fee transaction (needs Env.BaseFee; falls back to legacy otherwise)
	Delegator  *ecdsa.PrivateKey // VIP-191: gas payer signs too
	DependsOn  *thor.Bytes32
	Gas        uint64 // 0 = 400_000 + 100_000 per clause
	Expiration uint32 // 0 = practically never
	Coef       uint8  // legacy gas price coefficient
	TipGwei    int64  // typed: max priority fee per gas, in 1e9 wei
	FeeCap     *big.Int
}

// Build signs a transaction made of the clauses with the origin key.
func Build(e *Env, origin *ecdsa.PrivateKey, o Opt, clauses ...*tx.Clause) *tx.Transaction {
	typ := tx.TypeLegacy
	if o.Typed && e.BaseFee != nil {
		typ = tx.TypeDynamicFee
	}
	gas := o.Gas
	if gas == 0 {
		gas = 400_000 + 100_000*uint64(len(clauses))
	}
	exp := o.Expiration
	if exp == 0 {
		exp = math.MaxUint32 / 2
	}
	b := tx.NewBuilder(typ).ChainTag(e.ChainTag).BlockRef(tx.NewBlockRef(e.Ref)).Expiration(exp).Nonce(e.next()).Gas(gas).
		DependsOn(o.DependsOn)
	for _, c := range clauses {
		b.Clause(c)
	}
	if typ == tx.TypeDynamicFee {
		tip := new(big.Int).Mul(big.NewInt(o.TipGwei), big.NewInt(1_000_000_000))
		fee := o.FeeCap
		if fee == nil {
			fee = new(big.Int).Mul(e.BaseFee, big.NewInt(2))
			fee.Add(fee, tip)
		}
		if tip.Cmp(fee) > 0 {
			tip.Set(fee)
		}
		b.MaxFeePerGas(fee).MaxPriorityFeePerGas(tip)
	} else {
		b.GasPriceCoef(o.Coef)
	}
	if o.Delegator != nil {
		b.Features(tx.DelegationFeature)
		return tx.MustSignDelegated(b.Build(), origin, o.Delegator)
	}
	return tx.MustSign(b.Build(), origin)
}

// VET returns n VET in wei.
func VET(n uint64) *big.Int {
	return new(big.Int).Mul(new(big.Int).SetUint64(n), big.NewInt(1e18))
}

func encode(a *abi.ABI, name string, args ...any) []byte {
	m, ok := a.MethodByName(name)
	if !ok {
		panic("txkit: no method " + name)
	}
	d, err := m.EncodeInput(args...)
	if err != nil {
		panic("txkit: " + name + ": " + err.Error())
	}
	return d
}

// Call is a clause calling `to` with data.
func Call(to thor.Address, data []byte) *tx.Clause { return tx.NewClause(&to).WithData(data) }

// Transfer moves wei VET to `to`.
func Transfer(to thor.Address, wei *big.Int) *tx.Clause { return tx.NewClause(&to).WithValue(wei) }

// EnergyTransfer moves VTHO through the Energy built-in.
func EnergyTransfer(to thor.Address, amount *big.Int) *tx.Clause {
	return Call(builtin.Energy.Address, encode(builtin.Energy.ABI, "transfer", to, amount))
}

// AuthorityAdd is Authority.add (executor only; emits Candidate(master, "added")).
func AuthorityAdd(master, endorsor thor.Address, identity thor.Bytes32) *tx.Clause {
	return Call(builtin.Authority.Address, encode(builtin.Authority.ABI, "add", master, endorsor, identity))
}

// AuthorityRevoke is Authority.revoke (executor, or anybody once the endorsor is below the endorsement).
func AuthorityRevoke(master thor.Address) *tx.Clause {
	return Call(builtin.Authority.Address, encode(builtin.Authority.ABI, "revoke", master))
}

// ParamsSet is Params.set (executor only; emits Set(key, value)).
func ParamsSet(key thor.Bytes32, value *big.Int) *tx.Clause {
	return Call(builtin.Params.Address, encode(builtin.Params.ABI, "set", key, value))
}

// StakerAddValidation queues a validation; the origin becomes the endorser and pays stakeVET.
func StakerAddValidation(validator thor.Address, period uint32, stakeVET uint64) *tx.Clause {
	return Call(builtin.Staker.Address, encode(builtin.Staker.ABI, "addValidation", validator, period)).WithValue(VET(stakeVET))
}

// StakerIncreaseStake adds vet to a validation (origin must be its endorser).
func StakerIncreaseStake(validator thor.Address, vet uint64) *tx.Clause {
	return Call(builtin.Staker.Address, encode(builtin.Staker.ABI, "increaseStake", validator)).WithValue(VET(vet))
}

// StakerDecreaseStake schedules a decrease.
func StakerDecreaseStake(validator thor.Address, vet uint64) *tx.Clause {
	return Call(builtin.Staker.Address, encode(builtin.Staker.ABI, "decreaseStake", validator, VET(vet)))
}

// StakerWithdraw withdraws whatever is withdrawable (a queued validation leaves the queue).
func StakerWithdraw(validator thor.Address) *tx.Clause {
	return Call(builtin.Staker.Address, encode(builtin.Staker.ABI, "withdrawStake", validator))
}

// StakerSignalExit signals the exit of an active validation.
func StakerSignalExit(validator thor.Address) *tx.Clause {
	return Call(builtin.Staker.Address, encode(builtin.Staker.ABI, "signalExit", validator))
}

// StakerSetBeneficiary sets (zero address: clears) the reward beneficiary of a validation.
func StakerSetBeneficiary(validator, beneficiary thor.Address) *tx.Clause {
	return Call(builtin.Staker.Address, encode(builtin.Staker.ABI, "setBeneficiary", validator, beneficiary))
}

// Reverting is a clause that reverts whoever sends it (Authority.add with a zero node master fails its first require),
// so a transaction containing it is reverted as a whole: no state change besides the gas payment, no events, no transfers.
func Reverting() *tx.Clause {
	return AuthorityAdd(thor.Address{}, thor.Address{}, thor.Bytes32{})
}

// Aborting is a contract creation whose init code STATICCALLs Energy.transfer: a built-in state-changing method invoked
// in a read-only frame makes the runtime abort the whole transaction with an execution error (not a revert).  The packer
// must skip such a transaction and leave no trace of it in the state; a validator never sees it.
func Aborting() *tx.Clause {
	code := []byte{0x63, 0xa9, 0x05, 0x9c, 0xbb, 0x60, 0xe0, 0x1b, 0x60, 0x00, 0x52} // mem[0..4) = selector of transfer(address,uint256)
	code = append(code, 0x60, 0x01, 0x60, 0x24, 0x52)                                // amount = 1 (a zero amount touches nothing)
	code = append(code, 0x60, 0x00, 0x60, 0x00, 0x60, 0x44, 0x60, 0x00, 0x73)        // retSize retOff argsSize argsOff PUSH20
	code = append(code, builtin.Energy.Address.Bytes()...)
	code = append(code, 0x5a, 0xfa, 0x00) // GAS STATICCALL STOP
	return tx.NewClause(nil).WithData(code)
}
