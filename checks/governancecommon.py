"""Governance step of C05 (growth, DESIGN section 8): specs/builtin/Governance.tla bound to the real Executor / Params /
Authority contracts (real bytecode through runtime.ExecuteTransaction) and to a real chain governed by the real Executor.
All signatures start with 'governance:'."""
import json
import os

import authoritycommon as ac
from verifkit import Infra, read_ndjson, write_ndjson

SUB = "builtin"


def design_level(ctx):
    q = ctx.quick
    ctx.tlc_must_hold(SUB, "MCGovernance", cfg="MCGovernance_quick.cfg" if q else "MCGovernance_thorough.cfg", workers=4,
                      timeout=600 if q else 3000, label="governance: executor, params, authority effect")
    guards = ["X_QuorumOfCurrentApprovers"] if q else ["X_QuorumOfCurrentApprovers", "X_ApprovalsAreInPower", "X_ExecutorStaysContract"]
    base = open(os.path.join(ctx.specdir(SUB), "MCGovernance_quick.cfg")).read()
    for g in guards:
        r = ctx.tlc(SUB, "MCGovernance", cfg="guard.cfg", files={"guard.cfg": base.replace("INVARIANT QuorumSane", "INVARIANT " + g)},
                    workers=4, timeout=600, count=False, label="reachability of a contract fact: not " + g)
        if r.invariant != g:
            raise Infra("governance: the statement %s should be refuted by the model (it names a fact of the contract): %s"
                        % (g, r.invariant or r.error))
    ctx.cov.setdefault("vacuity_guards_refuted", [])
    ctx.cov["vacuity_guards_refuted"] += guards


def replay(ctx, num):
    r = ctx.tlc(SUB, "MCGovernanceSim", cfg="MCGovernanceSim.cfg", workers=1, simulate="num=%d" % num, depth=37, timeout=1200,
                label="governance behaviour export for replay", count=False)
    if r.invariant or r.error or r.timeout:
        raise Infra("governance behaviour export failed: %s\n%s" % (r.invariant or r.error or "timeout", r.out[-1500:]))
    files = sorted(f for f in os.listdir(r.workdir) if f.startswith("gbeh_"))
    if not files:
        raise Infra("TLC exported no governance behaviour")
    # binding demonstration: one expected outcome and one expected getter value corrupted => the replayer must object
    demo = ctx.tmp("gov-demo-in")
    beh = json.load(open(os.path.join(r.workdir, files[0])))
    k = next((i for i, s in enumerate(beh["steps"]) if s["a"] == "propose" and s["res"] == "ok"), None)
    if k is None:
        raise Infra("governance binding demonstration: no successful propose in the first behaviour")
    b1 = json.loads(json.dumps(beh))
    b1["steps"][k]["res"] = "builtin: no approvers"
    b2 = json.loads(json.dumps(beh))
    b2["steps"][k]["proj"]["props"][-1]["quorum"] += 1
    json.dump(b1, open(os.path.join(demo, "gbeh_outcome.json"), "w"))
    json.dump(b2, open(os.path.join(demo, "gbeh_quorum.json"), "w"))
    summ, _ = ac.run_driver(ctx, "gov-replay-demo", ["-mode", "gov-replay", "-in", demo])
    if summ is not None and len({m["where"] for m in summ["mismatches"]}) != 2:
        raise Infra("governance binding demonstration failed: corrupted behaviours were replayed without objection: %s" % summ["mismatches"])
    ctx.cov["governance_replay_binding_demo"] = "corrupted expected outcome and corrupted expected quorum -> %s" % (
        [(m["where"], m["field"]) for m in summ["mismatches"]] if summ else "panic")
    summ, _ = ac.run_driver(ctx, "gov-replay", ["-mode", "gov-replay", "-in", r.workdir])
    if summ is None:
        return None
    seen = set()
    for m in summ["mismatches"]:
        f = m["field"].split(".")
        sig = "governance:replay:%s:%s" % (m["action"], ".".join(f[:2]) if f[0] == "proj" else f[0])
        if sig in seen or len(seen) >= 3:
            continue
        seen.add(sig)
        rp = ctx.save_replay("governance-replay-%s-step%d-seed%d.json" % (m["where"].replace(".json", ""), m["step"], ctx.seed),
                             {"how": {"mode": "governance-replay", "tlc_seed": ctx.seed, "num": num}, "mismatch": m,
                              "all_mismatches": summ["mismatches"][:10],
                              "behaviour": json.load(open(os.path.join(r.workdir, m["where"])))})
        ctx.report(sig, "governance replay: behaviour %s step %d (%s): the real contracts give %s = %s, Governance.tla says %s"
                   % (m["where"], m["step"], m["action"], m["field"], json.dumps(m["got"])[:200], json.dumps(m["want"])[:200]), rp)
    ctx.cov["traces_validated_against_impl"] += summ["behaviours"] - len({m["where"] for m in summ["mismatches"]})
    return summ


def chain(ctx):
    args = ["-mode", "gov-chain", "-seed", ctx.seed]
    summ, out = ac.run_driver(ctx, "gov-chain", args)
    if summ is None:
        return None
    how = {"mode": "governance-chain", "driver_args": [str(a) for a in args]}
    for d in summ["divergences"][:2]:
        rp = ctx.save_replay("governance-chain-seed%d.json" % ctx.seed, {"how": how, "divergences": summ["divergences"]})
        ctx.report("governance:chain:" + ("refused-block" if "refused" in d else "outcome" if "expects" in d else "proposer-set"),
                   "governance chain: " + d, rp)
    path = os.path.join(out, "trace.ndjson")
    ok, hwm, ln, r = ac.validate(ctx, path)
    if not ok:
        events = read_ndjson(path)
        idx = max(hwm - 1, 0) if r.invariant else min(hwm, len(events) - 1)
        ev = events[idx]
        short = {k: v for k, v in ev.items() if k != "proj" and not (isinstance(v, list) and len(v) > 8)}
        sig = "governance:chain-invariant:" + r.invariant if r.invariant else "governance:chain-rejected:" + ev["e"]
        rp = ctx.save_replay("governance-chain-trace-seed%d.json" % ctx.seed, {"how": how, "offending_index": idx, "offending_event": ev, "events": events})
        ctx.report(sig, "governance chain: event #%d %s: the proposer set / authority state after a governance decision is not what "
                   "Authority.tla derives" % (idx, json.dumps(short, sort_keys=True)[:400]), rp)
    else:
        ctx.cov["traces_validated_against_impl"] += 1
    return summ


def step(ctx):
    q = ctx.quick
    design_level(ctx)
    rep = replay(ctx, 40 if q else 800)
    ch = chain(ctx)
    cov = {}
    if rep:
        cov["replay"] = {k: v for k, v in rep.items() if k != "mismatches"}
        cov["replay"]["mismatches"] = len(rep["mismatches"])
    if ch:
        cov["chain"] = ch
    ctx.cov["governance"] = cov
    ev = (rep["projections_compared"] if rep else 0) + (ch["blocks"] if ch else 0)
    dn = rep["distinct_nontrivial"] if rep else 0
    ctx.log("governance: %d replayed transactions compared on the real contracts (%d proposals executed), %d real blocks under the real Executor"
            % (rep["projections_compared"] if rep else 0, sum(rep["executed_operations"].values()) if rep else 0, ch["blocks"] if ch else 0))
    return ev, dn
