"""C11 - blocks, transactions and receipts have one canonical encoding bound to their id.  DESIGN section 5 (C11)."""
import codeccommon as cc


def run(ctx):
    q = ctx.quick
    binp = ctx.build("codec")
    if ctx.replay:
        cc.rerun_artifact(ctx, binp, ctx.replay)
        return
    demos = []
    # 1. design level + model -> implementation: TLC checks RoundTrip (Decode(x) accepted => Encode(Decode(x)) = x) over
    #    the family of abstract encodings (one node of a valid object respelt / reshaped) and exports bytes + verdicts;
    #    the real decoders must give the same verdicts, re-encode accepted inputs byte-identically, report Size() = length
    #    of the canonical encoding, stable id/hash, and survive every accessor. The stream entry points
    #    (rlp.NewStream(reader, limit).Decode, rlp.Decode) get the same cases: verdict and bytes consumed per Codec!StreamDecode.
    cases, tables = cc.model_cases(ctx, "MC_Codec_quick.cfg", "single-site family", 600)
    r1 = cc.replay(ctx, binp, cases, "singles")
    demos.append(cc.replay_binding_demo(ctx, binp, cases))
    results = [r1]
    cases2, _ = cc.model_cases(ctx, "MC_Codec_pairs_quick.cfg" if q else "MC_Codec_thorough.cfg",
                               "two-site family (3 targets)" if q else "two-site family (all targets)", 600 if q else 3000)
    results.append(cc.replay(ctx, binp, cases2, "pairs"))
    # 2. implementation -> model: seeded mutants of valid signed objects, every verdict re-derived by Trace_Codec.tla
    batches = [(12000, 0)] if q else [(25000, k) for k in range(8)]
    mres = []
    for n, off in batches:
        m = cc.mutants(ctx, binp, n, "b%d" % off, seed_offset=off)
        if m is not None:
            mres.append(m)
    if mres:
        demos.append(cc.trace_binding_demo(ctx, mres[0]["_events"][:1200] + mres[0]["_events"][-1:]))
    # 3. id binding: the signed-field tables of Codec.tla, perturbed one field at a time on real signed objects, for every
    #    boundary base object of Codec.tla (base fee absent/0/1/large, alpha empty or not, COM, gas 0; tx fees / expiration /
    #    nonce 0, empty clause list, dependsOn nil, delegated)
    ib = cc.idbind(ctx, binp, tables)
    demos.append(cc.idbind_binding_demo(ctx, binp, tables))

    results = [r for r in results if r]
    cov = ctx.cov
    cov["evaluations"] = sum(r["evaluations"] for r in results) + sum(m["evaluations"] for m in mres) + (ib["evaluations"] if ib else 0)
    cov["distinct_nontrivial"] = sum(r["nontrivial"] for r in results) + sum(m["nontrivial"] for m in mres)
    cov["traces_validated_against_impl"] = sum(r["evaluations"] for r in results) + sum(m["validated"] for m in mres)
    cov["model_cases_replayed"] = sum(r["evaluations"] for r in results)
    cov["model_cases_accept_reject"] = [sum(r["accepted"] for r in results), sum(r["rejected"] for r in results)]
    cov["mutants_validated_by_trace_spec"] = sum(m["validated"] for m in mres)
    cov["mutants_accept_reject"] = [sum(m["accepted"] for m in mres), sum(m["rejected"] for m in mres)]
    cov["mutant_batches"] = len(mres)
    cov["mutation_ops"] = mres[0]["extra"]["ops"] if mres else {}
    cov["id_binding_perturbations"] = ib["evaluations"] if ib else 0
    cov["stream_entry_point_cases"] = sum(r["extra"].get("stream_cases", 0) for r in results)
    cov["inputs_too_long_for_the_trace"] = sum(m["extra"].get("inputs_too_long_for_the_trace", 0) for m in mres)
    cov["observations_not_judged"] = {
        "tx_decoded_into_an_already_used_Transaction_keeps_the_old_memoised_id":
            sum(r["extra"].get("tx_decoded_into_used_object_keeps_old_id", 0) for r in results)
            + sum(m["extra"].get("tx_decoded_into_used_object_keeps_old_id", 0) for m in mres)}
    tb = __import__("json").load(open(tables))
    cov["id_binding_base_objects"] = {"tx": len(tb["txBases"]), "header": len(tb["headerBases"])}
    cov["binding_demo"] = "; ".join(demos)
    cov["rule"] = ("evaluation = one byte string decoded by the real types through one entry point (tx UnmarshalBinary / DecodeRLP, "
                   "header, block + RawBlock, receipt), or one id-binding perturbation. distinct = distinct (entry point, bytes). "
                   "non-trivial: model cases other than the untouched canonical object; mutants whose outermost item is "
                   "well-formed and spans the input (so the field-level rules decide) and that differ from the valid base. "
                   "traces_validated_against_impl = TLC-exported cases replayed on the real decoders + mutant decode events "
                   "accepted line by line by Trace_Codec.tla")
    cov["exhaustive"] = False
    ctx.assumptions += [
        "blake2b / keccak / secp256k1 recovery are injective oracles (an id change is observed, not proved)",
        "block id = number || H(signingHash, signer)[4:] and tx id = H(signingHash, origin) BY PROTOCOL: the signature is bound "
        "through the recovered signer only, so signature malleability that recovers the same signer (VRF-proof bytes 65..145 of a "
        "header signature, the ECDSA high-s twin) keeps the id; 'header field' is read as the content fields covered by the "
        "signing hash plus the signer",
        "a header without base fee does not sign its extension (alpha, COM): id binding of the extension is claimed only for "
        "headers that carry a base fee, as the property states",
        "inputs are < 16 MB (length-of-length > 3 bytes is treated as larger than the input)",
        "the byte space outside the enumerated family is sampled by seeded mutants, not enumerated",
        "reserved.Unused items and rlp.RawValue contents are opaque: they round-trip byte-identically, their inner form is not judged",
        "stream entry points are exercised over a bytes.Reader with limit len / len-1 / 0 and rlp.Decode (what p2p msg.Decode does with "
        "limit = msg.Size); an UNLIMITED reader (documented by the rlp package as able to allocate the declared size) is not used by thor "
        "for untrusted input and is not exercised",
        "decode targets of tx.Transaction are fresh objects (as everywhere in thor): Transaction.setDecoded keeps the memoised id/hash of "
        "an already used object - observed, counted in observations_not_judged, not judged; Header and Block decode replace the whole "
        "object and ARE judged when decoded into a used one",
        "termination oracle: one input (all entry points + re-encoding + accessors) gets 1 s + 2 us/byte and 64 MB + 128 B/byte; "
        "exceeded twice in a row = nonterminating:<kind>, exceeded once = infrastructure noise (exit 2)",
        "the independent list root (harness/cmd/codec/refroot.go: RLP + hex-prefix + blake2b) is the reference for trie.DeriveRoot",
    ]
    if cov.get("termination_budget", {}).get("flaky", 0) > 0 and not ctx.violations:
        from verifkit import Infra
        raise Infra("%d input(s) exceeded the decode time/allocation budget once but not when repeated (loaded machine?): not an "
                    "observation on the real code" % cov["termination_budget"]["flaky"])
