"""Shared by C15: record traces of the real log index (cmd/logindex) and validate them with Trace_LogIndex.tla."""
import json
import os
import re

from verifkit import Infra, VERIF, read_ndjson, write_ndjson

SUB, TRACE_SPEC = "store", "Trace_LogIndex"


def build(ctx):
    """ctx.build hands cmd/thor/sync_logdb.go of ctx.repo to the compiler through a per-run -overlay (verifkit), so the
    driver is always compiled from OUR tree's copy; nothing to re-check here."""
    return ctx.build("logindex")


def record(ctx, scen, runs, blocks, queries, label, seed, extra=()):
    """Run the driver. Returns (config_event, [run, ...], stats); run = list of events starting with Reset.
    Every call into the code under test (import, restart + syncLogDB, log-db reads and writes, API handlers) is guarded
    inside the driver: its errors and panics are Error events of the trace (rejected by the trace specification, hence a
    VIOLATION with the position). A driver that dies nevertheless died in its own code, in the set-up (minting on the
    omniscient stack) or of resource exhaustion: infrastructure trouble, never a verdict."""
    binp = build(ctx)
    out = ctx.tmp("rec-" + label)
    rc, o = ctx.run([binp, "-out", out, "-runs", str(runs), "-seed", str(seed), "-scen", scen, "-blocks", str(blocks),
                     "-queries", str(queries)] + list(extra), timeout=3000)
    if rc == 3:
        raise Infra("logindex harness error: " + o[-1500:])
    if rc != 0:
        raise Infra("logindex driver died (rc=%s; not inside a guarded call into thor): %s" % (rc, o[-2500:]))
    events = read_ndjson(os.path.join(out, "trace.ndjson"))
    stats = json.load(open(os.path.join(out, "runs.json")))
    return events[0], split_streams(events[1:]), stats


def split_streams(events):
    streams = []
    for e in events:
        if e["e"] == "Reset":
            streams.append([])
        streams[-1].append(e)
    return streams


def brief(ev):
    """An event without its bulky lists."""
    out = {}
    for k, v in ev.items():
        if isinstance(v, list) and len(v) > 12:
            out[k] = "<%d items>" % len(v)
        else:
            out[k] = v
    return out


def diagnose(cfg, ev):
    """A hint for the reader of a report (not part of the verdict): rows of blocks that are not on the chain of the
    node's best block, and blocks of that chain whose logs are missing from the tables that were read back."""
    if "E" not in ev or ev.get("best") not in cfg["blocks"]:
        return ""
    blocks, rows = cfg["blocks"], cfg["rows"]
    chain, b = [], ev["best"]
    while True:
        chain.append(b)
        if blocks[b]["n"] == 0:
            break
        b = blocks[b]["p"]
    onchain = set(chain)
    got = [rows[r] for r in ev["E"] + ev["T"]]
    stale = sorted({"%s(height %d)" % (r["b"], r["n"]) for r in got if r["b"] not in onchain})
    have = {r["b"] for r in got}
    haslogs = lambda f: any(o["ev"] or o["tr"] for t in f["txs"] for o in t["outs"])
    missing = sorted("%s(height %d)" % (b, blocks[b]["n"]) for b in chain if haslogs(blocks[b]) and b not in have)
    out = []
    if stale:
        out.append("rows of blocks NOT on the canonical chain: " + ", ".join(stale))
    if missing:
        out.append("canonical blocks whose logs are missing: " + ", ".join(missing))
    return "; ".join(out)


def signature(stream, off, invariant):
    ev = stream[off]
    if invariant:
        return "invariant:" + invariant
    kind = ev["e"]
    if kind == "Error":
        # a call into thor code failed: the class of the call and the head of the message (block numbers and ids vary)
        return "%s-error:%s" % (ev.get("what"), re.sub(r"[0-9a-fx]{8,}|\d+", "#", str(ev.get("err", "")))[:80])
    if kind == "Import":
        return "tables-differ:import-%s" % ("best" if ev.get("trunk") else "side")
    if kind in ("Crash", "Restart", "SyncCancel", "WriteErr", "Reset"):
        return "tables-differ:" + kind.lower()
    if kind == "Pack":
        return "tables-differ:own-block-%s" % ("best" if ev.get("trunk") else "side")
    if kind == "SeqBound":
        return "sequence-packing:" + ("refused" if ev.get("err") else "accepted")
    if kind == "Q":
        return "query-differs:%s" % ev.get("k")
    if kind == "Api":
        return "api-differs:%s" % ev.get("k")
    return "rejected:" + kind


def locate(streams, pending, hwm):
    """hwm = 0-based line index (line 0 = Config) of the first unmatched event, or of the event whose consumption led to
    a state violating an invariant. Returns (stream index, offset in the stream) or (None, None)."""
    pos = 1
    for k in pending:
        n = len(streams[k])
        if pos <= hwm < pos + n:
            return k, hwm - pos
        pos += n
    return None, None


def validate(ctx, cfg, streams, label, how, timeout=3000):
    """Validate all streams in one TLC run; on rejection isolate the offending stream, report it, continue with the rest.
    Returns the number of accepted streams."""
    pending = list(range(len(streams)))
    accepted_n = 0
    guard = 0
    while pending:
        guard += 1
        if guard > 8:
            ctx.cov["validation_stopped_early"] = "more than 8 rejected streams in batch %s" % label
            break
        evs = [cfg] + [e for k in pending for e in streams[k]]
        path = os.path.join(ctx.tmp("val-" + label), "trace-%d.ndjson" % guard)
        write_ndjson(path, evs)
        accepted, hwm, ln, r = ctx.validate_trace(SUB, TRACE_SPEC, path, timeout=timeout, heap="6g")
        ctx.cov["states"] += r.distinct
        ctx.cov["transitions"] += r.generated
        if accepted:
            accepted_n += len(pending)
            break
        # an event no action of the specification allows, or (r.invariant) a state of the recorded execution that violates
        # an invariant of LogIndex.tla: both are observations on the real code with a position
        bad, off = locate(streams, pending, hwm)
        if bad is None:
            raise Infra("trace rejected but the offending stream was not found (hwm=%d len=%d invariant=%s)\n%s"
                        % (hwm, ln, r.invariant, r.out[-2000:]))
        stream = streams[bad]
        ev, hdr = stream[off], stream[0]
        if r.invariant:
            what = "the state after this event violates invariant %s of LogIndex.tla" % r.invariant
        elif ev["e"] == "Error":
            what = "thor code failed: %s: %s" % (ev.get("what"), ev.get("err"))
        else:
            what = "not what LogIndex.tla computes from the receipts of the node's chain"
        sig = signature(stream, off, r.invariant)
        # the last state-changing event before the offending one tells where the log db went wrong
        last_change = next((brief(e) for e in reversed(stream[:off + 1]) if e["e"] in ("Import", "Pack", "Crash", "Restart", "Reset", "SyncCancel", "WriteErr")), None)
        tr = ctx.save_replay("%s-%s-seed%s.ndjson" % (label, hdr.get("name"), hdr.get("seed")),
                             "\n".join(json.dumps(e, sort_keys=True) for e in [cfg] + stream) + "\n")
        ctx.save_replay("%s-%s-seed%s.json" % (label, hdr.get("name"), hdr.get("seed")),
                        {"how": how, "stream": hdr.get("name"), "scenario": hdr.get("scen"), "seed": hdr.get("seed"),
                         "offending_index_in_stream": off, "offending_line_in_trace_file": off + 2,
                         "offending_event": ev, "last_state_change": last_change, "tlc_verdict": what, "hint": diagnose(cfg, ev), "trace_file": tr})
        hint = diagnose(cfg, ev)
        ctx.report(sig, "%s: scenario=%s stream=%s seed=%s event #%d %s -> %s (after %s)%s" %
                   (label, hdr.get("scen"), hdr.get("name"), hdr.get("seed"), off, json.dumps(brief(ev), sort_keys=True), what,
                    json.dumps({k: last_change.get(k) for k in ("e", "b", "trunk", "best")} if last_change else None),
                    " [" + hint + "]" if hint else ""), tr)
        ctx.cov["rejected_streams"] = ctx.cov.get("rejected_streams", 0) + 1
        idx = pending.index(bad)
        accepted_n += idx
        pending = pending[idx + 1:]
    ctx.cov["traces_validated_against_impl"] += accepted_n
    return accepted_n


def fabricate_no_truncate(cfg, stream):
    """Rewrite a recorded stream into what a node WITHOUT the truncate in writeLogs would have shown: at the first
    best-import that drops rows, the old table's rows stay and the new rows only fill free keys (INSERT OR IGNORE).
    The stream is cut there. Returns (events, index of that import) or (None, None)."""
    rows = cfg["rows"]
    key = lambda x: (rows[x]["n"], rows[x]["ti"], rows[x]["li"])
    prev = None
    for j, e in enumerate(stream):
        if "E" not in e:
            continue
        if prev is not None and e["e"] == "Import" and e["trunk"] and (set(prev["E"]) - set(e["E"]) or set(prev["T"]) - set(e["T"])):
            v = dict(e)
            for k in ("E", "T"):
                occupied = {key(x) for x in prev[k]}
                v[k] = sorted(prev[k] + [x for x in e[k] if key(x) not in occupied], key=key)
            v.pop("nilE", None), v.pop("nilT", None)
            return [dict(x) for x in stream[:j]] + [v], j
        if e["e"] in ("Import", "Reset", "Restart"):
            prev = e
        elif e["e"] != "Ignore":
            prev = None
    return None, None


def binding_demo(ctx, seed, full=True):
    """The trace spec must have teeth. Recorded traces with one row corrupted, one import deleted, one query answer
    shortened, an API answer reversed, a failed call into thor (Error event) must ALL be rejected at the right place; and a
    recorded execution on which the design itself is wrong (spec and observations agree, the tables are NOT the canonical
    chain's: fabricated from a real stream, validated against the spec variant without the truncate) must come out as a
    violated invariant at the right place - otherwise the check itself is broken (Infra)."""
    # the demonstration must not depend on the luck of one seed: record, take a stream that is rich enough, and if there is
    # none (or no material for the fabricated execution), record again with the next seed and more blocks
    def shape(st):
        imports = [i for i, e in enumerate(st) if e["e"] == "Import" and e["trunk"] and len(e["E"]) > 9]
        queries = [i for i, e in enumerate(st) if e["e"] == "Q" and len(e["res"]) > 1]
        apis = [i for i, e in enumerate(st) if e["e"] == "Api" and e["status"] == 200 and e["cnt"] > 0]
        return imports, queries, apis

    tried = []
    for attempt in range(8):
        cfg, streams, _ = record(ctx, "reorg,crash", 2, 12 + 4 * attempt, 8, "demo%d" % attempt, seed + 7907 * attempt)
        if cfg is None:
            raise Infra("binding demo: driver failed")
        rich = [st for st in streams if len(shape(st)[0]) >= 3 and shape(st)[1] and shape(st)[2]]
        has_fab = any(fabricate_no_truncate(cfg, st)[0] for st in streams)
        tried.append("%d rich streams, fabricable=%s" % (len(rich), has_fab))
        if rich and has_fab:
            break
    else:
        raise Infra("binding demo: eight recordings in a row without a usable stream (%s)" % "; ".join(tried))
    if attempt:
        ctx.cov["binding_demo_recordings"] = attempt + 1
    base = min(rich, key=len)            # the shortest stream that is rich enough keeps the demonstration cheap
    out = ctx.tmp("demo-variants")
    imports, queries, apis = shape(base)
    ok, hwm, ln, r = ctx.validate_trace(SUB, TRACE_SPEC, _write(out, "unmodified", [cfg] + base), timeout=600)
    if not ok:
        # the code under test already deviates on the demo stream: nothing can be demonstrated on it; the main
        # validation below reports the deviation
        ctx.cov["binding_demo"] = "skipped: the unmodified demo trace is already rejected (reported by the main validation)"
        return False
    variants = {}          # name -> (events, index in the stream where the rejection must be located, or None)
    # (a) one column of one row that the log db returned is different (clause index + 1)
    i = imports[len(imports) // 2]
    rid = base[i]["E"][-1]
    first_use = next(k for k, e in enumerate(base) if rid in e.get("E", []))
    c2 = json.loads(json.dumps(cfg))
    c2["rows"][rid]["c"] += 1
    variants["corrupted-row"] = ([c2] + base, first_use)
    # (b) one import event deleted: the next observation of the tables cannot be explained
    k = imports[len(imports) // 3]
    variants["deleted-import"] = ([cfg] + base[:k] + base[k + 1:], None)
    # (c) a query answer lost its first row
    qi = queries[len(queries) // 2]
    v = [dict(e) for e in base]
    v[qi]["res"] = v[qi]["res"][1:]
    variants["shortened-query-result"] = ([cfg] + v, qi)
    # (d) a call into thor failed
    ei = imports[-1]
    v = base[:ei] + [{"e": "Error", "what": "import", "err": "error: write logs: disk I/O error", "b": base[ei]["b"]}]
    variants["error-event"] = ([cfg] + v, ei)
    if full:
        # (e) a stale row survives: the table after a best-import still holds a row of the table before it
        j = imports[-1]
        prev = next(e for e in reversed(base[:j]) if e["e"] in ("Import", "Reset", "Restart"))
        stale = [x for x in prev["E"] if x not in base[j]["E"]] or [base[j]["E"][0]]
        v = [dict(e) for e in base]
        v[j]["E"] = sorted(base[j]["E"] + stale[:1], key=lambda x: (cfg["rows"][x]["n"], cfg["rows"][x]["ti"], cfg["rows"][x]["li"]))
        variants["extra-row"] = ([cfg] + v, j)
        # (f) an API answer in the wrong order
        ai = next((a for a in apis if base[a]["hasOpt"] and len(base[a]["res"]) > 1), None)
        v = [dict(e) for e in base]
        if ai is not None:
            v[ai]["res"] = list(reversed(v[ai]["res"]))
            variants["reversed-api-result"] = ([cfg] + v, ai)
        else:
            v[apis[0]]["status"] = 403
            variants["wrong-api-status"] = ([cfg] + v, apis[0])
    for name, (evs, where) in variants.items():
        ok, hwm, ln, r = ctx.validate_trace(SUB, TRACE_SPEC, _write(out, name, evs), timeout=600)
        if ok:
            raise Infra("binding demonstration failed: the %s trace was accepted by Trace_LogIndex" % name)
        if where is not None and hwm - 1 != where:
            raise Infra("binding demonstration failed: the %s trace was rejected at event %d, expected %d" % (name, hwm - 1, where))
    # (g) an invariant violated ON A RECORDED EXECUTION must be found, located and classified as such
    fab, at = next(((f, a) for f, a in (fabricate_no_truncate(cfg, s) for s in streams) if f), (None, None))
    if fab is None:
        raise Infra("binding demo: no reorganisation that drops rows in the demo streams")
    text = open(os.path.join(VERIF, "specs", SUB, TRACE_SPEC + ".cfg")).read().replace('Variant = "ok"', 'Variant = "no-truncate"')
    ok, hwm, ln, r = ctx.validate_trace(SUB, TRACE_SPEC, _write(out, "no-truncate-execution", [cfg] + fab), cfg="nt.cfg",
                                        files={"nt.cfg": text}, timeout=600)
    k, off = locate([fab], [0], hwm)
    if ok or r.invariant != "RowsEqualCanonical" or off != at or signature(fab, off, r.invariant) != "invariant:RowsEqualCanonical":
        raise Infra("binding demonstration failed: an execution whose tables are not the canonical chain's (no truncate, spec "
                    "variant and observations agreeing) must violate RowsEqualCanonical at event %d; got accepted=%s invariant=%s "
                    "event=%s" % (at, ok, r.invariant, off))
    ctx.cov["binding_demo"] = ("rejected at the expected event: " + ", ".join(sorted(variants)) +
                               "; invariant RowsEqualCanonical violated and located on a fabricated no-truncate execution")
    return True


def _write(d, name, evs):
    p = os.path.join(d, name + ".ndjson")
    write_ndjson(p, evs)
    return p
