"""Shared machinery of C06 (world state = Merkle commitment of its logical content).

model -> implementation : TLC exports behaviours of specs/state/MC_StateJournal.tla, harness/cmd/statejournal replays
                          them on a real state.State (getters, revisions, root <-> content bijection);
                          TLC exports content -> shape of specs/state/Trie.tla, harness/cmd/triecheck compares the
                          real trie's root with the reference hash of the shape.
implementation -> model : seeded random histories of the real State are validated by Trace_StateJournal.tla.
"""
import json
import os

from verifkit import Infra, read_ndjson, write_ndjson

SUB = "state"


def extract(out_text, tag, path):
    """TLC prints  "TAG<json>"  (a TLA+ string literal) per exported item; write the json documents to path (ndjson)."""
    n = 0
    with open(path, "w") as f:
        for line in out_text.splitlines():
            if line.startswith('"' + tag):
                try:
                    f.write(json.loads(line)[len(tag):] + "\n")
                except ValueError:
                    raise Infra("unparsable export line from TLC: " + line[:200])
                n += 1
    return n


def driver(ctx, binp, argv, timeout, what):
    rc, o = ctx.run([binp] + argv, timeout=timeout)
    if rc == 3 or "HARNESS-ERROR" in o:
        raise Infra("%s harness error: %s" % (what, o[-1500:]))
    if rc is None:
        raise Infra("%s timed out" % what)
    if rc != 0:
        if "panic:" in o or "goroutine " in o:
            rp = ctx.save_replay("panic-%s-seed%d.txt" % (what, ctx.seed), o[-20000:])
            ctx.report("panic:" + what, "real code panicked outside any attributable operation (%s): %s" % (what, o.strip().splitlines()[:3]), rp)
            return None
        raise Infra("%s failed rc=%s: %s" % (what, rc, o[-2000:]))
    return o


# ------------------------------------------------------------------------------------------ model -> implementation
def export_behaviours(ctx, cfg, label, timeout, simulate=None, depth=None, workers=4):
    """Run MC_StateJournal with an exporting config; the design invariants are part of the config, so a failure is a
    specification-level counterexample (Infra)."""
    r = ctx.tlc(SUB, "MC_StateJournal", cfg=cfg, workers=workers, timeout=timeout, simulate=simulate, depth=depth,
                label=label, count=simulate is None)
    if r.timeout:
        raise Infra("TLC timed out on %s" % cfg)
    if not r.ok:
        raise Infra("spec-level counterexample or TLC error in MC_StateJournal/%s: %s\n%s" % (cfg, r.invariant or r.error, r.out[-3000:]))
    path = os.path.join(ctx.tmp("beh-" + label), "behaviours.ndjson")
    n = extract(r.out, "BEH", path)
    if n == 0:
        raise Infra("TLC exported no behaviour with %s" % cfg)
    ctx.log("TLC %s: %d distinct states, %d behaviours exported, %.1fs" % (cfg, r.distinct, n, r.wall))
    return path, n, r


OPNAMES = {0: "OpenBase", 1: "SetBalance", 2: "SetEnergy", 3: "SetMaster", 4: "SetCode", 5: "SetStorage", 7: "Delete",
           8: "NewCheckpoint", 9: "RevertTo", 10: "Stage", 11: "Commit", 12: "Reopen",
           13: "AddLog", 14: "AddTransfer", 15: "AddRefund", 16: "Suicide"}


def pretty(history, na=2, nk=2):
    out = []
    vl, cl = na * (5 + nk), na * (6 + nk)
    for e in history:
        s = "%s(%s)" % (OPNAMES.get(e[0], e[0]), ",".join(str(x) for x in e[1:4]))
        if e[0] in (0, 10):
            s += " content=" + str(e[4 + vl:4 + vl + cl])
        out.append(s)
    return out


def replay_behaviours(ctx, binp, path, label, roots, stats, limit=0, timeout=3000, result_files=None):
    """Replays a behaviour file on the real State. roots: global content -> root map (bijection across all files)."""
    out = os.path.join(os.path.dirname(path), "result.json")
    argv = ["-mode", "replay", "-in", path, "-out", out, "-seed", str(ctx.seed)]
    if limit:
        argv += ["-limit", str(limit)]
    if driver(ctx, binp, argv, timeout, "statejournal-replay") is None:
        return
    res = json.load(open(out))
    if result_files is not None:
        result_files.append(out)
    for v in res["violations"] or []:
        rp = ctx.save_replay("behaviour-%s-%d-seed%d.json" % (label, v["behaviour"], ctx.seed),
                             {"type": "behaviour", "kind": v["kind"], "offending_index": v["step"], "what": v["what"],
                              "cache": v["cache"], "mode": v["mode"], "history": v["history"],
                              "history_readable": pretty(v["history"])})
        ctx.report("replay:" + v["kind"],
                   "%s: real state.State deviates from StateJournal.tla at step %d of %s: %s" %
                   (label, v["step"], " ; ".join(pretty(v["history"])[:v["step"] + 1])[:900], v["what"][:400]), rp)
    # the bijection content <-> root must also hold across files (exhaustive, simulated, other seeds of this run)
    inv = {r: c for c, r in roots.items()}
    for c, r in res["roots"].items():
        if c in roots and roots[c] != r:
            rp = ctx.save_replay("roots-%s-seed%d.json" % (label, ctx.seed), {"type": "roots", "content": c, "roots": [roots[c], r]})
            ctx.report("replay:root-differs-for-equal-content", "content %s has two roots across behaviour files: %s %s" % (c, roots[c], r), rp)
        if r in inv and inv[r] != c:
            rp = ctx.save_replay("roots-%s-seed%d.json" % (label, ctx.seed), {"type": "roots", "root": r, "contents": [inv[r], c]})
            ctx.report("replay:root-equal-for-different-content", "root %s commits to two contents: %s / %s" % (r, inv[r], c), rp)
        roots[c] = r
        inv[r] = c
    for k in ("behaviours_replayed", "steps", "stages", "reopens", "code_cache_flushes", "stage_hits_on_known_content",
              "build_storage_trie_calls", "committed_leaf_checks", "side_journal_checks", "blind_steps", "sparse_steps"):
        stats[k] = stats.get(k, 0) + res[k]
    ctx.log("replayed %s: %d behaviours, %d steps, %d stages, %d distinct roots, %d violations" %
            (label, res["behaviours_replayed"], res["steps"], res["stages"], res["distinct_roots"], len(res["violations"] or [])))
    return res


# ------------------------------------------------------------------------------------------ trie
def trie_check(ctx, seqlen, persist_every, big, bigkeys, stats):
    r = ctx.tlc(SUB, "MC_Trie", cfg="MC_Trie_keys9_export.cfg", workers=4, timeout=900, label="trie: all contents over 9 keys, unbounded sequences")
    if not r.ok:
        raise Infra("spec-level counterexample or TLC error in MC_Trie/keys9: %s\n%s" % (r.invariant or r.error or "timeout", r.out[-3000:]))
    shapes = os.path.join(ctx.tmp("trie"), "shapes.ndjson")
    n = extract(r.out, "SHP", shapes)
    ctx.log("TLC MC_Trie keys9: %d distinct contents, Canonical holds on %d transitions, %d shapes exported" % (r.distinct, r.generated, n))
    binp = ctx.build("triecheck")
    out = os.path.join(ctx.tmp("trie"), "result.json")
    if driver(ctx, binp, ["-shapes", shapes, "-out", out, "-seed", str(ctx.seed), "-seqlen", str(seqlen), "-persist-every", str(persist_every),
                          "-big", str(big), "-bigkeys", str(bigkeys)], 3000, "triecheck") is None:
        return
    res = json.load(open(out))
    for i, v in enumerate(res["violations"] or []):
        rp = ctx.save_replay("trie-%s-%d-seed%d.json" % (v["kind"], i, ctx.seed), dict(v, type="trie", keys=res["keys"]))
        ctx.report("trie:" + v["kind"], "real trie vs canonical shape (%s, %s): content %s, %s: want %s got %s" %
                   (v["kind"], v["where"], v["content"], v.get("ops", ""), v.get("want"), v.get("got")), rp)
    if res["drift"] and not res["violations"]:
        raise Infra("node layout / shape transcription differs while every root hash agrees (spec drift): %s" % json.dumps(res["drift"][:2])[:1500])
    stats["trie"] = res["counts"]
    stats["trie_distinct_contents"] = res["distinct_nontrivial_contents"]
    ctx.log("triecheck: %s" % res["counts"])
    return res


def states_check(ctx, result_files, stats):
    """root = canonical MPT hash of the content, directly: triecheck recomputes every staged state root, every
    BuildStorageTrie root and every committed account leaf of the replays from the predicted content alone."""
    binp = ctx.build("triecheck")
    out = os.path.join(ctx.tmp("states"), "result.json")
    if driver(ctx, binp, ["-states", "-out", out] + result_files, 600, "triecheck-states") is None:
        return
    res = json.load(open(out))
    for i, v in enumerate(res["violations"] or []):
        rp = ctx.save_replay("states-%s-%d-seed%d.json" % (v["kind"], i, ctx.seed), dict(v, type="states"))
        ctx.report("states:" + v["kind"], "the real %s is not the canonical Merkle-Patricia hash/encoding of the content %s: independent "
                   "encoder says %s, real code produced %s" % (v["kind"], v["content"], v.get("want"), v.get("got")), rp)
    stats["states"] = res["counts"]
    stats["states_distinct_contents"] = res["distinct_state_contents"]
    ctx.log("triecheck -states: %s" % res["counts"])
    return res


# ------------------------------------------------------------------------------------------ implementation -> model
def split_runs(events):
    """A run = the events from a Reset with part A up to the next one (parts B1..B3 belong to the run)."""
    runs = []
    for i, e in enumerate(events):
        if e["e"] == "Reset" and e.get("part") == "A":
            runs.append({"start": i, "events": []})
        runs[-1]["events"].append(e)
    return runs


def record(ctx, binp, runs, ops, label, seed_offset=0):
    out = ctx.tmp("rec-" + label)
    seed = ctx.seed * 131 + seed_offset
    if driver(ctx, binp, ["-mode", "random", "-out", out, "-runs", str(runs), "-ops", str(ops), "-seed", str(seed)], 1800, "statejournal-random") is None:
        return None, None, None
    return read_ndjson(os.path.join(out, "trace.ndjson")), json.load(open(os.path.join(out, "runs.json"))), dict(seed=seed, runs=runs, ops=ops)


def signature(ev, r):
    if ev.get("e") == "Error":
        return "trace:error:%s" % ev.get("what")
    return "trace:rejected:" + str(ev.get("e"))


def validate(ctx, events, stats_per_run, label, how, cfg="Trace_StateJournal.cfg", timeout=3000):
    """Validate the concatenated trace; on rejection isolate the offending run, report, continue with the rest
    (the root registry of the trace spec is rebuilt from the remaining runs)."""
    runs = split_runs(events)
    pending = list(range(len(runs)))
    guard = 0
    accepted_runs = 0
    while pending:
        guard += 1
        if guard > 6:
            ctx.cov["validation_stopped_early"] = "more than 6 rejected runs in batch %s" % label
            break
        evs = [e for k in pending for e in runs[k]["events"]]
        path = os.path.join(ctx.tmp("val-" + label), "trace-%d.ndjson" % guard)
        write_ndjson(path, evs)
        accepted, hwm, ln, r = ctx.validate_trace(SUB, "Trace_StateJournal", path, cfg=cfg, timeout=timeout)
        if r.invariant:
            # the design invariants relate two descriptions inside the specification; the implementation cannot break them
            raise Infra("design invariant %s of StateJournal.tla fails on a recorded trace (specification bug)\n%s" % (r.invariant, r.out[-2000:]))
        ctx.cov["states"] += r.distinct
        ctx.cov["transitions"] += r.generated
        if accepted:
            accepted_runs += len(pending)
            break
        pos, bad = 0, None
        for k in pending:
            n = len(runs[k]["events"])
            if hwm < pos + n:
                bad, off = k, hwm - pos
                break
            pos += n
        if bad is None:
            raise Infra("trace rejected but offending run not found (hwm=%d len=%d)\n%s" % (hwm, ln, r.out[-2000:]))
        ev = runs[bad]["events"][off]
        hdr = runs[bad]["events"][0]
        rp = ctx.save_replay("trace-%s-run%d-seed%s.json" % (label, hdr.get("run"), hdr.get("seed")),
                             {"type": "trace", "how": how, "run_header": hdr, "offending_index": off, "offending_event": ev,
                              "stats": stats_per_run[bad] if bad < len(stats_per_run) else None,
                              "trace": runs[bad]["events"][:off + 1]})
        short = dict(ev)
        if len(short.get("rd", [])) > 2:
            short["rd"] = short["rd"][:2] + ["... %d more" % (len(ev["rd"]) - 2)]
        ctx.report(signature(ev, r), "%s: run %s (seed %s, %s cache, api %s): event #%d is not what StateJournal.tla computes "
                   "(a logged getter result, revision, or the root<->content bijection): %s" %
                   (label, hdr.get("run"), hdr.get("seed"), hdr.get("cache"), hdr.get("api"), off, json.dumps(short, sort_keys=True)[:700]), rp)
        ctx.cov["rejected_runs"] = ctx.cov.get("rejected_runs", 0) + 1
        idx = pending.index(bad)
        accepted_runs += idx
        pending = pending[idx + 1:]
    return accepted_runs


def binding_demo(ctx, binp):
    """A recorded trace with one logged read corrupted, and one with an event deleted, must be rejected."""
    events, stats, how = record(ctx, binp, 1, 80, "demo", seed_offset=17)
    if events is None:
        raise Infra("no trace for the binding demonstration")
    # (a) a logged balance in the last third of the trace is off by one
    cand = [i for i, e in enumerate(events) if e.get("rd") and i > 2 * len(events) // 3]
    i = cand[len(cand) // 2]
    bad = json.loads(json.dumps(events))
    bad[i]["rd"][0]["bal"] += 1
    # (b) a Commit that the directly following Reopen refers to is deleted (part A of every run ends with
    #     Stage, Commit, Reopen of that commit): the Reopen's commit index does not exist any more
    exact = True
    j = max(k for k, e in enumerate(events[:-1]) if e["e"] == "Commit" and events[k + 1]["e"] == "Reopen" and events[k + 1]["ci"] == e["ci"])
    dele = events[:j] + events[j + 1:]
    for name, evs, at in (("corrupted-read", bad, i), ("deleted-event", dele, j if exact else None)):
        accepted, hwm, ln, r = ctx.validate_trace(SUB, "Trace_StateJournal", _write(ctx, "demo-" + name, evs), timeout=600)
        if accepted:
            raise Infra("binding demonstration failed: the %s trace was accepted by Trace_StateJournal" % name)
        if at is not None and hwm < at:
            return False      # the unchanged prefix is rejected already: the caller's main validation will report it
    ctx.cov["binding_demo"] = ("a recorded trace with one logged balance changed (rejected exactly at that event) and one with a "
                               "Commit event deleted (rejected at the following Reopen) were both rejected by Trace_StateJournal")
    return True


def _write(ctx, name, evs):
    p = os.path.join(ctx.tmp("demo"), name + ".ndjson")
    write_ndjson(p, evs)
    return p
