"""C10 machinery (DESIGN section 5 C10).

words : implementation -> model.  harness/cmd/evmwords runs the real interpreter on one instruction per vector and logs
        operands/results as limbs; Trace_EvmWord.tla recomputes every result from modular integer arithmetic.
frames: model -> implementation.  TLC enumerates (or samples) program sets of MC_EvmFrames.tla and prints, for every
        program, the outcome EvmFrames.tla prescribes; harness/cmd/evmframes assembles the programs to bytecode, runs
        them on the real EVM (runtime.PrepareClause) and reports the observed outcome; the two are compared here.
"""
import json
import os
from concurrent.futures import ThreadPoolExecutor

from verifkit import Infra, read_ndjson, write_ndjson

KEYS = ["stor", "bal", "alive", "logs", "masters", "xfers", "flags", "frames", "ncreate"]
KNOWN_SD = "selfdestruct-immediate-delete"
KNOWN_C2 = "create2-collision-empty-code"
_built = {}


def build(ctx, name):
    """ctx.build once per run and binary."""
    key = (id(ctx), name)
    if key not in _built:
        _built[key] = ctx.build(name)
    return _built[key]


# ------------------------------------------------------------------------------------------------------------ words
def selfcheck_words(ctx):
    """The limb library must agree with TLC's own arithmetic / algebraic identities: a failure is a spec defect.
    Independent of the code under test, so it runs in a background thread; join with the returned function."""
    box = {}

    def work():
        try:
            box["r"] = ctx.tlc_must_hold("exec", "MC_EvmWord", cfg="MC_EvmWord_quick.cfg" if ctx.quick else "MC_EvmWord_thorough.cfg",
                                         workers=2 if ctx.quick else 4, timeout=900 if ctx.quick else 3000, label="limb library self-check", count=False)
        except BaseException as e:            # re-raised in the main thread
            box["e"] = e

    import threading
    t = threading.Thread(target=work)
    t.start()

    def join():
        t.join()
        if "e" in box:
            raise box["e"]
        ctx.cov["states"] += box["r"].distinct
        ctx.cov["transitions"] += box["r"].generated
    return join


def record_words(ctx, n, nexp, label, seed_offset=0):
    binp = build(ctx, "evmwords")
    out = ctx.tmp("words-" + label)
    seed = ctx.seed * 1000 + seed_offset
    rc, o = ctx.run([binp, "-out", out, "-seed", str(seed), "-n", str(n), "-exp", str(nexp)], timeout=600)
    if rc == 3:
        raise Infra("evmwords harness error: " + o[-1500:])
    if rc != 0:
        if rc is not None and ("panic:" in o or "goroutine " in o):
            rp = ctx.save_replay("words-panic-%s-%d.txt" % (label, seed), o[-20000:])
            ctx.report("words-panic", "real interpreter panicked in evmwords (%s): %s" % (label, o.strip().splitlines()[0:3]), rp)
            return [], {}
        raise Infra("evmwords failed rc=%s: %s" % (rc, o[-2000:]))
    summary = json.loads(o.strip().splitlines()[-1])
    return read_ndjson(os.path.join(out, "trace.ndjson")), summary


def _validate_slice(ctx, events, name):
    path = os.path.join(ctx.tmp("wval"), name + ".ndjson")
    write_ndjson(path, events)
    return ctx.validate_trace("exec", "Trace_EvmWord", path, timeout=3000)


def validate_words(ctx, events, label, chunks=1):
    """Validate the vectors (in `chunks` parallel TLC runs). A rejected vector is reported, dropped and the rest of its
    slice is validated again, so one wrong instruction does not hide another."""
    if not events:
        return 0
    size = (len(events) + chunks - 1) // chunks
    slices = [events[k:k + size] for k in range(0, len(events), size)]

    def work(arg):
        idx, evs = arg
        okcount, rejected, guard = 0, [], 0
        tlc = [0, 0]
        while evs:
            guard += 1
            if guard > 12:
                rejected.append(("stopped", None, None))
                break
            accepted, hwm, ln, r = _validate_slice(ctx, evs, "%s-%d-%d" % (label, idx, guard))
            tlc[0] += r.distinct
            tlc[1] += r.generated
            if accepted:
                okcount += len(evs)
                break
            if hwm >= len(evs):
                raise Infra("word trace rejected past its end (hwm=%d len=%d)\n%s" % (hwm, ln, r.out[-1500:]))
            okcount += hwm
            rejected.append(("rejected", evs[hwm], r))
            evs = evs[hwm + 1:]
        return okcount, rejected, tlc

    with ThreadPoolExecutor(max_workers=max(1, chunks)) as ex:
        results = list(ex.map(work, enumerate(slices)))
    total_ok = 0
    per_op = {}
    for okcount, rejected, tlc in results:
        total_ok += okcount
        ctx.cov["states"] += tlc[0]
        ctx.cov["transitions"] += tlc[1]
        for kind, ev, r in rejected:
            if kind == "stopped":
                ctx.cov["word_validation_stopped_early"] = "more than 12 rejected vectors in one slice"
                continue
            per_op.setdefault(ev.get("op"), []).append(ev)
    for op, evs in sorted(per_op.items()):
        ev = evs[0]
        what = ("real interpreter failed on a valid program: %s" % ev.get("err")) if ev.get("e") == "Fail" else \
            "result differs from 256-bit modular arithmetic"
        rp = ctx.save_replay("words-%s-%s-seed%d.json" % (label, op, ctx.seed),
                             {"kind": "words", "offending_index": 0, "offending_event": ev, "verdict": what,
                              "rejected_vectors_of_this_instruction": len(evs), "trace": evs[:20]})
        ctx.report("word:" + str(op), "%s: %s vector #%s a=%s b=%s c=%s real result=%s (%d vectors of this instruction rejected)"
                   % (what, op, ev.get("i"), limbs_hex(ev["a"]), limbs_hex(ev["b"]), limbs_hex(ev["c"]), limbs_hex(ev["r"]), len(evs)), rp)
    ctx.cov["traces_validated_against_impl"] += total_ok
    return total_ok


def limbs_hex(l):
    v = 0
    for i, x in enumerate(l):
        v += x << (15 * i)
    return hex(v)


def words_binding_demo(ctx, events):
    """One corrupted result limb and one deleted vector must be rejected by Trace_EvmWord."""
    evs = [e for e in events if e.get("e") == "Op"][:60]
    if len(evs) < 30:
        raise Infra("binding demo: too few vectors")
    k = 17
    bad = [dict(e) for e in evs]
    bad[k]["r"] = list(bad[k]["r"])
    bad[k]["r"][5] = (bad[k]["r"][5] + 1) % 32768
    dele = evs[:k] + evs[k + 1:]
    for name, t, want in (("corrupted-limb", bad, k), ("deleted-vector", dele, k)):
        accepted, hwm, ln, r = _validate_slice(ctx, t, "demo-" + name)
        if accepted or hwm != want:
            raise Infra("binding demonstration failed: %s word trace accepted=%s hwm=%d (expected rejection at %d)" % (name, accepted, hwm, want))
    return "words: corrupted result limb and deleted vector rejected at the altered line"


# ----------------------------------------------------------------------------------------------------------- frames
def selftest_frames(ctx):
    """The invariants must reject a wrong semantics planted in the specification (vacuity guard)."""
    for bug, inv in (("norevert", "InvFailedFrameLeavesNoTrace"), ("nostatic", "InvStaticNeverWrites")):
        r = ctx.tlc("exec", "MC_EvmFrames", cfg="MC_EvmFrames_selftest_%s.cfg" % bug, workers=2, timeout=300, count=False,
                    label="planted spec bug " + bug)
        if r.invariant != inv:
            raise Infra("self-test: planted bug %s was not caught by %s (got %s / %s)" % (bug, inv, r.invariant, r.error))


def export_programs(ctx, profile, simulate=None, depth=None, timeout=1800):
    """Run TLC on MC_EvmFrames with the profile's cfg; returns (list of behaviours, TLCResult). Every invariant of
    EvmFrames is checked on every program; a violation is a spec-level counterexample (Infra)."""
    cfg = "MC_EvmFrames_%s_%s.cfg" % (profile, "quick" if ctx.quick else "thorough")
    r = ctx.tlc("exec", "MC_EvmFrames", cfg=cfg, workers=4, timeout=timeout, simulate=simulate, depth=depth,
                label="programs " + profile, heap="4g")
    if r.timeout and not simulate:
        raise Infra("TLC timed out enumerating programs of profile %s" % profile)
    if r.invariant or (r.error and not (simulate and r.timeout)):
        raise Infra("spec-level counterexample or TLC error in MC_EvmFrames/%s: %s\n%s" % (profile, r.invariant or r.error, r.out[-3000:]))
    behs, seen = [], set()
    pre = '<<"BEH", "'
    for line in r.out.splitlines():
        if not line.startswith(pre) or not line.endswith('">>'):
            continue
        s = line[len(pre):-3].replace('\\"', '"').replace('\\\\', '\\')
        if simulate:
            if s in seen:
                continue
            seen.add(s)
        behs.append(s)
    r.out = r.out[-4000:]
    if not behs:
        raise Infra("no programs exported by MC_EvmFrames/%s:\n%s" % (profile, r.out))
    ctx.log("TLC MC_EvmFrames %s: %d programs (%d distinct states, %.1fs%s)" %
            (profile, len(behs), r.distinct, r.wall, ", simulation" if simulate else ", exhaustive"))
    return behs, r


def norm(e):
    return {k: e.get(k) for k in KEYS}


def has_nested(obs):
    return len(obs.get("frames") or []) >= 2


def replay_programs(ctx, raw_behs, label, stats):
    """raw_behs: JSON strings {"prog":..,"exp":..,["thor":..]}. Runs them on the real EVM and compares."""
    binp = build(ctx, "evmframes")
    d = ctx.tmp("frames-" + label)
    inp, outp = os.path.join(d, "behs.ndjson"), os.path.join(d, "obs.ndjson")
    with open(inp, "w") as f:
        for i, s in enumerate(raw_behs):
            b = json.loads(s)
            f.write(json.dumps({"id": i, "prog": b["prog"]}) + "\n")
    rc, o = ctx.run([binp, "-in", inp, "-out", outp], timeout=3000)
    if rc == 3:
        raise Infra("evmframes harness error: " + o[-1500:])
    if rc != 0:
        if rc is not None and ("panic:" in o or "goroutine " in o):
            rp = ctx.save_replay("frames-panic-%s.txt" % label, o[-20000:])
            ctx.report("frames-panic", "real code panicked in evmframes (%s): %s" % (label, o.strip().splitlines()[0:3]), rp)
            return
        raise Infra("evmframes failed rc=%s: %s" % (rc, o[-2000:]))
    found = {}
    n = 0
    with open(outp) as f:
        for s, line in zip(raw_behs, f):
            b, obs = json.loads(s), json.loads(line)
            n += 1
            stats["replayed"] += 1
            sig, what = compare(b, obs)
            if sig is None:
                stats["conform"] += 1
                if has_nested(obs):
                    stats["nested"] += 1
                if any(fr[3] != "ok" for fr in obs["frames"]):
                    stats["with_failed_frame"] += 1
                if any(fr[0] == "STATICCALL" for fr in obs["frames"]):
                    stats["with_static_frame"] += 1
                if len(obs["frames"]) >= 3 and any(fr[3] != "ok" for fr in obs["frames"]) and stats["replayed"] % 1009 < 40 \
                        and stats.get("last_sample", -5000) + 3000 < stats["replayed"]:
                    stats["last_sample"] = stats["replayed"]
                    ctx.sample({"program": b["prog"], "outcome_spec_and_real_evm": norm(obs)}, limit=5)
                continue
            if sig == KNOWN_SD:
                stats["known_sd"] += 1
                if has_nested(obs):
                    stats["nested"] += 1
            ent = found.setdefault(sig, {"n": 0, "first": None})
            ent["n"] += 1
            if ent["first"] is None:
                ent["first"] = (b, obs, what)
    if n != len(raw_behs):
        raise Infra("evmframes returned %d outcomes for %d programs" % (n, len(raw_behs)))
    for sig, ent in sorted(found.items()):
        b, obs, what = ent["first"]
        rp = ctx.save_replay("frames-%s-%s.json" % (label, sig.replace(":", "-")),
                             {"kind": "frames", "signature": sig, "programs_with_this_signature": ent["n"], "what": what,
                              "behaviour": b, "observed": obs})
        ctx.report(sig, "%s: %s (%d programs of batch %s); first: %s" % (sig, what, ent["n"], label, json.dumps(b["prog"])), rp)


def compare(b, obs):
    """Returns (None, None) when the real EVM did what the reference prescribes, else (signature, description)."""
    if "error" in obs:
        return "frames-runtime-error", "runtime reported an error (panic in vm/state): %s" % obs["error"]
    exp = norm(b["exp"])
    got = norm(obs)
    if got == exp:
        if obs.get("gas"):
            return "frames-gas-sanity", "gas sanity violated: %s" % "; ".join(obs["gas"][:3])
        return None, None
    if "thor" in b and got == norm(b["thor"]) and not obs.get("gas"):
        return KNOWN_SD, ("SELFDESTRUCT removes the account immediately instead of at the end of the transaction: an account "
                          "used again after its SELFDESTRUCT in the same clause behaves as non-existent")
    diff = [k for k in KEYS if got[k] != exp[k]]
    k = diff[0]
    return "frames-mismatch:" + k, "real EVM differs from the reference in %s: %s expected %s, observed %s" % (
        ",".join(diff), k, json.dumps(exp[k]), json.dumps(got[k]))


def frames_binding_demo(ctx, raw_behs):
    """A behaviour whose expected final storage value / success flag is altered must be reported as a mismatch."""
    cands = [s for s in raw_behs[:5000] if '"SSTORE"' in s and '"thor"' not in s]
    pick = None
    for s in cands:
        b = json.loads(s)
        cells = [(a, i) for a, sl in b["exp"]["stor"].items() for i, v in enumerate(sl) if v != 0]
        if cells and b["exp"]["flags"]:
            pick = (b, cells[0])
            break
    if pick is None:
        raise Infra("binding demo: no program with a surviving storage write and a call found")
    b, (a, i) = pick
    b1 = json.loads(json.dumps(b))
    b1["exp"]["stor"][a][i] += 1
    b2 = json.loads(json.dumps(b))
    b2["exp"]["flags"][0][3] = 1 - b2["exp"]["flags"][0][3]
    st = {"replayed": 0, "conform": 0, "nested": 0, "known_sd": 0, "with_failed_frame": 0, "with_static_frame": 0}
    binp = build(ctx, "evmframes")
    d = ctx.tmp("frames-demo")
    inp, outp = os.path.join(d, "behs.ndjson"), os.path.join(d, "obs.ndjson")
    with open(inp, "w") as f:
        for k, x in enumerate((b, b1, b2)):
            f.write(json.dumps({"id": k, "prog": x["prog"]}) + "\n")
    rc, o = ctx.run([binp, "-in", inp, "-out", outp], timeout=300)
    if rc != 0:
        raise Infra("evmframes failed in binding demo: " + o[-1000:])
    obs = read_ndjson(outp)
    r0, r1, r2 = compare(b, obs[0]), compare(b1, obs[1]), compare(b2, obs[2])
    if r0[0] is not None or r1[0] != "frames-mismatch:stor" or r2[0] != "frames-mismatch:flags":
        raise Infra("binding demonstration failed for frames: %s %s %s" % (r0, r1, r2))
    return "frames: altered expected storage value and altered success flag reported as mismatch, unaltered behaviour conforms"


# ----------------------------------------------------------------------------------- memory / return data / precompiles
MEMKEYS = ["class", "output", "logs", "flags", "frames"]


def _mval(v):
    """Value of EvmMemory.tla -> 32-byte word in hex.  sha256 / ripemd160 are oracles (hashlib)."""
    import hashlib
    tag = v[0]
    if tag == "n":
        return int(v[1]).to_bytes(32, "big").hex()
    data = b"".join(bytes.fromhex(_mval(x)) for x in v[1])
    if tag == "sha256":
        return hashlib.sha256(data).hexdigest()
    if tag == "ripemd":
        return "00" * 12 + hashlib.new("ripemd160", data).hexdigest()
    raise Infra("unknown value tag in EvmMemory export: %r" % (tag,))


def _mbuf(b):
    return [_mval(x) for x in b]


def mem_expected(e):
    return {"class": e["class"], "output": _mbuf(e["output"]), "logs": [[l[0], l[1], _mbuf(l[2])] for l in e["logs"]],
            "flags": e["flags"], "frames": [[f[0], f[1], f[2], f[3], _mbuf(f[4])] for f in e["frames"]]}


def selftest_memory(ctx):
    r = ctx.tlc("exec", "MC_EvmMemory", cfg="MC_EvmMemory_selftest.cfg", workers=2, timeout=300, count=False,
                label="planted spec bug stalecreate")
    if r.invariant != "InvBufferLaw":
        raise Infra("self-test: planted bug stalecreate was not caught by InvBufferLaw (got %s / %s)" % (r.invariant, r.error))


def export_mem_programs(ctx, mix=False, simulate=None, depth=None, timeout=1800):
    tier = "quick" if ctx.quick else "thorough"
    cfg = ("MC_EvmMemory_mix_%s.cfg" if mix else "MC_EvmMemory_%s.cfg") % tier
    r = ctx.tlc("exec", "MC_EvmMemory", cfg=cfg, workers=4, timeout=timeout, simulate=simulate, depth=depth,
                label="memory programs" + (" mix" if mix else ""), heap="4g")
    if r.timeout and not simulate:
        raise Infra("TLC timed out enumerating memory programs")
    if r.invariant or (r.error and not (simulate and r.timeout)):
        raise Infra("spec-level counterexample or TLC error in MC_EvmMemory: %s\n%s" % (r.invariant or r.error, r.out[-3000:]))
    behs, seen = [], set()
    pre = '<<"MEM", "'
    for line in r.out.splitlines():
        if not line.startswith(pre) or not line.endswith('">>'):
            continue
        s = line[len(pre):-3].replace('\\"', '"').replace('\\\\', '\\')
        if simulate:
            if s in seen:
                continue
            seen.add(s)
        behs.append(s)
    r.out = r.out[-4000:]
    if not behs:
        raise Infra("no programs exported by MC_EvmMemory:\n" + r.out)
    ctx.log("TLC MC_EvmMemory%s: %d programs (%d distinct states, %.1fs%s)" %
            (" mix" if mix else "", len(behs), r.distinct, r.wall, ", simulation" if simulate else ", exhaustive"))
    return behs, r


def _run_mem(ctx, progs, label):
    binp = build(ctx, "evmframes")
    d = ctx.tmp("mem-" + label)
    inp, outp = os.path.join(d, "behs.ndjson"), os.path.join(d, "obs.ndjson")
    with open(inp, "w") as f:
        for i, p in enumerate(progs):
            f.write(json.dumps({"id": i, "prog": p}) + "\n")
    rc, o = ctx.run([binp, "-mem", "-in", inp, "-out", outp], timeout=3000)
    if rc == 3:
        raise Infra("evmframes -mem harness error: " + o[-1500:])
    if rc != 0:
        if rc is not None and ("panic:" in o or "goroutine " in o):
            rp = ctx.save_replay("returndata-panic-%s.txt" % label, o[-20000:])
            ctx.report("returndata:panic", "real code panicked in evmframes -mem (%s): %s" % (label, o.strip().splitlines()[0:3]), rp)
            return None
        raise Infra("evmframes -mem failed rc=%s: %s" % (rc, o[-2000:]))
    return outp


def compare_mem(b, obs):
    if "error" in obs:
        return "returndata:runtime-error", "runtime reported an error (panic in vm/state): %s" % obs["error"]
    exp = mem_expected(b["exp"])
    got = {k: obs.get(k) for k in MEMKEYS}
    if got == exp:
        return None, None
    if "thor" in b and got == mem_expected(b["thor"]):
        return KNOWN_C2, ("a CREATE2 to an address whose first creation deployed EMPTY code succeeds again (thor has no account nonces, "
                          "the collision test looks at code only) and its constructor runs over the first one's storage; the reference "
                          "(EIP-684 with EIP-161's nonce 1) fails the second creation")
    diff = [k for k in MEMKEYS if got[k] != exp[k]]
    k = diff[0]
    e, g = exp[k], got[k]
    if isinstance(e, list) and isinstance(g, list) and len(e) == len(g):       # show the first differing element only
        for i, (x, y) in enumerate(zip(e, g)):
            if x != y:
                e, g, k2 = x, y, "%s[%d]" % (k, i)
                break
    else:
        k2 = k
    return "returndata:" + k, "real EVM differs from the reference (memory / return data / precompiles) in %s: %s expected %s, observed %s" % (
        ",".join(diff), k2, json.dumps(e), json.dumps(g))


def _ops(prog):
    out = []

    def walk(script):
        for st in script:
            out.append(st)
            if "init" in st:
                walk(st["init"])
    walk(prog["a"])
    walk(prog["b"])
    return out


def replay_mem_programs(ctx, raw_behs, label, stats):
    outp = _run_mem(ctx, [json.loads(s)["prog"] for s in raw_behs], label)
    if outp is None:
        return
    found = {}
    n = 0
    with open(outp) as f:
        for s, line in zip(raw_behs, f):
            b, obs = json.loads(s), json.loads(line)
            n += 1
            stats["replayed"] += 1
            sig, what = compare_mem(b, obs)
            if sig is None:
                stats["conform"] += 1
                ops = _ops(b["prog"])
                a_ops = [st["op"] for st in b["prog"]["a"]]
                if len(obs["frames"]) >= 2 and ("RDCOPY" in a_ops or "RDSIZE" in a_ops):
                    stats["nontrivial"] += 1
                if any(fr[3] == "rdoob" for fr in obs["frames"]):
                    stats["rdoob"] += 1
                if any(st["op"] == "CALL" and st["to"].startswith("P") for st in ops):
                    stats["precompile"] += 1
                if "CREATE2" in a_ops or "CREATE" in a_ops:
                    stats["creates"] += 1
                # the m3 shape: identity call, then a write to memory, then a read of the buffer
                seen_id = seen_write = False
                for st in b["prog"]["a"]:
                    if st["op"] == "CALL" and st["to"] == "P4":
                        seen_id, seen_write = True, False
                    elif seen_id and st["op"] == "MSTORE":
                        seen_write = True
                    elif seen_id and seen_write and st["op"] == "RDCOPY":
                        stats["write_after_identity_then_rdcopy"] += 1
                        break
                if stats["conform"] % 3001 == 7 and len(obs["frames"]) >= 2:
                    ctx.sample({"memory_program": b["prog"], "outcome_spec_and_real_evm": {k: obs[k] for k in MEMKEYS}}, limit=7)
                continue
            if sig == KNOWN_C2:
                stats["known_c2"] = stats.get("known_c2", 0) + 1
            ent = found.setdefault(sig, {"n": 0, "first": None})
            ent["n"] += 1
            if ent["first"] is None:
                ent["first"] = (b, obs, what)
    if n != len(raw_behs):
        raise Infra("evmframes -mem returned %d outcomes for %d programs" % (n, len(raw_behs)))
    for sig, ent in sorted(found.items()):
        b, obs, what = ent["first"]
        rp = ctx.save_replay(("%s-%s.json" % (label, sig) if sig == KNOWN_C2 else "returndata-%s-%s.json" % (label, sig.replace(":", "-"))),
                             {"kind": "mem", "signature": sig, "programs_with_this_signature": ent["n"], "what": what,
                              "behaviour": b, "expected_evaluated": mem_expected(b["exp"]), "observed": obs})
        ctx.report(sig, "%s: %s (%d programs of batch %s); first: %s" % (sig, what[:1500], ent["n"], label, json.dumps(b["prog"])), rp)


def mem_binding_demo(ctx, raw_behs):
    """An altered expected memory word / buffer size must be reported as a mismatch, the unaltered behaviour conforms."""
    pick = None
    for s in raw_behs:
        if '"RDSIZE"' in s and '"P4"' in s and '"RDCOPY"' in s:
            b = json.loads(s)
            if b["exp"]["class"] == "ok" and any(st["op"] == "RDSIZE" for st in b["prog"]["a"]) and len(b["exp"]["flags"]) >= 1:
                pick = b
                break
    if pick is None:
        raise Infra("binding demo: no suitable memory program found")
    b1 = json.loads(json.dumps(pick))
    b1["exp"]["frames"][0][4][2] = ["n", 7777]                      # a memory word of the root frame
    b2 = json.loads(json.dumps(pick))
    b2["exp"]["flags"][0][3] = 1 - b2["exp"]["flags"][0][3]
    outp = _run_mem(ctx, [pick["prog"]] * 3, "demo")
    obs = read_ndjson(outp)
    r0, r1, r2 = compare_mem(pick, obs[0]), compare_mem(b1, obs[1]), compare_mem(b2, obs[2])
    if r0[0] is not None or r1[0] != "returndata:frames" or r2[0] != "returndata:flags":
        raise Infra("binding demonstration failed for memory programs: %s %s %s" % (r0, r1, r2))
    return "memory: altered expected memory word and altered success flag reported as mismatch, unaltered behaviour conforms"


def new_mem_stats():
    return {"replayed": 0, "conform": 0, "nontrivial": 0, "rdoob": 0, "precompile": 0, "creates": 0,
            "write_after_identity_then_rdcopy": 0}


# ------------------------------------------------------------------------------- jump destinations / stack bounds (EvmJump)
JKEYS = ["class", "stor", "path"]


def export_jump_programs(ctx, timeout=900):
    r = ctx.tlc("exec", "MC_EvmJump", cfg="MC_EvmJump.cfg", workers=4, timeout=timeout, label="byte programs (jump / stack)")
    if r.timeout:
        raise Infra("TLC timed out enumerating jump programs")
    if r.invariant or r.error:
        raise Infra("spec-level counterexample or TLC error in MC_EvmJump: %s\n%s" % (r.invariant or r.error, r.out[-3000:]))
    pre = '<<"JMP", "'
    behs = [line[len(pre):-3].replace('\\"', '"').replace('\\\\', '\\') for line in r.out.splitlines()
            if line.startswith(pre) and line.endswith('">>')]
    r.out = r.out[-4000:]
    if not behs:
        raise Infra("no programs exported by MC_EvmJump:\n" + r.out)
    ctx.log("TLC MC_EvmJump: %d byte programs (%d distinct states, %.1fs, exhaustive)" % (len(behs), r.distinct, r.wall))
    return behs, r


def _run_jump(ctx, codes, label):
    binp = build(ctx, "evmframes")
    d = ctx.tmp("jump-" + label)
    inp, outp = os.path.join(d, "behs.ndjson"), os.path.join(d, "obs.ndjson")
    with open(inp, "w") as f:
        for i, c in enumerate(codes):
            f.write(json.dumps({"id": i, "code": c}) + "\n")
    rc, o = ctx.run([binp, "-jump", "-in", inp, "-out", outp], timeout=1800)
    if rc == 3:
        raise Infra("evmframes -jump harness error: " + o[-1500:])
    if rc != 0:
        if rc is not None and ("panic:" in o or "goroutine " in o):
            rp = ctx.save_replay("jumpdest-panic-%s.txt" % label, o[-20000:])
            ctx.report("jumpdest:panic", "real code panicked in evmframes -jump (%s): %s" % (label, o.strip().splitlines()[0:3]), rp)
            return None
        raise Infra("evmframes -jump failed rc=%s: %s" % (rc, o[-2000:]))
    return outp


def compare_jump(b, obs):
    runs = obs["runs"]
    for k, run in enumerate(runs):
        if "error" in run:
            return "jumpdest:runtime-error", "runtime reported an error (panic in vm/state): %s" % run["error"]
    exp = {k: b["exp"][k] for k in JKEYS}
    for k, run in enumerate(runs):
        got = {x: run.get(x) for x in JKEYS}
        if got != exp:
            if k == 1 and {x: runs[0].get(x) for x in JKEYS} == exp:
                return "jumpdest:cache", ("the second execution of the same code (jump-destination bitmap from the cache) differs from the "
                                          "first: expected %s, observed %s" % (json.dumps(exp), json.dumps(got)))
            diff = [x for x in JKEYS if got[x] != exp[x]]
            return "jumpdest:" + diff[0], "real interpreter differs from the reference in %s (run %d): expected %s, observed %s" % (
                ",".join(diff), k + 1, json.dumps(exp), json.dumps(got))
    return None, None


def replay_jump_programs(ctx, raw_behs, label, stats):
    behs = [json.loads(s) for s in raw_behs]
    outp = _run_jump(ctx, [b["code"] for b in behs], label)
    if outp is None:
        return
    obs = read_ndjson(outp)
    if len(obs) != len(behs):
        raise Infra("evmframes -jump returned %d outcomes for %d programs" % (len(obs), len(behs)))
    found = {}
    for b, o in zip(behs, obs):
        stats["replayed"] += 1
        sig, what = compare_jump(b, o)
        if sig is None:
            stats["conform"] += 1
            m = b["meta"]
            if m["fam"] == "stack":
                stats["stack"] += 1
            else:
                if m["target"] == "imm" and b["exp"]["class"] == "badjump":
                    stats["jump_into_immediate"] += 1
                    bnd = [x for x in (8, 16, 24, 32, 64) if m["p"] < x <= m["p"] + m["n"]]
                    if bnd:
                        stats["immediate_straddles_boundary"] += 1
                if m["trunc"]:
                    stats["truncated_push"] += 1
            if stats["conform"] % 1511 == 5:
                ctx.sample({"byte_program": b["code"], "meta": m, "outcome_spec_and_real_interpreter_both_runs": b["exp"]}, limit=9)
            continue
        ent = found.setdefault(sig, {"n": 0, "first": None})
        ent["n"] += 1
        if ent["first"] is None:
            ent["first"] = (b, o, what)
    for sig, ent in sorted(found.items()):
        b, o, what = ent["first"]
        rp = ctx.save_replay("jumpdest-%s-%s.json" % (label, sig.replace(":", "-")),
                             {"kind": "jump", "signature": sig, "programs_with_this_signature": ent["n"], "what": what,
                              "behaviour": b, "observed": o})
        ctx.report(sig, "%s: %s (%d programs); first: %s code=%s" % (sig, what, ent["n"], json.dumps(b["meta"]), json.dumps(b["code"])), rp)


def jump_binding_demo(ctx, raw_behs):
    pick = None
    for s in raw_behs:
        b = json.loads(s)
        if b["meta"]["fam"] == "straddle" and b["exp"]["class"] == "badjump" and b["meta"]["n"] == 13:
            pick = b
            break
    if pick is None:
        raise Infra("binding demo: no jump program found")
    b1 = json.loads(json.dumps(pick))
    b1["exp"]["class"] = "ok"
    b2 = json.loads(json.dumps(pick))
    b2["exp"]["path"] = b2["exp"]["path"] + [b2["exp"]["path"][-1] + 7]
    outp = _run_jump(ctx, [pick["code"]] * 3, "demo")
    obs = read_ndjson(outp)
    r0, r1, r2 = compare_jump(pick, obs[0]), compare_jump(b1, obs[1]), compare_jump(b2, obs[2])
    if r0[0] is not None or r1[0] != "jumpdest:class" or r2[0] != "jumpdest:path":
        raise Infra("binding demonstration failed for jump programs: %s %s %s" % (r0, r1, r2))
    return "jump: altered expected halt class and altered executed path reported as mismatch, unaltered behaviour conforms"


def new_jump_stats():
    return {"replayed": 0, "conform": 0, "stack": 0, "jump_into_immediate": 0, "immediate_straddles_boundary": 0, "truncated_push": 0}


def replay_artefact(ctx, path):
    """--replay <artefact>: re-run one saved case."""
    art = json.load(open(path))
    if art.get("kind") == "frames":
        st = {"replayed": 0, "conform": 0, "nested": 0, "known_sd": 0, "with_failed_frame": 0, "with_static_frame": 0}
        replay_programs(ctx, [json.dumps(art["behaviour"])], "replay", st)
        ctx.cov["evaluations"] = 1
        ctx.cov["distinct_nontrivial"] = st["nested"]
        ctx.cov["rule"] = "replay of one saved program"
        ctx.sample(art["behaviour"]["prog"])
    elif art.get("kind") == "mem":
        st = new_mem_stats()
        replay_mem_programs(ctx, [json.dumps(art["behaviour"])], "replay", st)
        ctx.cov["evaluations"] = 1
        ctx.cov["distinct_nontrivial"] = st["nontrivial"]
        ctx.cov["rule"] = "replay of one saved memory / return data program"
        ctx.sample(art["behaviour"]["prog"])
    elif art.get("kind") == "jump":
        st = new_jump_stats()
        replay_jump_programs(ctx, [json.dumps(art["behaviour"])], "replay", st)
        ctx.cov["evaluations"] = 1
        ctx.cov["distinct_nontrivial"] = st["conform"]
        ctx.cov["rule"] = "replay of one saved byte program (jump destinations / stack bounds)"
        ctx.sample(art["behaviour"]["code"])
    elif art.get("kind") == "words":
        binp = build(ctx, "evmwords")
        d = ctx.tmp("words-replay")
        vecs = os.path.join(d, "vectors.ndjson")
        write_ndjson(vecs, [{"op": e["op"], "a": e["a"], "b": e["b"], "c": e["c"]} for e in art["trace"]])
        rc, o = ctx.run([binp, "-out", d, "-in", vecs], timeout=300)
        if rc != 0:
            raise Infra("evmwords failed on replay: " + o[-1500:])
        evs = read_ndjson(os.path.join(d, "trace.ndjson"))
        validate_words(ctx, evs, "replay")
        ctx.cov["evaluations"] = len(evs)
        ctx.cov["distinct_nontrivial"] = len(evs)
        ctx.cov["rule"] = "replay of saved word vectors on the real interpreter"
        ctx.sample(evs[0])
    else:
        raise Infra("unknown replay artefact " + path)
