"""Shared by C16 and C17 (DESIGN section 5): Staker.tla model checking, recording histories of the real staking
contract code with harness/cmd/stakersim and validating them with Trace_Staker.tla.

Each check reports only its own property:
  C16  stake buckets, counters, effectiveVET, balance, delegations, amounts paid  (+ the C16 invariants / action properties)
  C17  status, periods, exit/offline blocks, weights, linked lists, leader group, exit map, PoS status (+ C17 ...)
A deviation that shows only in the other property's getters makes this check give up that history (counted in the
evidence); the other check reports it.
"""
import json
import os
import re

from verifkit import Infra, read_ndjson, write_ndjson

SUB = "staker"

INV = {
    "C16": ["EffectiveIsCounters", "LockedIsSum", "QueuedIsSum", "CooldownIsSum", "WithdrawableIsSum", "BalanceCovers",
            "ValClaim", "DelClaim", "EffectiveIsClaims", "NonNegative", "BucketsMatchStatus", "AggIsSumOfDelegations"],
    "C17": ["ActiveListWellFormed", "QueuedListWellFormed", "ActiveQueuedDisjoint", "UnlistedUnlinked",
            "RenewalWithinActive", "WeightIsSum", "SizeWithinMax", "ExitBlocksUnique", "StatusSane"],
}
ACT = {
    "C16": ["LockedReleasedOnlyOnTime", "CooldownRespected", "DelegationReleasedOnlyOnTime", "WithdrawPaysGetterOnce",
            "ClaimsIndependent"],
    "C17": ["ChangesOnlyAtEpoch", "PosNeedsQueue", "AtMostOneExitPerEpoch", "EvictionOnlyPastThreshold",
            "VoluntaryExitAtPeriodEnd", "ActivationsWithinMax", "ActivationIsFifo", "LeaderGroupEmptiedOnlyByF4"],
}
# situations the exhaustive configs must reach (each probe is an invariant that has to be VIOLATED)
PROBES = {
    "C16": [("MCStaker_quickB.cfg", "NeverCooldownPaid"), ("MCStaker_quickB.cfg", "NeverDelegationWithdrawnAfterLock"),
            ("MCStaker_quick.cfg", "NeverRenewedWithDelegation")],
    # (emptying the leader group is shown reachable by the design-level F4 demonstration below)
    "C17": [("MCStaker_quickB.cfg", "NeverOfflineAtEarlyCheck"), ("MCStaker_quickB.cfg", "NeverEvicted")],
}
SCRIPTED = ("f4", "edges", "exitmax", "capq")
F4_SIGNATURE = "leader-group-emptied:exit-of-only-active-validator"
WORKERS = 6


# ------------------------------------------------------------------------------------------------ design level
def _cfg_for(base_cfg, invs, props):
    """A copy of specs/staker/<base_cfg> that checks only the given invariants / properties."""
    src = open(os.path.join(os.path.dirname(os.path.dirname(os.path.abspath(__file__))), "specs", SUB, base_cfg)).read()
    lines = [ln for ln in src.splitlines() if not ln.startswith(("INVARIANT", "PROPERTY"))]
    lines += ["INVARIANT " + i for i in invs] + ["PROPERTY " + p for p in props]
    return "\n".join(lines) + "\n"


def model_check(ctx, prop):
    q = ctx.quick
    if os.environ.get("VERIF_STAKER_SKIP_MC"):          # development aid only (trying out mutants of the real code)
        ctx.cov["model_checking_skipped"] = True
        return
    runs = [("MCStaker_quick.cfg", 600), ("MCStaker_quickB.cfg", 600)] if q else \
           [("MCStaker_thorough.cfg", 3000), ("MCStaker_thoroughB.cfg", 2400), ("MCStaker_mid.cfg", 1200),
            ("MCStaker_round.cfg", 1200)]
    for base, to in runs:
        name = "%s_%s" % (prop, base)
        ctx.tlc_must_hold(SUB, "MCStaker", cfg=name, workers=WORKERS, timeout=to, heap="6g",
                          files={name: _cfg_for(base, INV[prop], ACT[prop])}, label="exhaustive " + base)
    # vacuity: the interesting situations are inside the explored bounds
    reached = []
    for base, probe in PROBES[prop]:
        name = "probe_%s_%s" % (probe, base)
        r = ctx.tlc(SUB, "MCStaker", cfg=name, workers=WORKERS, timeout=600, heap="4g", count=False,
                    files={name: _cfg_for(base, [probe], [])}, label="reachability probe " + probe)
        if r.invariant != probe:
            raise Infra("vacuity probe %s was not violated in %s (%s): the bounds no longer reach that situation\n%s"
                        % (probe, base, r.invariant or r.error or ("timeout" if r.timeout else "ok"), r.out[-1500:]))
        reached.append(probe)
    ctx.cov["reachability_probes_violated_as_required"] = reached
    if prop == "C17":
        # F4 at design level: the model (a transcription of the unchanged code) admits emptying the leader group
        name = "f4_design.cfg"
        r = ctx.tlc(SUB, "MCStaker", cfg=name, workers=WORKERS, timeout=600, heap="4g", count=False,
                    files={name: _cfg_for("MCStaker_quick.cfg", [], ["LeaderGroupNeverEmptied"])},
                    label="design-level F4 demonstration")
        ctx.cov["design_level_LeaderGroupNeverEmptied"] = (
            "violated (F4: the transcribed design lets the only active validator exit)" if r.invariant
            else "holds" if r.ok else "not decided: %s" % (r.error or "timeout"))


# --------------------------------------------------------------------------------------------------- recording
def record(ctx, preset, mode, runs, blocks, seed, label, extra=()):
    binp = ctx.build("stakersim")
    out = ctx.tmp("rec-" + label)
    argv = [binp, "-out", out, "-cfg", preset, "-mode", mode, "-runs", str(runs), "-blocks", str(blocks), "-seed", str(seed)]
    argv += list(extra)
    rc, o = ctx.run(argv, timeout=1800)
    if rc == 3:
        raise Infra("stakersim harness error: " + o[-1500:])
    if rc != 0:
        # panics of the real code are recovered inside the driver (call / snapshot / nextBlock) and logged as events;
        # a dying driver process is harness trouble (simulator set-up, out of memory, an index error of the driver)
        raise Infra("stakersim failed rc=%s: %s" % (rc, o[-2000:]))
    cfg = json.load(open(os.path.join(out, "config.json")))
    cfg["strict"] = "chain" not in mode         # (chain, chainpoa) receipts of real transactions do not carry the revert reason
    return {"dir": out, "trace": os.path.join(out, "trace.ndjson"), "argv": argv[1:],
            "stats": json.load(open(os.path.join(out, "runs.json"))), "config": cfg}


def trace_cfg(prop, config, strict=True, proj=True):
    c = config
    lines = ["SPECIFICATION Spec", "CONSTANTS", '  NoVal = "0x0"']
    for k in ("E", "LowP", "MedP", "HighP", "Cooldown", "EvictThreshold", "EvictInterval", "TP", "Hayabusa",
              "MinStake", "MaxStake", "WScale", "ExitMaxTry", "EvictMaxTry", "DefaultMBP"):
        lines.append("  %s = %d" % (k, c[k]))
    lines += ['  Prop = "%s"' % prop, "  StrictMsg = %s" % ("TRUE" if strict else "FALSE"),
              "  CheckProj = %s" % ("TRUE" if proj else "FALSE"),
              "CONSTRAINT Progress", "CONSTRAINT Conforms"]
    lines += ["INVARIANT " + i for i in INV[prop]]
    lines += ["PROPERTY T_" + p for p in ACT[prop]]
    if prop == "C17":
        lines.append("PROPERTY F4Watch")
    lines += ["POSTCONDITION TraceAccepted", "CHECK_DEADLOCK FALSE"]
    return "\n".join(lines) + "\n"


def split_histories(events):
    hs, cur = [], None
    for e in events:
        if e["e"] == "Reset":
            cur = []
            hs.append(cur)
        cur.append(e)
    return hs


def run_trace_spec(ctx, prop, events, config, label, strict=True, proj=True):
    """One TLC run over a concatenation of histories.  Returns a dict:
       consumed   number of events matched (all = accepted)
       own/other  (index, event type, text) of the first deviation in this / the other property's getters, else None
       invariant  name of a violated design invariant / action property with the index of the event, else None
       f4         indices of events at which the F4 shape was observed"""
    d = ctx.tmp("val-" + label)
    path = os.path.join(d, "trace-%d.ndjson" % len(os.listdir(d)))
    write_ndjson(path, events)
    r = ctx.tlc(SUB, "Trace_Staker", cfg="Trace_run.cfg", workers=1, timeout=3000, heap="6g", dfs=True, count=False,
                files={"trace.ndjson": path, "Trace_run.cfg": trace_cfg(prop, config, strict, proj)}, label="trace:" + label)
    if r.timeout:
        raise Infra("trace validation timed out (%s, %d events)" % (label, len(events)))
    out = r.out
    res = {"r": r, "own": None, "other": [], "proj": None, "invariant": None, "len": len(events),
           "f4": [int(x) for x in re.findall(r'<<\s*"F4-OBSERVED",\s*(\d+)\s*>>', out)]}
    for tag, key in (("MISMATCH-OWN", "own"), ("MISMATCH-PROJ", "proj")):
        m = re.search(r'<<\s*"%s",\s*(\d+),\s*"(\w+)",\s*(\{.*?\})\s*>>\s*\n(?=\S)' % tag, out, flags=re.S)
        if m:
            res[key] = (int(m.group(1)), m.group(2), " ".join(m.group(3).split()))
    # deviations in the other property's getters: noted (once per history), validation went on
    res["other"] = [(int(a), b, " ".join(c.split())) for a, b, c in
                    re.findall(r'<<\s*"MISMATCH-OTHER",\s*(\d+),\s*"(\w+)",\s*(\{.*?\})\s*>>\s*\n(?=\S)', out, flags=re.S)]
    if r.invariant:
        # TLC printed the behaviour; the last state tells which event was being consumed
        ls = re.findall(r"^/\\ l = (\d+)", out, flags=re.M)
        idx = (int(ls[-1]) - 2) if ls else -1
        res["invariant"] = (r.invariant[2:] if r.invariant.startswith("T_") else r.invariant, idx)
        return res
    m = re.findall(r'TRACE-HWM",? (\d+),? (\d+)', out)
    if not m:
        raise Infra("trace spec did not report a high-water mark (TLC error: %s)\n%s" % (r.error, out[-3000:]))
    res["consumed"] = int(m[-1][0])
    if res["consumed"] == len(events) and not res["own"] and not res["proj"] and (r.error or r.rc != 0):
        raise Infra("TLC error during trace validation: %s\n%s" % (r.error, out[-3000:]))
    if res["consumed"] < len(events) and not res["own"] and not res["proj"]:
        res["stuck"] = res["consumed"]          # event not enabled in the specification (or not evaluable)
        if r.error and "Postcondition" not in out:
            res["stuck_error"] = r.error
    return res


# Where to look when the real code and Staker.tla disagree: the operator of the specification and the Go statements it
# transcribes, by event type and by the kind of getter that differs.  Stored in every artefact so that a transcription
# slip of the specification (exit 2 material) is recognisable from a defect of the code.
WHERE_EVENT = {
    "AddValidation": "Staker.tla OpAddValidation, ListAdd <-> staker.go AddValidation; validation/service.go Add; linked_list.go listStats.Add; globalstats AddQueued",
    "IncreaseStake": "Staker.tla OpIncreaseStake, StakeIncreaseMsg, RenAdd <-> staker.go IncreaseStake, validateStakeIncrease; validation/service.go IncreaseStake; renewal_list.go Add",
    "DecreaseStake": "Staker.tla OpDecreaseStake <-> staker.go DecreaseStake; validation/service.go DecreaseStake",
    "SignalExit": "Staker.tla OpSignalExit, FreeExit, SvcSignalExit, CurIter <-> staker.go SignalExit; validation/service.go SignalExit, SetExitBlock; validation.go CurrentIteration",
    "WithdrawStake": "Staker.tla OpWithdrawStake, CooldownEnded, ListRemove <-> staker.go WithdrawStake; validation/service.go WithdrawStake; aggregation Exit; globalstats Remove*",
    "SetBeneficiary": "Staker.tla OpSetBeneficiary <-> staker.go SetBeneficiary",
    "AddDelegation": "Staker.tla OpAddDelegation, StakeIncreaseMsg, Weight <-> staker.go AddDelegation; delegation/service.go Add; aggregation AddPendingVET",
    "SignalDelegationExit": "Staker.tla OpSignalDelegationExit, Started, Ended <-> staker.go SignalDelegationExit; delegation.go Started/Ended; aggregation SignalExit",
    "WithdrawDelegation": "Staker.tla OpWithdrawDelegation <-> staker.go WithdrawDelegation; delegation/service.go Withdraw; aggregation SubPendingVet",
    "SetOnline": "Staker.tla OpSetOnline <-> validation/service.go UpdateOfflineBlock",
    "Block": "Staker.tla SyncPOS, ComputeTransition, ApplyTransition (RenewOne/ValRenew/AggRenew, ExitOne, EvictOne, ActivateOne, "
             "ActivationCount) <-> protocol.go SyncPOS; transition.go transition; housekeep.go computeEpochTransition, "
             "evictionCallback, computeActivationCount, applyEpochTransition, activateNextValidation; validation.go renew/exit; "
             "aggregation.go renew/exit; globalstats ApplyRenewal/ApplyExit; validation/service.go ActivateValidator, ExitValidator",
    "GenesisHousekeep": "Staker.tla HousekeepAt <-> genesis/customnet.go PostCallState Housekeep(0)",
}
WHERE_KIND = {
    "exits": "FreeExit / SvcSignalExit <-> SetExitBlock (probing forward by one epoch)",
    "getWithdrawable": "CalcWithdrawable, CooldownEnded <-> validation.go CalculateWithdrawableVET",
    "totals": "Trace_Staker.tla Totals <-> validation.go Totals",
    "activeList": "ListAdd / ListRemove / Walk <-> linked_list.go Add / Remove / Iterate",
    "queuedList": "ListAdd / ListRemove / Walk <-> linked_list.go Add / Remove / Iterate",
    "leaderGroup": "Trace_Staker.tla LeaderGroup <-> validation/service.go LeaderGroup",
    "del": "Started / Ended / IsLocked / CurIter <-> delegation.go, validation.go CurrentIteration",
    "agg": "AggRenew / ExitOne / OpAddDelegation <-> aggregation.go renew / exit, service.go",
    "g": "GRenew / ExitOne / Op* counter updates <-> globalstats/service.go",
    "result.ok": "the revert conditions of the operation, in the order of the Go code",
    "result.amt": "amount returned by the withdraw / id returned by AddDelegation",
    "result.status": "SyncPOS status (Active, Updates) <-> protocol.go, housekeep.go HasUpdates",
}


def where_to_look(event_type, kinds):
    out = [WHERE_EVENT.get(event_type, "?")]
    out += ["%s: %s" % (k, WHERE_KIND[k]) for k in sorted(kinds) if k in WHERE_KIND]
    return out


def _locate(hists, pending, idx):
    pos = 0
    for k in pending:
        n = len(hists[k])
        if idx < pos + n:
            return k, idx - pos
        pos += n
    return None, None


def validate_recording(ctx, prop, rec, label):
    """Validate all histories of one recording; report deviations of this property; returns per-history verdicts."""
    events = read_ndjson(rec["trace"])
    hists = split_histories(events)
    stats = rec["stats"]
    pending = list(range(len(hists)))
    verdict = {}
    strict = rec["config"].get("strict", True)
    proj = prop == "C17" and not ctx.cov.get("projection_drift")      # the renewal list belongs to C17's machinery
    guard = 0
    how = {"driver": "harness/cmd/stakersim", "argv": rec["argv"], "config": rec["config"]}

    def artefact(k, off, why, kinds=()):
        h = hists[k]
        et = h[off]["e"] if 0 <= off < len(h) else "?"
        return ctx.save_replay("%s-%s-hist%d-seed%s.json" % (prop, label, k, h[0].get("seed")),
                               {"how": how, "property": prop, "offending_index": off,
                                "offending_event": {x: y for x, y in h[off].items() if x != "post"} if 0 <= off < len(h) else None,
                                "verdict": why, "where_to_look": where_to_look(et, kinds),
                                "stats": stats[k] if k < len(stats) else None, "config": rec["config"], "trace": h})

    while pending:
        guard += 1
        if guard > 12:
            ctx.cov["validation_stopped_early"] = "more than 12 rejected histories in batch %s" % label
            break
        evs = [e for k in pending for e in hists[k]]
        res = run_trace_spec(ctx, prop, evs, rec["config"], label, strict, proj)
        # F4 observations (C17 only): report with the narrow signature, keep validating
        for i in (res["f4"] if prop == "C17" else []):
            k, off = _locate(hists, pending, i)
            if k is not None and hists[k][off].get("e") == "ChainHalt":
                ctx.cov["f4_chain_halts_observed"] = ctx.cov.get("f4_chain_halts_observed", 0) + 1
            if k is not None and verdict.get(k) != "f4":
                verdict[k] = "f4"
                ctx.cov["f4_observations"] = ctx.cov.get("f4_observations", 0) + 1
                if ctx.cov["f4_observations"] > 1:
                    continue                      # one artefact (the first, i.e. the targeted history) is enough
                ev = hists[k][off]
                rp = artefact(k, off, "leader group emptied by the exit of the only active validator (F4)")
                ctx.report(F4_SIGNATURE, "%s: history %d (%s, seed %s): event #%d %s %s runs the exit of the only active "
                           "validator with an empty queue -> LeaderGroupSize 0, IsPoSActive false (on a real chain: the packer "
                           "schedules PoS over an empty leader group, nobody can produce that block)"
                           % (label, k, hists[k][0].get("mode"), hists[k][0].get("seed"), off, ev.get("e"), ev.get("n")), rp)
        # deviations that show only in the other property's getters: noted, validation went on with this property's
        diverged = {}
        for i, et, txt in res["other"]:
            k, off = _locate(hists, pending, i)
            if k is not None and k not in diverged:
                diverged[k] = off
                ctx.cov.setdefault("other_property_deviations_noted", []).append(
                    {"batch": label, "history": k, "event": off, "type": et, "what": txt[:300]})
        bad = None
        if res["invariant"]:
            name, i = res["invariant"]
            k, off = _locate(hists, pending, i)
            if k is None:
                raise Infra("invariant %s violated but offending history not found (index %d)" % (name, i))
            ev = {x: y for x, y in hists[k][off].items() if x != "post"}
            rp = artefact(k, off, "invariant %s violated on the observed execution" % name)
            ctx.report("invariant:" + name, "%s: history %d (%s, seed %s) event #%d %s: %s of Staker.tla is violated on the "
                       "execution observed from the real code" % (label, k, hists[k][0].get("mode"), hists[k][0].get("seed"),
                                                                   off, json.dumps(ev, sort_keys=True), name), rp)
            bad = k
            verdict[k] = "invariant:" + name
        elif res["own"]:
            i, et, txt = res["own"]
            k, off = _locate(hists, pending, i)
            if k is None:
                raise Infra("deviation reported but offending history not found (index %d)" % i)
            kinds = set(re.findall(r'<<"([\w.]+)"', txt))
            if strict and kinds == {"result.msg"}:
                # same ok/revert outcome, different revert reason: not an observable of the property -> drift, not violation
                ctx.cov["revert_message_drift"] = txt[:500]
                strict = False
                continue
            ev = {x: y for x, y in hists[k][off].items() if x != "post"}
            after = ""
            if k in diverged:
                after = " [the history had already left the model in the other property's getters at event #%d]" % diverged[k]
            rp = artefact(k, off, "deviation from Staker.tla in %s getters: %s%s" % (prop, txt[:2000], after), kinds)
            sig = "deviation:%s:%s" % (et, "+".join(sorted(kinds))[:80])
            ctx.report(sig, "%s: history %d (%s, seed %s) event #%d %s: the real code and Staker.tla disagree (specification, "
                       "implementation): %s%s; look at: %s" % (label, k, hists[k][0].get("mode"), hists[k][0].get("seed"), off,
                                                json.dumps(ev, sort_keys=True), txt[:1200], after, where_to_look(et, kinds)[0][:300]), rp)
            bad = k
            verdict[k] = sig
        elif res["proj"]:
            # an internal projection differs while every observable agrees: specification drift, not a violation;
            # keep validating the observables and say so at the end (exit 2 unless a violation is found)
            i, et, txt = res["proj"]
            ctx.cov["projection_drift"] = "%s event %d (%s): %s" % (label, i, et, txt[:400])
            proj = False
            continue
        elif "stuck" in res:
            k, off = _locate(hists, pending, res["stuck"])
            ev = {x: y for x, y in hists[k][off].items() if x != "post"} if k is not None else None
            if k is not None and k in diverged:
                # after a deviation in the other property's getters the model may not be able to follow any further
                bad = k
                verdict[k] = "other-property"
                ctx.cov["histories_given_up_other_property"] = ctx.cov.get("histories_given_up_other_property", 0) + 1
            else:
                raise Infra("event not enabled / not evaluable in Trace_Staker although every getter agreed so far "
                            "(specification drift): %s history %s event #%s %s %s"
                            % (label, k, off, json.dumps(ev, sort_keys=True), res.get("stuck_error", "")))
        if bad is None:
            for k in pending:
                verdict.setdefault(k, "accepted" if k not in diverged else "accepted-own-getters")
            ctx.cov["states"] += res["r"].distinct
            ctx.cov["transitions"] += res["r"].generated
            break
        idx = pending.index(bad)
        for k in pending[:idx]:
            verdict.setdefault(k, "accepted" if k not in diverged else "accepted-own-getters")
        ctx.cov["rejected_histories"] = ctx.cov.get("rejected_histories", 0) + 1
        pending = pending[idx + 1:]
    sample = None
    for k, v in sorted(verdict.items()):
        if v in ("accepted", "accepted-own-getters", "f4"):
            h = hists[k]
            sample = {"mode": h[0].get("mode"), "seed": h[0].get("seed"),
                      "first_events": [{x: y for x, y in e.items() if x != "post"} for e in h[1:7]]}
            break
    return sample, verdict


def nontrivial(prop, s):
    if prop == "C16":
        return s["activations"] > 0 and s["exits"] > 0 and s["nonzeroWithdrawals"] > 0 and s["delegations"] > 0
    return s["activations"] > 0 and s["exits"] > 0 and (s["housekeepingUpdates"] >= 3 or s["mode"].startswith("chain"))


RULE = {
    "C16": "one evaluation = one seeded history of the real staker code (distinct seed => distinct operation sequence); "
           "non-trivial = PoS was activated, at least one validator exited, at least one delegation was added and at least "
           "one withdrawal paid a non-zero amount",
    "C17": "one evaluation = one seeded history of the real staker code (distinct seed => distinct operation sequence); "
           "non-trivial = validators were activated, at least one validator left the leader group and at least three "
           "housekeeping rounds changed the set",
}


def histories(ctx, prop, plan, more_stats=()):
    """plan: list of (preset, modes, blocks, seed_offset); modes = list of scripted mode names and (seeded mode, count).
    Records, validates (two TLC runs at a time), fills the evidence."""
    from concurrent.futures import ThreadPoolExecutor
    all_stats, accepted = list(more_stats), 0
    # one TLC run per recording: keep recordings at <= 40 seeded histories (about 10^4 events, 30 MB of ndjson)
    chunks = []
    for preset, modes, blocks, off in plan:
        scripted = [m for m in modes if isinstance(m, str)]
        todo = [[m, n] for m, n in (x for x in modes if not isinstance(x, str))]
        k = 0
        while scripted or any(n > 0 for _, n in todo):
            room, part = 40, list(scripted)
            scripted = []
            for item in todo:
                take = min(item[1], room)
                if take > 0:
                    part.append("%s:%d" % (item[0], take))
                    item[1] -= take
                    room -= take
            chunks.append((preset, ",".join(part), blocks, ctx.seed * 101 + off + 1000 * k, k))
            k += 1
    recs = []
    for preset, mode, blocks, seed, k in chunks:
        label = "%s-%s%s" % (preset, re.sub(r"[:,]", "+", mode)[:40], "-%d" % k if k else "")
        rec = record(ctx, preset, mode, 0, blocks, seed, label)
        recs.append((preset, label, rec))
    with ThreadPoolExecutor(max_workers=2) as pool:
        results = list(pool.map(lambda x: validate_recording(ctx, prop, x[2], x[1]), recs))
    for (preset, label, rec), (sample, verdict) in zip(recs, results):
        ok = [k for k, v in verdict.items() if v in ("accepted", "accepted-own-getters", "f4")]
        accepted += len(ok)
        all_stats += [rec["stats"][k] for k in sorted(verdict)]
        if sample:
            ctx.sample(dict(sample, preset=preset), limit=6)
    ctx.cov["traces_validated_against_impl"] += accepted
    ctx.cov["evaluations"] = len(all_stats)
    ctx.cov["distinct_nontrivial"] = sum(1 for s in all_stats if nontrivial(prop, s))
    ctx.cov["rule"] = RULE[prop]
    for key in ("events", "blocks", "validations", "delegations", "activations", "exits", "evictions", "housekeepingUpdates",
                "nonzeroWithdrawals", "zeroWithdrawals", "reverts", "leaderGroupEmptied", "posStarts", "realCodeErrors"):
        ctx.cov[key] = sum(s[key] for s in all_stats)
    by_mode = {}
    for st in all_stats:
        m = by_mode.setdefault(st["mode"], {"histories": 0, "events": 0, "activations": 0, "exits": 0, "nonzeroWithdrawals": 0})
        m["histories"] += 1
        for key in ("events", "activations", "exits", "nonzeroWithdrawals"):
            m[key] += st[key]
    ctx.cov["by_mode"] = by_mode
    kinds = {}
    for s in all_stats:
        for k, v in s["revertKinds"].items():
            kinds[k] = kinds.get(k, 0) + v
    ctx.cov["distinct_revert_reasons_observed"] = len(kinds)
    ctx.cov["exhaustive"] = False
    for key in ("projection_drift", "revert_message_drift"):
        if ctx.cov.get(key) and not ctx.violations:
            raise Infra("specification drift (%s): every observable of the property agrees with Staker.tla but an internal "
                        "projection / revert reason does not: %s" % (key, ctx.cov[key]))
    return all_stats


# ------------------------------------------------------------------------------ model -> implementation replay
def replay_behaviours(ctx, prop, traces):
    """TLC generates behaviours of Staker.tla (MCStakerExport, simulation mode, successful operations only); each is
    replayed on the real code by stakersim -mode replay and validated like a recorded history (every getter compared)."""
    r = ctx.tlc(SUB, "MCStakerExport", cfg="MCStakerExport.cfg", workers=1, timeout=900, heap="4g", count=False,
                simulate="num=%d" % traces, depth=60, label="behaviour export (simulation)")
    if r.timeout or r.invariant or (r.error and "BEH" not in r.out):
        raise Infra("behaviour export failed: %s\n%s" % (r.invariant or r.error or "timeout", r.out[-1500:]))
    seen, behs = set(), []
    for m in re.finditer(r'<<"BEH", (\d+), "(.*)">>', r.out):
        ops = json.loads(json.loads('"' + m.group(2) + '"'))
        key = json.dumps(ops)
        if key not in seen:
            seen.add(key)
            behs.append({"mbp": 2, "ops": ops})          # InitMBP of MCStakerExport.cfg
    if len(behs) < 2:
        raise Infra("behaviour export produced %d behaviours\n%s" % (len(behs), r.out[-1500:]))
    stats, accepted = [], 0
    for k in range(0, len(behs), 300):
        d = ctx.tmp("beh-%d" % k)
        path = os.path.join(d, "behaviours.json")
        json.dump(behs[k:k + 300], open(path, "w"))
        rec = record(ctx, "mc", "replay", 0, 0, ctx.seed, "replay-%d" % k, extra=["-in", path])
        hists, verdict = validate_recording(ctx, prop, rec, "replay-%d" % k)
        accepted += sum(1 for v in verdict.values() if v in ("accepted", "accepted-own-getters", "f4"))
        stats += [rec["stats"][i] for i in sorted(verdict)]
    ctx.cov["behaviours_replayed_on_impl"] = accepted
    ctx.cov["behaviours_exported"] = len(behs)
    ctx.cov["traces_validated_against_impl"] += accepted
    ctx.sample({"tlc_behaviour_replayed": behs[0]["ops"][:8]}, limit=8)
    return stats


# ------------------------------------------------------------------------------------------ binding demonstration
def binding_demo(ctx, prop):
    """A recorded history with one getter value corrupted and one with a successful event deleted must both be rejected
    by Trace_Staker in this property's mode; the untouched history must be accepted."""
    rec = record(ctx, "e2", "edges", 0, 0, ctx.seed + 17, "demo")
    if rec is None:
        raise Infra("binding demo: recording failed")
    events = read_ndjson(rec["trace"])
    res = run_trace_spec(ctx, prop, events, rec["config"], "demo-clean")
    if res.get("consumed") != len(events) or res["own"] or res["other"] or res["invariant"]:
        return            # the unchanged recording is not accepted: the main run will report why
    if prop == "C16":
        cands = [i for i, e in enumerate(events) if e["e"] == "WithdrawStake" and e.get("ok") and e.get("amt", 0) > 0]
        i = cands[len(cands) // 2]
        bad = json.loads(json.dumps(events))
        bad[i]["post"]["g"]["wd"] += 1                       # one unit of withdrawable stake appears from nowhere
        dels = [j for j, e in enumerate(events) if e["e"] == "AddDelegation" and e.get("ok")]
    else:
        cands = [i for i, e in enumerate(events) if e["e"] == "Block" and e.get("upd")]
        i = cands[len(cands) // 2]
        bad = json.loads(json.dumps(events))
        a = bad[i]["post"]["aL"]["seq"][0]
        bad[i]["post"]["val"][a]["wt"] += 1                  # the weight of a leader is off by a hundredth of a unit
        dels = [j for j, e in enumerate(events) if e["e"] == "SetOnline" and e.get("ok")]
    j = dels[0]
    variants = (("corrupted-field", bad, i), ("deleted-event", events[:j] + events[j + 1:], j))
    for name, evs, at in variants:
        res = run_trace_spec(ctx, prop, evs, rec["config"], "demo-" + name)
        rejected = res["own"] is not None or "stuck" in res or res["invariant"] is not None
        if not rejected:
            raise Infra("binding demonstration failed: %s variant (event %d) was accepted by Trace_Staker in %s mode"
                        % (name, at, prop))
    ctx.cov["binding_demo"] = ("a recorded history was accepted; with one %s getter value corrupted and with one successful "
                               "event deleted it was rejected" % prop)


def replay(ctx, prop):
    """--replay <artefact>: validate the saved history again in this property's mode."""
    art = json.load(open(ctx.replay))
    evs = art["trace"]
    res = run_trace_spec(ctx, prop, evs, art["config"], "replay", art["config"].get("strict", True))
    ctx.cov["evaluations"] = 1
    ctx.cov["rule"] = "replay of one saved history"
    ctx.cov["distinct_nontrivial"] = 1
    if res["f4"] and prop == "C17":
        ctx.report(F4_SIGNATURE, "replay: leader group emptied by the exit of the only active validator at event #%d"
                   % res["f4"][0], ctx.replay)
    if res["invariant"]:
        ctx.report("invariant:" + res["invariant"][0], "replay: invariant %s violated at event #%d" % res["invariant"], ctx.replay)
    elif res["own"]:
        ctx.report("deviation:%s" % res["own"][1], "replay: deviation at event #%d %s: %s" % res["own"], ctx.replay)
    elif "stuck" in res:
        raise Infra("replay: event #%d not enabled in the specification" % res["stuck"])
    else:
        ctx.cov["traces_validated_against_impl"] += 1


ASSUMPTIONS = [
    "staking periods, cooldown and the fork block are multiples of the epoch length (as on every deployed network); "
    "housekeeping is invoked once per block through Staker.SyncPOS before any transaction of that block",
    "in the Go-API histories the driver plays the Solidity wrapper staker.sol (credit before a payable native call, roll "
    "back on revert, debit what a withdraw returned); the wrapper's bytecode, the native layer (authority rule, pause "
    "switches, onlyDelegatorContract, checkStake), contract senders (revert on receive, re-entering withdrawStake), "
    "multi-clause transactions, the PoA->PoS switch and a long-lived consensus instance importing every block are "
    "exercised by the on-chain histories (stakersim -mode chain / chainpoa), where revert reasons are not observable",
    "stake amounts are multiples of the trace unit (1 000 000 / 25 000 000 VET) except in the preset with unit = 1 VET, "
    "where rounding of vet*multiplier/100 is covered for a few validators (TLC integers are 32 bit)",
    "non-revert errors of the Go code (counter underflow, failed ContractBalanceCheck) are not behaviours of the model: "
    "they are logged by the driver and rejected by the trace specification",
    "exhaustive only inside the bounds of MCStaker_*.cfg; longer histories are sampled (seeded); the model->implementation "
    "replay uses behaviours sampled by TLC's simulation mode (successful operations only), not all behaviours",
]
