"""C20 - concurrent readers see a complete best block; queries never change the chain.  DESIGN section 5 (C20)."""
import publishcommon as pc
from verifkit import Infra


def replay(ctx):
    """--replay <artefact>: re-run the recorded batch (same seeded inputs; the schedule cannot be reproduced)."""
    import json
    art = json.load(open(ctx.replay)) if ctx.replay.endswith(".json") else {}
    how = art.get("how") or {}
    if "seed" not in how:
        raise Infra("artefact %s carries no batch description to re-run" % ctx.replay)
    binp = ctx.build("publish")
    d, trace_path, _ = pc.record(ctx, binp, "replay", how["seed"], how.get("streams", 1), how.get("runs", 4), how.get("blocks", 34), traceruns=8)
    if d is not None:
        ctx.cov["driver_violation_signatures"] = pc.report_driver_violations(ctx, d, trace_path, "replay", how)
        pc.validate(ctx, trace_path, "replay", how)
        ctx.cov["evaluations"] = sum(r["observations"] for r in d["runs"])
        ctx.cov["distinct_nontrivial"] = sum(r["distinct_block_phase_pairs_observed_during_an_import"] for r in d["runs"])
    ctx.cov["rule"] = "replay of the batch recorded in %s (wanted signature: %s)" % (ctx.replay, art.get("signature"))


def run(ctx):
    q = ctx.quick
    if ctx.replay:
        return replay(ctx)
    # 1. design level: Publish.tla, exhaustive; the seeded variants must violate what they are meant to violate
    pc.design_level(ctx)
    # 2. implementation -> model
    binp = ctx.build("publish")
    batches = [("main", ctx.seed, 7, 8, 30, 12)] if q else [("main", ctx.seed, 30, 14, 40, 40), ("long", ctx.seed + 500, 8, 8, 90, 12)]
    tot = dict(runs=0, obs=0, fin=0, reads=0, api=0, raced=0, stale=0, distinct=0, pairs=0, best_changes=0, reorgs=0, diverged=0,
               quiesce=0, sims=0, queries=0, pos=0, own=0, stalef=0, ptx=0, walks=0, just=0, nxt=0, api4xx=0, tails=0, skipped=0)
    phases = {}
    sigs = {}
    for label, seed, streams, runs, blocks, traceruns in batches:
        d, trace_path, _ = pc.record(ctx, binp, label, seed, streams, runs, blocks, traceruns=traceruns)
        if d is None:
            continue
        how = dict(driver="publish", seed=seed, streams=streams, runs=runs, blocks=blocks)
        for s, n in pc.report_driver_violations(ctx, d, trace_path, label, how).items():
            sigs[s] = sigs.get(s, 0) + n
        for r in d["runs"]:
            if r["run"] < 0:
                continue                      # pseudo entry of a sequential probe
            tot["runs"] += 1
            tot["pos"] += 1 if r.get("pos") else 0
            tot["own"] += r["blocks_packed_between_stream_blocks_and_at_the_end"]
            tot["stalef"] += r["blocks_packed_on_a_stale_flow"]
            tot["ptx"] += r["pool_txs_packed"]
            tot["walks"] += r["whole_state_walks"]
            tot["just"] += r["justified_observations"]
            tot["nxt"] += r["next_revision_requests"]
            tot["jskip"] = tot.get("jskip", 0) + r["justified_observations_not_judged_best_off_finalized"]
            tot["offfin"] = tot.get("offfin", 0) + r["imports_after_which_best_does_not_descend_from_finalized"]
            tot["api4xx"] += r["api_4xx"]
            tot["skipped"] += r["blocks_delivered"] + r["blocks_packed_between_stream_blocks_and_at_the_end"] - r["blocks_stored"]
            tot["obs"] += r["observations"]
            tot["fin"] += r["finalized_observations"]
            tot["reads"] += r["reads"]
            tot["api"] += r["api_calls"]
            tot["raced"] += r["observations_during_an_import"]
            tot["stale"] += r["observations_of_a_best_already_replaced_on_disk"]
            tot["distinct"] += r["distinct_bests_observed"]
            tot["pairs"] += r["distinct_block_phase_pairs_observed_during_an_import"]
            tot["best_changes"] += r["best_changes"]
            tot["reorgs"] += r["reorgs"]
            tot["diverged"] += 1 if r.get("diverged_from_reference") else 0
            for k, v in r["observations_by_importer_phase"].items():
                phases[k] = phases.get(k, 0) + v
            if r.get("quiescence"):
                tot["quiesce"] += 1
                tot["sims"] += r["quiescence"]["call_simulations"]
                tot["queries"] += r["quiescence"]["queries"]
                tot["api4xx"] += r["quiescence"].get("api_4xx", 0)
                tot["tails"] += 1 if r["quiescence"].get("tail_equals_reference") else 0
        ctx.sample({k: v for k, v in d["runs"][0].items() if k != "violations"}, limit=3)
        pc.validate(ctx, trace_path, label, how)
    # the binding demonstration runs AFTER the main batches: on a tree whose behaviour is broken the demo's own driver
    # run may die, and that must not hide the violations observed above
    demo_ok = pc.binding_demo(ctx, binp)
    if not demo_ok and not ctx.violations and not ctx.known_hit:
        raise Infra("the demo trace was rejected by Trace_Publish but the main batches were not")
    # 3. directed schedule: a reader suspended inside Engine.Justified() between its two loads
    pc.directed_justified_gap(ctx)
    # 4. by-product: race detector
    pc.race_byproduct(ctx)

    ctx.cov["evaluations"] = tot["obs"] + tot["fin"]
    ctx.cov["distinct_nontrivial"] = tot["pairs"]
    ctx.cov["concurrent_runs"] = tot["runs"]
    ctx.cov["observations_of_best"] = tot["obs"]
    ctx.cov["observations_of_finalized"] = tot["fin"]
    ctx.cov["reads_for_observed_blocks"] = tot["reads"]
    ctx.cov["api_requests"] = tot["api"]
    ctx.cov["observations_during_an_import"] = tot["raced"]
    ctx.cov["observations_by_importer_phase"] = phases
    ctx.cov["observations_between_bulk_write_and_publication_of_the_next_best"] = tot["stale"]
    ctx.cov["distinct_bests_observed_summed_over_runs"] = tot["distinct"]
    ctx.cov["best_changes"] = tot["best_changes"]
    ctx.cov["reorganisations"] = tot["reorgs"]
    ctx.cov["runs_diverging_from_the_node_without_readers"] = tot["diverged"]
    ctx.cov["quiescence_batches"] = tot["quiesce"]
    ctx.cov["quiescence_queries"] = tot["queries"]
    ctx.cov["quiescence_call_simulations"] = tot["sims"]
    ctx.cov["driver_violation_signatures"] = sigs
    ctx.cov["proof_of_stake_runs"] = tot["pos"]
    ctx.cov["blocks_packed_by_the_node_between_stream_blocks_and_at_the_end"] = tot["own"]
    ctx.cov["blocks_packed_on_a_stale_flow"] = tot["stalef"]
    ctx.cov["pool_txs_packed"] = tot["ptx"]
    ctx.cov["blocks_refused_or_known"] = tot["skipped"]
    ctx.cov["whole_state_walks"] = tot["walks"]
    ctx.cov["justified_observations"] = tot["just"]
    ctx.cov["next_revision_requests"] = tot["nxt"]
    ctx.cov["justified_observations_not_judged_because_best_did_not_descend_from_finalized"] = tot.get("jskip", 0)
    ctx.cov["imports_after_which_best_does_not_descend_from_finalized"] = tot.get("offfin", 0)
    ctx.cov["api_4xx"] = tot["api4xx"]
    ctx.cov["tails_imported_after_the_query_batch_equal_to_reference"] = tot["tails"]
    ctx.cov["rule"] = ("one evaluation = one observation by a reader goroutine (atomic load of bestSummary or of the finalized checkpoint) "
                       "followed by its reads on the real node while ONE goroutine imports a seeded pre-minted stream (side branches, "
                       "reorganisations, epoch boundaries, a late branch refused by finality) and then produces blocks; schedules are not "
                       "reproducible, inputs are (seed). distinct_nontrivial = number of distinct (run, observed block, importer phase) "
                       "triples among observations made while an import was in flight (phase from the last durable write: executing, "
                       "state-written, index-written, bulk-written, quality-written, finalized-written)")
    ctx.cov["exhaustive"] = False
    ctx.assumptions += [
        "sync/atomic operations and the kv engine's reads/writes are linearizable; stamps from one atomic counter order them",
        "the recording kv engine (memory leveldb under muxdb) stands for the production leveldb: same goleveldb memdb/batch code",
        "fork choice and finality are facts logged by the implementation here; they are decided by C03/C04",
        "seeded streams may let more than a third of the validators vote COM on two branches; while the node's best block then does "
        "not descend from its finalized checkpoint the content oracle for justified is not applied (counted in the evidence)",
        "the race detector part is a by-product outside the TLA+ argument: it only sees the schedules that happened",
    ]
