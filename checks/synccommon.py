"""C19 machinery: run the ancestor / syncsim drivers on the real comm + node code, validate their traces with
specs/net/Trace_Sync.tla, and turn rejections into verdicts.

Verdict policy (DESIGN 2, "observables decide, projections bind"): a trace rejected by TLC is a deviation of the real
code from Sync.tla.  It is a VIOLATION only if an observable named by property C19 is wrong in the offending case
(ancestor returned, best block / store after a download, fault not reported, invalid block kept, oversized or malformed
message accepted, store changed by a message ...).  A rejection with all those observables right (another probe order,
another error class for a fault that is reported either way) is specification drift -> Infra (exit 2)."""
import json
import os

from verifkit import Infra, read_ndjson, write_ndjson

STARTS = {"AStart", "LStart", "BStart", "SStart", "Conn", "SyncEnd", "QEnd", "Note", "GReset", "FReset"}
MAX_REJECTIONS = 8


def split_cases(events):
    """A case = a maximal run of events beginning with a resetting event."""
    cases, cur = [], None
    for e in events:
        if e["e"] in STARTS or cur is None:
            cur = []
            cases.append(cur)
        cur.append(e)
    return cases


# ------------------------------------------------------------------------------------------ property-level judges
def judge_ancestor(case):
    st, res = case[0], case[-1]
    if res["e"] != "AResult":
        return False, "no result recorded"
    if res.get("err"):
        return False, ("findCommonAncestor against an honest real Communicator failed (%d attempts%s): %s  [H=%d A=%d R=%d, the "
                       "search has to return %d]" % (res.get("attempts", 1), ", the peer hung up" if res.get("hungUp") else "",
                                                     res["err"], st["H"], st["A"], st["R"], st["A"]))
    if res["anc"] != st["A"]:
        return False, "findCommonAncestor returned %d, last common height is %d (H=%d R=%d)" % (res["anc"], st["A"], st["H"], st["R"])
    return True, "ancestor right; probe sequence differs from the algorithm of Sync.tla"


def better(a, b):
    return a["score"] > b["score"] or (a["score"] == b["score"] and a["ord"] < b["ord"])


def judge_liar(case):
    """A peer lying about its ids during the ancestor search, honest blocks afterwards."""
    end = case[-1]
    if end["e"] == "LResult":
        if not end["same"]:
            return False, "a failed ancestor search against a lying peer changed the store"
        return True, "search failed, nothing touched"
    k = [i for i, e in enumerate(case) if e["e"] == "BStartL"]
    if not k or end["e"] != "BEnd":
        return False, "no end recorded"
    st = case[k[0]]
    if end["status"] in ("panic", "hang"):
        return False, "real code %s: %s" % (end["status"], end.get("err"))
    if not end["digestOK"]:
        return False, "store differs from local store + imported prefix of the peer's valid chain"
    local = {b["id"]: b for b in st["local"]}
    served = {b["id"]: b for e in case if e["e"] == "Fetch" for b in e.get("bs", [])}
    best = served.get(end["best"]) or local.get(end["best"])
    if best is None or better(local[st["best"]], best):
        return False, "best regressed to %s" % end["best"]
    return True, "store and best right"


def judge_download(case):
    st, end = case[0], case[-1]
    if end["e"] != "BEnd":
        return False, "no end recorded"
    if end["status"] == "panic":
        return False, "real code panicked: %s" % end.get("err")
    if end["status"] == "hang":
        return False, "hostile input wedges the sync loop: %s" % end.get("err")
    if st["e"] == "SStart":
        blocks = [b["id"] for b in st["stream"] if b["id"] != "nil"]
        if end["status"] != "ok":
            return False, "handleBlockStream failed on a stream of valid blocks and nil markers: %s" % end.get("err")
        if end["imported"] != blocks or not end["digestOK"]:
            return False, "handleBlockStream did not import exactly the blocks of the stream"
        return True, "observables right"
    fetches = [e for e in case if e["e"] == "Fetch"]
    local = {b["id"]: b for b in st["local"]}
    head = local[st["best"]]
    tainted = any(f.get("bad") for f in fetches)
    served = [b for f in fetches for b in f.get("bs", [])]
    okblocks = {b["id"]: b for b in served if b["kind"] == "ok"}
    if not end["digestOK"]:
        return False, "store differs from local store + imported prefix of the peer's valid chain"
    for i in end["imported"]:
        if i not in okblocks:
            return False, "a block that is not a valid served block was imported: %s" % i
    if fetches and fetches[0]["from"] != st["anc"] + 1:
        return False, "download started at %d, last common height is %d" % (fetches[0]["from"], st["anc"])
    if tainted:
        if end["status"] == "ok":
            return False, "hostile answer (%s) was not reported: download returned nil" % st["case"]
        return True, "fault reported, store intact; error class differs from Sync.tla"
    # consistent peer: everything it served must be in, best must follow the fork choice
    if end["status"] != "ok":
        return False, "download from a consistent peer failed: %s (%s)" % (end["status"], end.get("err"))
    new = [b for b in served if b["id"] not in local]
    if sorted(b["id"] for b in new) != sorted(end["imported"]):
        return False, "not all blocks of the consistent peer were imported"
    want = head
    for b in new:
        if better(b, want):
            want = b
    if end["best"] != want["id"]:
        return False, "best is %s, fork choice over the stored blocks gives %s" % (end["best"], want["id"])
    if st.get("honest"):
        # Converges: an honest real Communicator served; the node must end on the better of its own and the peer's head
        rh = st["rhead"]
        goal = rh if better(rh, head) else head
        if end["best"] != goal["id"]:
            return False, ("download from an honest peer returned nil but best is %s (height %s), the peer's better head is %s "
                           "(height %d): the node reports a finished sync below the peer's chain"
                           % (end["best"], {b["id"]: b["num"] for b in list(local.values()) + new}.get(end["best"]), rh["id"], rh["num"]))
    return True, "observables right"




def judge_msg(case):
    m = case[-1]
    if m["e"] != "Msg":
        return True, ""
    if not m["same"]:
        return False, "handling message code %d (%s) changed the chain store" % (m["code"], m["cls"])
    foot = {k: m[k] for k in ("reply", "feed", "pool", "fetch") if m[k]}
    if m["cls"] in ("toolarge", "badarg", "badenv", "txbig") and not m["err"]:
        return False, "%s message of code %d (%s) was accepted" % (m["cls"], m["code"], m.get("note"))
    if m["err"] and foot:
        return False, "rejected message of code %d left effects %s" % (m["code"], foot)
    if m["code"] > 7 and foot:
        return False, "message with unknown code %d was handled" % m["code"]
    allowed = {"reply"} | ({"feed"} if m["code"] == 2 else set()) | ({"pool"} if m["code"] == 3 else set()) \
        | ({"fetch"} if m["code"] == 1 else set())
    if set(foot) - allowed:
        return False, "message of code %d had effects %s" % (m["code"], foot)
    return True, "observables right; verdict/footprint differs from Sync.tla"


def judge_bft(case):
    e = case[-1]
    if e.get("timeout"):
        return True, "the harness gave up on this case (absolute cap)"
    if e["via"] == "sync" and not e["higherScore"]:
        return True, "peer with a lower announced total score: not selected (design limit)"
    if not e["bestIsRef"]:
        return False, ("finality/quality variant %s: the node's best differs from that of a reference node that was handed the "
                       "same blocks (imported %d, reference %d)" % (e["case"], e["imported"], e["refImported"]))
    if not e["storeOK"] or (e["via"] == "download" and e["imported"] != e["refImported"]):
        return False, "finality/quality variant %s: store differs from the reference node's" % e["case"]
    return True, "observables right"


def judge_sync(case):
    e = case[-1]
    if e.get("timeout"):
        return True, "the harness gave up on this pair (absolute cap)"
    if not e["validBest"] or not e["storeOK"]:
        return False, "after Sync (%s) best/store is not the valid imported prefix" % e["case"]
    if e["prefers"] and not e["converged"]:
        if e.get("dropped") and not e.get("hostile"):
            return False, ("the connection to an honest peer with a preferred head was lost during Sync and the node never reached "
                           "that head (%s, local head %s, remote head %s)" % (e["case"], e.get("H"), e.get("R")))
        if e.get("looping"):
            return False, ("Sync repeats the same fruitless download: GetBlocksFromNumber(%d) five times without a single import, the "
                           "peer's preferred head is never reached (%s, local head %s, remote head %s)" % (e["looping"], e["case"], e.get("H"), e.get("R")))
        if e.get("stalled"):
            return False, ("Sync never adopted the head of a connected peer that its fork choice prefers%s (%s): no request on the "
                           "connection and no import for six ticks of the sync timer" % (" (exact total-score tie, smaller id)" if e.get("tie") else "", e["case"]))
        return False, "Sync finished without reaching the peer's better head (%s)" % e["case"]
    return True, "peer not dropped as Sync.tla says"


def judge_gossip(case, off=None):
    """Block / tx propagation run. Observables: the messages themselves (a push the rules forbid), chain and pool at rest."""
    for e in case:
        if e["e"] == "Untouched" and not e["same"]:
            return False, "hostile announcements / blocks / txs changed a chain store or a pool"
        if e["e"] == "TxVerdict" and e["ok"] != (3000 <= e["t"] < 4000):
            return False, "the pool %s tx %d" % ("accepted invalid" if e["ok"] else "refused valid", e["t"])
    produced = {e["b"] for e in case if e["e"] == "Produce"} | set(case[0].get("base", []))
    accepted = {e["t"] for e in case if e["e"] == "TxVerdict" and e["ok"]}
    for e in case:
        if e["e"] == "State":
            if set(e["have"]) - produced or set(e["pool"]) - accepted:
                return False, "node %d holds blocks / txs nobody produced: %s %s" % (e["n"], e["have"], e["pool"])
            if produced - set(e["have"]) or accepted - set(e["pool"]):
                return False, ("not propagated: with the network at rest node %d lacks blocks %s / txs %s"
                               % (e["n"], sorted(produced - set(e["have"])), sorted(accepted - set(e["pool"]))))
    if off is not None and off < len(case):
        e = case[off]
        if e["e"] == "Send" and e["from"] != 9 and e["t"] in ("full", "ann", "tx", "get", "txs"):
            what = {"get": "a fetch no announcement of an unknown block allows",
                    "txs": "txs the requester is marked for / that are not in the pool"}.get(
                        e["t"], "a push to a peer that is marked as knowing it (sent it to us or got it from us before)")
            return False, "node %d sent %s(%s) to peer %d: %s" % (e["from"], e["t"], e["id"] or e.get("set"), e["to"], what)
    return True, "messages, chain and pool right; marks / decision bookkeeping differ from Gossip.tla"


def judge_future(case, off=None):
    """Pushed blocks the node cannot import yet. Observables: what is stored, what a push / a retry round did with a block
    given its timestamp and the clock window of the decision."""
    uni = {r["id"]: r for r in case[0]["universe"]}
    for e in case:
        if e["e"] == "Universe":
            uni[e["add"]["id"]] = e["add"]
    T = case[0]["T"]
    stored = set(case[0]["stored"])
    cap = case[0]["cap"]
    cache_before = []          # the cache as logged by the previous push / round (what the spec's PushBlock starts from)
    release = None
    for i, e in enumerate(case):
        if e["e"] == "Release":
            release = e["lo"]
        if e["e"] == "Push":
            b = uni[e["id"]]
            if e["out"] == "imported":
                if not (b["valid"] and b["bft"]):
                    return False, "block %s (%s) was imported although it is %s" % (e["id"], e.get("note"), "invalid" if not b["valid"] else "refused by finality")
                if b["ts"] > e["hi"] + T:
                    return False, "block %s (%s) was imported %d s ahead of the clock (timestamp %d, clock <= %d, interval %d)" % (
                        e["id"], e.get("note"), b["ts"] - e["hi"], b["ts"], e["hi"], T)
                stored.add(e["id"])
            ready = b["valid"] and b["bft"] and b["parent"] in stored and e["id"] not in stored
            if e["out"] in ("cached", "dropped") and ready and b["ts"] <= e["lo"] + T:
                return False, ("block %s (%s) is importable (timestamp %d <= clock %d + interval %d, parent stored) but was %s"
                               % (e["id"], e.get("note"), b["ts"], e["lo"], T, e["out"]))
            # ahead of the clock whatever the clock was in [lo, hi]: it has to go into the cache - unless the cache was full:
            # RandCache then throws out ONE entry at random, possibly the new one itself (PushBlock(id, ev) with ev = id)
            if e["out"] == "dropped" and ready and b["ts"] > e["hi"] + T and len(cache_before) < cap:
                return False, ("block %s (%s) is ahead of the clock and was dropped instead of cached (cache held %d of %d)"
                               % (e["id"], e.get("note"), len(cache_before), cap))
            cache_before = e["cache"]
        if e["e"] == "Round":
            now_stored = set(e["stored"])
            for x in now_stored:
                if not (uni[x]["valid"] and uni[x]["bft"]):
                    return False, "block %s is stored although it is invalid / refused by finality" % x
            if release is not None:
                # every retry round since the release began at a clock >= release: what was importable then must be in
                left = [x for x in e["cache"] if uni[x]["valid"] and uni[x]["bft"] and uni[x]["ts"] <= release + T
                        and uni[x]["parent"] in now_stored]
                if left and any(x not in stored for x in now_stored):
                    return False, ("a retry round imported part of a cached chain and left %s in the cache although it was importable "
                                   "(timestamp <= clock %d + interval, parent stored): the round does not visit parents before children" % (left, release))
            stored = now_stored
            cache_before = e["cache"]
    return True, "stored blocks and decisions consistent with timestamps; bookkeeping differs from FutureBlocks.tla"


def judge(case, off=None):
    k = case[0]["e"]
    if k == "FReset":
        return judge_future(case, off)
    if k == "GReset":
        return judge_gossip(case, off)
    if k == "AStart":
        return judge_ancestor(case)
    if k in ("BStart", "SStart"):
        return judge_download(case)
    if k == "LStart":
        return judge_liar(case)
    if k == "Conn":
        return judge_msg(case)
    if k == "SyncEnd":
        return judge_sync(case)
    if k == "QEnd":
        return judge_bft(case)
    return True, ""


def case_label(case):
    h = case[0]
    if h["e"] == "FReset":
        return "future-blocks run"
    if h["e"] == "GReset":
        return "gossip run " + str(h.get("case"))
    if h["e"] == "AStart":
        return "ancestor H=%d A=%d R=%d" % (h["H"], h["A"], h["R"])
    if h["e"] in ("BStart", "SStart", "LStart"):
        return "download " + h["case"]
    if h["e"] == "Conn" and len(case) > 1:
        m = case[1]
        return "message code=%s cls=%s %s" % (m.get("code"), m.get("cls"), m.get("note"))
    return h["e"] + " " + str(h.get("case", ""))


def signature(case, why):
    h = case[0]
    if h["e"] == "FReset":
        kind = ("one-round" if "retry round" in why else "admissible-not-imported" if "is importable" in why
                else "imported-ahead-of-clock" if "ahead of the clock" in why and "imported" in why
                else "future-block-dropped" if "dropped instead" in why else "unsound-store")
        return "futureblocks:" + kind
    if h["e"] == "QEnd":
        return "bft:" + str(h.get("case"))
    if h["e"] == "GReset":
        kind = ("not-propagated" if "not propagated" in why else "state-changed" if "changed" in why or "holds" in why
                else "pool-verdict" if "the pool" in why else "forbidden-send")
        return "gossip:%s:%s" % (kind, h.get("case"))
    if h["e"] == "AStart":
        if case[-1].get("err"):
            return "ancestor-fails:" + ("remote-shorter" if h["R"] < h["H"] else "remote-not-shorter")
        return "ancestor-wrong"
    if case[-1].get("status") == "panic":
        return "panic:handleBlockStream"
    if case[-1].get("status") == "hang":
        kind = h.get("case", "//").split("/")[2].split("@")[0] if h["e"] == "BStart" else "stream"
        return "download-hangs:" + {"flood": "handler-error-with-full-pipeline",
                                     "flood-badblock": "decoder-abort-with-many-batches-left",
                                     "flood-orphan": "handler-abort-with-many-batches-left"}.get(kind, kind)
    if h["e"] == "SStart":
        return "stream:" + str(case[-1].get("status"))
    if h["e"] == "LStart":
        return "download-liar:%s:%s" % (h["case"].split("/")[2].split("@")[0], case[-1].get("status", case[-1].get("err", ""))[:40])
    if h["e"] == "BStart":
        parts = h["case"].split("/")
        return "download:%s:%s" % (parts[2].split("@")[0] if len(parts) > 2 else "?", case[-1].get("status"))
    if h["e"] == "Conn" and len(case) > 1:
        return "message:%s:%s" % (case[1].get("code"), case[1].get("cls"))
    if h.get("dropped") and not h.get("hostile") and h.get("prefers") and not h.get("converged"):
        return "sync-fails:honest-peer-lost" + (":remote-shorter" if h.get("R", 0) < h.get("H", 0) else "")
    if h.get("looping") and h.get("prefers") and not h.get("converged"):
        return "sync-fails:fruitless-download-loop"
    if h.get("tie") and h.get("prefers") and not h.get("converged"):
        return "sync:tie-not-followed"
    return "sync:" + str(h.get("hostile", ""))


# -------------------------------------------------------------------------------------------------- validation
def validate(ctx, events, label, how, module="Trace_Sync"):
    """Validates a concatenated trace. Returns (cases_accepted, drifts). Violations go through ctx.report."""
    cases = split_cases(events)
    pending = list(range(len(cases)))
    accepted, drifts, rejections = 0, [], 0
    # cases in which an observable named by C19 is wrong (cheap property-level screening); TLC has to agree
    suspects = [k for k in range(len(cases)) if not judge(cases[k])[0]]
    reported = set()
    while pending:
        evs = [e for k in pending for e in cases[k]]
        path = os.path.join(ctx.tmp("val-" + label), "trace-%d.ndjson" % rejections)
        write_ndjson(path, evs)
        ok, hwm, ln, r = ctx.validate_trace("net", module, path, timeout=1500)
        ctx.cov["states"] += r.distinct
        ctx.cov["transitions"] += r.generated
        if ok:
            accepted += len(pending)
            break
        pos, bad = 0, None
        for k in pending:
            n = len(cases[k])
            if hwm < pos + n:
                bad, off = k, hwm - pos
                break
            pos += n
        if bad is None:
            raise Infra("trace rejected but offending case not found (hwm=%d len=%d)\n%s" % (hwm, ln, r.out[-2000:]))
        case = cases[bad]
        holds, why = judge(case, off)
        inv = " (invariant %s)" % r.invariant if r.invariant else ""
        what = "%s: %s, event #%d %s rejected by %s%s -> %s" % (
            label, case_label(case), off, json.dumps(case[off], sort_keys=True)[:300], module, inv, why)
        if holds:
            drifts.append(what)
        else:
            rp = ctx.save_replay("%s-case%d.json" % (label, bad),
                                 {"how": how, "offending_index": off, "offending_event": case[off], "why": why,
                                  "trace": case})
            ctx.report(signature(case, why), what, rp)
            reported.add(bad)
        idx = pending.index(bad)
        accepted += idx
        pending = pending[idx + 1:]
        rejections += 1
        if rejections >= MAX_REJECTIONS and pending:
            ctx.cov["validation_stopped_early"] = "%d rejected cases in %s; %d cases not validated" % (rejections, label, len(pending))
            break
    # suspects the loop did not reach (it stops after MAX_REJECTIONS): validate them on their own
    left = [k for k in suspects if k not in reported][:MAX_REJECTIONS]
    for n, k in enumerate(left):
        case = cases[k]
        path = os.path.join(ctx.tmp("val-" + label), "suspect-%d.ndjson" % k)
        write_ndjson(path, case)
        ok, hwm, ln, r = ctx.validate_trace("net", module, path, timeout=600)
        holds, why = judge(case)
        if ok:
            raise Infra("%s: %s violates the property (%s) but the trace specification accepts it: it is too weak"
                        % (label, case_label(case), why))
        what = "%s: %s, event #%d %s rejected by the trace specification -> %s" % (
            label, case_label(case), hwm, json.dumps(case[min(hwm, len(case) - 1)], sort_keys=True)[:300], why)
        rp = ctx.save_replay("%s-case%d.json" % (label, k),
                             {"how": how, "offending_index": hwm, "offending_event": case[min(hwm, len(case) - 1)],
                              "why": why, "trace": case})
        ctx.report(signature(case, why), what, rp)
    return accepted, drifts


def real_code_crash(out):
    """A crash of the driver counts as an observation on the real code only if the crashing goroutine runs through thor
    code. Machine trouble (OOM, thread limits) is filtered by verifkit before; a crash inside the harness itself, a runtime
    fatal error without a thor frame or a kill is infrastructure."""
    if "panic:" not in out and "fatal error: concurrent map" not in out and "fatal error: all goroutines are asleep" not in out:
        return False
    i = max(out.find("panic:"), out.find("fatal error:"))
    tail = out[i:]
    j = tail.find("goroutine ")
    if j < 0:
        return False
    block = tail[j:].split("\n\n")[0]                       # the first (crashing) goroutine
    return "github.com/vechain/thor/v2/" in block


def run_driver(ctx, name, args, label, timeout=1800):
    binp = ctx.build(name)
    out = ctx.tmp("out-" + label)
    rc, o = ctx.run([binp, "-out", out, "-seed", str(ctx.seed)] + args, timeout=timeout)
    if rc == 3 or "HARNESS-ERROR" in (o or ""):
        raise Infra("%s harness error: %s" % (name, o[-1500:]))
    if rc is None:
        raise Infra("%s timed out (%s)" % (name, label))
    if rc != 0:
        if real_code_crash(o):
            rp = ctx.save_replay("panic-%s-seed%d.txt" % (label, ctx.seed), o[-30000:])
            ctx.report("panic:" + label, "real code panicked in %s %s: %s" % (name, " ".join(args), o.strip().splitlines()[:3]), rp)
            return None, None
        raise Infra("%s failed rc=%s: %s" % (name, rc, o[-2000:]))
    events = read_ndjson(os.path.join(out, "trace.ndjson"))
    stats = json.load(open(os.path.join(out, "stats.json")))
    return events, stats


def binding_demo(ctx, events, label, corrupt, module="Trace_Sync"):
    """corrupt(cases) -> list of (name, events); every variant must be REJECTED by Trace_Sync."""
    cases = split_cases(events)
    try:
        variants = corrupt(cases)
    except (IndexError, KeyError) as ex:
        # the recorded trace lacks the shape a variant is cut from (that happens when the code under test misbehaves): the
        # validation that follows will say why; on a conforming trace a missing demonstration is an error of the check
        ctx.cov.setdefault("binding_demo_skipped", []).append("%s: %r" % (label, ex))
        return
    for name, evs in variants:
        path = os.path.join(ctx.tmp("demo-" + label), name + ".ndjson")
        write_ndjson(path, evs)
        ok, hwm, ln, r = ctx.validate_trace("net", module, path, timeout=600)
        if ok:
            raise Infra("binding demonstration failed: %s/%s was accepted by Trace_Sync" % (label, name))
        ctx.cov.setdefault("binding_demo", []).append("%s: %s rejected at event %d of %d" % (label, name, hwm, ln))
