"""C01 - every block the packer produces is accepted, identically, by every validator.  DESIGN section 5 (C01)."""
import json

import productioncommon as pc
from verifkit import Infra


def run(ctx):
    q = ctx.quick
    acc = {}
    if ctx.replay:
        import os
        art = json.load(open(ctx.replay))
        args = list(art["how"]["args"])
        if "behaviours" in art["how"]:
            path = os.path.join(ctx.tmp("replay"), "behs.json")
            json.dump(art["how"]["behaviours"], open(path, "w"))
            args[args.index("-in") + 1] = path
        ctx.seed = art["how"].get("seed", ctx.seed)
        pc.drive(ctx, args, "replay", acc, validate_trace=True)
        _evidence(ctx, acc, 0)
        return

    # 1. design level: Production.tla explored exhaustively through a window of live blocks (every reachable abstract
    #    world, chains of any length): CacheCoherent, CacheExact, PackAccepted, Deterministic
    if q:
        pc.design(ctx, ["MC_Production_member_quick.cfg", "MC_Production_endorse_quick.cfg", "MC_Production_pos_quick.cfg",
                        "MC_Production_sibling_quick.cfg", "MC_Production_possib_quick.cfg"], timeout=900)
    else:
        pc.design(ctx, ["MC_Production_member_thorough.cfg", "MC_Production_endorse_thorough.cfg", "MC_Production_pos_thorough.cfg",
                        "MC_Production_pos0_thorough.cfg", "MC_Production_sibling_thorough.cfg", "MC_Production_possib_thorough.cfg"],
                  timeout=3000)
    # 2. the model has teeth: every cache rule of the code is needed for CacheCoherent; nothing holds vacuously
    pc.teeth(ctx, [pc.TEETH[i] for i in (0, 2, 5, 6, 7)] if q else None, [pc.VACUITY[i] for i in (1, 6)] if q else None)
    # 3. the trace specification has teeth
    pc.binding_demo(ctx)
    # 4a. hand-made scenarios, one per cache rule (the rightful slot owner packs, so that the caches are actually kept)
    pc.drive(ctx, ["-mode", "directed", "-seed", str(ctx.seed)], "directed", acc)
    # 4. model -> implementation: behaviours sampled by TLC, concretised (real txs, real packer, real consensus with
    #    warm / cold / sibling-first / other-conflicts / repeated / restarted histories); the recorded runs go back
    #    through Trace_Production.tla (implementation -> model)
    nbeh = 0
    for prof in ("poa", "gal3", "pos", "pos0"):
        path, behs = pc.export_behaviours(ctx, prof, 20 if q else 400)
        got = pc.drive(ctx, ["-mode", "replay", "-in", path, "-seed", str(ctx.seed)], "tlc-" + prof, acc)
        if got is not None:
            nbeh += len(behs)
            if prof in ("poa", "pos"):
                ctx.sample({"tlc_behaviour": prof, "cfg": behs[0]["cfg"], "steps": [{k: v for k, v in s.items() if k != "exp"} for s in behs[0]["steps"][:6]]})
    acc["behaviours_replayed"] = nbeh
    # 5. seeded long runs (implementation -> model): PoA before GALACTICA, GALACTICA switching on at height 3, PoS from
    #    genesis / after a transition period; random proposers incl. inactive ones, skipped slots, forks, tx mixes
    got = pc.drive(ctx, ["-mode", "random", "-profile", "poa,gal3,pos", "-runs", "3" if q else "24", "-blocks", "100" if q else "300",
                         "-seed", str(ctx.seed)], "long", acc)
    if got is not None:
        res, events = got
        packs = [e for e in events if e["e"] == "Pack" and any(t["k"] != "plain" for t in e["txs"])]
        for e in packs[:2]:
            ctx.sample({"recorded_pack": {k: e[k] for k in ("b", "par", "p", "now", "slot", "score", "txs", "flav", "post")}})
    # 6. the loop around the packer: PackerLoop.tla / Solo.tla, the real Node.Run packer loop in real 2 s slots, the real
    #    solo engine (on demand and interval)
    pc.packer_loop_and_solo(ctx, acc)
    _evidence(ctx, acc, nbeh)


def _evidence(ctx, acc, nbeh):
    cov = ctx.cov
    cov["evaluations"] = acc.get("validations", 0)
    cov["distinct_nontrivial"] = len(acc.get("shapes", ()))
    cov["traces_validated_against_impl"] = acc.get("traces_accepted", 0) + nbeh
    cov["rule"] = ("one evaluation = one validation of a packer-made block on the real code (consensus.Process on an instance with a given "
                   "history, or node.processBlock on a full node). distinct_nontrivial = distinct (consensus mode, size of the proposer "
                   "list, slot taken, proposer inactive?, tx kind sequence, abstract world of the parent) tuples over the packed blocks "
                   "that carry a proposer-relevant tx, skip a slot or are signed by an inactive proposer (hashed in the driver, "
                   "united over all driver runs)")
    cov["exhaustive"] = False
    for k in ("blocks", "runs", "byHistory", "kinds", "flavours", "revertedTxs", "forkBlocks", "blocksByInactiveProposer",
              "blocksAfterSkippedSlots", "posBlocks", "blocksWithEventTxs", "behaviours_replayed", "traces_accepted", "events_validated",
              "rejected_runs_already_reported", "drift_with_violations"):
        if k in acc:
            cov[k] = acc[k]
    if acc.get("notes"):
        cov["notes"] = acc["notes"][:5]
    ctx.assumptions += [
        "hashes, signatures and VRF are injective oracles; the slot order of the addresses (blake2b shuffle / weighted random sort) is a "
        "logged fact read off the real schedulers, what follows from it (slot, updates, score) is recomputed by Scheduler.tla",
        "the exhaustive part is the abstract model (window of 2-3 live blocks, 3-4 authorities / validators, <= 2 proposer-relevant txs per "
        "block); tx CONTENT beyond the templates (transfer, Authority/Params/Staker calls; legacy/typed, delegated, multi-clause, dependent, "
        "reverting) and larger block trees are sampled",
        "Candidates.Copy()'s copy-on-write of the candidate slice is modelled by value; the LRU capacity (16) by arbitrary eviction; "
        "endorsement through queued stake during the HAYABUSA transition period is outside the model (PoS-profile balances stay far above "
        "the endorsement); evictions of offline validators are beyond the horizon; a single listed authority is excluded "
        "(authority.Update is a no-op on an unlinked entry)",
        "now-dependent rejection (future block) is excluded by construction: the simulator's genesis lies in the past",
        "packer loop / solo: time.Now() is hard-wired in packer_loop.go and cmd/thor/solo, so both are bound in REAL time (2 s block interval, "
        "launch time near now, ~16 s per recording); exact rules (one own block per parent and slot, never before second when - T/2 + 1, own "
        "blocks and solo blocks judged by a cold consensus instance) decide alone, the stale-parent and lateness rules carry 3 s / 2.5 s "
        "margins and need a second recording to confirm; PackerLoop.tla assumes the loop is never late for its 1 s look at the best block",
    ]
    if not ctx.replay and cov["distinct_nontrivial"] < 2:
        raise Infra("fewer than 2 distinct non-trivial scenarios were exercised")
