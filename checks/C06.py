"""C06 - world state is exactly the Merkle commitment of its logical content.  DESIGN section 5 (C06)."""
import json
import os

import statecommon as sc
from verifkit import Infra


def run(ctx):
    if ctx.replay:
        return replay_artefact(ctx)
    try:
        check(ctx)
    except Infra as e:
        # infrastructure trouble after deviations of the real code were already observed must not hide them
        if not ctx.violations:
            raise
        ctx.log("INFRA after violations were observed (reported as violations): %s" % str(e)[:500])
        ctx.cov.setdefault("rule", "aborted after violations: " + str(e)[:200])


def check(ctx):
    q = ctx.quick
    binp = ctx.build("statejournal")

    if os.environ.get("VERIF_C06_DEMO_ONLY"):
        # development aid: only the two binding demonstrations (used to soak them over many seeds)
        path, _, _ = sc.export_behaviours(ctx, "MC_StateJournal_export3.cfg", "exhaustive", 900)
        replay_demo(ctx, binp, path)
        if not sc.binding_demo(ctx, binp):
            raise Infra("the unchanged demo trace was rejected")
        ctx.cov["evaluations"], ctx.cov["distinct_nontrivial"], ctx.cov["rule"] = 2, 0, "binding demonstrations only"
        return

    # 1. design level, exhaustive: journal/barrier mechanism = plain map with snapshots; Stage = canonical content;
    #    statedb side journal = plain copy.  All journal configs of step 2 check the design invariants AND export.
    if not q and os.environ.get("VERIF_C06_DEEP"):
        # optional (measured: 7.19 M distinct states, 21-24 min on the shared machine): the wide universe with <= 5 operations;
        # by default the wide universe is covered up to 4 operations by the exporting config of step 2
        ctx.tlc_must_hold(sc.SUB, "MC_StateJournal", cfg="MC_StateJournal_deep.cfg", workers=8, timeout=5400, heap="8g",
                          label="journal: exhaustive, 2 addresses x 2 keys x values {0,1,2}, 10 bases, <= 5 operations")
    if not q:
        # quick relies on the keys9 config of step 3 (all contents, every transition); the 27-key universe is thorough-only
        ctx.tlc_must_hold(sc.SUB, "MC_Trie", cfg="MC_Trie_27_thorough.cfg", workers=8, timeout=2400, heap="8g",
                          label="trie: 27 keys of 3 nibbles, <= 5 operations")

    # 2. model -> implementation (journal): every distinct abstract state of the bounded model, by one representative
    #    history, plus random deep walks, replayed on a real state.State over a real muxdb
    #    teeth: if Stage wrote the journalled storage into the tries the State reads from (no copy), a later RevertTo could
    #    not undo it - the model with StageFolds = TRUE must violate ReadsArePlainMap / StageIsCanonical
    t = ctx.tlc(sc.SUB, "MC_StateJournal", cfg="MC_StateJournal_teeth_stagefolds.cfg", workers=4, timeout=300,
                label="teeth: Stage folds the journal into the base", count=False)
    if t.timeout or t.invariant not in ("ReadsArePlainMap", "StageIsCanonical"):
        raise Infra("teeth config MC_StateJournal_teeth_stagefolds.cfg did not violate the design invariants (%s)" % (t.invariant or t.error))
    ctx.cov["teeth"] = "Stage folding the journal into the base violates %s after %d states" % (t.invariant, t.distinct)
    roots, rstats, rfiles = {}, {}, []
    #    narrow and deep: one address, 2 keys, <= 5 (6) operations - write, stage, commit, reopen, write again; delete,
    #    recreate, checkpoints: the exhaustive replays re-open MODIFIED bases
    path, n_nar, r = sc.export_behaviours(ctx, "MC_StateJournal_quick.cfg" if q else "MC_StateJournal_narrow6.cfg",
                                          "narrow", 900 if q else 3600, workers=4 if q else 8)
    exhaustive_states = r.distinct
    sc.replay_behaviours(ctx, binp, path, "narrow", roots, rstats, result_files=rfiles)
    #    wide: 2 addresses, master, code, 3 values, statedb operations (AddLog/AddTransfer/AddRefund/Suicide), <= 3 operations
    path, n_exh, r = sc.export_behaviours(ctx, "MC_StateJournal_export3.cfg", "exhaustive", 900)
    exhaustive_states += r.distinct
    res = sc.replay_behaviours(ctx, binp, path, "exhaustive", roots, rstats, result_files=rfiles)
    if not ctx.violations:
        replay_demo(ctx, binp, path)          # demonstrations are meaningful on a conforming tree only
    if not q:
        path, _, r = sc.export_behaviours(ctx, "MC_StateJournal_export4.cfg", "exhaustive4", 3000, workers=8)
        exhaustive_states += r.distinct
        sc.replay_behaviours(ctx, binp, path, "exhaustive4", roots, rstats, result_files=rfiles)
    path, n_sim, _ = sc.export_behaviours(ctx, "MC_StateJournal_sim.cfg", "walks", 900 if q else 3000,
                                          simulate="num=%d" % (30 if q else 500), depth=20)
    sc.replay_behaviours(ctx, binp, path, "walks", roots, rstats, result_files=rfiles)
    for line in open(path).readlines()[:1]:
        ctx.sample({"behaviour_from_TLC_replayed_on_real_state": sc.pretty(json.loads(line))})

    # 3. model -> implementation (trie): real root == reference hash of the specification's canonical shape
    tstats = {}
    sc.trie_check(ctx, seqlen=3 if q else 4, persist_every=18 if q else 1, big=4 if q else 24, bigkeys=2000 if q else 6000, stats=tstats)
    #    ... and of the state: every staged root / storage root / committed leaf of step 2 recomputed from the content alone
    sc.states_check(ctx, rfiles, tstats)

    # 4. implementation -> model: seeded random histories over large universes, validated by Trace_StateJournal.tla
    demo_ok = sc.binding_demo(ctx, binp) if not ctx.violations else True
    events, stats, how = sc.record(ctx, binp, 8 if q else 60, 450 if q else 650, "random")
    accepted = 0
    if events is not None:
        accepted = sc.validate(ctx, events, stats, "random", how)
        for s in stats[:2]:
            ctx.sample({"random_history_stats": s})
        k = next((i for i, e in enumerate(events) if e["e"] == "RevertTo"), 0)
        ctx.sample({"trace_events": [dict(e, rd=e.get("rd", [])[:1]) for e in events[max(0, k - 3):k + 1]]})
        if not demo_ok and not ctx.violations:
            raise Infra("the binding-demo trace was rejected but the main validation reported nothing")

    # evidence
    trace_roots = sum(s["distinctRoots"] for s in stats) if stats else 0
    ctx.cov["behaviours_replayed"] = rstats.get("behaviours_replayed", 0)
    ctx.cov["replay_steps"] = rstats.get("steps", 0)
    ctx.cov["stages_compared"] = rstats.get("stages", 0) + (sum(s["stages"] for s in stats) if stats else 0)
    ctx.cov["stages_hitting_a_known_content"] = rstats.get("stage_hits_on_known_content", 0) + (sum(s["stagesHittingKnownRoot"] for s in stats) if stats else 0)
    ctx.cov["reopens"] = rstats.get("reopens", 0) + (sum(s["reopens"] for s in stats) if stats else 0)
    ctx.cov["code_cache_flushes_before_reopen"] = rstats.get("code_cache_flushes", 0) + (sum(s["reopens"] for s in stats) if stats else 0)
    ctx.cov["distinct_abstract_states_replayed"] = exhaustive_states
    ctx.cov["distinct_state_roots_replay"] = len(roots)
    ctx.cov["distinct_state_roots_traces"] = trace_roots
    ctx.cov["trace_events"] = len(events) if events else 0
    ctx.cov["trace_runs"] = len(stats) if stats else 0
    if stats:
        for k in ("deletes", "recreates", "revertsAcrossDelete", "reverts", "zeroWrites", "listWrites", "commits", "encodeStorageWrites",
                  "logTransferRefundOps", "revertsDroppingLogs", "buildStorageTrie", "siblingCommits", "stateSwitches",
                  "blindStateObjects", "blindStorageWrites", "stageThenRevertBelowIt"):
            ctx.cov["trace_" + k] = sum(s[k] for s in stats)
        ctx.cov["trace_max_addresses"] = max(s["addresses"] for s in stats)
        ctx.cov["trace_max_keys_per_address"] = max(s["maxKeysPerAddr"] for s in stats)
    ctx.cov["trie"] = tstats.get("trie", {})
    ctx.cov["independent_encoder"] = tstats.get("states", {})
    for k in ("build_storage_trie_calls", "committed_leaf_checks", "side_journal_checks", "blind_steps", "sparse_steps"):
        ctx.cov["replay_" + k] = rstats.get(k, 0)
    ctx.cov["traces_validated_against_impl"] += accepted + rstats.get("behaviours_replayed", 0)
    tc = tstats.get("trie", {})
    ctx.cov["evaluations"] = (rstats.get("behaviours_replayed", 0) + (len(stats) if stats else 0) +
                              sum(tc.get(k, 0) for k in ("contents_built", "transitions_in_memory", "sequence_states", "transitions_after_reload", "big_variants")) +
                              sum(tstats.get("states", {}).values()))
    ctx.cov["distinct_nontrivial"] = max(0, len(roots) - 1) + trace_roots + tstats.get("trie_distinct_contents", 0)
    ctx.cov["rule"] = (
        "evaluations = TLC-exported behaviours replayed on a real state.State + random-history runs + real-trie root comparisons. "
        "Behaviour space (exhaustive part): (wide) MC_StateJournal with 2 addresses x 2 keys x storage values {0,1,2} (2 = raw RLP list), balance/"
        "master/code in {0,1}, energy (0,t1)/(1,t1), 10 initial bases (absent / plain / storage / explicit empty storage), <= %d operations "
        "out of SetBalance, SetEnergy, SetMaster, SetCode, SetStorage, Delete, NewCheckpoint (depth <= 3), RevertTo, Stage, Commit, Reopen and "
        "(<= 3 operations) statedb AddLog, AddTransfer, AddRefund, Suicide; (narrow) 1 address x 2 keys x values {0,1}, 5 bases, <= %d operations "
        "(write, stage, commit, reopen, write again ...): ONE representative history for EVERY distinct abstract state (TLC BFS with VIEW "
        "excluding the history), prefixes merged; plus random walks of 14 operations (TLC -simulate). Chunks of 256 behaviours rotate through "
        "dummy/real node cache x SetStorage/SetRawStorage/EncodeStorage x plain State/runtime-statedb; after every step all getters incl. "
        "DecodeStorage, BuildStorageTrie (bijection with the predicted storage), statedb GetLogs/GetRefund/HasSuicided; after every Commit the "
        "committed leaves and the storage trie named by the leaf metadata are read directly; every staged root, storage root and leaf is "
        "recomputed from the content by the independent encoder of triecheck -states. distinct_nontrivial = number of distinct non-empty canonical contents whose real "
        "root was compared at a Stage (= distinct real state roots: the bijection content<->root is checked, counted from the driver's "
        "registry for replays and from the interned root names for traces) + distinct trie contents with >= 2 keys whose real root was "
        "compared with the reference hash of Shape(content)." % (3 if q else 4, 5 if q else 6))
    ctx.cov["exhaustive"] = True
    ctx.cov["exhaustive_note"] = ("the TLC BFS configs terminated (journal: all states within the operation bound; trie keys9: ALL 3^9 contents "
                                  "and every Put/Del between them, i.e. unbounded sequences); behaviours beyond the bounds and the random "
                                  "histories are sampled")
    ctx.assumptions += [
        "blake2b/keccak are injective oracles: the root is modelled as the canonical content; the harness checks equal content <=> equal real root over everything it stages",
        "the 60-line reference Merkle-Patricia hasher (RLP, hex-prefix, blake2b-256) in harness/cmd/triecheck is trusted; it agrees with the real trie on the unchanged tree for all enumerated contents",
        "the independent account-leaf encoder (RLP[balance, energy, blockTime, master, codeHash, storageRoot] over blake2b(address) / blake2b(key), explicit empty storage root) in harness/cmd/triecheck/states.go is trusted; it is applied to the small state universes of the replays, the large random histories rely on the content<->root bijection",
        "Stage is an operation at any point of every history (model, replays, traces) and must leave the State unchanged; sparse replay chunks (every fifth) read only slot 1 before the first RevertTo, so that slots written, staged and reverted are first read from the trie the State keeps open; the random runs checkpoint, write never-read slots, Stage, revert below them, read everything, write and Stage again",
        "blind State objects (every fifth replay chunk, every third re-open of the random runs, one per sibling scenario) call no storage getter before their first Stage, so that Stage opens the base storage tries itself; their bases/parents are committed at conflict number 1, with and without a conflict-0 sibling that wrote the same storage trie",
        "BuildStorageTrie is only specified (and only called) for addresses not deleted in the calling State object; sibling State objects share nothing but the database",
        "integers of the specification are realized as fixed byte strings by the driver (addresses, keys, code blobs, scalar and raw-list storage values); getter results outside that alphabet decode to -1 and can never match",
        "balances in traces are <= 5e8 and times <= 4 so that CalcEnergy's product stays below 2^31 in TLC; energy growth is checked with EnergyGrowthRate = 5e9 (driver refuses to run otherwise)",
        "versions are unique per commit (major = commit counter / 4, minor = conflict number 0..3), as thor's (block number, conflicts) are",
    ]


def replay_demo(ctx, binp, path):
    """model -> implementation binding has teeth: a behaviour with one predicted getter value changed, and one with an
    operation removed (predictions kept), must be reported by the replayer."""
    # pick a storage write of a non-zero value whose effect is visible in the predicted view of the FOLLOWING step
    # (slot differs before the write, still holds the value after the next operation)
    na, nk = 2, 2
    slot = lambda a, k: 4 + (a - 1) * (5 + nk) + 5 + (k - 1)
    picks = []
    for l in open(path).readlines()[:30000]:
        b = json.loads(l)
        for j in range(1, len(b) - 1):
            e = b[j]
            later_harmless = all(x[0] in (1, 2, 3, 4, 8, 10, 11, 13, 14, 15) or (x[0] == 5 and (x[1], x[2]) != (e[1], e[2])) for x in b[j + 1:])
            if e[0] == 5 and e[3] != 0 and b[j - 1][slot(e[1], e[2])] != e[3] and b[j + 1][slot(e[1], e[2])] == e[3] and later_harmless:
                picks.append((b, j))
                break
        if len(picks) >= 6:
            break
    if not picks:
        raise Infra("no behaviour with a visible storage write for the replay binding demonstration")

    def deviates(name, beh):
        d = ctx.tmp("replay-demo-" + name)
        p = os.path.join(d, "b.ndjson")
        open(p, "w").write(json.dumps(beh) + "\n")
        out = os.path.join(d, "result.json")
        # seed 0 pins the replayer's configuration of the single chunk: dummy cache, SetStorage, plain State, and NOT
        # blind (a blind chunk deliberately calls no storage getter before the first Stage, so it could not see the deletion)
        o = sc.driver(ctx, binp, ["-mode", "replay", "-in", p, "-out", out, "-seed", "0"], 120, "statejournal-replay-demo")
        return o is not None and bool(json.load(open(out))["violations"])

    b, j = picks[0]
    corrupted = json.loads(json.dumps(b))
    corrupted[-1][4] += 1                                     # predicted balance of address 1 after the last step (always read)
    if not deviates("corrupted-prediction", corrupted):
        raise Infra("replay binding demonstration failed: the corrupted-prediction behaviour was replayed without a deviation")
    # the storage write is not executed, later predictions stay: by construction the slot is read after every later step
    # with no write to it in between; should a candidate be unnoticed all the same, the next ones are tried and the
    # demonstration fails only if NONE of these state-changing operations is missed by the replayer
    if not any(deviates("deleted-operation-%d" % n, bb[:jj] + bb[jj + 1:]) for n, (bb, jj) in enumerate(picks)):
        raise Infra("replay binding demonstration failed: none of %d behaviours with a visible storage write removed was reported" % len(picks))
    ctx.cov["replay_binding_demo"] = "a TLC behaviour with one predicted balance changed and one with a storage write removed were both reported as deviations by the replayer"


def replay_artefact(ctx):
    art = json.load(open(ctx.replay))
    binp = ctx.build("statejournal")
    if art.get("type") == "behaviour":
        d = ctx.tmp("replay")
        p = os.path.join(d, "b.ndjson")
        open(p, "w").write(json.dumps(art["history"]) + "\n")
        # the artefact's cache / write mode is selected by the seed: try the four combinations
        for seed in range(4):
            out = os.path.join(d, "result-%d.json" % seed)
            sc.driver(ctx, binp, ["-mode", "replay", "-in", p, "-out", out, "-seed", str(seed)], 300, "statejournal-replay")
            for v in json.load(open(out))["violations"] or []:
                ctx.report("replay:" + v["kind"], "replayed artefact: step %d: %s" % (v["step"], v["what"]), ctx.replay)
                return
        ctx.log("artefact replayed without deviation")
    elif art.get("type") == "trace":
        how = art["how"]
        d = ctx.tmp("replay")
        sc.driver(ctx, binp, ["-mode", "random", "-out", d, "-runs", str(how["runs"]), "-ops", str(how["ops"]), "-seed", str(how["seed"])], 1800, "statejournal-random")
        from verifkit import read_ndjson
        events = read_ndjson(os.path.join(d, "trace.ndjson"))
        runs = [r for r in sc.split_runs(events) if r["events"][0].get("run") == art["run_header"].get("run")]
        sc.validate(ctx, runs[0]["events"], [art.get("stats")], "replay", how)
    elif art.get("type") == "trie":
        tstats = {}
        sc.trie_check(ctx, seqlen=3, persist_every=1, big=4, bigkeys=2000, stats=tstats)
    else:
        raise Infra("unknown artefact type in %s" % ctx.replay)
    ctx.cov["evaluations"] = 1
    ctx.cov["distinct_nontrivial"] = 0
    ctx.cov["rule"] = "replay of one artefact"
