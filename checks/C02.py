"""C02 - validation rejects every block that breaks a protocol rule, and never panics.  DESIGN section 5 (C02).

1. design level: TLC checks the rule catalogue of specs/rules/BlockRules.tla on an abstract block universe
   (MC_BlockRules): base blocks violate nothing, every departure violates its rule (and only declared ones), declared
   non-violations stay valid; deliberately wrong claims are refuted (teeth).
2. model -> implementation: cmd/blockrules builds, for valid base blocks of real chains under twelve fork / history profiles, the
   REAL block of every catalogue entry (re-signed by the legitimate proposer; VRF, txs root, execution results
   re-derived), plus structurally arbitrary blocks, and feeds them to consensus.Process (fresh / warm) and the node
   import. Trace_BlockRules.tla derives the expected verdict of every block from its projection and compares.
"""
import collections

import blockrulescommon as br
from verifkit import Infra


def run(ctx):
    q = ctx.quick
    ctx.basefee_cases = None
    if ctx.replay:
        import json
        if json.load(open(ctx.replay)).get("case", {}).get("kind") == "basefee":
            rb = ctx.tlc_must_hold("rules", "MC_BlockRulesBaseFee", cfg="MC_BlockRulesBaseFee.cfg", workers=1, timeout=600)
            ctx.basefee_cases = br.parse_basefee_cases(rb.out)
            return run_cases(ctx, {}, basefee_only=True)
        return run_cases(ctx, {})
    # ---- 1. the catalogue itself ---------------------------------------------------------------------------------
    r = ctx.tlc_must_hold("rules", "MC_BlockRules", cfg="MC_BlockRules_quick.cfg" if q else "MC_BlockRules_thorough.cfg",
                          workers=4 if q else 8, timeout=900 if q else 3000, label="catalogue on the abstract universe")
    spec_cat = {(e["rule"], e["var"]): e["expect"] for e in br.parse_catalogue(r.out)}
    teeth = ["NoDeparture"] if q else ["NoDeparture", "BenefAlways", "SingleRule"]
    for t in teeth:
        tr = ctx.tlc("rules", "MC_BlockRules", cfg="MC_BlockRules_teeth_%s.cfg" % t, workers=4, timeout=600, count=False,
                     label="teeth: a wrong claim must be refuted")
        if tr.invariant != "Teeth_" + t:
            raise Infra("catalogue check has no teeth: Teeth_%s was not refuted (%s)" % (t, tr.error or tr.invariant or "passed"))
    # the base-fee recurrence at real scale: properties checked by TLC, cases exported for the replay
    rb = ctx.tlc_must_hold("rules", "MC_BlockRulesBaseFee", cfg="MC_BlockRulesBaseFee.cfg", workers=1, timeout=600,
                           label="base-fee recurrence: real-scale boundary cases + small-scale native cross-check")
    ctx.basefee_cases = br.parse_basefee_cases(rb.out)
    ctx.cov["catalogue_entries"] = len(spec_cat)
    ctx.cov["catalogue_teeth"] = "wrong claims refuted by TLC: " + ", ".join(teeth)

    run_cases(ctx, spec_cat)


def run_cases(ctx, spec_cat, basefee_only=False):
    # ---- 2. real blocks -----------------------------------------------------------------------------------------
    q = ctx.quick
    seed = ctx.seed
    only = []
    if ctx.replay:
        import json
        art = json.load(open(ctx.replay))
        c = art.get("case", {})
        seed = art.get("seed", seed)
        only = ["-profiles", c.get("prof", "")] + (["-only", "%s:%s" % (c["rule"], c["var"])] if c.get("kind") == "mutant" else [])
    blocks = 5 if q else 12
    args = ["-seed", str(seed), "-blocks", str(blocks), "-bases", "boundary" if q else "all"]
    mode = "both"
    if only and "-only" in only:
        mode = "catalogue"
    if basefee_only:
        events, blobs, summary, argv, only = [], {}, {}, ["blockrules", "-mode", "basefee"], []
    else:
        events, blobs, summary, argv = br.run_driver(ctx, "main", args + ["-mode", mode, "-arb", str(80 if q else 1500)] + only,
                                                     timeout=900 if q else 3000)
    cases = [e for e in events if e["e"] != "End"]
    if not q and not only and not basefee_only:
        # more arbitrary input under other seeds
        for k in range(1, 4):
            ev2, bl2, sm2, _ = br.run_driver(ctx, "arb%d" % k, ["-seed", str(seed * 100 + k), "-blocks", "4", "-mode", "arb", "-arb", "2500"],
                                             timeout=3000)
            base = len(cases)
            for e in ev2:
                if e["e"] == "End":
                    continue
                old = e["id"]
                e["id"] = base + old + 1_000_000 * k
                if old in bl2:
                    blobs[e["id"]] = bl2[old]
                cases.append(e)
            for key in ("undecodable", "decode_panics"):
                summary[key] = summary.get(key, 0) + sm2.get(key, 0)
    # model -> implementation replay of the base-fee cases (parent header fabricated with the case's fields)
    nbf = 0
    if ctx.basefee_cases and not only:
        import json
        import os
        path = os.path.join(ctx.tmp("basefee"), "cases.json")
        json.dump(ctx.basefee_cases, open(path, "w"))
        ev3, bl3, sm3, _ = br.run_driver(ctx, "basefee", ["-seed", str(seed), "-mode", "basefee", "-cases", path], timeout=900)
        for e in ev3:
            if e["e"] == "End":
                continue
            old = e["id"]
            e["id"] = 50_000_000 + old
            if old in bl3:
                blobs[e["id"]] = bl3[old]
            cases.append(e)
            nbf += 1
        if sm3.get("basefee_cases") != len(ctx.basefee_cases):
            raise Infra("base-fee replay covered %s of %d exported cases" % (sm3.get("basefee_cases"), len(ctx.basefee_cases)))
    if not cases:
        return

    mut = [e for e in cases if e.get("kind") == "mutant"]
    arb = [e for e in cases if e.get("kind") == "arb"]
    # catalogue coverage: the driver implements exactly the entries of the specification, each exercised at least once
    if not only and not basefee_only:
        seen = collections.Counter((e["rule"], e["var"]) for e in mut)
        missing = sorted(set(spec_cat) - set(seen))
        extra = sorted(set(seen) - set(spec_cat))
        if missing or extra:
            raise Infra("catalogue and driver differ: never exercised %s; unknown to the specification %s" % (missing, extra))
        br.binding_demo(ctx, cases)

    accepted = br.validate_cases(ctx, "main", cases, blobs, argv)

    # ---- evidence -----------------------------------------------------------------------------------------------
    per_rule = collections.Counter(e["rule"] for e in mut)
    rejected = {(e["rule"], e["var"], e["prof"]) for e in mut if e["goexpect"] == "reject" and
                (e["fresh"], e["warm"], e["node"]) == ("reject", "reject", "reject")}
    kept_valid = {(e["rule"], e["var"], e["prof"]) for e in mut if e["goexpect"] == "accept" and e["node"] == "accept"}
    ctx.cov["evaluations"] = len(cases)
    ctx.cov["distinct_nontrivial"] = len(rejected)
    ctx.cov["rule"] = ("one evaluation = one real block fed to consensus.Process (fresh and warm instance) and to the node import; "
                       "non-trivial = distinct (rule, variant, fork profile) whose re-signed single-rule mutant was built, "
                       "confirmed by the specification to violate the named rule, and rejected by all three entry points")
    ctx.cov["cases_per_rule"] = dict(sorted(per_rule.items()))
    ctx.cov["mutants"] = len(mut)
    ctx.cov["distinct_nonviolations_accepted"] = len(kept_valid)
    ctx.cov["profiles"] = sorted({e["prof"] for e in cases})
    ctx.cov["arbitrary_blocks_fed"] = len(arb)
    ctx.cov["arbitrary_inputs_undecodable"] = summary.get("undecodable", 0)
    ctx.cov["arbitrary_inputs_total"] = len(arb) + summary.get("undecodable", 0) + summary.get("decode_panics", 0)
    ctx.cov["arbitrary_accepted_and_valid_per_spec"] = sum(1 for e in arb if e["node"] == "accept")
    ctx.cov["arbitrary_verdict_decided_by_spec"] = sum(1 for e in arb if e.get("pknown") and not e.get("unknown"))
    ctx.cov["orphans"] = sum(1 for e in arb if not e.get("pknown"))
    ctx.cov["cases_accepted_by_spec"] = accepted
    bfe = [e for e in cases if e.get("kind") == "basefee"]
    ctx.cov["basefee_cases_exported_by_tlc"] = len(ctx.basefee_cases or [])
    ctx.cov["basefee_children_replayed"] = nbf
    ctx.cov["basefee_protocol_value_accepted"] = sum(1 for e in bfe if e["var"] == "protocol" and e["fresh"] == "accept")
    ctx.cov["basefee_divide_first_value_rejected"] = sum(1 for e in bfe if e["var"] == "divide_first" and e["fresh"] == "reject")
    classes = collections.Counter()
    for e in mut:
        if e["fresh"] == "reject":
            classes["%s:%s" % (e["rule"], e["cfresh"])] += 1
    ctx.cov["error_class_per_rule"] = dict(sorted(classes.items()))
    ctx.cov["exhaustive"] = False
    for e in (mut[3:4] + [x for x in mut if x["rule"] == "tx_dep_not_reverted"][:1] + [x for x in mut if x["goexpect"] == "accept"][5:6] + arb[:1]):
        ctx.sample({k: e.get(k) for k in ("prof", "height", "rule", "var", "goexpect", "fresh", "warm", "node", "cfresh", "cnode", "store",
                                          "best", "err")})
    ctx.assumptions += [
        "signature recovery, VRF verification and merkle roots are trusted library verdicts (injective oracles)",
        "base-fee replay: the parent header is fabricated (number 0, genesis state) with the exported gas limit / gas used / base fee; "
        "children are fully valid, so consensus.Process accepts exactly the specification's value",
        "slot ownership and expected score come from the scheduler package on the parent state (C05's subject), not from consensus",
        "re-execution results come from the runtime on a pre-state transcribed from the proposing side; it reproduces every base block",
        "'not in the future' is excluded from mutation (depends on the clock); thor's blocklist table is replaced (thor.MockBlocklist) by one dev account",
        "structurally arbitrary input is sampled; expected verdicts exist only where the projection is decidable",
        "error class is demanded (IsCritical) for all rules except a tx that cannot start / whose signer cannot be recovered",
    ]
