"""C12 - committed tries stay readable across versions, restarts and pruning.  DESIGN section 5 (C12).

1. design level   NodeStore.tla explored exhaustively by TLC (MC_NodeStore_*.cfg): RetainedReadable,
                  PrunedNeverDifferent, NoWrongNode, RootCanonical, PrunedUnreadable
2. impl -> model  harness/cmd/nodestore drives the REAL muxdb.Trie - over the recording engine and over the real muxdb.Open on
                  a scratch directory - through seeded and small-exhaustive histories over the option matrix; Trace_NodeStore.tla replays every event with the
                  actions of NodeStore.tla and compares reads (observables) and key spaces (projections)
3. end to end     harness/cmd/prunee2e: a real chain pruned repeatedly by the REAL pruner (hook H4), all state / index /
                  tx reads compared with the pre-prune reads before and after re-opening
"""
import nodestorecommon as ns
from verifkit import Infra


def replay(ctx):
    """--replay <artefact>: validate the stored trace again / re-run the stored end-to-end arguments."""
    import json
    art = json.load(open(ctx.replay))
    if "trace" in art:
        cfg = art.get("cfg", ns.CFG_OBS)
        ns.validate(ctx, art["trace"], [art.get("stats")], "replay", art.get("how", {}), cfg=cfg,
                    inflight_sig=(cfg == ns.CFG_INFLIGHT))
    elif "args" in art:
        a = [str(x) for x in art["args"]]
        opt = {a[i]: a[i + 1] for i in range(len(a) - 1) if a[i] in ("-seed", "-blocks", "-runs")}
        ns.e2e(ctx, int(opt.get("-seed", ctx.seed)), int(opt.get("-blocks", 48)), int(opt.get("-runs", 3)), "replay",
               inflight="-inflight" in a, crash="-crash" in a, live="-live" in a)
    else:
        raise Infra("unknown replay artefact")
    ctx.cov["evaluations"] = 1
    ctx.cov["distinct_nontrivial"] = 2
    ctx.cov["rule"] = "replay of one stored artefact"


def run(ctx):
    del ns.DRIFT[:]
    if ctx.replay:
        return replay(ctx)
    q = ctx.quick
    # ---- 1. design level
    ctx.tlc_must_hold("state", "MC_NodeStore", cfg="MC_NodeStore_quick.cfg", workers=4, timeout=900, heap="4g",
                      label="exhaustive design model: partition factors x hashed / hash-skipped")
    if not q:
        ctx.tlc_must_hold("state", "MC_NodeStore", cfg="MC_NodeStore_thorough.cfg", workers=4, timeout=3000, heap="4g",
                          label="exhaustive design model with a fork (minor versions)")
        ctx.tlc_must_hold("state", "MC_NodeStore", cfg="MC_NodeStore_as.cfg", workers=4, timeout=3000, heap="4g",
                          label="account-like + storage-like trie (root of the latter may come from the deduped space)")
    # must-be-violated: every deliberately broken variant of the design is caught by an invariant
    ns.teeth(ctx, ["rootdedup", "filter", "storage", "roundup", "reopenlayout", "inflight", "resume"])
    if not q:
        ns.teeth(ctx, ["deepfork", "rootcache", "unaligned"])
    # (MC_NodeStore_matrix.cfg - all 18 option sets - is documented in MC_NodeStore.tla and not run here)
    ctx.cov["exhaustive"] = True

    # ---- 2. the real muxdb.Trie against the model
    demo_ok = ns.binding_demo(ctx)
    stats = []
    plan = [  # (nib, keylen, runs, steps)
        (2, 2, 10 if q else 150, 10),
        (3, 2, 10 if q else 150, 12),
        (2, 4, 6 if q else 100, 12),
    ]
    for nib, keylen, runs, steps in plan:
        label = "seeded-n%dk%d" % (nib, keylen)
        args = ["-runs", runs, "-seed", ctx.seed * 131 + nib * 7 + keylen, "-nib", nib, "-keylen", keylen, "-steps", steps]
        events, st = ns.record(ctx, "seeded", args, label)
        ns.validate(ctx, events, st, label, {"mode": "seeded", "args": args})
        stats += st
    # the REAL muxdb.Open on a scratch directory (removed after each run): the key layout persisted at creation must win
    # over the Options of every later Open (small factors 2,3,4 and 256, re-opened asking for 1,2,3,4,256,max), prune
    # targets not aligned to the partition factor, every root read back after every step
    for nib, keylen, runs in ([(2, 2, 12)] if q else [(2, 2, 150), (3, 2, 100)]):
        label = "disk-n%dk%d" % (nib, keylen)
        args = ["-runs", runs, "-seed", ctx.seed * 29 + nib, "-nib", nib, "-keylen", keylen, "-steps", 12]
        events, st = ns.record(ctx, "disk", args, label)
        ns.validate(ctx, events, st, label, {"mode": "disk", "args": args})
        stats += st
    # one-byte values: full nodes without a hash are embedded in their parent (a storage layout the design model does
    # not describe: Hashed == TRUE) - validated on the observables only
    label = "seeded-tiny"
    args = ["-tiny", "-runs", 8 if q else 120, "-seed", ctx.seed * 17 + 3, "-nib", 3, "-keylen", 2, "-steps", 12]
    events, st = ns.record(ctx, "seeded", args, label)
    ns.validate(ctx, events, st, label, {"mode": "seeded", "args": args}, cfg=ns.CFG_OBS)
    stats += st
    # every action sequence of the given depth after a fixed prefix; matrix index 44 = cache on, TTL 0, hf 1, df max
    for depth, cfgs in ([(3, "44")] if q else [(3, "8,44,77,100,35,128"), (4, "44")]):
        label = "exhaustive-d%d" % depth
        args = ["-depth", depth, "-nib", 2, "-keylen", 2, "-cfgs", cfgs]
        events, st = ns.record(ctx, "exhaustive", args, label)
        ns.validate(ctx, events, st, label, {"mode": "exhaustive", "args": args})
        stats += st
    if not demo_ok and not ctx.violations:
        raise Infra("binding demo: the unmodified demo trace was rejected but the regular validation found nothing")

    # ---- 3. the real pruner end to end
    reps = ns.e2e(ctx, ctx.seed, 48 if q else 80, 3 if q else 12, "e2e")
    if not q:
        reps += ns.e2e(ctx, ctx.seed + 1000, 64, 8, "e2e-b")

    # crash cuts inside every prune round (after every write and after sampled operation prefixes of the checkpoint /
    # range-delete bulks), re-open, the SAME round again, all reads compared
    creps = ns.e2e(ctx, ctx.seed, 48 if q else 64, 1 if q else 4, "e2e-crash", crash=True)
    ctx.cov["crash_cuts"] = sum(r.get("crashCuts", 0) for r in creps)
    reps += creps
    # the REAL pruner goroutine next to the importer (scaled period / history; needs hooks/pruner-loop.patch)
    if ns.live_hook_present(ctx):
        lreps = ns.e2e(ctx, ctx.seed, 96, 1 if q else 3, "e2e-live", live=True)
        ctx.cov["live_pruner"] = [r["rounds"] for r in lreps]
        reps += lreps
    else:
        ctx.cov["live_pruner"] = "skipped: hooks/pruner-loop.patch (VerifSetLoopScale) is not in " + ctx.repo
        ctx.log("live pruner step skipped: loop-scaling hook not in the tree")

    # ---- reads while a prune round is running (Checkpoint done, DeleteHist not yet): design-level finding
    # (deterministic: fixed histories, independent of VERIF_SEED; only a successful-but-different read of a block inside
    #  [base, target) during the round carries the in-flight signature, anything else is reported under its own)
    ns.inflight_probe(ctx)
    ns.e2e(ctx, 1, 40, 1, "e2e-inflight", inflight=True)

    if ns.DRIFT and not ctx.violations:
        raise Infra("; ".join(ns.DRIFT[:3]))

    # ---- evidence
    nontrivial = [s for s in stats if s["prunes"] >= 1 and s["dedupServed"] > 0]
    ctx.cov["evaluations"] = len(stats) + len(reps)
    ctx.cov["distinct_nontrivial"] = len(nontrivial) + sum(1 for r in reps if r["rounds"] and r["retainedReadsEqual"] > 0)
    ctx.cov["rule"] = ("one evaluation = one history of the real muxdb.Trie (seeded run, or one action sequence of the "
                       "exhaustive enumeration) or one real chain pruned by the real pruner under one option set; "
                       "non-trivial = at least one prune round was completed and afterwards a retained root was read "
                       "completely (i.e. through nodes that now exist only in the deduped space)")
    ctx.cov["histories"] = len(stats)
    ctx.cov["blocks_committed"] = sum(s["blocks"] for s in stats)
    ctx.cov["fork_commits"] = sum(s["forks"] for s in stats)
    ctx.cov["prune_rounds"] = sum(s["prunes"] for s in stats)
    ctx.cov["reopens"] = sum(s["reopens"] for s in stats)
    ctx.cov["root_reads"] = sum(s["reads"] for s in stats)
    ctx.cov["root_reads_failed_after_prune"] = sum(s["errReads"] for s in stats)
    ctx.cov["option_sets_seen"] = len(set(s["cfg"] for s in stats))
    ctx.cov["e2e_chains"] = len(reps)
    ctx.cov["e2e_prune_rounds"] = sum(len(r["rounds"]) for r in reps)
    ctx.cov["e2e_reads_compared"] = sum(r["reads"] for r in reps)
    ctx.cov["e2e_retained_reads_equal"] = sum(r["retainedReadsEqual"] for r in reps)
    ctx.cov["e2e_pruned_reads_failed"] = sum(r["prunedReadsFailed"] for r in reps)
    ctx.cov["e2e_option_sets"] = sorted(set(r["cfg"] for r in reps))
    for r in reps[:2]:
        ctx.sample({"e2e": r["cfg"], "blocks": r["blocks"], "side_blocks": r["sideBlocks"], "rounds": r["rounds"],
                    "reads": r["reads"], "pruned_reads_failed": r["prunedReadsFailed"]}, limit=8)
    ctx.assumptions += [
        "hash function (blake2b) is an injective oracle; the canonical root is recomputed by a reference hasher independent "
        "of package trie (RLP + hex-prefix + blake2b over the canonical shape, shared with C06)",
        "values are 26..33 bytes: leaf encodings straddle the 32-byte embed-or-hash threshold, every full node is still "
        "hashed and stored standalone (Hashed == TRUE in NodeStore.tla)",
        "a crash inside a prune round is followed by the same round again; a round whose crash hit after the delete removed "
        "the roots of block target-1 cannot be re-run (checkpoint error, reads unaffected): recorded as an observation "
        "(crash_resume_errors, NodeStore!Resumable), not as a violation of this property",
        "the block target-1 is on the chain every block >= target descends from, and neither the root cache nor a block "
        "under construction is below the target (what awaitUntilPrunable + MaxStateHistory give in thor); each of these "
        "assumptions is shown necessary by a MC_NodeStore_teeth_*.cfg variant",
        "blocks below the prune target whose hist partition is not range-deleted yet (round still running, or target not "
        "aligned to the partition factor) are 'in flight': their reads are only constrained by the in-flight probe "
        "(known finding inflight-read-differs)",
        "the key layout (partition factors) is persistent state fixed at creation; re-opening with other Options must "
        "not change it (LayoutPersistent; checked on the real muxdb.Open over a scratch directory)",
        "hash-skipped tries: one block does not both delete keys and insert new ones (node versions would depend on "
        "update order; thor's only hash-skipped trie is insert-only)",
        "exhaustive only inside the bounds of MC_NodeStore_*.cfg; larger histories are sampled (seeded) on the real code",
    ]
