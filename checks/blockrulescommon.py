"""Shared machinery of C02: run cmd/blockrules, let Trace_BlockRules.tla judge every logged case, classify what it rejects."""
import json
import os
import re

from verifkit import Infra, read_ndjson, write_ndjson


def parse_catalogue(out):
    """The catalogue printed by MC_BlockRules (ASSUME PrintT(<<"CATALOGUE", ToJson(...)>>))."""
    m = re.search(r'<<\s*"CATALOGUE",\s*"(.*?)"\s*>>', out, re.S)
    if not m:
        raise Infra("MC_BlockRules did not print the catalogue")
    txt = re.sub(r"\s*\n\s*", "", m.group(1)).replace('\\"', '"')
    try:
        return json.loads(txt)
    except Exception as e:
        raise Infra("cannot parse the exported catalogue: %s" % e)


def parse_basefee_cases(out):
    """The case table printed by MC_BlockRulesBaseFee (ASSUME PrintT(<<"BASEFEECASES", ToJson(Cases)>>))."""
    m = re.search(r'<<\s*"BASEFEECASES",\s*"(.*?)"\s*>>', out, re.S)
    if not m:
        raise Infra("MC_BlockRulesBaseFee did not print its cases")
    txt = re.sub(r"\s*\n\s*", "", m.group(1)).replace('\\"', '"')
    try:
        return json.loads(txt)
    except Exception as e:
        raise Infra("cannot parse the exported base-fee cases: %s" % e)


def run_driver(ctx, label, args, timeout=1800):
    """Returns (events, blobs-by-id, summary, argv). A crash of the driver with a Go panic is an observation."""
    binp = ctx.build("blockrules")
    out = ctx.tmp("drv-" + label)
    argv = [binp, "-out", out] + args
    rc, o = ctx.run(argv, timeout=timeout)
    if rc == 3 or (rc is not None and "HARNESS-ERROR" in o):
        raise Infra("blockrules harness error (%s): %s" % (label, o[-1500:]))
    if rc is None:
        raise Infra("blockrules timed out (%s)" % label)
    if rc != 0:
        if "panic:" in o or "goroutine " in o or "fatal error" in o:
            rp = ctx.save_replay("crash-%s-seed%d.txt" % (label, ctx.seed), "argv: %s\n\n%s" % (" ".join(argv), o[-30000:]))
            ctx.report("crash:" + label, "real code crashed the driver (%s): %s" % (label, o.strip().splitlines()[:3]), rp)
            return [], {}, {}, argv
        raise Infra("blockrules failed rc=%s (%s): %s" % (rc, label, o[-2000:]))
    events = read_ndjson(os.path.join(out, "trace.ndjson"))
    blobs = {b["id"]: b for b in read_ndjson(os.path.join(out, "blobs.ndjson"))}
    try:
        summary = json.loads(o.strip().splitlines()[-1])
    except Exception:
        summary = {}
    return events, blobs, summary, argv


def with_end(cases):
    return cases + [{"e": "End", "count": len(cases)}]


NONCONF = re.compile(r'<<\s*"NONCONFORMING",\s*(\d+),\s*<<(.*?)>>\s*>>', re.S)


def judge(ctx, label, cases, timeout=1500):
    """One TLC run over the cases. Returns (accepted, index of the first unmatched case or None, reason tuple, TLCResult)."""
    path = os.path.join(ctx.tmp("val-" + label), "trace-%d.ndjson" % len(os.listdir(ctx.tmp("val-" + label))))
    write_ndjson(path, with_end(cases))
    accepted, hwm, ln, r = ctx.validate_trace("rules", "Trace_BlockRules", path, timeout=timeout)
    if accepted:
        return True, None, None, r
    reason = None
    for m in NONCONF.finditer(r.out):
        if int(m.group(1)) == hwm + 1:
            reason = [x.strip().strip('"') for x in re.sub(r"\s+", " ", m.group(2)).split(",", 4)]
    if hwm >= len(cases):
        raise Infra("trace rejected at the End line (count mismatch): hwm=%d len=%d\n%s" % (hwm, ln, r.out[-1500:]))
    return False, hwm, reason, r


def validate_cases(ctx, label, cases, blobs, argv, max_rounds=10, batch=12000):
    """Judge all cases (in batches: one JVM holds one batch); report every rejected one (violation), collect drift,
    continue without it. Returns the number of cases accepted by the specification."""
    total = 0
    drift = []
    for b in range(0, len(cases), batch):
        total += validate_batch(ctx, "%s-%d" % (label, b // batch), cases[b:b + batch], blobs, argv, max_rounds, drift)
    if drift and ctx.violations:
        # a deviation observed on the real code outranks disagreements that follow from it (e.g. mutants derived from a
        # base block the specification itself rejects)
        ctx.cov["drift_not_raised_because_of_violations"] = ["%s %s" % (d[0], d[1]) for d in drift[:20]]
    elif drift:
        kind, key, reason, ev = drift[0]
        if ev.get("rule") == "valid" and ev.get("var") == "rebuilt_identity":
            raise Infra("the rebuilt base block is not handled as valid (%s): pipeline trouble: %s" % (key, reason))
        raise Infra("specification drift (%s) at %s: %s; observed fresh/warm/node=%s/%s/%s class=%s/%s/%s err=%s (+%d more)" %
                    (kind, key, reason, ev.get("fresh"), ev.get("warm"), ev.get("node"), ev.get("cfresh"), ev.get("cwarm"),
                     ev.get("cnode"), ev.get("err"), len(drift) - 1))
    return total


def validate_batch(ctx, label, cases, blobs, argv, max_rounds, drift):
    pending = list(cases)
    accepted_total = 0
    for rnd in range(max_rounds):
        ok, idx, reason, r = judge(ctx, label, pending)
        if ok:
            accepted_total += len(pending)
            ctx.cov["traces_validated_against_impl"] += len(pending)
            ctx.cov["states"] += r.distinct
            ctx.cov["transitions"] += r.generated
            break
        ev = pending[idx]
        kind = reason[0] if reason else "unknown"
        key = "%s:%s:%s" % (ev.get("rule", ev.get("where", "?")), ev.get("var", "?"), ev.get("prof", "?"))
        blob = blobs.get(ev.get("id"), {})
        art = {"argv": argv, "seed": ctx.seed, "tlc_reason": reason, "case": ev, "blob": blob,
               "how_to_replay": "bin/check C02 --replay <this file>  (re-runs the driver with -only rule:variant on the profile)"}
        if kind in ("violation", "violation:class"):
            sig = ("class" if kind == "violation:class" else classify(ev)) + ":" + key
            rp = ctx.save_replay("%s-%s-seed%d.json" % (label, re.sub(r"[^A-Za-z0-9_.-]", "_", sig), ctx.seed), art)
            ctx.report(sig, describe(ev, reason), rp)
        else:
            drift.append((kind, key, reason, ev))
        # the cases before the offending one were matched; drop it and everything with the same key, go on
        accepted_total += idx
        ctx.cov["traces_validated_against_impl"] += idx
        k3 = (ev.get("rule"), ev.get("var"), ev.get("prof"))
        pending = [e for e in pending[idx + 1:] if (e.get("rule"), e.get("var"), e.get("prof")) != k3 or e.get("kind") == "arb"]
        if ev.get("var") in ("rebuilt_identity", "genuine_base_import") and kind == "violation":
            # the base block itself is off-protocol: everything derived from it says nothing more
            pending = [e for e in pending if not (e.get("kind") == "mutant" and e.get("prof") == ev.get("prof")
                                                  and e.get("height") == ev.get("height"))]
        if not pending:
            break
    else:
        ctx.cov["validation_stopped_early"] = "more than %d rejected cases in batch %s; the rest was not judged" % (max_rounds, label)
    return accepted_total


def classify(ev):
    """Narrow signature prefix of a violating case."""
    if ev.get("e") == "Panic":
        return "panic-decode"
    vs = [ev.get("fresh"), ev.get("warm"), ev.get("node", "skipped")]
    if "panic" in vs:
        return "panic"
    if ev.get("store") == "process-wrote":
        return "process-wrote"
    if ev.get("node") == "reject" and (ev.get("store") != "same" or ev.get("best") != "same"):
        return "trace-left"
    if len(set(v for v in vs if v != "skipped")) > 1:
        return "verdicts-differ"
    if "accept" in vs:
        return "accepted"
    return "overstrict"


def describe(ev, reason):
    return ("%s/%s on profile %s block %s: specification expects %s (violated rules %s); consensus.Process fresh=%s warm=%s, node import=%s, "
            "classes %s/%s/%s, store %s, best %s; errors: %s" %
            (ev.get("rule"), ev.get("var"), ev.get("prof"), ev.get("height"), reason[3] if reason and len(reason) > 3 else "?",
             reason[4] if reason and len(reason) > 4 else "?", ev.get("fresh"), ev.get("warm"), ev.get("node"), ev.get("cfresh"),
             ev.get("cwarm"), ev.get("cnode"), ev.get("store"), ev.get("best"), ev.get("err")))


def binding_demo(ctx, cases):
    """The trace specification must have teeth: flipped verdicts, a corrupted fact and a deleted line are all rejected."""
    rej = next(i for i, e in enumerate(cases) if e.get("kind") == "mutant" and e["goexpect"] == "reject" and e["fresh"] == "reject")
    acc = next(i for i, e in enumerate(cases) if e.get("kind") == "mutant" and e["goexpect"] == "accept" and e["var"] != "rebuilt_identity"
               and e["fresh"] == "accept")
    exact = next((i for i, e in enumerate(cases) if e.get("var") == "up_exact_bound"), None)
    sample = cases[:max(rej, acc, exact or 0) + 1]

    def variant(name, fn):
        evs = [dict(e) for e in sample]
        evs = fn(evs)
        ok, idx, reason, r = judge(ctx, "demo-" + name, evs, timeout=600)
        if ok:
            raise Infra("binding demonstration failed: the %s trace was accepted by Trace_BlockRules" % name)
        return idx

    def flip_reject(evs):
        evs[rej]["node"] = "accept"
        evs[rej]["store"] = "changed"
        return evs

    def flip_accept(evs):
        evs[acc]["fresh"] = evs[acc]["warm"] = evs[acc]["node"] = "reject"
        evs[acc]["store"] = "same"
        return evs

    def store_changed(evs):
        evs[rej]["store"] = "changed"
        return evs

    def corrupt_fact(evs):
        h = dict(evs[exact]["h"])
        gl = list(h["gl"])
        gl[0] = (gl[0] + 1) % 32768      # the accepted gas limit exactly at the bound becomes one over it
        h["gl"] = gl
        evs[exact]["h"] = h
        return evs

    i1 = variant("flipped-reject-verdict", flip_reject)
    i2 = variant("flipped-accept-verdict", flip_accept)
    i3 = variant("store-changed-on-reject", store_changed)
    if exact is not None:
        variant("corrupted-gas-limit-fact", corrupt_fact)
    # deletion: judge() appends End with the current count, so emulate a lost line by a stale count
    evs = [dict(e) for e in sample]
    del evs[rej]
    path = os.path.join(ctx.tmp("val-demo-deleted"), "trace.ndjson")
    write_ndjson(path, evs + [{"e": "End", "count": len(sample)}])
    accepted, hwm, ln, r = ctx.validate_trace("rules", "Trace_BlockRules", path, timeout=600)
    if accepted:
        raise Infra("binding demonstration failed: a trace with a deleted line was accepted")
    if (i1, i2, i3) != (rej, acc, rej):
        raise Infra("binding demonstration: rejected at the wrong lines %s, expected %s" % ((i1, i2, i3), (rej, acc, rej)))
    ctx.cov["binding_demo"] = ("flipped reject->accept verdict, flipped accept->reject verdict, store changed on a rejected block, a gas "
                               "limit fact moved one over the bound, and a deleted line were each rejected by Trace_BlockRules")

