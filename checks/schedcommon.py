"""C05 machinery: drive the real scheduler package (cmd/sched), validate what it answered with Trace_Scheduler.tla."""
import json
import os

from verifkit import Infra, read_ndjson, write_ndjson

SUB = "sched"


def split_instances(events):
    """[(start_index, [Inst, Me..., Slot...])...] ; the End event is dropped."""
    out, cur = [], None
    for i, e in enumerate(events):
        if e["e"] == "Inst":
            cur = (i, [e])
            out.append(cur)
        elif e["e"] != "End":
            cur[1].append(e)
    return out


def join(insts):
    evs = [e for _, es in insts for e in es]
    evs.append({"e": "End"})
    return evs


def run_driver(ctx, label, args, timeout=1200):
    """-> (events, summary). Panics of real code and native-reference mismatches are reported here."""
    binp = ctx.build("sched")
    out = ctx.tmp("rec-" + label)
    argv = [binp, "-out", out] + [str(a) for a in args]
    rc, o = ctx.run(argv, timeout=timeout)
    if rc == 3:
        raise Infra("sched harness error: " + o[-1500:])
    if rc is None:
        # Schedule of PoA v1 is an unbounded loop; a scheduler that never answers is an observation, but a slow machine
        # is not: stay on the safe side
        raise Infra("sched driver timed out (%s)" % label)
    if rc != 0:
        if "panic:" in o or "goroutine " in o:
            rp = ctx.save_replay("panic-%s-seed%d.txt" % (label, ctx.seed), o[-20000:])
            ctx.report("panic:" + label, "real scheduler code panicked outside a recovered call (%s)" % label, rp)
            return [], None
        raise Infra("sched failed rc=%s: %s" % (rc, o[-2000:]))
    summ = json.load(open(os.path.join(out, "summary.json")))
    events = read_ndjson(os.path.join(out, "trace.ndjson"))
    summ["_args"] = [str(a) for a in args]
    how = {"driver_args": [str(a) for a in args], "label": label}
    for p in summ["panics"][:3]:
        rp = ctx.save_replay("panic-%s-inst%d.json" % (label, p["inst"]), dict(how=how, panic=p))
        ctx.report("panic:%s:%s" % (p["kind"], p["what"]),
                   "%s: real scheduler panicked: kind=%s me=%s instance=%s: %s" % (label, p["kind"], p["me"], p["label"], p["args"]), rp)
    return events, summ


def report_native(ctx, label, events, summ, limit=2):
    """Secondary oracle: the driver's independent reference (also the only oracle beyond 32-bit numbers)."""
    how = {"driver_args": summ["_args"], "label": label}
    seen = set()
    for m in summ["native_mismatches"]:
        sig = "native:%s:%s" % (m["kind"], m["what"])
        if sig in seen or len(seen) >= limit:
            continue
        seen.add(sig)
        inst = [es for _, es in split_instances(events) if es[0].get("id") == m["inst"]]
        rp = ctx.save_replay("native-%s-%s-%s-inst%d.json" % (label, m["kind"], m["what"], m["inst"]),
                             dict(how=how, mismatch=m, all_mismatches=summ["native_mismatches"][:20],
                                  instance=inst[0] if inst else "beyond 32-bit numbers: not in the TLC trace"))
        ctx.report(sig, "%s: real scheduler differs from the independent reference (secondary oracle): kind=%s me=%s %s %s [%s]"
                   % (label, m["kind"], m["me"], m["what"], m["args"], m["label"]), rp)


def validate(ctx, events, label, how, timeout=1500, max_reject=3, summ=None):
    """Validate a concatenation of instances; a rejected instance is reported, dropped, and the rest is validated.
    Returns the number of accepted instances."""
    insts = split_instances(events)
    accepted_total = 0
    rejected = 0
    rnd = 0
    while insts:
        rnd += 1
        path = os.path.join(ctx.tmp("val-" + label), "trace-%d.ndjson" % rnd)
        write_ndjson(path, join(insts))
        ok, hwm, ln, r = ctx.validate_trace(SUB, "Trace_Scheduler", path, timeout=timeout)
        ctx.cov["states"] += r.distinct
        ctx.cov["transitions"] += r.generated
        if ok:
            accepted_total += len(insts)
            break
        # hwm = number of lines consumed. Not allowed by Next: the first unmatched line has 0-based index hwm.
        # Invariant violated: it fails in the state reached by consuming the line with 0-based index hwm - 1.
        idx = max(hwm - 1, 0) if r.invariant else hwm
        pos, bad = 0, None
        for k, (_, es) in enumerate(insts):
            if idx < pos + len(es):
                bad, off = k, idx - pos
                break
            pos += len(es)
        if bad is None:
            raise Infra("trace rejected but offending instance not found (hwm=%d len=%d inv=%s)\n%s"
                        % (hwm, ln, r.invariant, r.out[-2000:]))
        es = insts[bad][1]
        ev = es[off]
        if r.invariant:
            what = "property %s is violated by what the real scheduler answered" % r.invariant
            sig = "invariant:%s:%s" % (r.invariant, es[0]["kind"])
        else:
            what = "the answers of the real scheduler are not the ones the specification derives from the facts"
            sig = "rejected:%s:%s" % (ev["e"], es[0]["kind"])
        rp = ctx.save_replay("%s-inst%s-seed%d.json" % (label, es[0].get("id"), ctx.seed),
                             {"how": how, "verdict": what, "offending_index_in_instance": off,
                              "offending_event": ev, "instance_events": es})
        short = {k: v for k, v in ev.items() if k in ("e", "me", "ok", "det", "seq")}
        # which answer differs: the driver's reference (if it disagrees too) names it; the full event is in the artefact
        hint = [m for m in (summ or {}).get("native_mismatches", []) if m["inst"] == es[0].get("id") and m["me"] == ev.get("me", 0)]
        if hint:
            what += " (e.g. %s %s)" % (hint[0]["what"], hint[0]["args"][:200])
        ctx.report(sig, "%s: kind=%s n=%d instance=%s event %s -> %s" %
                   (label, es[0]["kind"], len(es[0]["list"]), es[0].get("label"), json.dumps(short, sort_keys=True), what), rp)
        rejected += 1
        ctx.cov["rejected_instances"] = ctx.cov.get("rejected_instances", 0) + 1
        accepted_total += bad
        insts = insts[bad + 1:]
        if rejected >= max_reject:
            ctx.cov["validation_stopped_early"] = "%d rejected instances in %s; %d instances left unvalidated" % (rejected, label, len(insts))
            break
    ctx.cov["traces_validated_against_impl"] += accepted_total
    return accepted_total


def sample_of(events, want_n=None):
    """An instance (and one of its Me events) worth looking at: some but not all proposers active, me switched
    somebody off; falls back to the first instance of the wanted size."""
    best = None
    for _, es in split_instances(events):
        if want_n is not None and len(es[0]["list"]) != want_n:
            continue
        me = [e for e in es if e["e"] == "Me" and e.get("ok")]
        good = [m for m in me if any(u[1] for u in m["upd"]) and u_inactive(es[0], m["me"])]
        acts = sum(1 for p in es[0]["list"] if p["act"])
        if best is None or (good and 1 < acts < len(es[0]["list"])):
            best = (es, (good or me or [None])[0])
            if good and 1 < acts < len(es[0]["list"]):
                break
    if best is None:
        return None
    es, m = best
    inst = {k: v for k, v in es[0].items() if k != "dp"}
    if len(inst["list"]) > 8:
        inst["list"] = inst["list"][:8] + ["... %d more" % (len(inst["list"]) - 8)]
        inst["ord"] = inst["ord"][:8] + ["..."]
    s = {"Inst": inst}
    if m:
        m = dict(m)
        for k in ("sched", "itt", "upd", "obs"):
            if k in m and len(m[k]) > 6:
                m[k] = m[k][:6] + ["..."]
        s["Me"] = m
    sl = [e for e in es if e["e"] == "Slot"]
    if sl:
        s["Slot"] = {"q": sl[0]["q"][:6] + ["..."]}
    return s


def u_inactive(inst, me):
    return not inst["list"][me - 1]["act"]


def binding_demo(ctx):
    """The trace specification must have teeth: a recorded trace with (a) one logged Schedule answer shifted by one
    interval, (b) one IsTheTime answer flipped, (c) one switched-off proposer dropped from Updates, (d) the order fact
    swapped, (e) one event deleted must each be REJECTED; the untouched trace must be accepted."""
    events, summ = run_driver(ctx, "demo", ["-mode", "exh", "-maxn", 3, "-T", 2, "-seed", ctx.seed + 17, "-v1pn", 2,
                                            "-wvs", "2,3,1"])
    if not events:
        return False
    insts = split_instances(events)

    def pick(kind):
        # an instance of that kind with 3 proposers, all active
        for i, (_, es) in enumerate(insts):
            if es[0]["kind"] == kind and len(es[0]["list"]) == 3 and all(p["act"] for p in es[0]["list"]):
                return i
        raise Infra("binding demo: no suitable %s instance" % kind)

    def variant(name, kind, edit):
        k = pick(kind)
        es = json.loads(json.dumps(insts[k][1]))
        es = edit(es)
        return name, join(insts[max(0, k - 2):k] + [(0, es)] + insts[k + 1:k + 3])

    def shift_sched(es):
        me = [e for e in es if e["e"] == "Me" and e["ok"]][0]
        me["sched"][3][1] += es[0]["T"]
        return es

    def flip_itt(es):
        me = [e for e in es if e["e"] == "Me" and e["ok"]][1]
        me["itt"][5][1] = not me["itt"][5][1]
        return es

    def drop_off(es):
        for e in es:
            if e["e"] == "Me" and e["ok"]:
                for u in e["upd"]:
                    if u[1]:
                        u[1] = u[1][1:]
                        u[3] += 1          # keep score = who stays on consistent: only the missed-slot rule can object
                        return es
        raise Infra("binding demo: no switched-off proposer found")

    def swap_order(es):
        o = es[0]["ord"]
        o[0], o[1] = o[1], o[0]
        return es

    def delete_event(es):
        del es[2]
        return es

    def bad_who(es):
        sl = [e for e in es if e["e"] == "Slot"][0]
        for q in sl["q"]:
            if q[1]:
                q[1] = []
                return es
        raise Infra("binding demo: no owned slot")

    k0 = pick("v2")
    variants = [("untouched", join(insts[max(0, k0 - 2):k0 + 3])),
                variant("schedule-shifted", "v2", shift_sched), variant("isthetime-flipped", "pos", flip_itt),
                variant("updates-dropped", "v1", drop_off), variant("order-fact-swapped", "v2", swap_order),
                variant("event-deleted", "pos", delete_event), variant("slot-owner-removed", "v1", bad_who)]
    verdicts = {}
    for name, evs in variants:
        path = os.path.join(ctx.tmp("demo-v"), name + ".ndjson")
        write_ndjson(path, evs)
        ok, hwm, ln, r = ctx.validate_trace(SUB, "Trace_Scheduler", path, timeout=300)
        verdicts[name] = "accepted" if ok else "rejected at line %d%s" % (hwm, " (%s)" % r.invariant if r.invariant else "")
        if name == "untouched" and not ok:
            # the tree under test does not even produce an acceptable demo trace: the demonstration says nothing; the
            # full traces below decide (and must then report a violation - see C05.run)
            ctx.cov["binding_demo"] = "not performed: the untouched demo trace was rejected (hwm %d of %d)" % (hwm, ln)
            return False
        if name != "untouched" and ok:
            raise Infra("binding demonstration failed: the %s trace was accepted by Trace_Scheduler" % name)
    ctx.cov["binding_demo"] = verdicts
    return True


# ---------------------------------------------------------------------------------------------- Seeder (seed.go)

def split_runs(events):
    runs = []
    for e in events:
        if e["e"] == "Reset":
            runs.append([])
        runs[-1].append(e)
    return runs


def run_seed_driver(ctx, label, args, timeout=900):
    binp = ctx.build("sched")
    out = ctx.tmp("rec-" + label)
    rc, o = ctx.run([binp, "-out", out] + [str(a) for a in args], timeout=timeout)
    if rc == 3:
        raise Infra("sched harness error: " + o[-1500:])
    if rc is None:
        raise Infra("sched driver timed out (%s)" % label)
    if rc != 0:
        if "panic:" in o or "goroutine " in o:
            rp = ctx.save_replay("panic-%s-seed%d.txt" % (label, ctx.seed), o[-20000:])
            ctx.report("panic:" + label, "real code panicked in the seeder driver (%s)" % label, rp)
            return [], None
        raise Infra("sched failed rc=%s: %s" % (rc, o[-2000:]))
    summ = json.load(open(os.path.join(out, "summary.json")))
    return read_ndjson(os.path.join(out, "trace.ndjson")), summ


def validate_seed(ctx, events, label, how, timeout=900, max_reject=3):
    """Trace_Seeder over a concatenation of repositories (Reset ... ); a rejected run is reported and dropped."""
    runs = split_runs(events)
    accepted, rejected, rnd = 0, 0, 0
    while runs:
        rnd += 1
        path = os.path.join(ctx.tmp("val-" + label), "trace-%d.ndjson" % rnd)
        write_ndjson(path, [e for r in runs for e in r])
        ok, hwm, ln, r = ctx.validate_trace(SUB, "Trace_Seeder", path, cfg="Trace_Seeder.cfg", timeout=timeout)
        ctx.cov["states"] += r.distinct
        ctx.cov["transitions"] += r.generated
        if ok:
            accepted += len(runs)
            break
        idx = max(hwm - 1, 0) if r.invariant else hwm
        pos, bad = 0, None
        for k, es in enumerate(runs):
            if idx < pos + len(es):
                bad, off = k, idx - pos
                break
            pos += len(es)
        if bad is None:
            raise Infra("seeder trace rejected but offending run not found (hwm=%d len=%d)\n%s" % (hwm, ln, r.out[-2000:]))
        es = runs[bad]
        ev = es[off]
        if r.invariant:
            what = "property %s is violated by what the real Seeder answered" % r.invariant
            sig = "seeder-invariant:" + r.invariant
        else:
            what = "the real Seeder's answer is not the beta of the parent's own ancestor at the seed height"
            sig = "seeder-rejected:" + ev["e"]
        rp = ctx.save_replay("%s-run%s-seed%d.json" % (label, es[0].get("run"), ctx.seed),
                             {"how": how, "verdict": what, "offending_index_in_run": off, "offending_event": ev,
                              "seeder_interval": es[0].get("si"), "run_events": es})
        ctx.report(sig, "%s: repository run %s (SeederInterval %s) event #%d %s -> %s" %
                   (label, es[0].get("run"), es[0].get("si"), off, json.dumps(ev, sort_keys=True), what), rp)
        rejected += 1
        ctx.cov["rejected_seeder_runs"] = ctx.cov.get("rejected_seeder_runs", 0) + 1
        accepted += bad
        runs = runs[bad + 1:]
        if rejected >= max_reject:
            break
        if runs:
            # the SeederInterval is read from the first Reset of the file: keep it
            runs[0][0]["si"] = es[0].get("si")
    ctx.cov["traces_validated_against_impl"] += accepted
    return accepted


def seed_binding_demo(ctx, events):
    """One recorded repository run with (a) one Generate answer replaced by another seed of the same run, (b) one Blk
    event deleted must be rejected; untouched must be accepted (else the full validation decides)."""
    runs = split_runs(events)
    if not runs:
        return False
    es = runs[0]
    gens = [i for i, e in enumerate(es) if e["e"] == "Gen" and e["got"] != "none"]
    blks = [i for i, e in enumerate(es) if e["e"] == "Blk"]
    if len(gens) < 4:
        raise Infra("seeder binding demo: run without seeds")
    i = gens[len(gens) * 3 // 4]
    other = [es[j]["got"] for j in gens if es[j]["got"] != es[i]["got"]]
    if not other:
        raise Infra("seeder binding demo: only one seed in the run")
    bad = [dict(e) for e in es]
    bad[i]["got"] = other[0]
    j = blks[len(blks) // 2]
    dele = es[:j] + es[j + 1:]
    verdicts = {}
    for name, evs in (("untouched", es), ("seed-answer-replaced", bad), ("block-deleted", dele)):
        path = os.path.join(ctx.tmp("demo-seed"), name + ".ndjson")
        write_ndjson(path, evs)
        ok, hwm, ln, r = ctx.validate_trace(SUB, "Trace_Seeder", path, cfg="Trace_Seeder.cfg", timeout=300)
        verdicts[name] = "accepted" if ok else "rejected at line %d%s" % (hwm, " (%s)" % r.invariant if r.invariant else "")
        if name == "untouched" and not ok:
            ctx.cov["seeder_binding_demo"] = "not performed: the untouched run was rejected"
            return False
        if name != "untouched" and ok:
            raise Infra("binding demonstration failed: the %s seeder trace was accepted by Trace_Seeder" % name)
    ctx.cov["seeder_binding_demo"] = verdicts
    return True
