"""C20 machinery: Publish.tla configurations, the concurrent driver cmd/publish, Trace_Publish validation, the
read-only-ness batch and the race-detector by-product."""
import json
import os
import re

from verifkit import Infra, read_ndjson, write_ndjson

TEETH = [
    # cfg, what must be violated, meaning
    ("MC_Publish_teeth_pubfirst.cfg", "VisibleImpliesComplete", "bestSummary published before the block bulk"),
    ("MC_Publish_teeth_simcommit.cfg", "QueriesAreReadOnly", "a call simulation commits its private state"),
    ("MC_Publish_teeth_noaccepts.cfg", "FinalizedMonotonePerReader", "importer without bft.Accepts"),
    ("MC_Publish_teeth_nexttwoloads.cfg", "NextIsOneSnapshot", "revision next takes its state from a second load of best"),
    ("MC_Publish_vacuity.cfg", "NeverReorgObserved", "vacuity probe: a reader holds the replaced branch while finality moved"),
    ("MC_Publish_vacuity2.cfg", "NeverObservedMidImport", "vacuity probe: a reader holds a block while the next is mid-import"),
]


def design_level(ctx):
    q = ctx.quick
    ctx.tlc_must_hold("store", "MC_Publish", cfg="MC_Publish_quick.cfg" if q else "MC_Publish_thorough.cfg", workers=4,
                      timeout=300 if q else 1800, label="1 importer x %d readers, reorg + epoch boundary + finalization" % (2 if q else 3))
    ctx.tlc_must_hold("store", "MC_Publish", cfg="MC_Publish_next_quick.cfg" if q else "MC_Publish_next.cfg", workers=4, timeout=900,
                      label="2 readers that also issue revision-next requests (header and state from one capture)")
    if not q:
        ctx.tlc_must_hold("store", "MC_Publish", cfg="MC_Publish_quick.cfg", workers=4, timeout=300, label="2 readers")
        ctx.tlc_must_hold("store", "MC_Publish", cfg="MC_Publish_cachelate.cfg", workers=4, timeout=300,
                          label="summary cache filled after publication: harmless (store fallback)")
    shown = []
    for cfg, inv, what in TEETH:
        r = ctx.tlc("store", "MC_Publish", cfg=cfg, workers=4, timeout=300, label="teeth: " + what, count=False)
        if r.invariant != inv:
            raise Infra("Publish.tla lost its teeth: %s (%s) should violate %s, got %s\n%s"
                        % (cfg, what, inv, r.invariant or r.error or "no violation", r.out[-1500:]))
        shown.append("%s => %s violated" % (what, inv))
    ctx.cov["spec_teeth"] = shown


def record(ctx, binp, label, seed, streams, runs, blocks, traceruns=0, tracecap=40, readers=8, batch=400, timeout=1800, propose=4):
    out = ctx.tmp("rec-" + label)
    argv = [binp, "-out", out, "-seed", str(seed), "-streams", str(streams), "-runs", str(runs), "-blocks", str(blocks),
            "-traceruns", str(traceruns), "-tracecap", str(tracecap), "-readers", str(readers), "-batch", str(batch),
            "-propose", str(propose)]
    rc, o = ctx.run(argv, timeout=timeout)
    if rc == 3:
        raise Infra("publish harness error: " + o[-1500:])
    if rc is None:
        raise Infra("publish driver timed out (%s)" % label)
    if rc != 0 or not os.path.exists(os.path.join(out, "runs.json")):
        if died_in_thor(o):
            rp = ctx.save_replay("panic-%s-%d.txt" % (label, seed), o[-30000:])
            m = re.search(r"(panic|fatal error): (.*)", o)
            ctx.report("panic:driver", "the process died in real code while it ran concurrently (%s): %s" % (label, m.group(0)[:300] if m else ""), rp)
            return None, None, o
        raise Infra("publish failed rc=%s: %s" % (rc, o[-2000:]))
    d = json.load(open(os.path.join(out, "runs.json")))
    return d, os.path.join(out, "trace.ndjson"), o


def split_runs(events):
    cfg, runs = events[0], []
    for e in events[1:]:
        if e["e"] == "Reset":
            runs.append([])
        runs[-1].append(e)
    return cfg, runs


def report_driver_violations(ctx, d, trace_path, label, how):
    """Every violation the driver observed directly; one report per signature with the first artefact and a count."""
    by_sig = {}
    for r in d["runs"]:
        for v in r.get("violations") or []:
            by_sig.setdefault(v["signature"], []).append((r, v))
    if not by_sig:
        return {}
    cfg, runs = split_runs(read_ndjson(trace_path))
    run_trace = {(t[0].get("stream"), t[0].get("run")): t for t in runs}
    for sig, lst in sorted(by_sig.items()):
        r, v = lst[0]
        rs = {k: x for k, x in r.items() if k != "violations"}
        tr = run_trace.get((r["stream"], r["run"]), [])
        lo, hi = v.get("stamp_start", 0), v.get("stamp_end", 0)
        near = [e for e in tr if lo and lo - 60 <= e.get("t", -1) <= hi + 60]
        rp = ctx.save_replay("%s-%s-seed%s-s%d-r%d.json" % (label, re.sub(r"[^A-Za-z0-9_.-]", "_", sig), r.get("seed"), r["stream"], r["run"]),
                             {"how": how, "signature": sig, "occurrences_in_this_batch": len(lst), "runs_in_this_batch": len(d["runs"]),
                              "violation": v, "run": rs, "trace_around_the_stamps": near})
        ctx.report(sig, "%s (%d occurrence(s) in %d runs; stream seed %s run %d, %s): %s" %
                   (sig, len(lst), len(d["runs"]), r.get("seed"), r["run"], v.get("reader"), v["what"][:700]), rp)
    return {s: len(l) for s, l in by_sig.items()}


def validate(ctx, trace_path, label, how, timeout=1500):
    """Trace_Publish must accept every recorded run; a rejected run is isolated, reported, and the rest re-validated."""
    events = read_ndjson(trace_path)
    cfg, runs = split_runs(events)
    pending = list(range(len(runs)))
    guard = 0
    while pending:
        guard += 1
        if guard > 6:
            ctx.cov["validation_stopped_early"] = "more than 5 rejected runs in batch %s" % label
            return
        path = os.path.join(ctx.tmp("val-" + label), "trace-%d.ndjson" % guard)
        write_ndjson(path, [cfg] + [e for k in pending for e in runs[k]])
        accepted, hwm, ln, r = ctx.validate_trace("store", "Trace_Publish", path, timeout=timeout, heap="6g")
        ctx.cov["states"] += r.distinct
        ctx.cov["transitions"] += r.generated
        ctx.cov["trace_lines_validated"] = ctx.cov.get("trace_lines_validated", 0) + min(hwm, ln)
        if accepted:
            ctx.cov["traces_validated_against_impl"] += len(pending)
            kinds = ctx.cov.setdefault("validated_event_kinds", {})
            for k in pending:
                prev_fin = {}
                for e in runs[k]:
                    name = e["e"]
                    if name == "W":
                        name = "W:" + e["cls"] + ("" if e["cls"] != "state" or e.get("last") else ":part")
                    elif name == "RD":
                        name = "RD:" + e["k"]
                    elif name == "Skip":
                        name = "Skip:" + e["why"]
                    elif name == "FE" and prev_fin.get(e["r"], e["f"]) != e["f"]:
                        kinds["FE:changed"] = kinds.get("FE:changed", 0) + 1
                    if e["e"] == "FE":
                        prev_fin[e["r"]] = e["f"]
                    kinds[name] = kinds.get(name, 0) + 1
            for k in pending[:1]:
                ctx.sample({"trace_run": runs[k][0], "first_events": runs[k][1:9]}, limit=4)
            return
        pos, bad = 1, None
        for k in pending:
            n = len(runs[k])
            if hwm < pos + n:
                bad, off = k, hwm - pos
                break
            pos += n
        if bad is None:
            raise Infra("trace rejected but the offending run was not found (hwm=%d len=%d)\n%s" % (hwm, ln, r.out[-1500:]))
        ev = runs[bad][off]
        hdr = runs[bad][0]
        what = "invariant %s violated" % r.invariant if r.invariant else "event not allowed by Publish.tla"
        sig = "trace-rejected:%s" % (r.invariant or (ev.get("e") + (":" + ev["k"] if ev.get("e") == "RD" else "")))
        rp = ctx.save_replay("%s-trace-s%s-r%s.json" % (label, hdr.get("stream"), hdr.get("run")),
                             {"how": how, "run_header": hdr, "offending_index": off, "offending_event": ev, "tlc": what,
                              "context": runs[bad][max(0, off - 40):off + 5], "config": cfg})
        ctx.report(sig, "%s: stream seed %s run %s event #%d %s -> %s" % (label, hdr.get("seed"), hdr.get("run"), off, json.dumps(ev, sort_keys=True), what), rp)
        ctx.cov["rejected_runs"] = ctx.cov.get("rejected_runs", 0) + 1
        idx = pending.index(bad)
        ctx.cov["traces_validated_against_impl"] += idx
        pending = pending[idx + 1:]


def binding_demo(ctx, binp):
    """The trace spec must have teeth (DESIGN 3.2): corrupted variants of a recorded run are rejected."""
    d, trace_path, _ = record(ctx, binp, "demo", ctx.seed + 77, 1, 3, 14, tracecap=25, batch=20, propose=2)
    if d is None:
        raise Infra("binding demo: driver died")
    cfg, runs = split_runs(read_ndjson(trace_path))
    if not runs:
        raise Infra("binding demo: every demo run diverged from its reference (see the reported violations); no clean trace to corrupt")
    run = runs[0]
    accepted, hwm, ln, r = ctx.validate_trace("store", "Trace_Publish", _write(ctx, "demo-orig", [cfg] + run), timeout=300)
    if not accepted:
        return False      # reported by the caller through validate()
    oes = [i for i, e in enumerate(run) if e["e"] == "OE"]
    blks = {e["b"]: i for i, e in enumerate(run) if e["e"] == "W" and e["cls"] == "blk" and e["best"]}
    never_best = [e["b"] for e in run if e["e"] == "W" and e["cls"] == "blk" and not e["best"]]
    variants = {}
    # (a) an observation of a block that was stored but never best
    late = [i for i in oes if i > len(run) // 2]
    if never_best and late:
        v = [dict(e) for e in run]
        i = late[0]
        r_, old = v[i]["r"], v[i]["b"]
        v[i]["b"] = never_best[0]
        for j in range(i + 1, len(v)):          # its reads follow the claimed block
            if v[j].get("r") == r_ and v[j]["e"] == "RD" and v[j]["b"] == old:
                v[j]["b"] = never_best[0]
            elif v[j].get("r") == r_ and v[j]["e"] == "OS":
                break
        variants["observed-a-block-that-was-never-best"] = v
    # (b) swapped stamps: an observation moved before the block bulk of the block it returned
    cand = [i for i in oes if run[i]["b"] in blks and blks[run[i]["b"]] < i and run[i]["b"] != run[0]["g"]]
    if cand:
        i = cand[len(cand) // 2]
        os_i = max(j for j in range(i) if run[j]["e"] == "OS" and run[j]["r"] == run[i]["r"])
        group = [j for j in range(os_i, len(run)) if run[j].get("r") == run[i]["r"] and run[j]["e"] in ("OS", "OE", "RD")]
        end = next((j for j in group if j > os_i and run[j]["e"] == "OS"), len(run))
        group = [j for j in group if j < end]
        moved = [run[j] for j in group]
        rest = [e for j, e in enumerate(run) if j not in set(group)]
        at = next(k for k, e in enumerate(rest) if e["e"] == "W" and e["cls"] == "blk" and e["b"] == run[i]["b"])
        variants["observation-stamped-before-the-bulk-write"] = rest[:at] + moved + rest[at:]
    # (c) a read reported as failed
    rds = [i for i, e in enumerate(run) if e["e"] == "RD" and e["ok"]]
    if rds:
        v = [dict(e) for e in run]
        v[rds[len(rds) // 2]]["ok"] = False
        variants["read-reported-as-failed"] = v
    nx = [i for i, e in enumerate(run) if e["e"] == "RD" and e["k"] == "next" and e["ok"]]
    if nx:
        v = [dict(e) for e in run]
        v[nx[len(nx) // 2]]["ok"] = False
        variants["next-revision-reported-torn"] = v
    # (d) the block bulk of a best block deleted
    bi = sorted(blks.values())
    if bi:
        j = bi[len(bi) // 2]
        variants["block-bulk-deleted"] = run[:j] + run[j + 1:]
    # (e) finalized observation going backwards
    fes = [i for i, e in enumerate(run) if e["e"] == "FE" and e["f"] != run[0]["g"]]
    if fes:
        v = [dict(e) for e in run]
        i = fes[-1]
        v[i]["f"] = run[0]["g"]
        variants["finalized-observed-backwards"] = v
    # (f) a write by a non-importer goroutine
    v = list(run)
    v.insert(len(v) // 2, {"e": "QW", "cls": "state", "t": 0})
    variants["query-writes"] = v
    if len(variants) < 6:
        raise Infra("binding demo: recorded run too poor to build the corrupted variants (%s)" % sorted(variants))
    for name, evs in variants.items():
        accepted, hwm, ln, r = ctx.validate_trace("store", "Trace_Publish", _write(ctx, "demo-" + name, [cfg] + evs), timeout=300)
        if accepted:
            raise Infra("binding demonstration failed: variant '%s' of a recorded trace was accepted by Trace_Publish" % name)
    ctx.cov["binding_demo"] = "original accepted; rejected as they must be: " + ", ".join(sorted(variants))
    return True


def _write(ctx, name, evs):
    p = os.path.join(ctx.tmp("demo-variants"), name + ".ndjson")
    write_ndjson(p, evs)
    return p


RACE_RE = re.compile(r"WARNING: DATA RACE\n(.*?)\n==================", re.S)


def died_in_thor(out):
    """Did the process die in real code?  Looks at the goroutine that panicked: the first frames after the panic line
    (skipping the runtime) must contain a thor frame before any harness frame. Harness must() panics, OOM and runtime
    fatal errors without thor frames are infrastructure trouble."""
    m = re.search(r"^(panic|fatal error): .*$", out, re.M)
    if not m:
        return False
    tail = out[m.end():]
    g = re.search(r"^goroutine \d+ \[[^\]]*\]:\n((?:.+\n?)+)", tail, re.M)
    if not g:
        return False
    for fn in re.findall(r"^(\S+)\(.*\)$", g.group(1), re.M):
        if fn.startswith(("panic", "runtime.", "runtime/", "sync.", "sync/")):
            continue
        if fn.startswith("github.com/vechain/thor/v2/"):
            return True
        if fn.startswith(("main.", "verifharness/")):
            return False
    return False


KNOWN_RACES = [
    # (name kept stable for known_findings.json, predicate on (writer thor frame, other thor frame, all function names of the report))
    ("data-race:muxdb.(*cache).GetNodeBlob",
     lambda w, o, fns: w == "muxdb.(*cache).GetNodeBlob" and o == "muxdb.(*cache).GetNodeBlob"
     and any(f.startswith("github.com/qianbin/directcache.entry.") for f in fns)),
    ("data-race:trie.(*hasher).hash",
     lambda w, o, fns: w == "trie.(*hasher).hash" and (o.startswith(("trie.(*shortNode).", "trie.(*fullNode).", "trie.(*hasher).")))),
]


def classify_race(rep):
    """-> (signature | "unclassified" | "harness").  The signature is made of the PAIR (innermost thor frame of the
    writing access, innermost thor frame of the other access), writer first, so it does not depend on which access the
    detector saw second; the two known races keep their historical names. A report with a stack the detector could not
    restore cannot be attributed and is only counted."""
    blocks = re.findall(r"^((?:Previous )?(?:[Ww]rite|[Rr]ead|Atomic \w+) at [^\n]*)\n((?:  .*\n?)*)", rep, re.M)
    if len(blocks) < 2:
        return "unclassified"
    accs, fns = [], []
    for head, body in blocks[:2]:
        if "failed to restore the stack" in body or not body.strip():
            return "unclassified"
        frames = re.findall(r"^\s+(\S+)\(\)\n\s+(\S+:\d+)", body, re.M)
        fns += [f for f, loc in frames]
        thor = [f for f, loc in frames if "github.com/vechain/thor/v2/" in f]
        accs.append(("rite" in head, thor[0].split("github.com/vechain/thor/v2/")[-1] if thor else None))
    if all(t is None for w, t in accs):
        return "harness"
    if any(t is None for w, t in accs):
        # one side entirely in the harness / a library, the other in thor: name the thor side, keep the pair shape
        accs = [(w, t or "(non-thor)") for w, t in accs]
    accs.sort(key=lambda a: (not a[0], a[1]))          # writer first; two writers: by name
    w, o = accs[0][1], accs[1][1]
    for name, pred in KNOWN_RACES:
        if pred(w, o, fns):
            return name
    return "data-race:%s|%s" % (w, o)


def race_byproduct(ctx):
    """Same driver under the race detector. Outside the TLA+ argument (DESIGN section 1)."""
    try:
        binp = ctx.build("publish", race=True)
    except Infra as e:
        ctx.cov["race_detector"] = {"skipped": "race build failed in this sandbox (no cgo / race runtime?): " + str(e)[-300:]}
        return
    q = ctx.quick
    out = ctx.tmp("race")
    argv = [binp, "-out", out, "-seed", str(ctx.seed + 5), "-streams", "2" if q else "4", "-runs", "1" if q else "3", "-blocks", "16" if q else "30",
            "-traceruns", "1", "-batch", "60", "-nostamp"]     # no shared stamp counter: it would order the accesses for the detector
    rc, o = ctx.run(argv, timeout=1500, env={"GORACE": "halt_on_error=0 history_size=6"})
    reports = RACE_RE.findall(o)
    info = {"reports": len(reports), "exit": rc, "runs": 0, "unclassified": 0, "by_signature": {}}
    ctx.cov["race_detector"] = info
    # the run itself first: reports of the ever-present known race must not hide a crash or a timeout
    if rc is None:
        raise Infra("publish (race build) timed out")
    if rc == 3:
        raise Infra("publish (race build) harness error: " + o[-1500:])
    if rc not in (0, 66):
        if died_in_thor(o):
            rp = ctx.save_replay("race-panic.txt", o[-30000:])
            m = re.search(r"(panic|fatal error): (.*)", o)
            ctx.report("panic:driver", "real code died under the race detector: %s" % (m.group(0)[:300] if m else ""), rp)
        else:
            raise Infra("publish (race build) failed rc=%s: %s" % (rc, o[-2000:]))
    seen = {}
    for rep in reports:
        sig = classify_race(rep)
        if sig == "unclassified":
            info["unclassified"] += 1
            continue
        info["by_signature"][sig] = info["by_signature"].get(sig, 0) + 1
        seen.setdefault(sig, rep)
    if "harness" in seen:
        raise Infra("data race inside the harness itself (my bug):\n" + seen["harness"][:3000])
    for sig, rep in seen.items():
        rp = ctx.save_replay("race-%s.txt" % re.sub(r"[^A-Za-z0-9_.-]", "_", sig), rep)
        ctx.report(sig, "race detector: %s\n%s" % (sig, rep[:600]), rp)
    if os.path.exists(os.path.join(out, "runs.json")):
        d = json.load(open(os.path.join(out, "runs.json")))
        info["runs"] = sum(1 for r in d["runs"] if r["run"] >= 0)
        info["pos_runs"] = sum(1 for r in d["runs"] if r["run"] >= 0 and r.get("pos"))
        report_driver_violations(ctx, d, os.path.join(out, "trace.ndjson"), "race", {"argv": argv[1:]})
    elif rc in (0, 66):
        raise Infra("publish (race build) left no runs.json: " + o[-1000:])


def directed_justified_gap(ctx):
    """Directed schedule for bft.Engine.Justified(): a reader suspended between its two loads (hook VerifJustifiedGap,
    /repo af57e9d) while the importer imports up to four epochs. Deterministic."""
    try:
        binp = ctx.build("publishgap")
    except Infra as e:
        ctx.cov["justified_gap"] = {"skipped": "cmd/publishgap does not build against this tree (hook bft.VerifJustifiedGap missing?): " + str(e)[-200:]}
        return
    cases = failing = 0
    for seed in (ctx.seed * 2, ctx.seed * 2 + 1):            # one PoA, one PoS network
        out = ctx.tmp("gap-%d" % seed)
        rc, o = ctx.run([binp, "-out", out, "-seed", str(seed)], timeout=600)
        if rc != 0 or not os.path.exists(os.path.join(out, "gap.json")):
            raise Infra("publishgap failed rc=%s: %s" % (rc, o[-1500:]))
        d = json.load(open(os.path.join(out, "gap.json")))
        cases += len(d["cases"])
        bad = [c for c in d["cases"] if c.get("error") or c.get("inadmissible")]
        failing += len(bad)
        by = {}
        for c in bad:
            msg = c.get("error") or c.get("inadmissible")
            sig = "justified-error:stale-head" if "headID precedes finalized" in msg else ("justified-error" if c.get("error") else "justified-inadmissible")
            by.setdefault(sig, []).append(c)
        for sig, lst in by.items():
            rp = ctx.save_replay("gap-%s-seed%d.json" % (re.sub(r"[^A-Za-z0-9_.-]", "_", sig), seed), {"how": {"driver": "publishgap", "seed": seed}, "signature": sig, "cases": lst})
            ctx.report(sig, "directed schedule (reader suspended between the two loads of Engine.Justified while %d block(s) are imported; %d of %d cases, seed %d, %s): %s"
                       % (lst[0]["imported_during_the_gap"], len(lst), len(d["cases"]), seed, "PoS" if d["pos"] else "PoA", json.dumps(lst[0])), rp)
        ctx.sample({"justified_gap_case": d["cases"][len(d["cases"]) // 2]}, limit=5)
    ctx.cov["justified_gap"] = {"cases": cases, "failing": failing}
