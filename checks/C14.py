"""C14 - the block store answers by-number, by-id and stream queries per branch correctly.  DESIGN section 5 (C14)."""
import os

import chainindexcommon as cc
from verifkit import Infra


def design_level(ctx, q):
    # 1. design level: ChainIndex.tla, exhaustive.  (a) block trees with readers started at any known block, all
    #    interleavings of AddBlock (best back and forth) / StartReader / Read; (b) block trees carrying transactions
    #    (the same tx re-included on siblings, twice on a chain) for the by-id queries
    for c in (["readers_quick"] if q else ["readers_thorough", "readers_thorough2"]):
        ctx.tlc_must_hold(cc.SUB, "MC_ChainIndex", cfg="MC_ChainIndex_%s.cfg" % c, workers=4, timeout=900 if q else 3000,
                          label="trees + 2 readers, exhaustive")
    for c in (["rawtx_quick"] if q else ["rawtx_thorough", "rawtx_thorough2"]):
        ctx.tlc_must_hold(cc.SUB, "MC_ChainIndex", cfg="MC_ChainIndex_%s.cfg" % c, workers=4, timeout=900 if q else 3000,
                          label="trees + txs (repository level), exhaustive")
    # the delivery loop of a subscription: Read and Wait are separate steps, imports fall between them; with the waiter
    # created before the first Read a sleeping subscription has delivered everything, created at the wait it has not
    ctx.tlc_must_hold(cc.SUB, "ChainIndexPipe", cfg="MC_ChainIndexPipe.cfg", workers=2, timeout=300,
                      label="pipe: quiescent => delivered, eventually on best")
    r = ctx.tlc(cc.SUB, "ChainIndexPipe", cfg="MC_ChainIndexPipe_late.cfg", workers=2, timeout=300, count=False,
                label="waiter created after the read: must be violated")
    if r.invariant != "QuiescentDelivered":
        raise Infra("the late-waiter variant of the pipe was not caught: %s" % (r.invariant or r.error or "no violation"))
    # the invariants have teeth: with the conflict ordinal left out of the index version they fail
    r = ctx.tlc(cc.SUB, "MC_ChainIndex", cfg="MC_ChainIndex_broken.cfg", workers=2, timeout=300, count=False,
                label="deliberately broken design (conflicts ignored): must be violated")
    if r.invariant != "ByNumberIsAncestor":
        raise Infra("the broken design (index version without conflicts) was not caught by ByNumberIsAncestor: %s"
                    % (r.invariant or r.error or "no violation"))
    ctx.cov["design_teeth"] = "index version without the conflict ordinal violates ByNumberIsAncestor (%d states)" % r.distinct
    # vacuity guards: the bounded model reaches readers above best (best moved to a shorter branch), on an abandoned
    # sibling one below best, on a descendant of best, and side branches two deep
    for v, inv in (("above", "NeverReaderAboveBest"), ("sibling", "NeverReaderOnSiblingBelowBest"),
                   ("descendant", "NeverReaderOnDescendantOfBest"), ("sidedeep", "NeverSideBranchTwoDeep")):
        r = ctx.tlc(cc.SUB, "MC_ChainIndex", cfg="MC_ChainIndex_vac_%s.cfg" % v, workers=2, timeout=300, count=False,
                    label="vacuity guard: must be violated")
        if r.invariant != inv:
            raise Infra("the bounded model does not reach the shape %s: %s" % (inv, r.invariant or r.error or "no violation"))



def run(ctx):
    if ctx.replay:
        return cc.replay(ctx)
    q = ctx.quick
    if os.environ.get("VERIF_PART") != "demo":
        design_level(ctx, q)

    # With hooks/subscriptions.patch in the tree the subscription readers are also driven Read by Read (AddBlocks between
    # the individual reads of block / beat / beat2 readers that share the handler's caches)
    hooked = os.path.exists(os.path.join(ctx.repo, "api/subscriptions/verif_hooks.go"))
    piped = hooked and "VerifServe" in open(os.path.join(ctx.repo, "api/subscriptions/verif_hooks.go")).read()
    tags = "verif,verifsubs,verifpipe" if piped else "verif,verifsubs" if hooked else "verif"
    ctx.cov["subscription_pipe_wrapped"] = piped
    step = ["-substep"] if hooked else []
    ctx.cov["subscription_readers_stepped"] = hooked

    # 2. binding demonstration on a recorded tree run
    pool = cc.DemoPool(ctx, "chainindex", ["-mode", "tree", "-blocks", "12"] + step, "demo", tags=tags)
    cc.invariant_demo(ctx, pool, "c14")
    cc.binding_demo(ctx, pool, "c14", [
        ("bynum-swapped", cc.mut_bynum), ("exclude-fork-block-dropped", cc.mut_exclude),
        ("obsolete-flag-cleared", cc.mut_obsolete), ("subscription-obsolete-flag-cleared", cc.mut_sub_obsolete),
        ("lookup-from-wrong-branch", cc.mut_lookup_branch),
        ("add-deleted", cc.mut_delete("Add")), ("read-deleted", cc.mut_delete_read),
        ("reopen-deleted-best-moved", cc.mut_reopen)])
    cc.stalled(ctx)
    if os.environ.get("VERIF_PART") == "demo":       # development aid: only the demonstrations
        ctx.cov.update(evaluations=len(pool.runs), distinct_nontrivial=0, rule="demonstrations only")
        return

    # 3. implementation -> model: random trees on a real Repository, every query from every head after every AddBlock,
    #    readers from every position (above best, on abandoned siblings); real websocket subscriptions of every kind
    #    (block, beat, beat2, transfer, event) from api/subscriptions over the same repository, sharing the handler's
    #    message caches; long reorganisations (>= 80 blocks deep) with readers following them
    all_stats = []
    n_tree = 24 if q else 400
    runs, stats, how = cc.record(ctx, "chainindex", ["-mode", "tree,treeclean", "-blocks", "12" if q else "15"] + step, "trees", n_tree,
                                 tags=tags)
    acc = cc.validate_runs(ctx, runs, stats, "trees", how, batch=40)
    all_stats += [stats[i] for i in acc]
    for k in acc[:2]:
        ctx.sample({"mode": runs[k][0]["mode"], "seed": runs[k][0]["seed"],
                    "events": [e for e in runs[k] if e["e"] in ("Add", "Read", "Excl")][:6]}, limit=4)
    n_long = 1 if q else 16
    runs, stats, how = cc.record(ctx, "chainindex", ["-mode", "long"], "long", n_long, seed_offset=5, tags=tags)
    acc = cc.validate_runs(ctx, runs, stats, "long", how, batch=4)
    all_stats += [stats[i] for i in acc]
    for k in acc[:1]:
        ctx.sample({"mode": "long", "seed": runs[k][0]["seed"],
                    "reads_with_obsolete": [e for e in runs[k] if e["e"] == "Read" and len(e["out"]) > 3][:1]}, limit=4)

    # 3b. what Repository.AddBlock permits beyond the node's fork choice: a child of best that is not best, readers on
    #     descendants of best (the design streams the obsolete blocks and stops at best)
    runs, stats, how = cc.record(ctx, "chainindex", ["-mode", "treefree", "-blocks", "10"], "free", 4 if q else 40, seed_offset=11,
                                 tags=tags)
    acc = cc.validate_runs(ctx, runs, stats, "free", how, batch=4 if q else 8)
    all_stats += [stats[i] for i in acc]
    ctx.cov["reads_from_descendant_of_best"] = sum(s["readsFromDescendantOfBest"] for s in stats)

    shapes = {k: sum(s.get(k, 0) for s in all_stats) for k in
              ("readsFromAboveBest", "readsFromSiblingOneBelow", "addsOnSideBranchTip", "subscriptions",
               "subscriptionMessages", "subscriptionObsolete", "reopens")}
    if piped:
        shapes["importsBetweenReadAndWait"] = sum(s.get("importsBetweenReadAndWait", 0) for s in all_stats)
    if hooked:
        for k in ("steppedSubscriptionReaders", "steppedSubscriptionReads"):
            shapes[k] = sum(s.get(k, 0) for s in all_stats)
    ctx.cov.update(shapes)
    cc.stalled(ctx)
    if not ctx.violations:
        for k, v in shapes.items():
            if v == 0:
                raise Infra("the recorded runs never produced the shape %s" % k)
    ctx.cov["evaluations"] = len(all_stats)
    ctx.cov["distinct_nontrivial"] = sum(1 for s in all_stats if s["forkHeights"] >= 1 and s["reorgs"] >= 1
                                         and s["obsoleteFlagged"] >= 1 and s["readersStartedOffCanonical"] >= 1)
    ctx.cov["rule"] = ("one evaluation = one seeded run of cmd/chainindex on a fresh real Repository (distinct seed => distinct "
                       "genesis and block ids); non-trivial = the tree forked, best moved to a non-child at least once, a reader "
                       "was started off the canonical chain and at least one block was streamed as obsolete")
    cc.sum_stats(ctx, all_stats, ["blocks", "forkHeights", "reorgs", "byNumAnswers", "excludePairs", "lookups", "readers",
                                  "readersStartedOffCanonical", "reads", "obsoleteFlagged", "rawBlocks", "reincluded"])
    ctx.cov["max_siblings"] = max([s["maxSiblings"] for s in all_stats] or [0])
    ctx.cov["max_reorg_depth"] = max([s["maxReorgDepth"] for s in all_stats] or [0])
    ctx.cov["exhaustive"] = False
    ctx.assumptions += [
        "hashes/signatures are injective oracles; block and tx ids are logged facts (a block id carries its number)",
        "no assumption on the fork choice: best may move to any newly stored block (shorter branches included) and a child "
        "of best may be stored without becoming best (mode treefree; the node itself never does the latter)",
        "subscriptions run dry after every AddBlock that moves best (the server side reads at a moment the client cannot "
        "see); mid-walk interleavings of reads with AddBlocks are exercised on chain.BlockReader directly",
        "conflicts passed to AddBlock is Repository.ScanConflicts(height) at that moment, as the node's import path does",
        "the store is closed and re-opened in every run (fresh MuxDB and Repository over the same in-memory key-value engine, "
        "odd seeds with a real trie node cache): the number index, heads, best and the tx index are read back from the engine; "
        "a leveldb on disk is not involved",
        "a subscription that delivers nothing for 20 s is probed without a clock (a chain.BlockReader at the same position, "
        "logged and judged); if the probe is fine the run is set aside and the check ends with exit 2, never a violation",
        "api/subscriptions is exercised through its real HTTP/websocket handlers (httptest server, gorilla client); the "
        "pending-tx stream is out of scope",
        "exhaustive only inside the bounds of MC_ChainIndex_*.cfg (quick: 7 blocks, thorough: 9 blocks; <= 3 per height, 2 readers); larger trees are sampled",
    ]
