"""C14 - the block store answers by-number, by-id and stream queries per branch correctly.  DESIGN section 5 (C14)."""
import chainindexcommon as cc
from verifkit import Infra


def run(ctx):
    if ctx.replay:
        return cc.replay(ctx)
    q = ctx.quick
    # 1. design level: ChainIndex.tla, exhaustive.  (a) block trees with readers started at any known block, all
    #    interleavings of AddBlock (best back and forth) / StartReader / Read; (b) block trees carrying transactions
    #    (the same tx re-included on siblings, twice on a chain) for the by-id queries
    for c in (["readers_quick"] if q else ["readers_thorough", "readers_thorough2"]):
        ctx.tlc_must_hold(cc.SUB, "MC_ChainIndex", cfg="MC_ChainIndex_%s.cfg" % c, workers=4, timeout=900 if q else 3000,
                          label="trees + 2 readers, exhaustive")
    for c in (["rawtx_quick"] if q else ["rawtx_thorough", "rawtx_thorough2"]):
        ctx.tlc_must_hold(cc.SUB, "MC_ChainIndex", cfg="MC_ChainIndex_%s.cfg" % c, workers=4, timeout=900 if q else 3000,
                          label="trees + txs (repository level), exhaustive")
    # the invariants have teeth: with the conflict ordinal left out of the index version they fail
    r = ctx.tlc(cc.SUB, "MC_ChainIndex", cfg="MC_ChainIndex_broken.cfg", workers=2, timeout=300, count=False,
                label="deliberately broken design (conflicts ignored): must be violated")
    if r.invariant != "ByNumberIsAncestor":
        raise Infra("the broken design (index version without conflicts) was not caught by ByNumberIsAncestor: %s"
                    % (r.invariant or r.error or "no violation"))
    ctx.cov["design_teeth"] = "index version without the conflict ordinal violates ByNumberIsAncestor (%d states)" % r.distinct

    # 2. binding demonstration on a recorded tree run
    runs, stats, how = cc.record(ctx, "chainindex", ["-mode", "tree", "-blocks", "12"], "demo", 1, seed_offset=977)
    if cc.validate_runs(ctx, runs, stats, "demo", how) != [0]:
        return
    cc.binding_demo(ctx, runs[0], "c14", [
        ("bynum-swapped", cc.mut_bynum), ("exclude-fork-block-dropped", cc.mut_exclude),
        ("obsolete-flag-cleared", cc.mut_obsolete), ("lookup-from-wrong-branch", cc.mut_lookup_branch),
        ("add-deleted", cc.mut_delete("Add")), ("read-deleted", cc.mut_delete("Read"))])

    # 3. implementation -> model: random trees on a real Repository, every query from every head after every AddBlock,
    #    readers from every position; long reorganisations (>= 80 blocks deep) with readers following them
    all_stats = []
    n_tree = 24 if q else 400
    runs, stats, how = cc.record(ctx, "chainindex", ["-mode", "tree,treeclean", "-blocks", "12" if q else "15"], "trees", n_tree)
    acc = cc.validate_runs(ctx, runs, stats, "trees", how, batch=40)
    all_stats += [stats[i] for i in acc]
    for k in acc[:2]:
        ctx.sample({"mode": runs[k][0]["mode"], "seed": runs[k][0]["seed"],
                    "events": [e for e in runs[k] if e["e"] in ("Add", "Read", "Excl")][:6]}, limit=4)
    n_long = 2 if q else 16
    runs, stats, how = cc.record(ctx, "chainindex", ["-mode", "long"], "long", n_long, seed_offset=5)
    acc = cc.validate_runs(ctx, runs, stats, "long", how, batch=4)
    all_stats += [stats[i] for i in acc]
    for k in acc[:1]:
        ctx.sample({"mode": "long", "seed": runs[k][0]["seed"],
                    "reads_with_obsolete": [e for e in runs[k] if e["e"] == "Read" and len(e["out"]) > 3][:1]}, limit=4)

    ctx.cov["evaluations"] = len(all_stats)
    ctx.cov["distinct_nontrivial"] = sum(1 for s in all_stats if s["forkHeights"] >= 1 and s["reorgs"] >= 1
                                         and s["obsoleteFlagged"] >= 1 and s["readersStartedOffCanonical"] >= 1)
    ctx.cov["rule"] = ("one evaluation = one seeded run of cmd/chainindex on a fresh real Repository (distinct seed => distinct "
                       "genesis and block ids); non-trivial = the tree forked, best moved to a non-child at least once, a reader "
                       "was started off the canonical chain and at least one block was streamed as obsolete")
    cc.sum_stats(ctx, all_stats, ["blocks", "forkHeights", "reorgs", "byNumAnswers", "excludePairs", "lookups", "readers",
                                  "readersStartedOffCanonical", "reads", "obsoleteFlagged", "rawBlocks", "reincluded"])
    ctx.cov["max_siblings"] = max([s["maxSiblings"] for s in all_stats] or [0])
    ctx.cov["max_reorg_depth"] = max([s["maxReorgDepth"] for s in all_stats] or [0])
    ctx.cov["exhaustive"] = False
    ctx.assumptions += [
        "hashes/signatures are injective oracles; block and tx ids are logged facts (a block id carries its number)",
        "environment: a block whose parent is the best block is stored with asBest (the node's fork choice: higher total "
        "score wins), hence best is never a strict ancestor of a known block; without it BlockReader.Read fails with "
        "'not found' after losing the obsolete list",
        "conflicts passed to AddBlock is Repository.ScanConflicts(height) at that moment, as the node's import path does",
        "the subscription wrappers of api/subscriptions are thin: blocks pass through api.ConvertBlock in the driver, the "
        "websocket layer itself is not exercised",
        "exhaustive only inside the bounds of MC_ChainIndex_*.cfg (quick: 7 blocks, thorough: 9 blocks; <= 3 per height, 2 readers); larger trees are sampled",
    ]
