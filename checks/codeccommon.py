"""C11 machinery: TLC over specs/codec (Codec.tla, CodecCases.tla, MC_Codec.tla, Trace_Codec.tla) + harness/cmd/codec.

model -> implementation : TLC enumerates abstract encodings, serialises them (Ser) and decides them (Decode); the
                          driver feeds the exported bytes to the real decoders and compares.
implementation -> model : seeded byte-level mutants of valid signed objects are decoded by the real code; the log is
                          validated line by line by Trace_Codec.tla.
id binding              : the signed-field tables exported from Codec.tla drive one-step perturbations on real objects.
"""
import json
import os

from verifkit import Infra, read_ndjson, write_ndjson


def run_driver(ctx, binp, args, label, timeout=1800):
    out = ctx.tmp("codec-" + label)
    rc, o = ctx.run([binp] + args + ["-out", out], timeout=timeout)
    if rc == 3 or "HARNESS-ERROR" in (o or ""):
        raise Infra("codec driver error (%s): %s" % (label, o[-1500:]))
    if rc != 0:
        if rc is not None and "fatal error:" in o and "goroutine " in o:
            # an unrecoverable runtime failure (stack exhaustion, ...) while the real decoders ran: an observation on the real code.
            # (ordinary panics of the real code are recovered and reported by the driver; its own panics are HARNESS-ERRORs)
            rp = ctx.save_replay("panic-%s-seed%d.txt" % (label, ctx.seed), o[-20000:])
            ctx.report("panic:" + label, "real code panicked in cmd/codec (%s): %s" % (label, o.strip().splitlines()[:3]), rp)
            return out, None
        raise Infra("codec driver failed rc=%s (%s): %s" % (rc, label, o[-2000:]))
    res = json.load(open(os.path.join(out, "result.json")))
    b = (res.get("extra") or {}).get("budget") or {}
    bs = ctx.cov.setdefault("termination_budget", {"flaky": 0, "max_ms": 0.0, "max_alloc_mb": 0.0})
    bs["flaky"] += b.get("flaky", 0)
    bs["max_ms"] = round(max(bs["max_ms"], b.get("max_ms", 0.0)), 1)
    bs["max_alloc_mb"] = round(max(bs["max_alloc_mb"], b.get("max_alloc_mb", 0.0)), 1)
    return out, res


def report_devs(ctx, devs, label, how):
    """One report per distinct signature; the artefact holds the offending inputs (hex) and how to re-run them."""
    by = {}
    for d in devs:
        by.setdefault(d["sig"], []).append(d)
    known = {k["signature"] for k in ctx.known_findings()}
    for k, (sig, ds) in enumerate(sorted(by.items())):
        if k >= 12 and sig not in known:
            # one broken rule shows up at many sites: twelve artefacts are enough to fail the check and to look at
            ctx.cov["signatures_not_reported_individually"] = ctx.cov.get("signatures_not_reported_individually", 0) + 1
            continue
        slug = "".join(ch if ch.isalnum() else "_" for ch in sig)[:90]
        # a known finding keeps ONE artefact (overwritten), a violation gets one per place it was observed
        name = ("known-%s.json" % slug) if sig in known else ("%s-%s.json" % (label, slug))
        rp = ctx.save_replay(name, {"signature": sig, "how": how, "count": len(ds), "first_offending_index": ds[0].get("index"),
                                    "observations": ds[:5],
                                    "rerun": "bin/check C11 --replay <this file>  (decodes observations[0].input with the real types)"})
        ctx.report(sig, "%s: %s [%d input(s), first: %s]" % (label, ds[0]["what"], len(ds), ds[0].get("id") or ds[0].get("kind")), rp)
    return len(by)


# ------------------------------------------------------------------------------------------------- model -> impl
def model_cases(ctx, cfg, label, timeout):
    r = ctx.tlc_must_hold("codec", "MC_Codec", cfg=cfg, workers=4, timeout=timeout, heap="4g", label=label)
    cases = os.path.join(r.workdir, "cases.ndjson")
    tables = os.path.join(r.workdir, "tables.json")
    if not (os.path.exists(cases) and os.path.exists(tables)):
        raise Infra("TLC did not export cases.ndjson / tables.json (%s)" % cfg)
    return cases, tables


def replay(ctx, binp, cases, label):
    out, res = run_driver(ctx, binp, ["-mode", "replay", "-cases", cases], "replay-" + label)
    if res is None:
        return None
    report_devs(ctx, res["deviations"], "replay-" + label, {"mode": "replay", "cases": os.path.basename(cases), "tlc_cfg": label})
    hung = "stopped_after_hang_at_case" in res["extra"]
    if hung:
        ctx.cov["replay_stopped_after_a_hang"] = res["extra"]["stopped_after_hang_at_case"]
    if not hung and (res["evaluations"] == 0 or res["accepted"] == 0 or res["rejected"] == 0):
        raise Infra("replay %s is vacuous: %s" % (label, {k: res[k] for k in ("evaluations", "accepted", "rejected")}))
    for s in res["samples"][:2]:
        ctx.sample(s, limit=8)
    return res


def replay_binding_demo(ctx, binp, cases):
    """The comparison must have teeth: a case whose exported verdict is flipped, and a canonical case whose bytes are
    replaced by a non-canonical spelling while the verdict is kept, must both be flagged by the driver."""
    cs = read_ndjson(cases)
    canon = [c for c in cs if c["site"] == "top" and c["form"] == "canonical" and c["kind"] == "txbin"]
    longf = [c for c in cs if c["form"] == "hdr-long" and c["kind"] == "txbin" and c["site"] == "tx.gas"]
    if not canon or not longf:
        raise Infra("binding demo: expected cases missing from the TLC export")
    flipped = dict(canon[0], ok=False, id="demo/flipped-verdict")
    respelt = dict(canon[0], x=longf[0]["x"], id="demo/respelt-bytes")
    # stream entry points: a trailing-byte case (DecodeBytes rejects, the stream decode accepts the front) with the number of
    # consumed bytes falsified, and one with the stream verdict flipped
    trail = [c for c in cs if c["kind"] == "txlist" and c["site"] == "top" and c["form"] == "trailing-0x00"]
    if not trail or not trail[0]["s0"]["ok"] or trail[0]["ok"]:
        raise Infra("binding demo: the trailing-byte stream case is missing or not accepted by the model's stream decode")
    badn = dict(trail[0], s0=dict(trail[0]["s0"], n=trail[0]["s0"]["n"] - 1), id="demo/stream-consumed-falsified")
    bads = dict(trail[0], s1=dict(trail[0]["s1"], ok=not trail[0]["s1"]["ok"]), id="demo/stream-verdict-flipped")
    p = os.path.join(ctx.tmp("replay-demo"), "cases.ndjson")
    write_ndjson(p, [flipped, respelt, badn, bads])
    out = ctx.tmp("replay-demo-out")
    rc, o = ctx.run([binp, "-mode", "replay", "-cases", p, "-out", out], timeout=120)
    if rc != 0:
        raise Infra("binding demo: driver failed: " + o[-800:])
    res = json.load(open(os.path.join(out, "result.json")))
    hit = {d["id"] for d in res["deviations"] if d["sig"].startswith("verdict-mismatch")}
    if hit != {"demo/flipped-verdict", "demo/respelt-bytes", "demo/stream-consumed-falsified", "demo/stream-verdict-flipped"}:
        raise Infra("binding demonstration failed: corrupted cases not flagged by the replay (%s)" % sorted(hit))
    return "replay: a flipped model verdict, a respelt byte string, a falsified stream byte count and a flipped stream verdict were all flagged"


# ------------------------------------------------------------------------------------------------- impl -> model
def _renumber(events, drop):
    out, i = [], 0
    for e in events:
        if e["e"] == "Dec":
            if e["i"] in drop:
                continue
            i += 1
            e = dict(e, i=i, orig=e["i"])
        elif e["e"] == "End":
            e = dict(e, n=i)
        out.append(e)
    return out


def mutants(ctx, binp, n, label, seed_offset=0):
    seed = ctx.seed * 1000 + seed_offset
    out, res = run_driver(ctx, binp, ["-mode", "mutate", "-seed", str(seed), "-n", str(n)], "mutate-" + label)
    if res is None:
        return None
    how = {"mode": "mutate", "seed": seed, "n": n}
    report_devs(ctx, res["deviations"], "mutants-" + label, how)
    events = read_ndjson(os.path.join(out, "trace.ndjson"))
    drop = {d["index"] for d in res["deviations"] if d["index"] >= 0}   # already reported; the rest must be a behaviour of the spec
    validated = 0
    for attempt in range(8):
        evs = _renumber(events, drop)
        path = os.path.join(ctx.tmp("val-" + label), "trace-%d.ndjson" % attempt)
        write_ndjson(path, evs)
        accepted, hwm, ln, r = ctx.validate_trace("codec", "Trace_Codec", path, timeout=1500)
        if accepted:
            validated = sum(1 for e in evs if e["e"] == "Dec")
            ctx.cov["states"] += r.distinct
            ctx.cov["transitions"] += r.generated
            break
        ev = evs[hwm]
        if ev["e"] != "Dec":
            raise Infra("trace rejected at a non-Dec line %d: %s\n%s" % (hwm, ev, r.out[-1500:]))
        real = "accept" if ev["ok"] else "reject"
        if ev["ok"] and not ev["same"]:
            raise Infra("unreported non-round-trip in trace line %d" % hwm)
        x = bytes(ev["x"]).hex()
        sig = "trace-rejected:%s:real=%s" % (ev["kind"], real)
        if ev["ok"]:
            why = "Codec.tla rejects these bytes, or Size()=%s is not the length of the canonical encoding" % ev.get("size")
        else:
            why = "Codec.tla accepts these bytes (canonical encoding of a well-formed object)"
        what = ("mutant #%d (%s, mutation %s, %d bytes): the real decoder says %s; %s"
                % (ev["orig"], ev["kind"], ev.get("op"), len(ev["x"]), real, why))
        rp = ctx.save_replay("mutants-%s-line%d-seed%d.json" % (label, ev["orig"], seed),
                             {"signature": sig, "how": how, "first_offending_index": hwm, "offending_event": ev,
                              "observations": [{"kind": ev["kind"], "input": x}]})
        ctx.report(sig, what, rp)
        ctx.cov["rejected_trace_lines"] = ctx.cov.get("rejected_trace_lines", 0) + 1
        drop.add(ev["orig"])
    else:
        ctx.cov["validation_stopped_early"] = "more than 8 rejected lines in batch %s" % label
    for s in res["samples"][:2]:
        ctx.sample(s, limit=8)
    res["validated"] = validated
    res["_events"] = events
    return res


def trace_binding_demo(ctx, events):
    """A recorded trace with one field corrupted and one with an event deleted must both be rejected."""
    evs = _renumber(events, set())
    decs = [i for i, e in enumerate(evs) if e["e"] == "Dec"]
    acc = [i for i in decs if evs[i]["ok"]]
    if len(decs) < 10 or not acc:
        raise Infra("binding demo: trace too small")
    i = acc[len(acc) // 2]
    bad = [dict(e) for e in evs]
    bad[i]["ok"] = False                                     # the implementation 'rejected' a canonical object
    j = decs[len(decs) // 3]
    dele = evs[:j] + evs[j + 1:]
    k = [q for q in decs if not evs[q]["ok"]][0]
    bad2 = [dict(e) for e in evs]
    bad2[k]["ok"], bad2[k]["same"] = True, True              # the implementation 'accepted' something non-canonical
    d = ctx.tmp("trace-demo")
    for name, es in (("corrupted-verdict", bad), ("deleted-event", dele), ("corrupted-accept", bad2)):
        path = os.path.join(d, name + ".ndjson")
        write_ndjson(path, es)
        accepted, hwm, ln, r = ctx.validate_trace("codec", "Trace_Codec", path, timeout=600)
        if accepted:
            raise Infra("binding demonstration failed: %s trace was accepted by Trace_Codec" % name)
    return "trace: corrupted-verdict, corrupted-accept and deleted-event variants of a recorded trace were rejected"


# ------------------------------------------------------------------------------------------------- id binding
def idbind(ctx, binp, tables, label="idbind"):
    out, res = run_driver(ctx, binp, ["-mode", "idbind", "-tables", tables, "-seed", str(ctx.seed)], label)
    if res is None:
        return None
    report_devs(ctx, res["deviations"], label, {"mode": "idbind", "seed": ctx.seed, "tables": json.load(open(tables))})
    for s in res["samples"][:1]:
        ctx.sample(s, limit=8)
    return res


def idbind_binding_demo(ctx, binp, tables):
    """Teeth: claim (wrongly) that the extension of a header WITHOUT base fee is signed; the driver must find out."""
    t = json.load(open(tables))
    t["headerSignedNoFee"] = t["headerSignedNoFee"] + ["extension"]
    for b in t["headerBases"]:
        if b["baseFee"] == "absent":
            b["signed"] = b["signed"] + ["extension"]
    p = os.path.join(ctx.tmp("idbind-demo"), "tables.json")
    json.dump(t, open(p, "w"))
    out = ctx.tmp("idbind-demo-out")
    rc, o = ctx.run([binp, "-mode", "idbind", "-tables", p, "-seed", str(ctx.seed), "-out", out], timeout=120)
    if rc != 0:
        raise Infra("idbind demo: driver failed: " + o[-800:])
    res = json.load(open(os.path.join(out, "result.json")))
    if not any(d["sig"] == "id-unbound:header.extension" for d in res["deviations"]):
        raise Infra("binding demonstration failed: a wrong signed-field table was not noticed by the id-binding driver")
    return "idbind: a table wrongly listing the extension of a no-base-fee header as signed was refuted on the real header"


# ------------------------------------------------------------------------------------------------- --replay
def rerun_artifact(ctx, binp, path):
    # a --replay run must not replace the evidence of the last full run: put it back after the runner has written its own
    import atexit
    evp = os.path.join(os.path.dirname(os.path.dirname(os.path.abspath(__file__))), "evidence", ctx.prop + ".json")
    if os.path.exists(evp):
        keep = open(evp).read()
        atexit.register(lambda: open(evp, "w").write(keep))
    ctx.level = "other"
    ctx.cov["explanation"] = "re-run of the inputs stored in one replay artefact on the real decoders (no model checking in this mode)"
    art = json.load(open(path))
    obs = art.get("observations") or []
    n = 0
    for ob in obs:
        if not ob.get("input") or not ob.get("kind") or ob["kind"] == "idbind":
            continue
        out = ctx.tmp("one-%d" % n)
        rc, o = ctx.run([binp, "-mode", "one", "-kind", ob["kind"], "-hex", ob["input"], "-out", out], timeout=60)
        if rc != 0:
            raise Infra("replay of artefact failed: " + o[-800:])
        res = json.load(open(os.path.join(out, "result.json")))
        smp = dict(res["samples"][0], reenc=res["samples"][0]["reenc"][:48] + "...")
        ctx.log("replayed %s input (%d bytes): %s" % (ob["kind"], len(ob["input"]) // 2, smp))
        report_devs(ctx, res["deviations"], "rerun", {"mode": "one", "artifact": os.path.basename(path)})
        ctx.sample(smp)
        n += 1
    if n == 0:
        raise Infra("artefact %s has no re-runnable observation (id-binding artefacts: re-run the check with the same VERIF_SEED)" % path)
    ctx.cov["evaluations"] = n
    ctx.cov["distinct_nontrivial"] = n
    ctx.cov["rule"] = "re-run of the inputs stored in a replay artefact"
