"""C15 - the log index always equals the logs of the canonical chain.  DESIGN section 5 (C15)."""
import os

import logindexcommon as lc
from verifkit import Infra, VERIF

# a wrong design per rule: LogIndex.tla with Variant # "ok" must be refuted by TLC (the invariants have teeth)
TEETH = [("no-truncate", "RowsEqualCanonical"), ("trunc-highest", "RowsEqualCanonical"), ("no-rewrite", "RowsEqualCanonical"),
         ("li-per-tx", "RowsEqualCanonical"), ("strip-naive", "RowsEqualCanonical"), ("resync-f7", "RowsEqualCanonical"),
         ("range-exclusive", "FilterEqualsListFilter"), ("page-before-order", "FilterEqualsListFilter")]


def cfg_text(name, **subst):
    s = open(os.path.join(VERIF, "specs", "store", name)).read()
    for k, v in subst.items():
        old = [ln for ln in s.splitlines() if ln.strip().startswith(k + " =")]
        if len(old) != 1:
            raise Infra("cfg %s: cannot substitute %s" % (name, k))
        s = s.replace(old[0], "  %s = %s" % (k, v))
    return s


def design_level(ctx):
    q = ctx.quick
    W = 4
    # exhaustive: every import order of every block tree (<= 6 blocks, 3 or 4 log signatures, height <= 4, reorg depth <= 3),
    # a crash after the log transaction, resynchronisation at any time (complete, or cancelled after any block)
    ctx.tlc_must_hold("store", "MC_LogIndex", cfg="MC_LogIndex_quick.cfg" if q else "MC_LogIndex_thorough.cfg", workers=W,
                      timeout=900 if q else 3000, label="exhaustive: longer chain wins, tie -> smaller id")
    # the node runs with --skip-logs for a while (imports and reorganisations the log db never sees), is stopped, started with
    # logs again: catch-up over a stale branch, cancelled and repeated resynchronisation
    ctx.tlc_must_hold("store", "MC_LogIndex", cfg="s.cfg", workers=W, timeout=1500, label="exhaustive: skip-logs periods, catch-up, cancelled resync",
                      files={"s.cfg": cfg_text("MC_LogIndex_skiplogs.cfg", MaxBlocks=4 if q else 5, MaxCrashes=0 if q else 1)})
    if not q:
        ctx.tlc_must_hold("store", "MC_LogIndex", cfg="MC_LogIndex_free.cfg", workers=W, timeout=3000,
                          label="exhaustive: ANY fork choice (every imported block may or may not become best)")
    # filters over the tables = matching subsequence of the canonical list (criteria x ranges x orders x pages)
    ctx.tlc_must_hold("store", "MC_LogIndex", cfg="f.cfg", workers=W, timeout=1500, label="filters vs list semantics",
                      files={"f.cfg": cfg_text("MC_LogIndex_filter.cfg", MaxBlocks=2 if q else 3)})
    refuted = []
    quick_teeth = ("no-truncate", "resync-f7", "page-before-order")
    for variant, inv in TEETH:
        if q and variant not in quick_teeth:
            continue
        base = "MC_LogIndex_filter.cfg" if inv.startswith("Filter") else "MC_LogIndex_quick.cfg"
        kw = {"Variant": '"%s"' % variant}
        if inv.startswith("Filter"):
            kw["MaxBlocks"] = 2
        r = ctx.tlc("store", "MC_LogIndex", cfg="t.cfg", workers=W, timeout=900, files={"t.cfg": cfg_text(base, **kw)},
                    label="teeth: " + variant, count=False)
        if r.invariant != inv:
            raise Infra("the wrong design '%s' is not refuted by %s (got %s): the specification has lost its teeth"
                        % (variant, inv, r.invariant or r.error or "no violation"))
        refuted.append(variant)
    ctx.cov["wrong_designs_refuted_by_tlc"] = refuted
    if not q:
        # vacuity probes: each "never happens" property must be refuted
        probes = [("NoDeepReorg", open(os.path.join(VERIF, "specs", "store", "MC_LogIndex_vacuity.cfg")).read()),
                  ("NoResyncRepair", open(os.path.join(VERIF, "specs", "store", "MC_LogIndex_vacuity.cfg")).read()),
                  ("NoCatchUpOverStaleBranch", cfg_text("MC_LogIndex_skiplogs.cfg", MaxBlocks=5)),
                  ("NoCancelledResync", cfg_text("MC_LogIndex_skiplogs.cfg"))]
        for prop, base in probes:
            text = "\n".join(ln for ln in base.splitlines() if not ln.startswith("PROPERTY")) + "\nPROPERTY %s\n" % prop
            r = ctx.tlc("store", "MC_LogIndex", cfg="v.cfg", workers=W, timeout=1500, label="vacuity probe " + prop, count=False,
                        files={"v.cfg": text})
            if r.invariant is None:
                raise Infra("vacuity probe %s: the model never does what the probe denies (%s)" % (prop, r.error or "no violation"))
        ctx.cov["vacuity_probe"] = ("reachable in the model: a best-switch abandoning 3 blocks and re-writing 2 from the repository; "
                                    "a resync after a crash that changes the tables; a catch-up whose log db holds a branch that "
                                    "is no longer canonical; a cancelled resynchronisation that stopped below the best block")


def run(ctx):
    q = ctx.quick
    if ctx.replay:
        ok, hwm, ln, r = ctx.validate_trace(lc.SUB, lc.TRACE_SPEC, ctx.replay, timeout=1500)
        if not ok:
            ctx.report("replay", "trace %s rejected at line %d of %d (%s)" % (ctx.replay, hwm + 1, ln, r.invariant or "event not allowed"), ctx.replay)
        ctx.cov["evaluations"], ctx.cov["distinct_nontrivial"] = ln, 2
        ctx.cov["rule"] = "replay of one recorded trace"
        return
    if os.environ.get("C15_ONLY_BINDING") != "1":      # development knob (mutant loops): skip the repo-independent TLC part
        design_level(ctx)
    # ---- implementation -> model
    lc.binding_demo(ctx, ctx.seed * 7919 + 5, full=not q)
    # (label, scenarios, runs, blocks, queries per state, seed offset, extra driver flags). The disk scenario has its own
    # genesis (launch time about a day before now), hence its own trace file.
    batches = [("all", "reorg,produce,crash,rawdb,deep,pingpong,produce,pack,crash,reorg", 10 if q else 50, 22 if q else 30, 24, 0, ()),
               ("disk", "disk", 1 if q else 6, 22, 24, 3, ())]
    if not q:
        batches += [("long", "reorg,crash,pingpong,deep", 36, 44, 30, 1, ()), ("raw5", "rawdb", 6, 40, 40, 2, ()),
                    ("pack", "pack", 1, 8, 8, 4, ("-million",))]
    stats = []
    feat = {}

    def note(name, hit):
        f = feat.setdefault(name, [0, 0])
        f[0] += 1
        f[1] += 1 if hit else 0

    def features(e):
        hit = bool(e["res"])
        if e["k"] == "E":
            tps = [t for c in e["crit"] for t in c["tp"] if t]
            if any(c["tp"][4] for c in e["crit"]):
                note("criterion on topic4 (5 topics)", hit)
            if any(not any(t) for t in tps):
                note("all-zero topic criterion", hit)
            if any(any(t) and t[0] == 0 for t in tps):
                note("leading-zero topic criterion", hit)
            if any(c["a"] != "nil" for c in e["crit"]):
                note("address criterion", hit)
        else:
            for fld, nm in (("o", "txOrigin"), ("s", "sender"), ("r", "recipient")):
                if any(c[fld] != "nil" for c in e["crit"]):
                    note(nm + " criterion", hit)
        if len(e["crit"]) > 1:
            note("OR of several criteria", hit)
        if e["range"] and e["range"][0] > e["range"][1]:
            note("inverted range", hit)
        if e["err"]:
            note("range beyond 28 bits (error expected)", hit)
        if e["opt"] and e["opt"][0] >= 2000000000:
            note("huge offset", hit)
        if e["opt"] and e["opt"][1] == 0:
            note("limit 0", hit)
        if e["opt"] and e["order"] == "desc":
            note("desc with offset/limit", hit)
        if not e["opt"]:
            note("no options", hit)

    for label, scen, runs, blocks, queries, off, extra in batches:
        per = 10
        for b0 in range(0, runs, per):
            n = min(per, runs - b0)
            seed = ctx.seed * 104729 + off * 1009 + b0
            cfg, streams, st = lc.record(ctx, scen, n, blocks, queries, "%s-%d" % (label, b0), seed, extra)
            if cfg is None:
                continue
            stats += st
            lc.validate(ctx, cfg, streams, "%s-%d" % (label, b0), dict(scen=scen, runs=n, blocks=blocks, queries=queries, seed=seed))
            for s in streams:
                for e in s:
                    if e["e"] == "Q":
                        features(e)
            for s in streams[:1]:
                imp = [e for e in s if e["e"] == "Import" and e["trunk"]]
                qs = [e for e in s if e["e"] == "Q" and e["res"]]
                if imp and qs:
                    ctx.sample({"stream": s[0]["name"], "scenario": s[0]["scen"], "an_import": lc.brief(imp[len(imp) // 2]),
                                "a_query": lc.brief(qs[len(qs) // 2])}, limit=4)
    tot = lambda k: sum(s[k] for s in stats)
    hist = [sum(s["depthHist"][d] for s in stats) for d in range(6)]
    ctx.cov["evaluations"] = (tot("imports") + tot("packs") + tot("ignored") + 2 * tot("crashes") + 2 * tot("cancels") + tot("writeErrs") +
                              tot("queries") + tot("apiCalls"))
    ctx.cov["distinct_nontrivial"] = tot("reorgs") + tot("crashes") + tot("cancels")
    ctx.cov["rule"] = ("one evaluation = one comparison of real output with the specification: the complete event and transfer tables "
                       "read back after a delivery / crash / restart, or one filter query, or one API call; distinct non-trivial = "
                       "imports on a real node that abandoned a non-empty old branch (every one has its own block ids, depth and "
                       "rows) plus crashes between the log transaction and the block store plus cancelled resynchronisations")
    ctx.cov["runs"] = len(stats)
    ctx.cov["checkpointed_states"] = tot("imports") + tot("packs") + tot("ignored") + 2 * tot("crashes")
    ctx.cov["own_blocks_packed_by_the_node"] = tot("packs")
    ctx.cov["own_blocks_on_a_stale_flow_won_lost"] = [tot("staleWon"), tot("staleLost")]
    ctx.cov["reorganisations"] = tot("reorgs")
    ctx.cov["reorganisations_by_depth_1_2_3_4_ge5"] = hist[1:]
    ctx.cov["blocks_canonical_again_after_leaving"] = tot("switchBacks")
    ctx.cov["crash_after_log_commit_then_resync"] = tot("crashes")
    ctx.cov["skip_logs_period_then_cancelled_and_completed_resync_on_disk"] = tot("cancels")
    ctx.cov["writes_refused_by_sequence_bounds"] = tot("writeErrs")
    ctx.cov["filter_queries"] = tot("queries")
    ctx.cov["filter_queries_nonempty"] = tot("queryHits")
    ctx.cov["api_calls"] = tot("apiCalls")
    ctx.cov["filter_query_features_total_and_nonempty"] = {k: "%d / %d" % (v[0], v[1]) for k, v in sorted(feat.items())}
    ctx.cov["five_topic_rows"] = tot("fiveTopics") if stats and "fiveTopics" in stats[0] else tot("fiveTopicRows")
    ctx.cov["largest_table"] = max([s["maxRows"] for s in stats] or [0])
    ctx.cov["exhaustive"] = False
    if stats and (tot("reorgs") < 10 or hist[3] + hist[4] + hist[5] == 0 or tot("crashes") == 0 or tot("cancels") == 0
                  or tot("writeErrs") < 2 or tot("staleWon") == 0 or tot("staleLost") == 0):
        raise Infra("the recorded runs are too tame (reorgs=%d, by depth=%s, crashes=%d, cancelled resyncs=%d, refused writes=%d, "
                    "stale-flow packs won/lost=%d/%d)" % (tot("reorgs"), hist[1:], tot("crashes"), tot("cancels"), tot("writeErrs"),
                                                         tot("staleWon"), tot("staleLost")))
    ctx.assumptions += [
        "sqlite executes the SQL it is given correctly and a committed transaction is atomic and durable",
        "block ids, tx ids, timestamps, receipts and the outcome of the fork choice ('became best') are logged facts; "
        "positions (tx index, clause index, block-wide log index) and every row are computed by the specification",
        "events with five topics cannot be produced by contract execution (EVM LOG4): covered by synthetic receipts written "
        "through logdb.Writer.Write on a linear chain (scenario rawdb), not through node.writeLogs",
        "offsets / limits / block numbers up to 2*10^9 (TLC integers are 32 bit); uint64 values beyond int64 are rejected by database/sql",
        "design-level exhaustiveness only inside the bounds of MC_LogIndex_*.cfg (<= 6 blocks, height <= 4, reorg depth <= 3, <= 1 crash)",
    ]
