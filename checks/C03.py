"""C03 - finality is safe.  DESIGN section 5 (C03/C04)."""
import bftcommon


def run(ctx):
    q = ctx.quick
    # 1. design level: exhaustive exploration of BFT.tla (4 validators, 1 Byzantine, E = 3)
    ctx.tlc_must_hold("bft", "MCBFT", cfg="MCBFT_quick.cfg", timeout=1800, heap="8g", label="exhaustive design model (3 blocks, 1 Byzantine, 1 restart)")
    # vacuity guard: finality is reachable inside these bounds (the configuration must violate NeverFinalizes)
    r = ctx.tlc("bft", "MCBFT", cfg="MCBFT_vac.cfg", timeout=600, label="vacuity guard: finality reachable", count=False)
    if r.invariant != "NeverFinalizes":
        raise Infra("vacuity guard: MCBFT_vac.cfg did not violate NeverFinalizes (%s)" % (r.invariant or r.error or "no violation"))
    if not q:
        ctx.tlc_must_hold("bft", "MCBFT", cfg="MCBFT_thorough.cfg", timeout=7200, heap="12g", workers=16,
                          label="exhaustive design model (4 blocks, 2 Byzantine)")
    # liveness clause: synchronous all-honest operation justifies every > 2/3 epoch, commits once a justified epoch
    # exists, and finality follows (exhaustive over all proposer orders)
    ctx.tlc_must_hold("bft", "MCBFT", cfg="MCBFT_sync.cfg" if q else "MCBFT_sync_thorough.cfg", timeout=900 if q else 3000,
                      heap="4g", workers=8, label="synchronous all-honest progress")
    if not q:
        ctx.tlc_must_hold("bft", "MCBFT", cfg="MCBFT_pos.cfg", timeout=1500, heap="8g", label="weighted (PoS) variant")
    # 2. implementation -> model: traces of the real engine under honest, asynchronous, Byzantine, restart and
    #    threshold-boundary schedules
    bftcommon.binding_demo(ctx)
    stats = []
    scen = "sync,async,async-restart,byz,equivocate,boundary,capped,posweights,posforks,transition,doublevote,stalefork,stalepack,votelater"
    stats += bftcommon.record_and_validate(ctx, scen, 56 if q else 980, 36, "c03-mixed")
    stats += bftcommon.record_and_validate(ctx, "byz,equivocate", 6 if q else 200, 60, "c03-long", seed_offset=7)
    # 3. model -> implementation: TLC-sampled schedules of BFT.tla executed on the real nodes
    stats += bftcommon.replay_schedules(ctx, 25 if q else 600)
    # 4. epoch-level safety where it is falsifiable, and the adversarial vote orders it yields on the real nodes
    stats += bftcommon.epoch_step(ctx, thorough=not q) or []
    # single-node clause "finalized only moves forward" also through the start-up migration pass (bft.Engine.Resync)
    bftcommon.resync_step(ctx, 6 if q else 30, 8 if q else 100, thorough=not q, design=False)
    fin, fork, both = bftcommon.nontrivial(stats)
    ctx.cov["evaluations"] = len(stats)
    ctx.cov["distinct_nontrivial"] = both
    ctx.cov["runs_reaching_finality"] = fin
    ctx.cov["runs_with_fork_depth_ge_2"] = fork
    ctx.cov["byzantine_blocks"] = sum(s["byzBlocks"] for s in stats)
    ctx.cov["restarts"] = sum(s["restarts"] for s in stats)
    ctx.cov["finality_refusals_observed"] = sum(s["refusals"] for s in stats)
    ctx.cov["events"] = sum(s["events"] for s in stats)
    ctx.cov["rule"] = ("one evaluation = one seeded run of the 3..6-node real-code simulator (distinct seed => distinct block ids); "
                       "non-trivial = some node finalized a non-genesis checkpoint or a side branch of >= 2 blocks occurred")
    ctx.cov["exhaustive"] = False
    ctx.assumptions += [
        "hash/signature/VRF primitives are injective oracles; block ids are logged facts",
        "GALACTICA active from genesis so that the COM bit is covered by the block id",
        "safety under all adversaries is exhaustive only inside the bounds of MCBFT_*.cfg; beyond them it is sampled",
    ]
