"""Shared by C03 and C04: record traces from the real node/bft code (cmd/bftsim) and validate them with Trace_BFT.tla."""
import json
import os
import shutil

from verifkit import Infra, read_ndjson, write_ndjson


def split_runs(events):
    runs, cur = [], None
    for i, e in enumerate(events):
        if e["e"] == "Reset":
            cur = {"start": i, "events": []}
            runs.append(cur)
        cur["events"].append(e)
    return runs


def record_and_validate(ctx, scen, runs, blocks, label, seed_offset=0):
    """Returns list of run stats. Reports violations through ctx.report."""
    binp = ctx.build("bftsim")
    out = ctx.tmp("rec-" + label)
    seed = ctx.seed * 31 + seed_offset
    rc, o = ctx.run([binp, "-out", out, "-runs", str(runs), "-seed", str(seed), "-scen", scen, "-blocks", str(blocks)],
                    timeout=1800)
    if rc == 3:
        raise Infra("bftsim harness error: " + o[-1500:])
    if rc != 0:
        # a panic of real code inside the driver is an observation on the real code
        if rc is not None and ("panic:" in o or "goroutine " in o):
            rp = ctx.save_replay("panic-%s-%d.txt" % (label, seed), o[-20000:])
            ctx.report("panic:" + label, "real code panicked in bftsim (%s): %s" % (label, o.strip().splitlines()[0:3]), rp)
            return []
        raise Infra("bftsim failed rc=%s: %s" % (rc, o[-2000:]))
    trace = os.path.join(out, "trace.ndjson")
    stats = json.load(open(os.path.join(out, "runs.json")))
    events = read_ndjson(trace)
    validate_events(ctx, events, stats, label, dict(scen=scen, seed=seed, blocks=blocks))
    commits = [e for e in events if e["e"] == "Commit"]
    if not ctx.violations:
        tally_floor(ctx, len(commits), sum(1 for e in commits if "q" in e))
    return stats


def validate_events(ctx, events, stats, label, how):
    """Validate a concatenated trace; on rejection isolate the offending run, report it, drop it and continue with
    the remaining runs so that the rest of the trace is still checked."""
    runs = split_runs(events)
    pending = list(range(len(runs)))
    guard = 0
    while pending:
        guard += 1
        if guard > 8:
            ctx.cov["validation_stopped_early"] = "more than 8 rejected runs in batch %s; remaining runs not validated" % label
            return
        evs = [e for k in pending for e in runs[k]["events"]]
        path = os.path.join(ctx.tmp("val-" + label), "trace-%d.ndjson" % guard)
        write_ndjson(path, evs)
        accepted, hwm, ln, r = ctx.validate_trace("bft", "Trace_BFT", path, timeout=1500)
        if accepted:
            ctx.cov["traces_validated_against_impl"] += len(pending)
            ctx.cov["states"] += r.distinct
            ctx.cov["transitions"] += r.generated
            for k in pending[:2]:
                ctx.sample({"scenario": runs[k]["events"][0].get("scen"), "cfg": runs[k]["events"][0].get("cfgname"),
                            "first_events": runs[k]["events"][1:5]}, limit=8)
            return
        # locate the run containing event index hwm (0-based position of the first unmatched line)
        pos, bad = 0, None
        for k in pending:
            n = len(runs[k]["events"])
            if hwm < pos + n:
                bad = k
                off = hwm - pos
                break
            pos += n
        if bad is None:
            raise Infra("trace rejected but offending run not found (hwm=%d len=%d)\n%s" % (hwm, ln, r.out[-2000:]))
        ev = runs[bad]["events"][off]
        hdr = runs[bad]["events"][0]
        what = "invariant %s violated" % r.invariant if r.invariant else "event not allowed by the specification"
        sig = signature(ev, r.invariant)
        rp = ctx.save_replay("%s-run%d-seed%s.json" % (label, bad, hdr.get("seed")),
                             {"how": how, "run_header": hdr, "offending_index": off, "offending_event": ev,
                              "tlc_verdict": what, "stats": stats[bad] if bad < len(stats) else None,
                              "trace": runs[bad]["events"]})
        ctx.report(sig, "%s: scenario=%s cfg=%s seed=%s event #%d %s -> %s" %
                   (label, hdr.get("scen"), hdr.get("cfgname"), hdr.get("seed"), off, json.dumps(ev, sort_keys=True), what), rp)
        ctx.cov.setdefault("rejected_runs", 0)
        ctx.cov["rejected_runs"] += 1
        # the runs before the offending one were matched completely: count them, continue after it
        idx = pending.index(bad)
        ctx.cov["traces_validated_against_impl"] += idx
        pending = pending[idx + 1:]


def signature(ev, invariant):
    if invariant:
        return "invariant:" + invariant
    if ev.get("e") == "Error":
        err = ev.get("err", "")
        return "%s-error:%s" % (ev.get("what"), err)
    return "rejected:" + str(ev.get("e"))


def tally_floor(ctx, events_total, tallies):
    """The incremental-vs-definitional tally comparison hangs on an optional field of the Commit event (the engine's
    cached state peeked through VerifTally): if it silently disappears the clause is no longer checked."""
    ctx.cov["tally_comparisons"] = ctx.cov.get("tally_comparisons", 0) + tallies
    ctx.cov["commit_events"] = ctx.cov.get("commit_events", 0) + events_total
    if events_total > 50 and tallies * 2 < events_total:
        raise Infra("only %d of %d Commit events carry the engine's tally (VerifTally peeks nothing?)" % (tallies, events_total))


def nontrivial(stats):
    fin = sum(1 for s in stats if s["maxFin"] > 0)
    fork = sum(1 for s in stats if s["maxForkDepth"] >= 2)
    both = sum(1 for s in stats if s["maxFin"] > 0 or s["maxForkDepth"] >= 2)
    return fin, fork, both


def binding_demo(ctx, scen="sync", blocks=24):
    """The trace spec must have teeth: a recorded trace with one field corrupted and one with an event deleted
    must both be rejected (DESIGN 3.2). If either is accepted the check itself is broken -> Infra."""
    binp = ctx.build("bftsim")
    out = ctx.tmp("demo")
    rc, o = ctx.run([binp, "-out", out, "-runs", "1", "-seed", str(ctx.seed + 17), "-scen", scen, "-blocks", str(blocks)], timeout=300)
    if rc != 0:
        raise Infra("bftsim failed in binding demo: " + o[-1000:])
    events = read_ndjson(os.path.join(out, "trace.ndjson"))
    commits = [i for i, e in enumerate(events) if e["e"] == "Commit"]
    # (a) corrupt: a Commit late in the run reports the previous block as best
    i = commits[len(commits) * 3 // 4]
    bad = [dict(e) for e in events]
    bad[i]["best"] = events[commits[0]]["b"]
    # (b) delete one Commit in the middle
    j = commits[len(commits) // 2]
    dele = events[:j] + events[j + 1:]
    for name, evs in (("corrupted-field", bad), ("deleted-event", dele)):
        path = os.path.join(out, name + ".ndjson")
        write_ndjson(path, evs)
        accepted, hwm, ln, r = ctx.validate_trace("bft", "Trace_BFT", path, timeout=300)
        if accepted:
            raise Infra("binding demonstration failed: %s trace was accepted by Trace_BFT" % name)
    ctx.cov["binding_demo"] = "corrupted-field and deleted-event variants of a recorded trace were rejected"


def replay_schedules(ctx, num, depth=30):
    """model -> implementation: behaviours of BFT.tla (who proposes on what, who receives what when, who restarts;
    Byzantine equivocation) sampled by TLC's simulator are executed on the real simulator; the recorded traces are
    judged by Trace_BFT.tla and the COM bits / final finalized checkpoints predicted by the design model are compared."""
    r = ctx.tlc("bft", "MCBFTSim", cfg="MCBFTSim.cfg", workers=1, simulate="num=%d" % num, depth=depth, timeout=900,
                label="behaviour export for replay", count=False)
    if r.invariant or r.error or r.timeout:
        raise Infra("behaviour export failed: %s\n%s" % (r.invariant or r.error or "timeout", r.out[-1500:]))
    files = [f for f in os.listdir(r.workdir) if f.startswith("beh_")]
    if not files:
        raise Infra("TLC exported no behaviour")
    binp = ctx.build("bftsim")
    out = ctx.tmp("replay")
    rc, o = ctx.run([binp, "-replay", r.workdir, "-out", out, "-seed", str(ctx.seed)], timeout=1800)
    if rc == 3:
        raise Infra("bftsim harness error: " + o[-1500:])
    if rc != 0:
        if rc is not None and "panic:" in o:
            rp = ctx.save_replay("panic-replay-%d.txt" % ctx.seed, o[-20000:])
            ctx.report("panic:replay", "real code panicked while replaying a TLC schedule: %s" % o.strip().splitlines()[:2], rp)
            return []
        raise Infra("bftsim -replay failed rc=%s: %s" % (rc, o[-2000:]))
    summary = json.loads(o.strip().splitlines()[-1])
    disagree = [n for n in summary.get("notes", []) if "SPEC-DISAGREE" in n]
    stats = json.load(open(os.path.join(out, "runs.json")))
    events = read_ndjson(os.path.join(out, "trace.ndjson"))
    # the implementation-facing judge first: a deviation of the real code visible only in a replayed schedule must be
    # reported as such; only if Trace_BFT accepts everything is a disagreement with the design model specification drift
    before = len(ctx.violations) + len(ctx.known_hit)
    validate_events(ctx, events, stats, "tlc-schedules", dict(replay="MCBFTSim", num=num, depth=depth, seed=ctx.seed))
    if disagree and len(ctx.violations) + len(ctx.known_hit) == before:
        raise Infra("BFT.tla and the real engine (as accepted by Trace_BFT.tla) disagree - specification drift: %s" % disagree[:3])
    ctx.cov["tlc_schedules_replayed"] = len(files)
    ctx.cov["tlc_schedules_cut_short_by_score_order"] = len([n for n in summary.get("notes", []) if "behaviour cut" in n])
    return stats


def resync_step(ctx, chains, pairs, epochs=4, thorough=False, design=True):
    """bft.Engine.Resync (the start-up pass that recomputes persisted qualities and advances the finalized checkpoint):
    Resync.tla exhaustively, two seeded design errors that must be rejected, then the real pass over stale stores with a
    crash at every write, judged by the driver's oracles and by Trace_Resync.tla."""
    cfgs = ["MC_Resync_quick.cfg"] + (["MC_Resync_start2.cfg", "MC_Resync_thorough.cfg"] if thorough else [])
    for cfg in (cfgs if design else []):
        ctx.tlc_must_hold("bft", "MC_Resync", cfg=cfg, timeout=3000 if thorough else 900, label="Resync design " + cfg)
    for cfg, want in ((("MC_Resync_noguard.cfg", "NeverFails"), ("MC_Resync_fromgenesis.cfg", "FinMonotone")) if design else ()):
        r = ctx.tlc("bft", "MC_Resync", cfg=cfg, timeout=600, label="seeded design error " + cfg, count=False)
        if not r.invariant or want not in r.invariant:
            raise Infra("seeded design error %s was not rejected by %s (got %s)" % (cfg, want, r.invariant or r.error or "ok"))
    binp = ctx.build("resync")
    out = ctx.tmp("resync")
    seed = ctx.seed * 13 + 5
    rc, o = ctx.run([binp, "-out", out, "-seed", str(seed), "-chains", str(chains), "-pairs", str(pairs), "-epochs", str(epochs)],
                    timeout=1800)
    how = dict(driver="resync", seed=seed, chains=chains, pairs=pairs, epochs=epochs)
    if rc == 3:
        raise Infra("resync harness error: " + o[-1500:])
    if rc != 0:
        if rc is not None and ("panic:" in o or "goroutine " in o):
            rp = ctx.save_replay("panic-resync-%d.txt" % seed, o[-20000:])
            ctx.report("panic:resync", "real code panicked in the resync driver: %s" % o.strip().splitlines()[0:3], rp)
            return
        raise Infra("resync driver failed rc=%s: %s" % (rc, o[-2000:]))
    summary = json.loads(o.strip().splitlines()[-1])
    seen = set()
    for v in summary.get("violations") or []:
        if v["sig"] == "resync-harness":
            raise Infra("resync driver: " + v["detail"])
        if v["sig"] in seen:
            continue
        seen.add(v["sig"])
        rp = ctx.save_replay("resync-%s-seed%d.json" % (v["sig"], seed), {"how": how, "violation": v, "summary": summary})
        ctx.report(v["sig"], "resync: %s (run %d; re-run: harness/cmd/resync %s)" % (v["detail"], v["run"], how), rp)
    trace = os.path.join(out, "trace.ndjson")
    accepted, hwm, ln, r = ctx.validate_trace("bft", "Trace_Resync", trace, cfg="Trace_Resync.cfg", timeout=900)
    events = read_ndjson(trace)
    if accepted:
        ctx.cov["states"] += r.distinct
        ctx.cov["transitions"] += r.generated
    else:
        ev = events[hwm] if hwm < len(events) else {}
        what = "invariant %s violated" % r.invariant if r.invariant else "event not allowed by the specification"
        sig = "resync-" + ("invariant:" + r.invariant if r.invariant else "rejected:" + str(ev.get("e")) + ":" + str(ev.get("cls", "")))
        rp = ctx.save_replay("resync-trace-seed%d.json" % seed, {"how": how, "offending_index": hwm, "offending_event": ev,
                                                                 "tlc_verdict": what, "trace_prefix": events[max(0, hwm - 40):hwm + 1]})
        ctx.report(sig, "resync: event #%d %s -> %s" % (hwm, json.dumps(ev, sort_keys=True), what), rp)
    # binding demonstration: one logged value changed, one write dropped -> rejected
    def completes(i):
        # the pass this write belongs to runs to its End without a crash: a write dropped right before a Crash is
        # indistinguishable from the crash having come one write earlier, and is rightly accepted
        for e in events[i + 1:]:
            if e["e"] == "Crash":
                return False
            if e["e"] in ("End", "Reset", "Config"):
                return e["e"] == "End"
        return False
    ws = [i for i, e in enumerate(events) if e["e"] == "W" and e.get("cls") == "q" and completes(i)]
    if ws and accepted:
        i = ws[len(ws) // 2]
        bad = [dict(e) for e in events]
        bad[i]["v"] = bad[i]["v"] + 1
        dele = events[:i] + events[i + 1:]
        for name, evs in (("corrupted-field", bad), ("deleted-event", dele)):
            path = os.path.join(out, name + ".ndjson")
            write_ndjson(path, evs)
            acc2, _, _, _ = ctx.validate_trace("bft", "Trace_Resync", path, cfg="Trace_Resync.cfg", timeout=600)
            if acc2:
                raise Infra("binding demonstration failed: %s resync trace was accepted" % name)
        ctx.cov["resync_binding_demo"] = "corrupted-field and deleted-event variants rejected"
    ctx.cov["resync_runs"] = summary["runs"]
    ctx.cov["resync_chains"] = summary["chains"]
    ctx.cov["resync_events"] = summary["events"]
    ctx.cov["resync_crashes"] = summary["stats"].get("crashes", 0)
    ctx.cov["resync_finalized_writes"] = summary["stats"].get("fin_writes", 0)
    ctx.cov["traces_validated_against_impl"] += summary["runs"] if accepted else 0


def _steps_from_dump(path):
    """honest/Byzantine votes in order, from a TLC -dumpTrace json counterexample of MC_BFTEpoch (diff of vt)."""
    import re
    d = json.load(open(path))
    st = [x[1] for x in d["counterexample"]["state"]]
    steps = []
    for a, b in zip(st, st[1:]):
        for node, row in b["vt"].items():
            for v, bit in row.items():
                if a["vt"][node][v] != bit:
                    steps.append({"v": v, "c": [int(x) for x in re.findall(r"\d+", node)], "bit": bit})
    return steps


def epoch_step(ctx, thorough=False):
    """Epoch-level safety (BFTEpoch.tla): the block-accurate model cannot reach two conflicting commits inside its
    exhaustive bounds, this abstraction can.  (1) FinalitySafety exhaustively on small round trees; (2) five seeded
    design errors of the vote / finalization rule must each break it - their counterexamples are vote orders in which
    a WRONG rule finalizes conflicting checkpoints; (3) those vote orders, plus vote orders sampled from the correct
    model, are driven through the REAL nodes (own ShouldVote via doPack, Byzantine validator filling rounds): no two
    nodes may finalize conflicting checkpoints, every event is judged by Trace_BFT.tla, and for the correct model's
    orders the COM bit of every honest block must be the model's."""
    cfgs = ["MC_BFTEpoch_quick.cfg"] + (["MC_BFTEpoch_pos.cfg", "MC_BFTEpoch_y3.cfg", "MC_BFTEpoch_i3.cfg", "MC_BFTEpoch_root.cfg"] if thorough else [])
    for cfg in cfgs:
        ctx.tlc_must_hold("bft", "MC_BFTEpoch", cfg=cfg, timeout=7200 if thorough else 1200, heap="8g",
                          label="epoch-level FinalitySafety " + cfg)
    if thorough:
        # what the vote rule alone does NOT give: with honest validators free to vote on branches worse than their own
        # previous block (no fork choice), three-round branches admit conflicting finality.  The configuration must
        # keep violating FinalitySafety - it documents that safety leans on "a node's best block never gets worse".
        r = ctx.tlc("bft", "MC_BFTEpoch", cfg="MC_BFTEpoch_y3free.cfg", timeout=3600, heap="8g", count=False,
                    label="vote rule without fork choice (must violate)")
        if r.invariant != "FinalitySafety":
            raise Infra("MC_BFTEpoch_y3free.cfg no longer violates FinalitySafety (%s)" % (r.invariant or r.error or "no violation"))
        ctx.cov["epoch_model_needs_monotone_best"] = True
    sched = ctx.tmp("epoch-sched")
    variants = ["castq", "norule", "dropcasts", "finq", "geq"] if thorough else ["castq", "norule", "dropcasts"]
    for v in variants:
        dump = os.path.join(sched, "cex_%s.json" % v)
        r = ctx.tlc("bft", "MC_BFTEpoch", cfg="MC_BFTEpoch_teeth_%s.cfg" % v, timeout=900, workers=4, count=False,
                    extra=["-dumpTrace", "json", dump], label="seeded design error " + v)
        if r.invariant != "FinalitySafety" or not os.path.exists(dump):
            raise Infra("seeded design error %s of BFTEpoch.tla did not break FinalitySafety (%s)" % (v, r.invariant or r.error or "no violation"))
        json.dump({"variant": v, "steps": _steps_from_dump(dump)}, open(os.path.join(sched, "sched_cex_%s.json" % v), "w"))
    # vote orders of the correct model
    r = ctx.tlc("bft", "MC_BFTEpochSim", cfg="MC_BFTEpochSim_asis.cfg", workers=1, simulate="num=%d" % (400 if thorough else 12), depth=11,
                timeout=900, label="vote orders for replay", count=False)
    if r.invariant or r.error or r.timeout:
        raise Infra("epoch schedule export failed: %s\n%s" % (r.invariant or r.error or "timeout", r.out[-1500:]))
    n = 0
    for f in sorted(os.listdir(r.workdir)):
        if f.startswith("sched_") and f.endswith(".json"):
            shutil.copy(os.path.join(r.workdir, f), os.path.join(sched, "sched_asis_%s" % f[6:]))
            n += 1
    binp = ctx.build("bftsim")
    out = ctx.tmp("epoch-replay")
    rc, o = ctx.run([binp, "-epochsched", sched, "-out", out, "-seed", str(ctx.seed)], timeout=1800)
    if rc == 3:
        raise Infra("bftsim harness error: " + o[-1500:])
    if rc != 0:
        if rc is not None and "panic:" in o:
            rp = ctx.save_replay("panic-epochsched-%d.txt" % ctx.seed, o[-20000:])
            ctx.report("panic:epoch-schedule", "real code panicked while replaying an epoch-level vote order: %s" % o.strip().splitlines()[:2], rp)
            return
        raise Infra("bftsim -epochsched failed rc=%s: %s" % (rc, o[-2000:]))
    summary = json.loads(o.strip().splitlines()[-1])
    notes = summary.get("notes") or []
    stats = json.load(open(os.path.join(out, "runs.json")))
    events = read_ndjson(os.path.join(out, "trace.ndjson"))
    before = len(ctx.violations) + len(ctx.known_hit)
    for nt in [x for x in notes if "FINALITY-CONFLICT" in x]:
        rp = ctx.save_replay("epoch-finality-conflict-%d.json" % ctx.seed, {"note": nt, "schedules": sched, "summary": summary})
        shutil.copytree(sched, os.path.join(ctx.replaydir, "epoch-sched-%d" % ctx.seed), dirs_exist_ok=True)
        ctx.report("finality-conflict:epoch-schedule", "real nodes finalized conflicting checkpoints: " + nt, rp)
        break
    validate_events(ctx, events, stats, "epoch-schedules", dict(epochsched=True, seed=ctx.seed))
    disagree = [x for x in notes if "SPEC-DISAGREE" in x]
    if disagree and len(ctx.violations) + len(ctx.known_hit) == before:
        raise Infra("BFTEpoch.tla and the real engine (as accepted by Trace_BFT.tla) disagree - specification drift: %s" % disagree[:3])
    ctx.cov["epoch_schedules_replayed"] = summary["runs"]
    ctx.cov["epoch_schedules_from_seeded_design_errors"] = len(variants)
    ctx.cov["epoch_schedules_cut"] = len([x for x in notes if "schedule cut" in x])
    ctx.cov["epoch_votes_refused_by_finality"] = len([x for x in notes if "refused by its finality" in x])
    return stats
