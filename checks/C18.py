"""C18 - the pool offers only includable txs; its bookkeeping never drifts.  DESIGN section 5 (C18), hook H5."""
import poolcommon as pc
from verifkit import Infra


def run(ctx):
    q = ctx.quick
    if ctx.replay:
        pc.replay_artifact(ctx, ctx.replay)
        ctx.cov["rule"] = "re-run of one stored artefact"
        ctx.cov["distinct_nontrivial"] = 2
        return

    # 1. design level: TxPool.tla with the repaired promote rule (identity) - every interleaving of Add/Fill/Remove/head
    #    advance with the steps of one in-flight wash inside the bounds; all invariants must hold
    ctx.tlc_must_hold("net", "MCPool", cfg="MCPool_quick.cfg", workers=4, timeout=600, label="exhaustive, 2 txs (one delegated, future block ref)")
    if not q:
        for cfg, what in (("MCPool_modes.cfg", "2 txs, remote/local/strict, every evaluation order, stale evaluation head"),
                          ("MCPool_drops.cfg", "settled / dependent / expiring txs, 3 heads, lifetime and blocklist drops"),
                          ("MCPool_sameid.cfg", "one tx signed twice (same id, two hashes, two payers)"),
                          ("MCPool_splitadd.cfg", "Add split into its lock-free prefix and the critical section (duplicate test inside), 2 submissions in flight"),
                          ("MCPool_fork.cfg", "a legacy and a dynamic-fee tx across the GALACTICA fork (3 heads)"),
                          ("MCPool_thorough.cfg", "3 txs, 2 payers, <= 2 objects per tx, one slot per account")):
            ctx.tlc_must_hold("net", "MCPool", cfg=cfg, workers=8, timeout=3000, heap="8g", label=what)

    # 2. the code AS IT IS (promote checks presence by hash): expected-violation config, kept as a regression.
    #    Its counterexample is replayed on the real pool: on a tree where promote compares identity nothing drifts.
    uni, f6 = pc.asis_counterexamples(ctx)
    pc.replay_f6(ctx, uni, f6)
    pc.teeth_dupcheck(ctx)

    # 3. model -> implementation: behaviours of the repaired model, sampled by TLC, replayed step by step on a real pool
    #    (wash parked at its lock sites by the blocking tracer); quota, cost, flags, identities compared after every step
    nontrivial = set(pc.export_and_replay(ctx, 40 if q else 1500, label="sim"))
    #    ... and on the chain where GALACTICA starts mid-way (dynamic-fee tx not admissible at first, priorities change with the
    #    fork and are refreshed on the first GALACTICA head)
    nontrivial |= set(pc.export_and_replay(ctx, 30 if q else 800, depth=27, label="sim-fork", cfg="MCPool_export_fork.cfg"))

    # 4. implementation -> model: seeded drivers on a real chain, all tx kinds and limits; gate-scheduled (deterministic
    #    interleavings at lock-site granularity) and free-running goroutines; every event re-derived by Trace_TxPool.tla
    stats, accepted = pc.record_and_validate(ctx, 56 if q else 1680, "all", "both", "c18-mixed")
    #    proved work that expires during the run (chain longer than MaxTxWorkDelay)
    sw, aw = pc.record_and_validate(ctx, 2 if q else 6, "work", "sched", "c18-work", seed_offset=3)
    stats, accepted = stats + sw, accepted + aw
    if not q:
        s2, a2 = pc.record_and_validate(ctx, 400, "mixed,limits,unsynced,drain,basefee", "free", "c18-free", seed_offset=5)
        s3, a3 = pc.record_and_validate(ctx, 400, "limits,mixed,fork,drain,basefee", "sched", "c18-limits", seed_offset=9)
        stats, accepted = stats + s2 + s3, accepted + a2 + a3
    if accepted and not ctx.violations:
        pc.binding_demo(ctx, accepted)

    # 5. the pool's own housekeeping goroutine on its own ticker (everything above drives the tick body through the hook)
    pc.real_loop(ctx, 1 if q else 3)
    if ctx.cov.get("hook_drift") and not ctx.violations:
        raise Infra("VerifWash (the hook's copy of one housekeeping tick) and the real loop disagree although the real loop "
                    "satisfies the oracles: the hook drifted: %s" % ctx.cov["hook_drift"][:2])

    # 6. growth: the node's tx stash next to the pool (TxStash.tla, Trace_TxStash.tla; hook verif_hooks_txstash.go)
    sc = pc.stash_check(ctx, 6 if q else 120) or {}
    need = ["evictions", "fill_new", "fill_dup", "txevent_f", "txevent_t", "txevent_n", "restarts_direct", "restarts_process", "saves"]
    miss = [k for k in need if sc.get(k, 0) == 0]
    if miss and not q and not ctx.violations:
        raise Infra("tx stash: branches never taken in a thorough run: %s" % miss)

    if ctx.cov.get("flow_mismatches") and not ctx.violations:
        raise Infra("replayed wash took another path than the model although no observable differs (spec drift): %s"
                    % ctx.cov["flow_mismatches"][:2])

    dup = ctx.cov.pop("_reported", {})
    if dup:
        ctx.cov["occurrences_per_reported_signature"] = dup
    rec_nontrivial = {(s["scen"], s["seed"]) for s in stats if s["midWashOps"] > 0 and s["promotes"] > 0}
    ctx.cov["distinct_nontrivial"] = len(nontrivial) + len(rec_nontrivial)
    ctx.cov["rule"] = ("one evaluation = one seeded driver run on a real chain + real pool, or one TLC behaviour replayed on a real pool; "
                       "non-trivial = a run/behaviour in which at least one Add/Remove/Fill critical section was taken while a wash was "
                       "in flight AND that wash promoted an object (distinct by (scenario, seed) resp. by action sequence)")
    ctx.cov["recorded_runs"] = len(stats)
    ctx.cov["recorded_events"] = sum(s["events"] for s in stats)
    ctx.cov["pool_operations"] = sum(s["ops"] for s in stats)
    ctx.cov["washes"] = sum(s["washes"] for s in stats)
    ctx.cov["head_advances"] = sum(s["heads"] for s in stats)
    ctx.cov["promotions"] = sum(s["promotes"] for s in stats)
    ctx.cov["lock_sections_during_wash"] = sum(s["midWashOps"] for s in stats)
    ctx.cov["executables_offered_to_packer"] = sum(s["adoptChecked"] for s in stats)
    ctx.cov["executables_adopted_cumulatively"] = sum(s["adopted"] for s in stats)
    verdicts, drops = {}, {}
    for s in stats:
        for k, v in (s.get("verdicts") or {}).items():
            verdicts[k] = verdicts.get(k, 0) + v
        for k, v in (s.get("drops") or {}).items():
            drops[k] = drops.get(k, 0) + v
    ctx.cov["add_verdicts"] = verdicts
    ctx.cov["wash_drop_reasons"] = drops
    # branches that must have been taken for the run to mean something (vacuity control)
    counts = {}
    for s in stats:
        for k, v in (s.get("counts") or {}).items():
            counts[k] = counts.get(k, 0) + v
    ctx.cov["branch_counters"] = counts
    ctx.cov["free_runs_with_overlap"] = sum(1 for s in stats if s["mode"] == "free" and s["midWashOps"] > 0)
    required = ["displaced", "errortrim", "promote_miss", "add_dup", "fill_dup", "remove_miss", "idguard_refusals",
                "sameid_copooled", "eval_window_removes", "packer_blocks", "packer_adopted", "packer_removes", "sponsored_txs",
                "reorgs", "work_expiries", "raced_adds", "dup_storms"]
    need_v = ["ok", "full", "nonexecfull", "notexec", "payer", "quota", "dquota", "rejected:expired", "rejected:inadmissible",
              "rejected:settled", "rejected:unpayable", "rejected:depreverted"]
    need_d = ["blocked", "depreverted", "expired", "inadmissible", "outlived", "settled", "unpayable", "unpayable-overall"]
    missing = [k for k in required if counts.get(k, 0) == 0] + ["verdict " + k for k in need_v if verdicts.get(k, 0) == 0] + \
              ["drop " + k for k in need_d if drops.get(k, 0) == 0]
    if not any(k.startswith("adopt_cum_refused:") for k in counts):
        missing.append("adopt_cum_refused:*")
    if ctx.cov["free_runs_with_overlap"] == 0:
        missing.append("free_runs_with_overlap")
    ctx.cov["branches_never_taken"] = missing
    if missing and not q and not ctx.violations:
        raise Infra("vacuity: these branches were never taken in a thorough run: %s" % missing)
    ctx.cov["runs_over_limit"] = sum(1 for s in stats if s["maxLen"] > s["limit"])
    ctx.cov["exhaustive"] = False
    ctx.assumptions += [
        "hashes / signatures are injective oracles; tx ids, object identities, times added are logged facts",
        "amounts are compared in units of 10^16 wei: the drivers only create costs that are multiples of it (gas multiple of 1000, "
        "prices multiples of 10^13; checked at run time) and floor(energy/unit); the base fee is the initial one except in the basefee "
        "scenario, where filler blocks move it to exactly 1.01x and back (costs of head-room txs are listed per base fee)",
        "Evaluate is transcribed for: expiry, block-ref window, tx type vs GALACTICA, known tx, dependency, payer energy; "
        "sponsorship/credit (prototype) payers, gas above the block limit and unsupported features are not generated",
        "sync status and lifetime depend on the wall clock: the genesis launch time places the heads, MaxLifetime is 1h or 1ns; "
        "a single run whose logged sync status no longer holds at its end (slow machine) is discarded and counted "
        "(runs_discarded_slow): it is neither evidence nor a verdict",
        "free-running traces: the lock-free prefix of add (pool size, published list) is not linearised, those verdicts are accepted as reported",
        "exhaustive only inside the MCPool_*.cfg bounds; larger interleavings are sampled (seeded)",
        "priorities: after a wash that runs because the head changed, a priced object's priority must be the one for the next "
        "block (its base fee; proved work only while it counts) - the harness computes the expected value with the tx package's "
        "own accessors, per base fee; a wash on an unchanged head keeps it (required by an existing unit test). Residual, listed "
        "as known finding order:stale-priority:add-raced-head-change: an Add priced under one head and inserted under the next "
        "keeps the old priority until the next head change; the driver recognises exactly that shape (Add began before the "
        "head change, no head-change wash since the insertion) - any other outdated priority is a violation "
        "(order:stale-priority-after-head-change)",
        "payers of txs to an account with a prototype credit plan (sponsor / the account / origin) are computed by the harness "
        "from the head state in the order of runtime.BuyGas and logged per head; an object keeps the payer it was priced with",
        "the housekeeping tick body is driven through the hook (VerifWash, a transcription); the real goroutine on its 1 s ticker "
        "is compared with it in a separate step; the node's packer loop body (proposeAndCommit, cleanupTransactions) runs for real; "
        "in free-running mode it excludes other operations while it commits (the new head is a logged fact)",
        "the evict step of wash removes by hash: a re-added object of the same tx can be evicted on its predecessor's verdict; the "
        "accounting stays exact and the tx-level reason holds for the wash's head, which is what DropHasReason states",
    ]
