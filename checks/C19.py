"""C19 - sync converges to the peer's better chain; hostile peer input is harmless.  DESIGN section 5 (C19).

1. design level (TLC, exhaustive): Sync.tla  (A) findCommonAncestor for every local head <= 16 (thorough 40), every
   divergence height, remote shorter/equal/longer; (B) the download pipeline against scripted peers, every fault kind at
   every stream position over up to 3 batches; (C) every message code x payload class.
2. model -> implementation, (A): for every (H, A, R) the REAL findCommonAncestor (hook H6) runs against a real remote
   Communicator over the in-process pipe; the GetBlockIDByNumber probes seen at the pipe and the result are validated
   against the algorithm of Sync.tla by Trace_Sync.tla (lock step).
   Serving side (D): the reply of an honest real Communicator must obey the batch rule (never empty while it holds a
   block: chains with blocks larger than the 512 KB budget); handler contract: handleBlockStream is fed hand-made
   streams with nil throttle markers at every position, and a 300-block catch-up with a late importer makes the real
   decoder end the stream in nil markers.
3. implementation -> model, (B): the REAL download (ancestor search + fetch/decode/handle pipeline, handler = real node
   import) of fresh full nodes against an honest real Communicator and against scripted hostile peers; Trace_Sync runs
   the pipeline model on the answers seen at the pipe and must be able to end in the reported state (error class,
   imported blocks, best, peer dropped, store digest = reference node with exactly the imported prefix).
   Real Communicator.Sync between pairs of full nodes (concurrently), incl. hostile peers.
4. (C): every message code x class (+ seeded random payloads) through rpc.Serve/handleRPC of a node.
5. growth (DESIGN section 8): block / tx propagation - Gossip.tla model-checked; 4 real full nodes with real Communicators
   (announcement loop, tx loop, pools) in mesh / line / star topologies plus a hostile peer: every propagation message read
   or written, every import, the per-peer marks at rest (hook VerifPeerMarks), chain and pool are validated by
   Trace_Gossip.tla (signatures gossip:*)."""
import copy

import synccommon as sc
from verifkit import Infra, read_ndjson


def corrupt_ancestor(cases):
    big = [c for c in cases if c[0]["e"] == "AStart" and len(c) >= 6 and c[0]["A"] > 2]
    c = copy.deepcopy(big[len(big) // 2])
    out = []
    a = copy.deepcopy(c)
    probes = [i for i, e in enumerate(a) if e["e"] == "Probe"]
    a[probes[len(probes) // 2]]["n"] += 1
    out.append(("probe-height-corrupted", a))
    b = copy.deepcopy(c)
    del b[probes[-1]]
    out.append(("probe-deleted", b))
    d = copy.deepcopy(c)
    d[-1]["anc"] -= 1
    out.append(("result-corrupted", d))
    return out


def corrupt_download(cases):
    out = []
    hon = [c for c in cases if c[0]["e"] == "BStart" and "/none@" in c[0]["case"] and len(c[-1]["imported"]) >= 3]
    c = copy.deepcopy(hon[0])
    c[-1]["imported"] = c[-1]["imported"][:-1]
    out.append(("imported-block-dropped", c))
    multi = [c for c in hon if sum(1 for e in c if e["e"] == "Fetch") > 2]
    c = copy.deepcopy(multi[0])
    fi = [i for i, e in enumerate(c) if e["e"] == "Fetch"]
    del c[fi[1]]                                       # a round trip of the fetcher is missing from the record
    out.append(("fetch-deleted", c))
    bad = [c for c in cases if c[0]["e"] == "BStart" and "/dup@" in c[0]["case"]]
    c = copy.deepcopy(bad[0])
    c[-1]["status"] = "ok"
    out.append(("fault-unreported", c))
    huge = [c for c in cases if c[0]["e"] == "BStart" and c[0]["case"].startswith("huge-first")]
    c = copy.deepcopy(huge[0])
    fi = [i for i, e in enumerate(c) if e["e"] == "Fetch"]
    c[fi[0]]["bs"] = []                      # the honest server answers nothing although it holds a (huge) block
    c = c[:fi[0] + 1] + [c[-1]]
    c[-1]["imported"], c[-1]["best"] = [], c[0]["best"]
    out.append(("empty-reply-while-server-has-blocks", c))
    stre = [c for c in cases if c[0]["e"] == "SStart" and len(c[-1]["imported"]) >= 3]
    c = copy.deepcopy(stre[-1])
    c[-1]["imported"] = c[-1]["imported"][:-1]
    out.append(("stream-block-skipped", c))
    inv = [c for c in cases if c[0]["e"] == "BStart" and "/invalid@" in c[0]["case"]]
    c = copy.deepcopy(inv[-1])
    badid = [b["id"] for e in c if e["e"] == "Fetch" for b in e.get("bs", []) if b["kind"] == "invalid"]
    c[-1]["imported"] = c[-1]["imported"] + badid[:1]
    out.append(("invalid-block-imported", c))
    return out


def corrupt_sync(cases):
    out = []
    conv = [c for c in cases if c[0]["e"] == "SyncEnd" and not c[0]["hostile"] and c[0]["best"] == "r"]
    c = copy.deepcopy(conv[0])
    c[0]["best"] = "l"                                   # the node stayed on its own head although the peer's is preferred
    out.append(("sync-not-converged", c))
    c = copy.deepcopy(conv[0])
    c[0]["imported"] -= 1                                # converged, yet one of the peer's blocks is missing from the store
    out.append(("sync-block-missing", c))
    keep = [c for c in cases if c[0]["e"] == "SyncEnd" and not c[0]["hostile"] and c[0]["best"] == "l" and c[0]["imported"] == 0]
    if keep:
        c = copy.deepcopy(keep[0])
        c[0]["best"] = "r"                               # a lighter peer was followed
        out.append(("sync-followed-lighter-peer", c))
    return out


def corrupt_msgs(cases):
    out = []
    rej = [c for c in cases if c[0]["e"] == "Conn" and len(c) > 1 and c[1]["cls"] == "badarg"]
    c = copy.deepcopy(rej[0])
    c[1]["err"] = False
    c[1]["reply"] = 1
    out.append(("malformed-message-answered", c))
    okc = [c for c in cases if c[0]["e"] == "Conn" and len(c) > 1 and c[1]["cls"] == "ok" and c[1]["code"] == 5]
    c = copy.deepcopy(okc[0])
    c[1]["same"] = False
    out.append(("store-changed-by-query", c))
    return out


def corrupt_gossip(cases):
    out = []
    mesh = [c for c in cases if c[0]["e"] == "GReset" and "mesh" in c[0]["case"]][0]
    c = copy.deepcopy(mesh)
    i = [k for k, e in enumerate(c) if e["e"] == "Send" and e["t"] in ("full", "ann")][3]
    c.insert(i + 1, copy.deepcopy(c[i]))                       # the same block pushed twice to the same peer
    out.append(("gossip-block-pushed-twice", c))
    c = copy.deepcopy(mesh)
    i = [k for k, e in enumerate(c) if e["e"] == "Recv" and e["t"] == "full"][0]
    echo = {"e": "Send", "from": c[i]["at"], "to": c[i]["from"], "t": "full", "id": c[i]["id"], "set": []}
    j = [k for k, e in enumerate(c) if k > i and e["e"] == "Import" and e["n"] == c[i]["at"] and e["ok"]][0]
    c.insert(j + 1, echo)                                      # the block goes back to the peer it came from
    out.append(("gossip-echo-to-sender", c))
    c = copy.deepcopy(mesh)
    i = [k for k, e in enumerate(c) if e["e"] == "Marks" and e["blocks"]][2]
    c[i]["blocks"] = c[i]["blocks"][:-1]                       # a mark the model derived is missing in the real node
    out.append(("gossip-mark-missing", c))
    c = copy.deepcopy(mesh)
    i = [k for k, e in enumerate(c) if e["e"] == "Import" and e["ok"]][1]
    del c[i]                                                   # a node re-broadcasts a block it never imported
    out.append(("gossip-import-deleted", c))
    host = [c for c in cases if c[0]["e"] == "GReset" and c[0]["case"] == "hostile"][0]
    c = copy.deepcopy(host)
    i = [k for k, e in enumerate(c) if e["e"] == "Recv" and e["t"] == "ann" and e["id"] < 1000][0]
    c.insert(i + 1, {"e": "Send", "from": c[i]["at"], "to": 9, "t": "get", "id": c[i]["id"], "set": []})
    out.append(("gossip-fetch-of-known-block", c))             # an announced block the node already has is fetched
    return [out[0], out[1], out[4], out[2], out[3]]


def corrupt_future(cases):
    c0 = cases[0]
    out = []
    def idx(pred):
        return [i for i, e in enumerate(c0) if pred(e)][0]
    c = copy.deepcopy(c0)
    i = idx(lambda e: e["e"] == "Push" and e.get("note") == "a3-before-its-ancestors")
    c[i]["out"] = "cached"
    c[i]["cache"] = sorted(c[i]["cache"] + [c[i]["id"]])          # a block whose parent is neither stored nor cached is kept
    out.append(("futureblocks-orphan-cached", c))
    c = copy.deepcopy(c0)
    i = idx(lambda e: e["e"] == "Push" and e.get("note") == "fork-below-finalized")
    c[i]["out"] = "imported"                                      # a block refused by finality is stored
    out.append(("futureblocks-refused-block-imported", c))
    c = copy.deepcopy(c0)
    i = idx(lambda e: e["e"] == "Round")
    moved = [x for x in c[i]["stored"] if x not in c0[0]["stored"]][-1:]
    prev = set(c0[0]["stored"]) | {e["id"] for e in c0[:i] if e["e"] == "Push" and e["out"] == "imported"}
    moved = [x for x in moved if x not in prev]
    if moved:                                                      # (void if the chain was not cached in this run)
        c[i]["stored"] = [x for x in c[i]["stored"] if x not in moved]
        c[i]["cache"] = sorted(c[i]["cache"] + moved)              # the round left the last block of the cached chain behind
        out.append(("futureblocks-chain-not-in-one-round", c))
    edge = [i for i, e in enumerate(c0) if e["e"] == "Push" and e.get("note") == "timestamp-equals-now-plus-interval" and e["lo"] == e["hi"]]
    if edge:
        c = copy.deepcopy(c0)
        c[edge[0]]["out"] = "cached"
        c[edge[0]]["cache"] = sorted(c[edge[0]]["cache"] + [c[edge[0]]["id"]])   # timestamp = now + interval treated as future
        out.append(("futureblocks-edge-treated-as-future", c))
    return out


def future_step(ctx, drifts):
    """Growth (DESIGN section 8): pushed blocks the node cannot import yet - FutureBlocks.tla + Trace_FutureBlocks.tla."""
    ctx.tlc_must_hold("net", "MC_FutureBlocks", cfg="MC_FutureBlocks.cfg" if ctx.quick else "MC_FutureBlocks_thorough.cfg", workers=4,
                      timeout=900, label="future blocks: design model")
    r = ctx.tlc("net", "MC_FutureBlocks", cfg="MC_FutureBlocks_unsorted.cfg", workers=4, timeout=600, count=False,
                label="future blocks NEGATIVE: retry round in any order")
    if r.timeout or "RoundComplete is violated" not in r.out:
        raise Infra("RoundComplete is vacuous: the unsorted negative configuration did not violate it")
    events, st = sc.run_driver(ctx, "syncsim", ["-mode", "future"] + ([] if ctx.quick else ["-deep"]), "future", timeout=600)
    if events is None:
        return 0
    sc.binding_demo(ctx, events, "future", lambda cs: [v for v in corrupt_future(cs) if not ctx.quick or "refused" not in v[0]],
                    module="Trace_FutureBlocks")
    acc, d = sc.validate(ctx, events, "future", {"driver": "syncsim", "mode": "future", "seed": ctx.seed}, module="Trace_FutureBlocks")
    drifts += d
    fu = st["future"]
    outs = {}
    for v in fu["outcomes"].values():
        outs[v] = outs.get(v, 0) + 1
    ctx.cov["futureblocks_pushes_by_outcome"] = outs
    ctx.cov["futureblocks_pushes"] = sum(1 for e in events if e["e"] == "Push")
    ctx.cov["futureblocks_evictions_seen"] = sum(1 for i, e in enumerate(events) if e["e"] == "Push" and e["out"] == "cached"
                                                 and len(e["cache"]) == 32 and i > 0 and len(events[i - 1].get("cache", [])) == 32)
    ctx.cov["futureblocks_chain_imported_in_one_round"] = fu["chainImportedInOneRound"]
    ctx.cov["futureblocks_chain_was_cached_before_the_round"] = fu.get("chainWasCached")
    ctx.cov["futureblocks_edge_pushes_within_one_second"] = fu["edgePushesInOneSecond"]
    ctx.cov["futureblocks_cache_at_end"] = fu["cacheAtEnd"]
    ctx.cov["traces_validated_against_impl"] += acc
    if fu["cacheAtEnd"]:
        ctx.cov.setdefault("observations", []).append(
            "future blocks: a cached block that turns out invalid (or refused) when its time comes is never dropped - it is retried every "
            "round and occupies one of the 32 slots until it is evicted at random; a block dropped or evicted is recovered by sync only")
    ctx.sample({"futureblocks_first_pushes": [e for e in events if e["e"] == "Push"][:3]})
    return ctx.cov["futureblocks_pushes"]


def gossip_step(ctx, drifts):
    """Growth (DESIGN section 8): block / tx propagation, Gossip.tla + Trace_Gossip.tla on real Communicators."""
    q = ctx.quick
    cfgs = ["quick", "line", "connect", "hostile"] + ([] if q else ["connect1", "tri2", "tri_tx", "hostile3"])
    for c in cfgs:
        ctx.tlc_must_hold("net", "Gossip", cfg="MC_Gossip_%s.cfg" % c, workers=4, timeout=1500, label="gossip design model: " + c)
    args = ["-mode", "gossip"] + ([] if q else ["-deep"])
    events, st = sc.run_driver(ctx, "syncsim", args, "gossip", timeout=600)
    if events is None:
        return 0
    sc.binding_demo(ctx, events, "gossip", lambda cs: corrupt_gossip(cs)[:3 if q else 5], module="Trace_Gossip")
    acc, d = sc.validate(ctx, events, "gossip", {"driver": "syncsim", "args": args, "seed": ctx.seed}, module="Trace_Gossip")
    drifts += d
    runs = st["gossip"]
    ctx.cov["gossip_runs"] = [r["label"] for r in runs]
    ctx.cov["gossip_runs_accepted"] = acc
    ctx.cov["gossip_messages_observed"] = sum(r["messages"] for r in runs)
    ctx.cov["gossip_events"] = sum(r["events"] for r in runs)
    kinds = {}
    for e in events:
        if e["e"] in ("Send",):
            kinds[e["t"]] = kinds.get(e["t"], 0) + 1
    ctx.cov["gossip_messages_by_kind"] = kinds
    ctx.cov["gossip_blocks_produced"] = sum(r["blocks"] for r in runs)
    ctx.cov["gossip_txs_submitted"] = sum(r["txs"] for r in runs)
    ctx.cov["gossip_mark_dumps_checked"] = sum(1 for e in events if e["e"] == "Marks")
    ctx.cov["gossip_hostile_messages"] = sum(1 for e in events if e["e"] == "Send" and e["from"] == 9)
    ctx.cov["traces_validated_against_impl"] += acc
    gc = [c for c in sc.split_cases(events) if c[0]["e"] == "GReset" and c[0]["case"] == "hostile"]
    if gc:
        ctx.sample({"gossip_hostile_run_first_events": gc[0][:12]})
    return len(runs)


def run(ctx):
    q = ctx.quick
    if ctx.replay:
        rp = __import__("json").load(open(ctx.replay))
        acc, drifts = sc.validate(ctx, rp["trace"], "replay", rp.get("how"))
        ctx.cov["evaluations"] = 1
        ctx.cov["distinct_nontrivial"] = 2
        ctx.cov["rule"] = "replay of one stored case"
        return

    # ---- 1. design level -------------------------------------------------------------------------------------
    w = 4
    ctx.tlc_must_hold("net", "Sync", cfg="MC_SyncA_quick.cfg" if q else "MC_SyncA_thorough.cfg", workers=w, timeout=900,
                      label="(A) findCommonAncestor, every (H, A, R)")
    ctx.tlc_must_hold("net", "Sync", cfg="MC_SyncB_quick.cfg" if q else "MC_SyncB_thorough.cfg", workers=w, timeout=1500,
                      label="(B) download pipeline x scripted peers")
    ctx.tlc_must_hold("net", "Sync", cfg="MC_SyncB_depth.cfg" if q else "MC_SyncB_depth_thorough.cfg", workers=w, timeout=900,
                      label="(B) deep pipeline: 4-5 single-block batches, queues full behind every fault; download returns")
    ctx.tlc_must_hold("net", "Sync", cfg="MC_SyncA_liar.cfg", workers=w, timeout=600,
                      label="(A) ancestor search against a peer that answers every probe as it likes")
    ctx.tlc_must_hold("net", "Sync", cfg="MC_SyncB_slack.cfg", workers=w, timeout=900,
                      label="(B) download from one below the true ancestor: known blocks are ignored")
    # non-vacuity of BTerminates: with a decoder that does not listen to the cancel while blocked the property must FAIL
    r = ctx.tlc("net", "Sync", cfg="MC_SyncB_nolisten.cfg", workers=w, timeout=900, count=False,
                label="(B) NEGATIVE: decoder ignores the cancel => download does not return")
    if r.timeout or "BTerminates was violated" not in r.out:
        raise Infra("BTerminates is vacuous: the negative configuration MC_SyncB_nolisten.cfg did not violate it (%s)" % (r.error or "passed"))
    ctx.cov["liveness_negative_config"] = "MC_SyncB_nolisten.cfg violates BTerminates as it must (%d states)" % r.distinct
    r = ctx.tlc("net", "Sync", cfg="MC_SyncB_nofetchlisten.cfg", workers=w, timeout=900, count=False,
                label="(B) NEGATIVE: fetcher ignores the cancel => download does not return")
    if r.timeout or "BTerminates was violated" not in r.out:
        raise Infra("BTerminates is vacuous for the fetch stage: MC_SyncB_nofetchlisten.cfg did not violate it (%s)" % (r.error or "passed"))
    ctx.cov["liveness_negative_config_fetch"] = "MC_SyncB_nofetchlisten.cfg violates BTerminates as it must (%d states)" % r.distinct
    ctx.tlc_must_hold("net", "Sync", cfg="MC_SyncC.cfg", workers=w, timeout=300, label="(C) message codes x classes")

    drifts = []
    late_infra = []

    # ---- 2. (A) real findCommonAncestor, every instance ------------------------------------------------------
    maxh = 20 if q else 40
    events, st = sc.run_driver(ctx, "ancestor", ["-maxh", str(maxh)], "ancestor")
    n_anc = 0
    if events is not None:
        if st["panics"]:
            rp = ctx.save_replay("ancestor-panic-seed%d.json" % ctx.seed, st)
            ctx.report("panic:ancestor", "findCommonAncestor panicked: %s" % st.get("firstBad"), rp)
        sc.binding_demo(ctx, events, "ancestor", corrupt_ancestor)
        acc, d = sc.validate(ctx, events, "ancestor", {"driver": "ancestor", "maxh": maxh, "seed": ctx.seed})
        drifts += d
        n_anc = st["instances"]
        ctx.cov["ancestor_instances"] = st["instances"]
        ctx.cov["ancestor_instances_accepted"] = acc
        ctx.cov["ancestor_instances_remote_shorter_than_local_head"] = sum(1 for e in events if e["e"] == "AStart" and e["R"] < e["H"])
        ctx.cov["ancestor_probes_observed"] = st["probes"]
        ctx.cov["ancestor_distinct_probe_sequences"] = st["distinctProbeSequences"]
        ctx.cov["ancestor_max_probes"] = st["maxProbes"]
        ctx.cov["traces_validated_against_impl"] += acc
        cs = sc.split_cases(events)
        ctx.sample({"ancestor_case": cs[len(cs) // 2]})

    # ---- 3. (B) real download: honest + hostile peers ------------------------------------------------------------
    args = ["-mode", "dl", "-amax", "3" if q else "7"] + ([] if q else ["-deep"])
    events, st = sc.run_driver(ctx, "syncsim", args, "download")
    n_dl = n_dl_fault = 0
    if events is not None:
        sc.binding_demo(ctx, events, "download", corrupt_download)
        acc, d = sc.validate(ctx, events, "download", {"driver": "syncsim", "args": args, "seed": ctx.seed})
        drifts += d
        cases = st["cases"]
        n_dl = len(cases)
        n_dl_fault = sum(1 for c in cases if c["fault"] != "none")
        kinds = {}
        for c in cases:
            k = "%s->%s" % (c["fault"], c["status"])
            kinds[k] = kinds.get(k, 0) + 1
        ctx.cov["download_cases"] = n_dl
        ctx.cov["download_cases_accepted"] = acc
        ctx.cov["download_scenarios"] = st["scenarios"]
        ctx.cov["download_fault_outcomes"] = kinds
        ctx.cov["download_converged_to_preferred_remote"] = sum(1 for c in cases if c["fault"] == "none" and c["prefers"] and c["converged"])
        ctx.cov["download_remote_not_preferred_kept_local"] = sum(1 for c in cases if c["fault"] == "none" and not c["prefers"] and c["status"] == "ok")
        ctx.cov["download_multi_batch"] = sum(1 for c in cases if c["fetches"] >= 3)
        ctx.cov["download_abort_with_many_batches_left"] = [(c["fault"], c["status"], c["fetches"]) for c in cases if c["fault"].startswith("flood-")]
        ctx.cov["download_handler_error_with_full_pipeline_ms"] = [c["elapsedMs"] for c in cases if c["fault"] == "flood"]
        ctx.cov["download_exact_score_ties"] = [(c["label"], c["converged"]) for c in cases if c["label"].startswith("tie")]
        ctx.cov["download_lying_id_answers"] = sorted({c["fault"] for c in cases if c["fault"].startswith("liar:")})
        ctx.cov["download_locals_with_side_branch"] = sum(1 for c in cases if "side" in c["label"])
        ctx.cov["download_blocks_over_reply_budget"] = [c["label"] for c in cases if c["label"].startswith("huge")]
        ctx.cov["handler_streams_with_nil_markers"] = sum(1 for c in cases if c["peer"] == "stream" and c["nilMarkersQueued"] > 0)
        ctx.cov["download_nil_markers_queued_by_real_decoder"] = sum(c["nilMarkersQueued"] for c in cases if c["label"].startswith("throttle"))
        for c in cases:
            if c.get("panic"):
                ctx.cov.setdefault("panics", []).append({"case": c["label"], "panic": c["panic"][:1500]})
        ctx.cov["traces_validated_against_impl"] += acc
        bs = [c for c in sc.split_cases(events) if "/invalid@" in c[0].get("case", "")]
        if bs:
            ctx.sample({"download_case": {"case": bs[0][0]["case"], "end": bs[0][-1]}})

    # ---- 3b. real Communicator.Sync between full nodes --------------------------------------------------------
    args = ["-mode", "sync", "-pairs", "24"] + ([] if q else ["-deep"])
    events, st = sc.run_driver(ctx, "syncsim", args, "sync", timeout=900)
    n_sync = 0
    if events is not None:
        pairs = st["pairs"]
        # what was recorded is validated first; pairs the harness gave up on (absolute cap) carry no verdict and are
        # reported as infrastructure trouble afterwards
        sc.binding_demo(ctx, events, "sync", corrupt_sync)
        acc, d = sc.validate(ctx, events, "sync", {"driver": "syncsim", "args": args, "seed": ctx.seed})
        drifts += d
        to = [p["label"] for p in pairs if p["timeout"]]
        if to:
            late_infra.append("Communicator.Sync pairs hit the absolute cap of the harness: %s" % to)
            acc -= len(to)
        n_sync = len(pairs)
        ctx.cov["sync_pairs"] = n_sync
        ctx.cov["sync_pairs_converged"] = sum(1 for p in pairs if p["prefers"] and p["converged"])
        ctx.cov["sync_pairs_exact_score_tie"] = [(p["label"], p["prefers"], p["converged"]) for p in pairs if p["label"].startswith("tie")]
        ctx.cov["sync_pairs_hostile"] = sum(1 for p in pairs if p["hostile"])
        ctx.cov["sync_peers_dropped"] = sum(1 for p in pairs if p["peerDropped"])
        ctx.cov["traces_validated_against_impl"] += acc
        ctx.sample({"sync_pair": pairs[0]})

    # ---- 3c. finality / quality variants (PoA with finality; thorough: PoS as well) ------------------------------
    n_bft = 0
    for mode in (["bft"] if q else ["bft", "pos"]):
        args = ["-mode", mode] + ([] if q else ["-deep"])
        events, st = sc.run_driver(ctx, "syncsim", args, mode, timeout=900)
        if events is None:
            continue
        acc, d = sc.validate(ctx, events, mode, {"driver": "syncsim", "args": args, "seed": ctx.seed})
        drifts += d
        res = st["bft"]
        n_bft += len(res)
        ctx.cov["traces_validated_against_impl"] += acc
        ctx.cov.setdefault("finality_variants", {})[mode] = {
            "cases": [r["label"] + "/" + r["via"] for r in res],
            "refused_by_finality": sum(1 for r in res if r["status"] == "bft"),
            "main_chain_finalized_height": st["mainChainFinalized"]}
        for r in res:
            if r["via"] == "sync" and r["refFollowsRemote"] and not r["converged"] and not r["remoteHasHigherScore"]:
                ctx.cov.setdefault("observations", []).append(
                    "%s/%s: the node's fork choice (bft.Select: quality first) prefers the peer's chain, a direct download converges, but "
                    "Communicator.Sync never selects the peer because its announced total score is lower (peer selection is by score only; "
                    "design limit of C19, not reported as a violation)" % (mode, r["label"]))
        to = [r["label"] for r in res if r["timeout"]]
        if to:
            late_infra.append("finality variants hit the absolute cap of the harness: %s" % to)

    # ---- 4. (C) every message code ------------------------------------------------------------------------------
    args = ["-mode", "msg", "-rand", "40" if q else "600"]
    events, st = sc.run_driver(ctx, "syncsim", args, "messages")
    n_msg = 0
    if events is not None:
        sc.binding_demo(ctx, events, "messages", corrupt_msgs)
        acc, d = sc.validate(ctx, events, "messages", {"driver": "syncsim", "args": args, "seed": ctx.seed})
        drifts += d
        msgs = st["messages"]
        n_msg = len(msgs)
        ctx.cov["messages"] = n_msg
        ctx.cov["messages_rejected"] = sum(1 for m in msgs if m["err"])
        ctx.cov["messages_random"] = sum(1 for m in msgs if m["cls"] == "random")
        ctx.cov["messages_random_accepted"] = sum(1 for m in msgs if m["cls"] == "random" and not m["err"])
        ctx.cov["traces_validated_against_impl"] += acc
        failed = [chk["name"] for chk in st["feedChecks"] if not chk["ok"]]
        if failed:
            # these auxiliary checks wait for asynchronous effects (a fetch, a NewBlockEvent): a failure counts only if the
            # same check fails again in a second run of the driver; a single failure is recorded as a timing note
            ev2, st2 = sc.run_driver(ctx, "syncsim", args, "messages-again")
            again = [chk["name"] for chk in (st2 or {}).get("feedChecks", []) if not chk["ok"]]
            for name in failed:
                if name in again:
                    rp = ctx.save_replay("feedcheck-seed%d.json" % ctx.seed, {"first": st["feedChecks"], "second": st2["feedChecks"]})
                    ctx.report("feed:" + name, "announced/pushed block handling: %s failed in two runs" % name, rp)
                else:
                    ctx.cov.setdefault("timing_notes", []).append("feed check '%s' failed once, passed on repetition" % name)
        ctx.cov["feed_checks"] = [c["name"] for c in st["feedChecks"]]
        ctx.sample({"message": msgs[len(msgs) // 3]})

    # ---- 5. growth: block / tx propagation between peers -----------------------------------------------------
    n_gossip = gossip_step(ctx, drifts)

    # ---- 6. growth: pushed blocks the node cannot import yet ---------------------------------------------------
    n_future = future_step(ctx, drifts)

    ctx.cov["evaluations"] = n_anc + n_dl + n_sync + n_msg + n_gossip + n_bft + n_future
    ctx.cov["distinct_nontrivial"] = (ctx.cov.get("ancestor_distinct_probe_sequences", 0) + n_dl_fault +
                                      ctx.cov.get("sync_pairs_converged", 0))
    ctx.cov["rule"] = ("evaluation = one run of real code: one findCommonAncestor instance (H,A,R), one download of a fresh node, "
                       "one Communicator.Sync pair, or one message through handleRPC; non-trivial = distinct probe sequences of "
                       "the ancestor search + download cases with an injected fault + Sync pairs that had to switch to the remote head")
    ctx.cov["exhaustive"] = False
    ctx.cov["exhaustive_note"] = ("(A): every (H, A, R in {A, A+1, H, H+3}) for H <= %d on the real code; Sync.tla (A) exhaustive for H <= %d, "
                             "all R; (B)/(C) exhaustive inside MC_SyncB/C bounds, sampled on the real code" % (maxh, 16 if q else 40))
    ctx.assumptions += [
        "hashes/signatures are injective oracles; block ids, total scores and the id order are logged facts",
        "fork choice in the modelled scenarios is (total score, id): validator 2 never signs, so no epoch is justified; finality / quality (bft.Accepts, bft.Select, PoA and PoS) are covered on the real code against a reference node only, not in Sync.tla",
        "peer selection is exercised with strictly better and exactly tying announced scores (both id orders); with several peers the choice among them is not under test; the in-process pipe delivers whole messages in order (devp2p framing is not under test)",
        "hostile peers are scripted at the rpc layer: one fault per download, 14 fault kinds x stream positions x batch sizes; random payloads are seeded samples",
    ]
    if ctx.cov.get("binding_demo_skipped") and not ctx.violations:
        raise Infra("binding demonstration could not be built although nothing was reported: %s" % ctx.cov["binding_demo_skipped"])
    if late_infra and not ctx.violations:
        raise Infra(" | ".join(late_infra))
    if drifts and not ctx.violations:
        raise Infra("specification drift (real code deviates from Sync.tla, all C19 observables right): " + " | ".join(drifts[:3]))
    if drifts:
        ctx.cov["drift_notes"] = drifts[:5]
