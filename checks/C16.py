"""C16 - staked VET is fully accounted for and withdrawable exactly once.  DESIGN section 5 (C16/C17)."""
import stakercommon as sc


def run(ctx):
    if ctx.replay:
        return sc.replay(ctx, "C16")
    q = ctx.quick
    # 1. design level: Staker.tla explored exhaustively inside small bounds, C16 invariants and action properties
    sc.model_check(ctx, "C16")
    # 2. implementation -> model: seeded histories of the real staker code validated by Trace_Staker.tla (C16 getters)
    sc.binding_demo(ctx, "C16")
    plan = [("e2", "f4,edges,random", 22 if q else 240, 60, 0),
            ("e3", "edges,random", 8 if q else 120, 72, 1),
            ("fine", "edges,random", 6 if q else 80, 50, 2),
            ("e4", "edges,random", 6 if q else 80, 96, 3),
            # eviction checks at heights below the eviction threshold, validators offline for a block or two
            ("ev", "edges,random", 6 if q else 80, 60, 5),
            ("ev3", "edges,random", 4 if q else 40, 75, 6),
            # real transactions to the Staker contract on a real chain (EVM + staker.sol + packer, genesis stakers)
            ("e2", "chain", 3 if q else 40, 80, 4)]
    sc.histories(ctx, "C16", plan)
    ctx.assumptions += sc.ASSUMPTIONS
