"""C12 machinery: record histories of the real muxdb.Trie (cmd/nodestore) and validate them with Trace_NodeStore.tla;
run the real pruner end to end (cmd/prunee2e)."""
import json
import os

from verifkit import Infra, read_ndjson, write_ndjson

SUB = "state"
MOD = "Trace_NodeStore"
CFG_PROJ = "Trace_NodeStore_proj.cfg"          # observables + projections (key spaces, cold reads predicted exactly)
CFG_OBS = "Trace_NodeStore_obs.cfg"            # observables only
CFG_INFLIGHT = "Trace_NodeStore_inflight.cfg"  # observables, reads during a prune round included

INFLIGHT_SIG = "inflight-read-differs"
DRIFT = []   # projection mismatches seen in this process (see validate)


def split_runs(events):
    runs, cur = [], None
    for e in events:
        if e["e"] == "Reset":
            cur = []
            runs.append(cur)
        cur.append(e)
    return runs


def expand_obs(run):
    """Obs -> Keys + one Read per block, so that a rejection points at a single read."""
    out = []
    for e in run:
        if e["e"] == "Obs":
            out.append({"e": "Keys", "keysknown": e["keysknown"], "hist": e["hist"], "dedup": e["dedup"]})
            for r in e["reads"]:
                rr = dict(r)
                rr["e"] = "Read"
                out.append(rr)
        else:
            out.append(e)
    return out


def run_driver(ctx, name, args, label, timeout=1800, tags="verif"):
    binp = ctx.build(name, tags=tags)
    out = ctx.tmp("rec-" + label)
    rc, o = ctx.run([binp, "-out", out] + [str(a) for a in args], timeout=timeout)
    if rc == 3:
        raise Infra("%s harness error: %s" % (name, o[-1500:]))
    if rc == 4 or (rc not in (0, None) and ("panic:" in o or "goroutine " in o)):
        rp = ctx.save_replay("panic-%s.txt" % label, o[-20000:])
        ctx.report("panic:" + name, "real code panicked in %s %s: %s" % (name, " ".join(map(str, args)),
                                                                           o.strip().splitlines()[:3]), rp)
        return None
    if rc != 0:
        raise Infra("%s failed rc=%s: %s" % (name, rc, o[-2000:]))
    return out


def record(ctx, mode, args, label):
    out = run_driver(ctx, "nodestore", ["-mode", mode] + args, label)
    if out is None:
        return [], []
    return read_ndjson(os.path.join(out, "trace.ndjson")), json.load(open(os.path.join(out, "runs.json")))


def _validate(ctx, events, tag, cfg):
    path = os.path.join(ctx.tmp("val-" + tag), "trace.ndjson")
    write_ndjson(path, events)
    return ctx.validate_trace(SUB, MOD, path, cfg=cfg, timeout=2400)


def describe(ev):
    s = json.dumps(ev, sort_keys=True)
    return s if len(s) < 700 else s[:700] + "..."


def classify(ev, invariant):
    if invariant:
        return "invariant:" + invariant
    k = ev.get("e")
    if k == "Read":
        bad = [n for n, ok in sorted(ev["ok"].items()) if not ok]
        if not ev.get("itersame", True):
            return "read:get-and-iterator-disagree"
        return "read-error" if bad else "read-differs"
    if k == "Commit":
        return "commit:root-hash-not-canonical" if not ev.get("hashok", True) else "commit:version"
    return "rejected:" + str(k)


def in_flight_read(run, idx):
    """Is event idx of the (expanded) run a successful read of a block inside [base, target) while a prune round is
    running (Checkpoint done, DeleteHist not yet)?  Only such a read may carry the known in-flight signature."""
    base, pend = 0, 0
    for e in run[:idx]:
        if e["e"] == "Checkpoint":
            pend = e["target"]
        elif e["e"] == "DeleteHist":
            base, pend = pend, 0
        elif e["e"] == "Reset":
            base, pend = 0, 0
    ev = run[idx]
    return (ev.get("e") == "Read" and pend != 0 and base <= ev["b"][0] < pend and all(ev["ok"].values())
            and ev.get("itersame", True))


def validate(ctx, events, stats, label, how, cfg=CFG_PROJ, inflight_sig=False):
    """Validate concatenated runs. A rejection is examined on the offending run alone:
    accepted without projections  -> spec drift (Infra, exit 2)
    rejected on an observable     -> ctx.report (violation), the run is dropped and validation continues."""
    runs = split_runs(events)
    pending = list(range(len(runs)))
    guard = 0
    while pending:
        guard += 1
        if guard > 6:
            ctx.cov["validation_stopped_early"] = "more than 5 rejected runs in batch %s" % label
            return
        evs = [e for k in pending for e in runs[k]]
        accepted, hwm, ln, r = _validate(ctx, evs, "%s-%d" % (label, guard), cfg)
        if accepted:
            ctx.cov["traces_validated_against_impl"] += len(pending)
            ctx.cov["states"] += r.distinct
            ctx.cov["transitions"] += r.generated
            for k in pending[:1]:
                hdr = runs[k][0]
                ctx.sample({"mode": hdr.get("mode"), "cfg": hdr.get("cfgname"),
                            "first_events": [describe(e)[:300] for e in runs[k][1:6]]}, limit=6)
            return
        if hwm < 0:
            # an invariant of the design failed on the spec state reached by the observed execution
            hwm = max(0, ln - 1)
        pos, bad, off = 0, None, 0
        for k in pending:
            n = len(runs[k])
            if hwm < pos + n:
                bad, off = k, hwm - pos
                break
            pos += n
        if bad is None:
            raise Infra("trace rejected but offending run not found (hwm=%d len=%d)\n%s" % (hwm, ln, r.out[-2000:]))
        hdr = runs[bad][0]
        # 1. the run alone, one read per event, observables only
        single = expand_obs(runs[bad])
        ocfg = CFG_OBS if cfg == CFG_PROJ else cfg
        acc2, hwm2, ln2, r2 = _validate(ctx, single, "%s-single-%d" % (label, guard), ocfg)
        if acc2:
            if cfg == CFG_PROJ:
                accp, hwmp, lnp, rp_ = _validate(ctx, single, "%s-singlep-%d" % (label, guard), CFG_PROJ)
                where = describe(single[hwmp]) if 0 <= hwmp < len(single) else "?"
                rp = ctx.save_replay("drift-%s-run%d.json" % (label, bad), {"how": how, "run_header": hdr, "trace": single,
                                                                          "first_projection_mismatch": hwmp})
                # not a violation (DESIGN 2 "observables decide, projections bind"); remembered, reported as exit 2 at the
                # end of the check unless a violation is found elsewhere. The run's observables are all fine: drop it.
                DRIFT.append("spec drift: run %s/%s (%s) agrees with NodeStore.tla on every observable but not on a "
                             "projection (key spaces / exact failing reads) at event #%d %s; artefact %s"
                             % (label, bad, hdr.get("cfgname"), hwmp, where, rp))
                ctx.cov.setdefault("projection_mismatches", 0)
                ctx.cov["projection_mismatches"] += 1
                idx = pending.index(bad)
                ctx.cov["traces_validated_against_impl"] += idx
                pending = pending[idx + 1:]
                continue
            raise Infra("run rejected in a batch but accepted alone: %s run %d" % (label, bad))
        off2 = hwm2 if 0 <= hwm2 < len(single) else len(single) - 1
        ev = single[off2]
        what = ("invariant %s of NodeStore.tla fails on the observed execution" % r2.invariant) if r2.invariant \
            else "the implementation's answer is not allowed by NodeStore.tla"
        sig = classify(ev, r2.invariant)
        if inflight_sig and sig == "read-differs" and in_flight_read(single, off2):
            sig = INFLIGHT_SIG
        rp = ctx.save_replay("%s-run%d-seed%s.json" % (label, bad, hdr.get("seed")),
                             {"how": how, "run_header": hdr, "offending_index": off2, "offending_event": ev,
                              "tlc_verdict": what, "cfg": ocfg, "stats": stats[bad] if bad < len(stats) else None,
                              "trace": single})
        ctx.report(sig, "%s: mode=%s cfg=%s seed=%s event #%d %s -> %s" %
                   (label, hdr.get("mode"), hdr.get("cfgname"), hdr.get("seed"), off2, describe(ev), what), rp)
        ctx.cov.setdefault("rejected_runs", 0)
        ctx.cov["rejected_runs"] += 1
        idx = pending.index(bad)
        ctx.cov["traces_validated_against_impl"] += idx
        pending = pending[idx + 1:]


def binding_demo(ctx):
    """A recorded trace with one read corrupted and one with a commit deleted must be rejected (DESIGN 3.2)."""
    events, stats = record(ctx, "seeded", ["-runs", 1, "-seed", ctx.seed + 17, "-nib", 2, "-keylen", 2, "-steps", 6], "demo")
    if not events:
        raise Infra("binding demo: no trace recorded")
    accepted, hwm, ln, r = _validate(ctx, events, "demo-ok", CFG_PROJ)
    if not accepted:
        return False          # the unmodified trace is itself rejected: let the regular validation report it
    obs = [i for i, e in enumerate(events) if e["e"] == "Obs"]
    commits = [i for i, e in enumerate(events) if e["e"] == "Commit"]
    # (a) corrupt: the last observation reports, for the newest block, one key with another value
    bad = json.loads(json.dumps(events))
    done = False
    for rd in reversed(bad[obs[-1]]["reads"]):
        for n in sorted(rd["kv"]):
            if rd["kv"][n]:
                rd["kv"][n][0][1] += 1
                done = True
                break
        if done:
            break
    if not done:
        raise Infra("binding demo: nothing to corrupt")
    # (b) delete the first commit
    dele = events[:commits[0]] + events[commits[0] + 1:]
    # (c) projection: drop one key from the hist key set of the last observation
    proj = json.loads(json.dumps(events))
    if proj[obs[-1]]["hist"]:
        proj[obs[-1]]["hist"] = proj[obs[-1]]["hist"][1:]
    for name, evs, cfg in (("corrupted-read", bad, CFG_OBS), ("deleted-commit", dele, CFG_OBS), ("hist-key-removed", proj, CFG_PROJ)):
        acc, _, _, _ = _validate(ctx, evs, "demo-" + name, cfg)
        if acc:
            raise Infra("binding demonstration failed: %s trace was accepted by Trace_NodeStore" % name)
    ctx.cov["binding_demo"] = ("corrupted-read and deleted-commit variants of a recorded trace were rejected on observables; "
                               "a removed hist key was rejected by the projection check")
    return True


def inflight_probe(ctx):
    """Reads of blocks inside [base, target) between Checkpoint and DeleteHist (see NodeStore.tla InFlightReads)."""
    events, stats = record(ctx, "inflight", ["-nib", 2, "-keylen", 2], "inflight")
    if not events:
        return
    before = len(ctx.violations) + len(ctx.known_hit)
    validate(ctx, events, stats, "inflight", {"mode": "inflight"}, cfg=CFG_INFLIGHT, inflight_sig=True)
    ctx.cov["inflight_probe"] = "differs" if len(ctx.violations) + len(ctx.known_hit) > before else "conforms"


def teeth(ctx, names):
    """Deliberately broken variants of the design (MC_NodeStore_teeth_*.cfg) must each violate an invariant: the
    invariants constrain, and the assumptions written into CanPrune / the layout / the delete limit are necessary.
    Run in parallel (small configurations, 2 workers each)."""
    import threading
    res = {}

    def one(n):
        res[n] = ctx.tlc(SUB, "MC_NodeStore", cfg="MC_NodeStore_teeth_%s.cfg" % n, workers=2, timeout=1500, heap="3g",
                         count=False, label="must-be-violated:" + n)
    ths = [threading.Thread(target=one, args=(n,)) for n in names]
    for t in ths:
        t.start()
    for t in ths:
        t.join()
    caught = {}
    for n in names:
        r = res.get(n)
        if r is None or r.timeout:
            raise Infra("teeth config %s did not finish" % n)
        if not r.invariant:
            raise Infra("teeth config %s: the broken variant is NOT caught by any invariant (%s)\n%s"
                        % (n, r.error or "no error found", r.out[-1500:]))
        caught[n] = "%s after %d states" % (r.invariant, r.generated)
    ctx.cov.setdefault("must_be_violated", {}).update(caught)
    ctx.log("teeth: " + ", ".join("%s->%s" % (n, caught[n].split()[0]) for n in names))


def live_hook_present(ctx):
    p = os.path.join(ctx.repo, "cmd/thor/pruner/verif_hooks.go")
    return os.path.exists(p) and "VerifSetLoopScale" in open(p).read()


def e2e(ctx, seed, blocks, runs, label, inflight=False, crash=False, live=False):
    args = ["-seed", seed, "-blocks", blocks, "-runs", runs] + (["-inflight"] if inflight else []) \
        + (["-crash"] if crash else []) + (["-live"] if live else [])
    out = run_driver(ctx, "prunee2e", args, label, tags="verif,veriflive" if live else "verif")
    if out is None:
        return []
    reps = json.load(open(os.path.join(out, "report.json")))
    for rep in reps:
        for pe in rep["pruneErrors"]:
            rp = ctx.save_replay("e2e-%s-%s.json" % (label, rep["cfg"]), rep)
            ctx.report("e2e-prune-error", "real pruner failed (%s seed %s): %s" % (rep["cfg"], seed, pe), rp)
        seen = set()
        for m in rep["mismatches"]:
            if m["class"] == "inflight" and m["phase"] in ("in-flight", "after-crash", "after-failed-resume", "live", "live-tail") \
                    and m["got"] != "ERR" and m["key"] != "PANIC":
                sig = INFLIGHT_SIG
            elif m["key"] == "PANIC":
                sig = "e2e-panic"
            else:
                sig = "e2e-%s-%s" % (m["class"], "read-error" if m["got"] == "ERR" else "read-differs")
            if sig in seen:
                continue
            seen.add(sig)
            rp = ctx.save_replay("e2e-%s-%s-%s.json" % (label, rep["cfg"], sig), {"args": args, "report": rep})
            ctx.report(sig, "e2e %s seed %s round %s %s: block %d (%s%s) %s expected %s got %s" %
                       (rep["cfg"], seed, m["round"], m["phase"], m["block"], m["class"], ", side block" if m["side"] else "",
                        m["key"], m["expected"], m["got"]), rp)
        if rep.get("resumeErrors"):
            # not a read deviation: see NodeStore!Resumable / MC_NodeStore_teeth_resume.cfg
            ctx.cov.setdefault("crash_resume_errors", 0)
            ctx.cov["crash_resume_errors"] += len(rep["resumeErrors"])
            ctx.cov["crash_resume_example"] = rep["resumeErrors"][0][:300]
    return reps
