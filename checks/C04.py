"""C04 - same blocks => same best and finality; late descendants import; incremental tally = definitional tally."""
import bftcommon


def run(ctx):
    q = ctx.quick
    ctx.tlc_must_hold("bft", "MCBFT", cfg="MCBFT_quick.cfg", timeout=1800, heap="8g", label="OrderIndependence in the design model (3 blocks, 1 Byzantine, 1 restart)")
    if not q:
        ctx.tlc_must_hold("bft", "MCBFT", cfg="MCBFT_thorough.cfg", timeout=7200, heap="12g", workers=16,
                          label="OrderIndependence in the design model (4 blocks, 2 Byzantine)")
    bftcommon.binding_demo(ctx)
    stats = []
    stats += bftcommon.record_and_validate(ctx, "permute,latesibling,async-restart,posweights,posforks,transition,stalepack,shortbest", 32 if q else 640, 36, "c04-orders")
    stats += bftcommon.record_and_validate(ctx, "permute", 4 if q else 100, 90, "c04-long", seed_offset=5)
    # the start-up migration pass (bft.Engine.Resync): same blocks => same qualities and finality after it, at every cut
    bftcommon.resync_step(ctx, 8 if q else 40, 14 if q else 150, thorough=not q)
    fin, fork, both = bftcommon.nontrivial(stats)
    ctx.cov["evaluations"] = len(stats)
    ctx.cov["distinct_nontrivial"] = both
    ctx.cov["runs_reaching_finality"] = fin
    ctx.cov["runs_with_fork_depth_ge_2"] = fork
    ctx.cov["restarts"] = sum(s["restarts"] for s in stats)
    ctx.cov["events"] = sum(s["events"] for s in stats)
    ctx.cov["rule"] = ("one evaluation = one seeded block tree delivered to every node in a different parent-before-child "
                       "order (duplicates, restarts); non-trivial = finality reached or a side branch of >= 2 blocks")
    ctx.cov["exhaustive"] = False
    ctx.assumptions += [
        "block ids, total scores and the byte order of ids are logged facts; everything else is recomputed by the spec",
        "GALACTICA active from genesis so that the COM bit is covered by the block id",
    ]
