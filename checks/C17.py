"""C17 - the validator set evolves only at epoch boundaries and stays well-formed.  DESIGN section 5 (C16/C17).

Known deviation F4 (DESIGN section 6): nothing prevents the only active validator from exiting; the targeted history
(stakersim -mode f4) is part of every tier and is reported with the signature stakercommon.F4_SIGNATURE."""
import stakercommon as sc


def run(ctx):
    if ctx.replay:
        return sc.replay(ctx, "C17")
    q = ctx.quick
    # 1. design level: Staker.tla explored exhaustively inside small bounds, C17 invariants and action properties
    sc.model_check(ctx, "C17")
    # 2. implementation -> model: seeded histories of the real staker code validated by Trace_Staker.tla (C17 getters)
    sc.binding_demo(ctx, "C17")
    plan = [("e2", "f4,edges,random", 22 if q else 240, 60, 0),
            ("e3", "edges,random", 8 if q else 120, 72, 1),
            ("fine", "edges,random", 6 if q else 80, 50, 2),
            ("e4", "edges,random", 6 if q else 80, 96, 3),
            # eviction checks at heights below the eviction threshold, validators offline for a block or two
            ("ev", "edges,random", 6 if q else 80, 60, 5),
            ("ev3", "edges,random", 4 if q else 40, 75, 6),
            # real transactions to the Staker contract on a real chain (EVM + staker.sol + packer, genesis stakers)
            ("e2", "chain", 3 if q else 40, 80, 4)]
    sc.histories(ctx, "C17", plan)
    ctx.assumptions += sc.ASSUMPTIONS
