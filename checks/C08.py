"""C08 - VET is conserved and VTHO changes only by fees burned and rewards issued.  DESIGN section 5 (C08).

1. design level: Ledger.tla over BigNat (transfers, staking moves, gas purchase / return / reward, block reward, base-fee
   recurrence) explored exhaustively inside small bounds; the base-fee recurrence is additionally evaluated over a grid
   of parent headers; with the self-destruct-to-self action enabled TLC refutes conservation (finding F3 in the model).
2. implementation -> model: real chains built by the real packer and imported by a real node across five fork profiles
   (pre-GALACTICA, GALACTICA boundary, post-GALACTICA, PoS from genesis, PoA -> HAYABUSA -> PoS transition); after every
   block every account-trie leaf is summed before and after; Trace_Ledger.tla recomputes all equations.
Known deviation F3 (SELFDESTRUCT naming the executing contract as beneficiary burns its VET and VTHO) is part of the
deterministic mix, measured from the receipts and reported under its own narrow signatures.
"""
import json
import os

import execcommon as ec
from verifkit import Infra, read_ndjson, write_ndjson

SIG_F3_VET = "vet-not-conserved:selfdestruct-beneficiary-is-self"
SIG_F3_VTHO = "vtho-not-conserved:selfdestruct-beneficiary-is-self"


def run(ctx):
    q = ctx.quick
    ec.bignat_selftest(ctx)
    ctx.tlc_must_hold("exec", "MC_Ledger", cfg="MC_Ledger.cfg" if q else "MC_Ledger_thorough.cfg", workers=4,
                      timeout=600 if q else 2400, label="ledger design model (exhaustive, BigNat)")
    ec.must_be_refuted(ctx, "MC_Ledger", "MC_Ledger_f3.cfg", "VETConserved", "F3 in the model: self-destruct-to-self breaks conservation")

    # growth (DESIGN section 8): energy generation and the energy contract's own totals, Energy.tla
    ctx.tlc_must_hold("exec", "MC_Energy", cfg="MC_Energy.cfg" if q else "MC_Energy_thorough.cfg", workers=4, timeout=1500,
                      label="energy growth / settle-then-modify / supply law (exhaustive)")
    ec.must_be_refuted(ctx, "MC_Energy", "MC_Energy_broken.cfg", "SupplyLaw", "energy: an unsettled VET transfer breaks the supply law")

    binp = ctx.build("ledger")
    out = ctx.tmp("ledger")
    if ctx.replay:
        how = json.load(open(ctx.replay))["how"]
        argv = ["-out", out] + how["argv"]
    else:
        if q:
            plan = [("pre,boundary,post", 30), ("pos", 36), ("hayabusa", 45), ("evict", 32)]
        else:
            plan = [("pre,boundary,post,pos,hayabusa,evict", 350)]
        argv = None
    events, stats = [], []
    runs = plan if not ctx.replay else [None]
    for k, item in enumerate(runs):
        o = ctx.tmp("ledger-%d" % k)
        a = argv if ctx.replay else ["-out", o, "-seed", str(ctx.seed), "-profiles", item[0], "-blocks", str(item[1])]
        if ctx.replay:
            o = out
        if ec.run_driver(ctx, binp, a, "ledger", timeout=3000) is None:
            return
        evs = read_ndjson(os.path.join(o, "trace.ndjson"))
        events += [e for e in evs if e["e"] != "End"]
        stats += json.load(open(os.path.join(o, "runs.json")))
    events.append({"e": "End"})
    blocks = [e for e in events if e["e"] == "Block"]
    ctx.log("ledger: %d blocks in %d profile runs, %d receipts" % (len(blocks), len(stats), sum(len(b["rcpts"]) for b in blocks)))

    # ---- known deviation F3: measured from the receipts (Transfer with sender = recipient = a destructed account)
    f3v = [b for b in blocks if ec.val(b["burnVET"]) > 0]
    f3t = [b for b in blocks if ec.val(b["burnVTHO"]) > 0]
    if f3v:
        b = f3v[0]
        lost = ec.val(b["preVET"]) - ec.val(b["postVET"])
        rp = ctx.save_replay("f3-vet-seed%d.json" % ctx.seed, {"how": {"argv": ["-seed", str(ctx.seed), "-profiles", b["prof"], "-blocks", str(b["num"])]},
                                                              "block": b, "vet_lost_wei": str(lost)})
        ctx.report(SIG_F3_VET, "total VET decreased by %d wei in block %d of profile %s: a contract executed SELFDESTRUCT naming itself as "
                   "beneficiary while holding that balance (receipt shows Transfer sender = recipient = destructed account); %d such blocks"
                   % (lost, b["num"], b["prof"], len(f3v)), rp)
    if f3t:
        b = f3t[0]
        rp = ctx.save_replay("f3-vtho-seed%d.json" % ctx.seed, {"how": {"argv": ["-seed", str(ctx.seed), "-profiles", b["prof"], "-blocks", str(b["num"])]},
                                                               "block": b, "vtho_lost_wei": str(ec.val(b["burnVTHO"]))})
        ctx.report(SIG_F3_VTHO, "total VTHO dropped by %d wei beyond fees in block %d of profile %s: energy of a contract that self-destructed "
                   "naming itself as beneficiary vanished; %d such blocks" % (ec.val(b["burnVTHO"]), b["num"], b["prof"], len(f3t)), rp)
    ctx.cov["f3_blocks_observed"] = len(f3v)

    # ---- every block against the specification
    gal = {}
    for e in events:
        if e["e"] == "Reset":
            cur = e["galactica"]
        gal[id(e)] = cur if e["e"] != "End" else None

    # Python mirror of the supply law, used only to NAME a rejection (energy:supply-law); the verdict is TLC's
    energy_bad, law = set(), {}
    max_slack = 0
    for e in events:
        if e["e"] == "Reset":
            law = {e["gen"]["id"]: (0, 0)}
        elif e["e"] == "Block" and e["parent"] in law:
            pslack, pburnt = law[e["parent"]]
            burnt = pburnt + ec.val(e["burnVTHO"])
            net = ec.val(e["supply"]) - ec.val(e["burned"]) * (-1 if e["burnedNeg"] else 1)
            slack = net - ec.val(e["postVTHO"]) - burnt
            if slack < 0 or slack > pslack + e["leaves"]:
                energy_bad.add(id(e))
            max_slack = max(max_slack, slack)
            law[e["id"]] = (max(slack, 0), burnt)

    def classify(ev):
        sig = ec.classify_block(ev, gal.get(id(ev), -1))
        if sig == "block-rejected" and id(ev) in energy_bad:
            return "energy:supply-law"
        return sig

    def drop_run(evs, i):
        # remove the whole profile run containing event i (children of a dropped block would lose their parent)
        start = max(k for k in range(i + 1) if evs[k]["e"] == "Reset")
        end = next((k for k in range(i + 1, len(evs)) if evs[k]["e"] in ("Reset", "End")), len(evs))
        rest = evs[:start] + evs[end:]
        return rest if any(e["e"] == "Reset" for e in rest) else [{"e": "Reset", "galactica": -1, "gen": {"id": "none", "gasLimit": 0, "gasUsed": 0, "hasBase": False, "baseFee": []}}, {"e": "End"}]

    how = {"argv": ["-seed", str(ctx.seed), "-profiles", "pre,boundary,post,pos,hayabusa,evict", "-blocks", "45" if q else "350"]}
    rejects, rest = ec.validate(ctx, "Trace_Ledger", events, "c08", how, classify, drop_run, max_rejects=5)
    ok_blocks = sum(1 for e in rest if e["e"] == "Block") if rejects else len(blocks)
    ctx.cov["traces_validated_against_impl"] = ok_blocks
    if not ctx.replay:
        binding_demo(ctx, events)

    # ---- evidence
    def phase(b):
        g = gal[id(b)]
        return "pre" if g < 0 or b["num"] < g else ("first" if b["num"] == g else "post")

    def fee_dir(b):
        if not (b["hdr"]["hasBase"] and b["par"]["hasBase"]):
            return "none"
        d = ec.val(b["hdr"]["baseFee"]) - ec.val(b["par"]["baseFee"])
        return "up" if d > 0 else ("down" if d < 0 else "same")
    nontriv = {(b["prof"], phase(b), b["pos"], len(b["rcpts"]), b["nrev"], fee_dir(b), b["split"], b["stopped"], b["sibling"])
               for b in blocks if b["rcpts"] or ec.val(b["issued"]) > 0}
    ctx.cov["evaluations"] = len(blocks)
    ctx.cov["distinct_nontrivial"] = len(nontriv)
    ctx.cov["rule"] = ("one evaluation = one real block (built by the real packer, imported by a real node) whose pre- and post-state were "
                       "summed over every account-trie leaf; non-trivial = it has receipts or a staking issue; distinct by (profile, fork phase, "
                       "PoS active, #receipts, #reverted, base-fee direction, delegator split, growth stopped, sibling)")
    ctx.cov["receipts"] = sum(len(b["rcpts"]) for b in blocks)
    ctx.cov["reverted_txs"] = sum(b["nrev"] for b in blocks)
    ctx.cov["blocks_base_fee_up"] = sum(1 for b in blocks if fee_dir(b) == "up")
    ctx.cov["blocks_base_fee_down"] = sum(1 for b in blocks if fee_dir(b) == "down")
    ctx.cov["blocks_pos_issuance"] = sum(1 for b in blocks if ec.val(b["issued"]) > 0)
    ctx.cov["blocks_delegator_split"] = sum(1 for b in blocks if b["split"])
    ctx.cov["blocks_after_growth_stop"] = sum(1 for b in blocks if b["stopped"])
    ctx.cov["sibling_blocks"] = sum(1 for b in blocks if b["sibling"])
    ctx.cov["account_flow_equations"] = sum(len(b["flows"]) for b in blocks)
    ctx.cov["flow_equations_payer_only"] = sum(1 for b in blocks for f in b["flows"] if f["payer"] and not f["benef"] and not f["deleg"])
    ctx.cov["flow_equations_delegator_share"] = sum(1 for b in blocks for f in b["flows"] if f["deleg"] and b["split"] and b["pos"])
    ctx.cov["txs_with_proved_work"] = sum(b["mined"] for b in blocks)
    ctx.cov["distinct_gas_limits"] = len({b["hdr"]["gasLimit"] for b in blocks})
    ctx.cov["blocks_used_equals_target"] = sum(1 for b in blocks if b["hdr"]["gasUsed"] == b["hdr"]["gasLimit"] * 75 // 100 and b["hdr"]["gasUsed"] > 0)
    ctx.cov["locked_stake_values"] = sorted({b["staked"] for b in blocks})
    ctx.cov["energy_supply_law_blocks"] = len(blocks)
    ctx.cov["energy_supply_law_max_rounding_wei"] = max_slack
    ctx.cov["energy_blocks_growing"] = sum(1 for b in blocks if not b["stopped"])
    ctx.cov["energy_runs_crossing_growth_stop"] = len({b["prof"] for b in blocks if b["stopped"]} & {b["prof"] for b in blocks if not b["stopped"]})
    ctx.cov["max_leaves_summed"] = max(b["leaves"] for b in blocks)
    kinds = {}
    for s in stats:
        for k, v in s["kinds"].items():
            kinds[k] = kinds.get(k, 0) + v
    ctx.cov["tx_kinds"] = kinds
    ctx.cov["exhaustive"] = False
    for b in [x for x in blocks if x["rcpts"]][:2] + f3v[:1]:
        ctx.sample({k: b[k] for k in ("prof", "num", "preVET", "postVET", "preVTHO", "postVTHO", "burnVET", "burnVTHO", "issued", "hdr", "par")}
                   | {"receipts": [{k: r[k] for k in ("gasUsed", "paid", "reward")} for r in b["rcpts"][:3]]})
    ctx.assumptions += [
        "energy supply law: rounding of at most one wei per account per block is allowed between the energy contract's TotalSupply - TotalBurned "
        "and the per-leaf sum; the 1e6 wei VET destroyed by the deterministic F3 call makes TotalSupply over-estimate growth by 0.005 wei/s, inside that bound",
        "energy of an account at a block time is computed by a reference implementation of the documented growth formula in the driver "
        "(5e9 wei per VET per second, stops at the recorded growth-stop time), not by state.Account.CalcEnergy",
        "proved work: three mined legacy txs per profile; 1000 work units per gas, the monthly decay of the conversion is 1 at these heights and not modelled",
        "the locked stake and PoS-active flag are read from the post-state through the staker's own getters; the issuance formula itself is the specification's",
        "the design-level model is exhaustive only inside MC_Ledger*.cfg; the Apalache inductive proof mentioned in DESIGN was not attempted",
    ]


def binding_demo(ctx, events):
    blocks = [i for i, e in enumerate(events) if e["e"] == "Block" and e["rcpts"]]
    if len(blocks) < 6:
        raise Infra("binding demo: too few blocks with receipts")
    variants = {}
    i = blocks[len(blocks) // 2]
    bad = [json.loads(json.dumps(e)) for e in events]
    lim = bad[i]["postVTHO"]
    lim[0] = (lim[0] + 1) % 32768                       # one wei (mod limb) of drift in the total
    variants["corrupted-total"] = bad
    bad2 = [json.loads(json.dumps(e)) for e in events]
    j = blocks[len(blocks) // 3]
    bad2[j]["rcpts"][0]["reward"] = ec.limbs(ec.val(bad2[j]["rcpts"][0]["reward"]) + 1)
    variants["corrupted-reward"] = bad2
    bad3 = [json.loads(json.dumps(e)) for e in events]
    m = blocks[len(blocks) // 5]
    bad3[m]["supply"] = ec.limbs(ec.val(bad3[m]["supply"]) + 10 ** 6)     # the energy contract's total supply off by 1e6 wei
    variants["corrupted-supply"] = bad3
    k = blocks[len(blocks) // 4]
    variants["deleted-event"] = events[:k] + events[k + 1:]
    for name, evs in variants.items():
        path = os.path.join(ctx.tmp("demo"), name + ".ndjson")
        out = ec.renumber(evs) if name != "deleted-event" else renumber_keep_gap(evs, k)
        write_ndjson(path, out)
        accepted, hwm, ln, r = ctx.validate_trace("exec", "Trace_Ledger", path, timeout=1500)
        if accepted:
            raise Infra("binding demonstration failed: %s trace was accepted by Trace_Ledger" % name)
    ctx.cov["binding_demo"] = "corrupted-total, corrupted-reward, corrupted-supply (energy law) and deleted-event variants of the recorded trace were rejected"


def renumber_keep_gap(evs, k):
    """Number the events as the driver did BEFORE the deletion, so that the gap shows."""
    out = []
    for i, e in enumerate(evs):
        e = dict(e)
        e["seq"] = i if i < k else i + 1
        if e["e"] == "End":
            e["count"] = e["seq"]
        out.append(e)
    return out
