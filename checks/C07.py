"""C07 - transactions are atomic and gas accounting stays within its bounds.  DESIGN section 5 (C07).

1. design level: TxExec.tla explored exhaustively (clause-class sequences x payer facts x start conditions x gas and raw
   outcome choices; three txs per block for the block-level bound; all 256 payer-fact combinations); a deliberately
   wrong claim must be refuted (non-vacuity).
2. model -> implementation: MC_TxExec_export enumerates concrete scenarios with the design model's verdict; cmd/txexec
   compiles each to real contracts + a real signed tx, runs runtime.ExecuteTransaction on a real state, dumps the full
   state before/after; the verdict (started, payer, reverted, #outputs, all/none of the clause effects) must match.
3. implementation -> model: every executed tx (scenarios + a gas sweep from the intrinsic gas upward + packer-level runs)
   is one event of Trace_TxExec.tla, which recomputes the clause loop from the raw EVM outcomes, the fee/reward/
   bookkeeping numbers (BigNat) and evaluates GasBounds.
"""
import json
import os
import random

import execcommon as ec
from verifkit import Infra, read_ndjson


def drop_event(events, i):
    return events[:i] + events[i + 1:]


def export_scenarios(ctx):
    cfg = "MC_TxExec_export.cfg" if ctx.quick else "MC_TxExec_exportfull.cfg"
    r = ctx.tlc_must_hold("exec", "MC_TxExec", cfg=cfg, workers=1, timeout=1500, label="scenario export (model -> impl)")
    scns = ec.parse_scn(r.out)
    if len(scns) < 1000:
        raise Infra("scenario export produced only %d scenarios\n%s" % (len(scns), r.out[-1500:]))
    scns.sort(key=lambda s: json.dumps(s, sort_keys=True))
    for i, s in enumerate(scns):
        s["id"] = i + 1
        s["fam"] = "scn"
    return scns


def sample(ctx, scns):
    if not ctx.quick:
        return scns
    rng = random.Random(ctx.seed)
    keep, rest = [], []
    for s in scns:
        special = len(s["kinds"]) <= 2 and any(k in ("sdben", "nest3sd", "diesd", "nestcreate", "nestcreate2") for k in s["kinds"])
        (keep if (s["start"] != "ok" or s["setup"] == "matrix" or len(s["kinds"]) == 1 or special) else rest).append(s)
    rng.shuffle(rest)
    return sorted(keep + rest[:2200], key=lambda s: s["id"])


STATE_FACTS = ("delegFunds", "creditGE", "sponsorSel", "sponsorFunds", "contractFunds", "originFunds")


def make_blocks(ctx, scns):
    """Group scenarios into blocks of 3-5 txs that run on ONE runtime / ONE state: successful txs first, then a tx whose
    LATER clause fails after its earlier clauses overwrote the slots the previous txs wrote, then another successful one.
    Only scenarios needing the same pre-state (payer facts) share a block."""
    rng = random.Random(ctx.seed * 7 + 1)
    groups = {}
    for s in scns:
        if s["setup"] == "matrix" or s["fam"] != "scn":
            continue
        key = tuple(s["facts"][k] for k in STATE_FACTS)
        groups.setdefault(key, []).append(s)
    blocks = []
    want = 140 if ctx.quick else 1500
    for key in sorted(groups):
        g = groups[key]
        ok = [s for s in g if s["start"] == "ok" and not s["exp"]["reverted"] and s["exp"]["started"]]
        bad = [s for s in g if s["start"] == "ok" and s["exp"]["reverted"] and len(s["kinds"]) >= 2]
        rej = [s for s in g if not s["exp"]["started"]]
        rng.shuffle(ok)
        rng.shuffle(bad)
        rng.shuffle(rej)
        share = max(4, want * len(g) // max(1, len(scns)))
        while len(ok) >= 3 and bad and share > 0:
            share -= 1
            members = [ok.pop(), ok.pop(), bad.pop()]
            if rej and rng.random() < 0.3:
                members.insert(2, rej.pop())
            members.append(ok.pop())
            if bad and rng.random() < 0.4:
                members.append(bad.pop())
            ids = [m["id"] for m in members]
            dyn = any(m["txtype"] == "dyn" for m in members)
            world = rng.choice(["post", "hay", "fork"] if dyn else ["pre", "post", "hay", "fork", "pre"])
            blocks.append({"ids": ids, "world": world, "role": rng.choice(["", "", "pb", "sb"])})
    return blocks


def run(ctx):
    q = ctx.quick
    ec.bignat_selftest(ctx)
    # 1. design level
    ctx.tlc_must_hold("exec", "MC_TxExec", cfg="MC_TxExec.cfg", workers=4, timeout=900, label="clause classes x payers x gas (exhaustive)")
    ctx.tlc_must_hold("exec", "MC_TxExec", cfg="MC_TxExec_block.cfg", workers=4, timeout=900, label="three txs per block")
    ctx.tlc_must_hold("exec", "MC_TxExec", cfg="MC_TxExec_facts.cfg", workers=2, timeout=600, label="all payer-fact combinations")
    ec.must_be_refuted(ctx, "MC_TxExec", "MC_TxExec_bogus.cfg", "Bogus", "non-vacuity: a wrong claim is refuted")

    binp = ctx.build("txexec")
    # 2./3. scenarios from the model, executed on the real runtime
    art = json.load(open(ctx.replay)) if ctx.replay else None
    if art and art["how"].get("scenarios"):
        scns = art["how"]["scenarios"]                    # a single scenario whose verdict differed from the model's
        argv_extra = []
    else:
        if art:
            ctx.seed = art["how"].get("seed", ctx.seed)  # a rejected trace event: regenerate the same run

        scns = sample(ctx, export_scenarios(ctx))
        argv_extra = ["-sweep", "192" if q else "1536", "-packer"]
    out = ctx.tmp("txexec")
    scn_path = os.path.join(out, "scenarios.json")
    json.dump(scns, open(scn_path, "w"))
    blk_path = os.path.join(out, "blocks.json")
    blocks = make_blocks(ctx, scns) if len(scns) > 10 else []
    json.dump(blocks, open(blk_path, "w"))
    argv = ["-out", out, "-seed", str(ctx.seed), "-scn", scn_path, "-blk", blk_path] + argv_extra
    o = ec.run_driver(ctx, binp, argv, "txexec", timeout=3000)
    if o is None:
        return
    summary = json.load(open(os.path.join(out, "summary.json")))
    events = read_ndjson(os.path.join(out, "trace.ndjson"))
    ctx.log("txexec: %d txs, %d packer runs, %d distinct classes" % (summary["txs"], summary["packerRuns"], summary["distinct"]))

    # model -> implementation: the design model's verdict per scenario
    by_id = {s["id"]: s for s in scns}
    mismatches = 0
    for ob in json.load(open(os.path.join(out, "observed.json"))):
        s = by_id[ob["id"]]
        exp = s["exp"]
        bad = None
        if bool(ob["started"]) != exp["started"]:
            bad = "started"
        elif exp["started"]:
            for k in ("payer", "reverted", "nout", "applied"):
                if ob[k] != exp[k]:
                    bad = k
                    break
        if bad:
            mismatches += 1
            if mismatches <= 5:
                rp = ctx.save_replay("replay-mismatch-seed%d-scn%d.json" % (ctx.seed, s["id"]),
                                     {"how": {"scenarios": [s], "argv": []}, "observed": ob, "expected": exp, "field": bad})
                ctx.report("replay-mismatch:" + bad, "scenario %s: design model says %s, runtime did %s" % (json.dumps(s["kinds"]), exp, ob), rp)
    ctx.cov["behaviours_replayed"] = len(scns)
    ctx.cov["replay_mismatches"] = mismatches

    # implementation -> model
    how = {"argv": argv_extra, "scenarios": None, "seed": ctx.seed, "note": "re-run bin/check C07 with the same VERIF_SEED"}
    rejects, _ = ec.validate(ctx, "Trace_TxExec", events, "c07", how, ec.classify_tx, drop_event, chunk=12000)
    ntx = sum(1 for e in events if e["e"] == "Tx")
    ctx.cov["traces_validated_against_impl"] = (ntx + summary["packerRuns"] - rejects) + (len(scns) - mismatches)

    if not ctx.replay:
        binding_demo(ctx, events)

    if not ctx.replay:
        ec.gaspayer_step(ctx)

    started = [e for e in events if e["e"] == "Tx" and e.get("started")]
    ctx.cov["evaluations"] = ntx + summary["packerRuns"]
    ctx.cov["distinct_nontrivial"] = summary["distinct"]
    ctx.cov["rule"] = ("one evaluation = one real signed tx executed by runtime.ExecuteTransaction with a full state dump before/after "
                       "(or one packer.Flow run); distinct non-trivial = distinct (fork world, tx type, payer kind, per-clause raw outcome "
                       "class sequence, clause count) among started txs plus distinct rejection reasons")
    ctx.cov["txs_started"] = len(started)
    ctx.cov["txs_reverted"] = sum(1 for e in started if e["reverted"])
    ctx.cov["txs_with_refund_cap_binding"] = sum(1 for e in started if any(r["ctr"] > (r["in"] - r["left"]) // 2 for r in e["raws"]))
    ctx.cov["txs_rejected_at_start"] = ntx - len(started)
    ctx.cov["multi_tx_blocks"] = summary.get("multiTxBlocks", 0)
    ctx.cov["txs_after_an_earlier_tx_in_the_same_state"] = sum(1 for e in events if e["e"] == "Tx" and e.get("pos", 0) > 0)
    ctx.cov["reverted_txs_after_earlier_txs"] = sum(1 for e in started if e.get("pos", 0) > 0 and e["reverted"])
    ctx.cov["txs_by_world"] = {w: sum(1 for e in events if e["e"] == "Tx" and e["world"] == w) for w in ("pre", "post", "fork", "hay")}
    ctx.cov["txs_payer_is_beneficiary"] = sum(1 for e in started if e.get("pb"))
    ctx.cov["f3_pattern_runs"] = summary["f3runs"]
    ctx.cov["f3_note"] = ("SELFDESTRUCT with beneficiary = self (finding F3 of C08) is part of the clause kinds (sdself); "
                          "it does not break atomicity: all-or-none held in every such run")
    ctx.cov["exhaustive"] = False
    for e in started[:3]:
        ctx.sample({k: e[k] for k in ("kinds", "world", "gas", "intr", "payer", "raws", "gasUsed", "reverted", "nout", "applied")})
    ctx.assumptions += [
        "the EVM's raw per-clause outcome (gas left, refund counter, VM error) is an input fact, obtained from Runtime.PrepareClause on a copy of the pre-state; exact gas per opcode is C10's subject",
        "clause effects are compared against a reference written in the driver for 19 clause kinds over 4 generated contracts; the full state is compared leaf by leaf",
        "legacy transactions carry no proved work (the drivers never mine a nonce)",
        "bad chain tag / expiry / dependency are consensus- and packer-admission rules (C09/C02), not covered here",
    ]


def binding_demo(ctx, events):
    """A recorded trace with one field corrupted / one event deleted must be rejected."""
    txs = [i for i, e in enumerate(events) if e["e"] == "Tx" and e.get("started") and e.get("reverted")]
    if not txs:
        raise Infra("binding demo: no reverted tx in the trace")
    variants = {}
    i = txs[len(txs) // 2]
    bad = [dict(e) for e in events]
    bad[i]["nout"] = 1                       # outputs kept on a reverted tx
    variants["corrupted-field"] = bad
    bad2 = [dict(e) for e in events]
    j = txs[len(txs) // 3]
    bad2[j]["gasUsed"] = bad2[j]["gasUsed"] - 1
    variants["corrupted-gas"] = bad2
    variants["deleted-event"] = events[:i] + events[i + 1:]     # not renumbered: the sequence breaks
    for name, evs in variants.items():
        path = os.path.join(ctx.tmp("demo"), name + ".ndjson")
        from verifkit import write_ndjson
        write_ndjson(path, evs)
        accepted, hwm, ln, r = ctx.validate_trace("exec", "Trace_TxExec", path, timeout=1500)
        if accepted:
            raise Infra("binding demonstration failed: %s trace was accepted by Trace_TxExec" % name)
    ctx.cov["binding_demo"] = "corrupted-field, corrupted-gas and deleted-event variants of the recorded trace were rejected"
