"""Shared by C07 (TxExec) and C08 (Ledger): driver invocation, trace validation with isolation of rejected events,
binding demonstrations, and Python mirrors of the spec rules that are used ONLY to name a rejection (the verdict is
always TLC's)."""
import copy
import json
import os
import re

from verifkit import Infra, read_ndjson, write_ndjson

B = 32768


def val(limbs):
    return sum(int(x) << (15 * i) for i, x in enumerate(limbs or []))


def limbs(v):
    out = []
    while v:
        out.append(v % B)
        v //= B
    return out


def bignat_selftest(ctx):
    r = ctx.tlc("lib", "MC_BigNat", cfg="MC_BigNat.cfg", workers=1, timeout=300, label="BigNat self-test", count=False)
    if not r.ok:
        raise Infra("BigNat self-test failed: %s\n%s" % (r.error or r.invariant, r.out[-1500:]))


def must_be_refuted(ctx, module, cfg, invariant, label):
    """A config that encodes a wrong claim: TLC must find the counterexample, otherwise the model is vacuous."""
    r = ctx.tlc("exec", module, cfg=cfg, workers=2, timeout=300, label=label, count=False)
    if r.timeout or r.invariant != invariant:
        raise Infra("%s: expected TLC to refute %s, got %s\n%s" % (cfg, invariant, r.invariant or r.error, r.out[-1500:]))
    return r


def run_driver(ctx, binp, argv, label, timeout=1800):
    """Runs a harness driver; returns its stdout. rc 3 -> Infra; a panic in real code -> reported violation, returns None."""
    rc, o = ctx.run([binp] + argv, timeout=timeout)
    if rc == 0:
        return o
    if rc == 3 or rc is None:
        raise Infra("%s: driver trouble rc=%s: %s" % (label, rc, o[-1500:]))
    if "panic:" in o or "goroutine " in o:
        rp = ctx.save_replay("panic-%s-seed%d.txt" % (label, ctx.seed), o[-20000:])
        first = [x for x in o.splitlines() if x.startswith("panic:")][:1]
        ctx.report("panic:" + label, "real code panicked in %s: %s" % (label, first), rp)
        return None
    raise Infra("%s failed rc=%s: %s" % (label, rc, o[-1500:]))


def renumber(events):
    out = []
    for i, e in enumerate(events):
        e = dict(e)
        e["seq"] = i
        if e.get("e") == "End":
            e["count"] = i
        out.append(e)
    return out


def validate(ctx, module, events, label, how, classify, drop, max_rejects=8, chunk=None):
    """Validate events (Reset ... End). With chunk=N a long single-run trace is cut into pieces of N events, each framed
    by the Reset and an End, one TLC run per piece (bounds the JVM heap). Returns (rejections, surviving events)."""
    body = [e for e in events if e["e"] != "End"]
    if not chunk or len(body) - 1 <= chunk:
        return validate_one(ctx, module, events, label, how, classify, drop, max_rejects)
    head, rest = body[0], body[1:]
    total, kept = 0, [head]
    for k in range(0, len(rest), chunk):
        piece = [head] + rest[k:k + chunk] + [{"e": "End"}]
        r, cur = validate_one(ctx, module, piece, "%s-p%d" % (label, k // chunk), how, classify, drop, max_rejects)
        total += r
        kept += [e for e in cur if e["e"] not in ("Reset", "End")]
        if total >= max_rejects:
            break
    return total, kept + [{"e": "End"}]


def validate_one(ctx, module, events, label, how, classify, drop, max_rejects=8):
    """On rejection: report the offending event (signature from classify(ev)), remove what drop(events, index) says,
    renumber and continue."""
    rejects = 0
    cur = list(events)
    rnd = 0
    while True:
        rnd += 1
        path = os.path.join(ctx.tmp("val-" + label), "trace-%d.ndjson" % rnd)
        write_ndjson(path, renumber(cur))
        accepted, hwm, ln, r = ctx.validate_trace("exec", module, path, timeout=3000)
        ctx.cov["states"] += r.distinct
        ctx.cov["transitions"] += r.generated
        if accepted:
            return rejects, cur
        if hwm >= len(cur):
            raise Infra("%s: trace rejected beyond its end (hwm=%d len=%d)\n%s" % (label, hwm, ln, r.out[-2000:]))
        ev = cur[hwm]
        if ev.get("e") in ("Reset", "End"):
            raise Infra("%s: framing event rejected: %s\n%s" % (label, ev, r.out[-1500:]))
        rejects += 1
        sig = classify(ev)
        rp = ctx.save_replay("%s-seed%d-ev%s%s.json" % (label, ctx.seed, ev.get("prof", ""), ev.get("id", hwm)),
                             {"how": how, "offending_index": hwm, "offending_event": ev, "signature": sig,
                              "tlc": (r.invariant or r.error or "event not allowed by the specification")})
        ctx.report(sig, "%s: event #%d rejected by %s (%s): %s" % (label, hwm, module, sig, json.dumps(ev, sort_keys=True)[:1500]), rp)
        ctx.cov.setdefault("rejected_events", 0)
        ctx.cov["rejected_events"] += 1
        if rejects >= max_rejects:
            ctx.cov["validation_stopped_early"] = "more than %d rejected events in %s" % (max_rejects, label)
            return rejects, cur
        cur = drop(cur, hwm)


# ------------------------------------------------------------------------------------------------ TxExec mirrors

def run_rules(gas, intr, raws):
    left, reverted, refunds, consumed = gas - intr, False, 0, 0
    ins = []
    for r in raws:
        if reverted:
            break
        ins.append(left)
        used = left - r["left"]
        refund = min(used // 2, r["ctr"])
        left = r["left"] + refund
        reverted = r["err"]
        refunds += refund
        consumed += used
    return dict(left=left, reverted=reverted, ins=ins, refunds=refunds, consumed=consumed)


def eff_price(f):
    if f["type"] == "legacy":
        b = val(f["legacyBase"])
        return b + b * f["coef"] // 255
    return min(val(f["maxFee"]), val(f["maxPrio"]) + val(f["baseFee"]))


def overall_price(f):
    if f["type"] != "legacy":
        return val(f["maxFee"])
    p = eff_price(f)
    w = val(f.get("work", []))
    if w:
        p += min(w // 1000, f["gas"]) * val(f["legacyBase"]) // f["gas"]
    return p


def reward_of(f, gas_used):
    o = overall_price(f)
    if f["gal"]:
        tip = o if f["type"] == "legacy" else val(f["maxPrio"])
        return min(o - val(f["baseFee"]), tip) * gas_used
    return o * gas_used * val(f["ratio"]) // 10 ** 18


def payer_of(f):
    if f["delegated"]:
        return "delegator" if f["delegFunds"] else "none"
    if f["commonTo"] and f["creditGE"] and f["sponsorSel"] and f["sponsorFunds"]:
        return "sponsor"
    if f["commonTo"] and f["creditGE"] and f["contractFunds"]:
        return "contract"
    return "origin" if f["originFunds"] else "none"


def can_start(ev):
    f = ev["fee"]
    price_ok = (not f["gal"]) or eff_price(f) >= val(f["baseFee"])
    return ev["sigok"] and ev["intr"] <= ev["gas"] <= ev["limit"] and price_ok and payer_of(ev["facts"]) != "none"


def classify_tx(ev):
    e = ev.get("e")
    if e == "Adopt":
        return "packer:cannot-start-tx-changed-flow" if not (ev["sameState"] and ev["sameReceipts"]) else "packer:bad-tx-adopted"
    if e == "Block":
        if ev["gasUsed"] != sum(ev["rcpts"]) or ev["gasUsed"] > ev["limit"]:
            return "block-gas-used"
        return "block-admission"
    if e != "Tx":
        return "rejected:" + str(e)
    if ev.get("panic"):
        return "panic:ExecuteTransaction"
    if not ev["started"]:
        return "cannot-start-changed-state" if ev.get("unchanged") is False else "start-verdict"
    if "raws" not in ev or not can_start(ev):
        return "start-verdict"
    if ev["payer"] != payer_of(ev["facts"]):
        return "payer-choice"
    if not ev.get("rawok", True):
        return "raw-run:" + str(ev.get("rawerr", "")).split(":")[0]
    if not ev.get("classok", True):
        return "clause-class"
    fin = run_rules(ev["gas"], ev["intr"], ev["raws"])
    want = "none" if fin["reverted"] else "all"
    if ev["applied"] != want:
        return "atomicity:state-is-%s-expected-%s" % (ev["applied"], want)
    if ev["reverted"] != fin["reverted"]:
        return "reverted-flag"
    if ev["nout"] != (0 if fin["reverted"] else ev["n"]):
        return "outputs-not-cleared" if fin["reverted"] else "outputs-missing"
    if ev["gasUsed"] != ev["gas"] - fin["left"]:
        return "gas-used"
    if [r["in"] for r in ev["raws"]] != fin["ins"]:
        return "clause-gas"
    if ev.get("outs") is not None and ev["outs"] != [r["left"] + min((r["in"] - r["left"]) // 2, r["ctr"]) for r in ev["raws"]]:
        return "clause-refund"
    if not (ev["intr"] <= ev["gasUsed"] <= ev["gas"]):
        return "gas-bounds"
    if not ev["outsok"]:
        return "outputs-content"
    f = ev["fee"]
    price = eff_price(f)
    paid = price * ev["gasUsed"]
    if val(ev["paid"]) != paid or val(ev["price"]) != price:
        return "paid"
    if val(ev["reward"]) != reward_of(f, ev["gasUsed"]):
        return "reward"
    if ev.get("pb"):
        if ev["debitNeg"] or val(ev["debit"]) != paid - val(ev["reward"]):
            return "payer-debit"
    else:
        if ev["debitNeg"] or val(ev["debit"]) != paid:
            return "payer-debit"
        if ev["creditNeg"] or val(ev["credit"]) != val(ev["reward"]):
            return "beneficiary-credit"
    if val(ev["subd"]) + price * (ev["gas"] - ev["gasUsed"]) + val(ev["reward"]) != val(ev["addd"]) + price * ev["gas"]:
        return "energy-totals"
    if val(ev["used1"]) - val(ev["used0"]) != (paid if ev["payer"] in ("sponsor", "contract") else 0):
        return "user-credit"
    return "tx-rejected"


# ------------------------------------------------------------------------------------------------ Ledger mirrors

def gas_target(limit):
    return limit * 75 // 100


def next_base_fee(p):
    t = gas_target(p["gasLimit"])
    b = val(p["baseFee"])
    u = p["gasUsed"]
    if u == t:
        return b
    if u > t:
        return b + max(1, b * (u - t) // t // 8)
    return max(10 ** 13, b - b * (t - u) // t // 8)


def isqrt(n):
    import math
    return math.isqrt(n)


def classify_block(ev, galactica):
    if ev.get("e") != "Block":
        return "rejected:" + str(ev.get("e"))
    rs = ev["rcpts"]
    if val(ev["postVET"]) + val(ev["burnVET"]) != val(ev["preVET"]):
        return "vet-not-conserved"
    curve = val(ev["curve"]) or 76800
    issue = curve * isqrt(ev["staked"]) * 10 ** 18 // (8640 * 365) if ev["pos"] else 0
    if val(ev["issued"]) != issue:
        return "staking-issuance"
    paid = sum(val(r["paid"]) for r in rs)
    rew = sum(val(r["reward"]) for r in rs)
    if val(ev["postVTHO"]) + val(ev["burnVTHO"]) + paid != val(ev["preVTHO"]) + rew + val(ev["issued"]):
        return "vtho-law"
    for r in rs:
        p = eff_price(r["fee"])
        if r["fee"]["gal"] and p < val(r["fee"]["baseFee"]):
            return "price-below-base-fee"
        if val(r["paid"]) != p * r["gasUsed"]:
            return "receipt-paid"
        if val(r["reward"]) != reward_of(r["fee"], r["gasUsed"]):
            return "receipt-reward"
    h, p = ev["hdr"], ev["par"]
    if h["gasUsed"] != sum(r["gasUsed"] for r in rs) or h["gasUsed"] > h["gasLimit"]:
        return "block-gas-used"
    split = ev["pos"] and ev["split"] and ev["pct"] < 100
    val_share = issue * ev["pct"] // 100 if split else issue
    for fl in ev.get("flows", []):
        credit = val(fl["evIn"]) + ((rew + val_share) if fl["benef"] else 0) + ((issue - val_share) if fl["deleg"] else 0)
        delta = val(fl["delta"]) * (-1 if fl["deltaNeg"] else 1)
        if delta != credit - val(fl["evOut"]) - val(fl["paid"]):
            return "payer-debit" if fl["payer"] and not (fl["benef"] or fl["deleg"]) else ("delegator-credit" if fl["deleg"] and not fl["benef"] else "beneficiary-credit")
    gal = galactica >= 0 and ev["num"] >= galactica
    if h["hasBase"] != gal:
        return "base-fee-presence"
    if gal:
        want = 10 ** 13 if ev["num"] == galactica else next_base_fee(p)
        if val(h["baseFee"]) != want:
            return "base-fee"
    return "block-rejected"


def split_runs(events):
    runs, cur = [], None
    for e in events:
        if e["e"] == "Reset":
            cur = []
            runs.append(cur)
        if e["e"] == "End":
            continue
        cur.append(e)
    return runs


def parse_beh(out):
    """Behaviours printed by MC_GasPayer_export: <<"BEH", "json">> (deduplicated, sorted for determinism)."""
    raw = sorted({m.group(1) for m in re.finditer(r'<<\s*"BEH",\s*"((?:[^"\\]|\\.)*)"\s*>>', out)})
    return [json.loads(json.loads('"' + x + '"')) for x in raw]


def gaspayer_step(ctx):
    """GasPayer.tla (growth, attached to C07): exhaustive model + behaviours replayed on the prototype native and
    runtime.ExecuteTransaction. Signatures are prefixed gaspayer:."""
    q = ctx.quick
    ctx.tlc_must_hold("exec", "MC_GasPayer", cfg="MC_GasPayer.cfg" if q else "MC_GasPayer_thorough.cfg", workers=4,
                      timeout=1200, label="gas payer resolution (exhaustive)")
    must_be_refuted(ctx, "MC_GasPayer", "MC_GasPayer_bogus.cfg", "Bogus", "gaspayer non-vacuity")
    r = ctx.tlc_must_hold("exec", "MC_GasPayer", cfg="MC_GasPayer_export.cfg", workers=1, timeout=900,
                          simulate="num=%d" % (400 if q else 6000), depth=13, label="gaspayer behaviour export", count=False)
    behs = parse_beh(r.out)
    if len(behs) < 100:
        raise Infra("gaspayer export produced only %d behaviours\n%s" % (len(behs), r.out[-1500:]))
    binp = ctx.build("gaspayer")
    out = ctx.tmp("gaspayer")

    def replay(name, bs):
        bp, rp = os.path.join(out, name + ".json"), os.path.join(out, name + "-result.json")
        json.dump(bs, open(bp, "w"))
        if run_driver(ctx, binp, ["-beh", bp, "-out", rp], "gaspayer", timeout=900) is None:
            return None
        return json.load(open(rp))
    res = replay("behaviours", behs)
    if res is None:
        return
    seen = set()
    for m in (res["mismatches"] or []):
        sig = "gaspayer:" + m["field"].split(":")[0]
        if sig in seen:
            continue
        seen.add(sig)
        b = behs[m["behaviour"]]
        rp = ctx.save_replay("gaspayer-seed%d-%s.json" % (ctx.seed, m["field"].replace(":", "-")),
                             {"behaviour": b, "mismatch": m, "how": "harness/cmd/gaspayer -beh <file with [behaviour]>"})
        ctx.report(sig, "gas payer replay: behaviour %d step %d (%s): %s expected %s, real code %s" %
                   (m["behaviour"], m["step"], m["action"], m["field"], m["want"], m["got"]), rp)
    # binding demonstration: a behaviour whose expected payer / used credit is falsified must be flagged
    demo = None
    for b in behs:
        for i, s in enumerate(b["steps"]):
            if s["a"] == "ExecTx" and s["payer"] in ("s1", "s2", "contract"):
                demo = json.loads(json.dumps(b))
                demo["steps"][i]["post"]["used"][s["user"]] += 1
                break
        if demo:
            break
    if demo is None:
        raise Infra("gaspayer: no behaviour with a sponsored transaction was exported")
    dres = replay("demo", [demo])
    if dres is None or not dres["mismatches"]:
        raise Infra("gaspayer binding demonstration failed: a falsified used-credit expectation was not noticed")
    ctx.cov["gaspayer_behaviours_replayed"] = res["behaviours"]
    ctx.cov["gaspayer_steps_compared"] = res["steps"]
    ctx.cov["gaspayer_txs"] = res["txs"]
    ctx.cov["gaspayer_payers"] = res["payers"]
    ctx.cov["gaspayer_mismatches"] = len(res["mismatches"] or [])
    ctx.cov["gaspayer_binding_demo"] = "a behaviour with a falsified used-credit expectation was flagged by the replayer"
    ctx.cov["traces_validated_against_impl"] += res["behaviours"] - len({m["behaviour"] for m in (res["mismatches"] or [])})
    ctx.assumptions.append("GasPayer replay: accounts hold no VET (no energy growth), clauses are empty calls (gas used = intrinsic gas), "
                           "legacy txs at the base gas price; plan/user/sponsor operations go through the prototype native binding with the "
                           "contract-level guards (already user / not sponsor) as model preconditions")


def parse_scn(out):
    """Scenarios printed by MC_TxExec_export*: <<"SCN", "json">>."""
    res = []
    for m in re.finditer(r'<<\s*"SCN",\s*"((?:[^"\\]|\\.)*)"\s*>>', out):
        res.append(json.loads(json.loads('"' + m.group(1) + '"')))
    return res
