"""C09 - a transaction is included at most once per chain, only in its validity window.  DESIGN section 5 (C09)."""
import os

import chainindexcommon as cc
from verifkit import Infra


def design_level(ctx, q):
    # 1. design level: ChainIndex.tla with blocks entering only through AcceptBlock (admission decided through the two
    #    code paths of HasTransaction, RECENT = 3, one filter-prefix collision, a dependency, short windows):
    #    NoDupOnChain, WindowOk, DepsOk, LookupAgrees on every chain of every tree
    cfgs = ["adm_quick"] if q else ["adm_quick2", "adm_thorough_a", "adm_thorough_b", "adm_thorough_c", "adm_thorough_d"]
    for c in cfgs:
        ctx.tlc_must_hold(cc.SUB, "MC_ChainIndex", cfg="MC_ChainIndex_%s.cfg" % c, workers=4, timeout=900 if q else 3000,
                          label="admission + lookups, exhaustive")
    # vacuity guard: the indexed lookup path must be reachable in the bounded model
    r = ctx.tlc(cc.SUB, "MC_ChainIndex", cfg="MC_ChainIndex_vacuity.cfg", workers=2, timeout=300, count=False,
                label="vacuity guard: a state where a tx on the chain is looked up through the index path must exist")
    if r.invariant != "NeverIndexedPath":
        raise Infra("the bounded model never reaches the indexed lookup path: %s" % (r.invariant or r.error or "no violation"))

    # the index is iterated in KEY order (bytewise on the uvarint-encoded height, not numeric): stopping at the first entry
    # above the head instead of skipping it loses transactions - shown on the model with radix 2
    r = ctx.tlc(cc.SUB, "MC_ChainIndex", cfg="MC_ChainIndex_breakiter.cfg", workers=2, timeout=300, count=False,
                label="deliberately wrong design (break at an entry above the head): must be violated")
    if r.invariant != "LookupAgrees":
        raise Infra("the 'break' variant of the index iteration was not caught by LookupAgrees: %s"
                    % (r.invariant or r.error or "no violation"))
    ctx.cov["design_teeth"] = "index iteration that stops at an entry above the head violates LookupAgrees (%d states)" % r.distinct

    # lookups are a function of the stored chain only (action property): no step that stores nothing changes an answer
    ctx.tlc_must_hold(cc.SUB, "MC_ChainIndex", cfg="MC_ChainIndex_lookupstable%s.cfg" % ("_quick" if q else ""), workers=2,
                      timeout=900 if q else 3000, label="LookupStable: a lookup never changes a later lookup's answer")



def run(ctx):
    if ctx.replay:
        return cc.replay(ctx)
    q = ctx.quick
    if os.environ.get("VERIF_PART") != "demo":
        design_level(ctx, q)

    # 2. binding demonstrations: lookups (repository level) and verdicts (consensus level)
    pool = cc.DemoPool(ctx, "chainindex", ["-mode", "treeclean", "-blocks", "12"], "demo-repo")
    cc.binding_demo(ctx, pool, "c09-repo", [("has-flipped", cc.mut_lookup_has),
                                             ("lookup-from-wrong-branch", cc.mut_lookup_branch)])
    pool = cc.DemoPool(ctx, "txwindow", ["-mode", "short"], "demo-cons", n=2)
    cc.binding_demo(ctx, pool, "c09-cons", [
        ("refusal-reported-as-acceptance", cc.mut_verdict(False)), ("acceptance-reported-as-refusal", cc.mut_verdict(True)),
        ("adopt-refusal-flipped", cc.mut_adopt), ("adopt-class-later-for-bad", cc.mut_adopt_class),
        ("pool-class-flipped", cc.mut_pool), ("add-deleted", cc.mut_delete("Add"))])
    cc.invariant_demo(ctx, pool, "c09-cons")
    cc.stalled(ctx)
    if os.environ.get("VERIF_PART") == "demo":       # development aid: only the demonstrations
        ctx.cov.update(evaluations=len(pool.runs), distinct_nontrivial=0, rule="demonstrations only")
        return

    # 3a. repository level: 104..130-block chains with an equally long side branch; every tx looked up from every block
    #     as head, i.e. through the recent-ancestor scan (head - ref < 100) and through filter + index (>= 100)
    repo_stats = []
    runs, stats, how = cc.record(ctx, "chainindex", ["-mode", "long"], "long", 1 if q else 20)
    acc = cc.validate_runs(ctx, runs, stats, "long", how, batch=4)
    repo_stats += [stats[i] for i in acc]
    # ~270-block double chain: the same txs at heights 126..131 on one branch and 254..259 on the other (both sides of the
    # uvarint length boundary 127|128 and of 255|256 where key order and numeric order part), looked up from heads of both
    # branches through both paths
    runs, stats, how = cc.record(ctx, "chainindex", ["-mode", "long300"], "long300", 1 if q else 8, seed_offset=9)
    acc = cc.validate_runs(ctx, runs, stats, "long300", how, batch=2)
    repo_stats += [stats[i] for i in acc]
    ctx.cov["repo_max_height"] = max([s["maxHeight"] for s in repo_stats] or [0])
    runs, stats, how = cc.record(ctx, "chainindex", ["-mode", "treeclean", "-blocks", "12" if q else "15"], "trees",
                                 8 if q else 200, seed_offset=3)
    acc = cc.validate_runs(ctx, runs, stats, "trees", how, batch=40)
    repo_stats += [stats[i] for i in acc]

    # 3b. consensus level: forged candidate blocks through the real node import path and the real packer
    cons_stats = []
    runs, stats, how = cc.record(ctx, "txwindow", ["-mode", "short,short,short,long"], "cons", 12 if q else 240)
    acc = cc.validate_runs(ctx, runs, stats, "cons", how, batch=12)
    cons_stats += [stats[i] for i in acc]
    for k in acc[:2]:
        ctx.sample({"mode": runs[k][0]["mode"], "seed": runs[k][0]["seed"],
                    "verdicts": [e for e in runs[k] if e["e"] == "Process"][2:7]}, limit=4)
    for k in acc[3:4]:
        ctx.sample({"mode": runs[k][0]["mode"], "far_from_ref": [e for e in runs[k] if e["e"] == "Process" and e["num"] > 99][:4]}, limit=4)

    classes, reasons = {}, {}
    for s in cons_stats:
        for k, v in s["classes"].items():
            classes[k] = classes.get(k, 0) + v
        for k, v in s["reasons"].items():
            reasons[k] = reasons.get(k, 0) + v
    ctx.cov["evaluations"] = len(repo_stats) + len(cons_stats)
    ctx.cov["distinct_nontrivial"] = (
        sum(1 for s in repo_stats if s["reincluded"] >= 1 and s["lookups"] >= 100) +
        sum(1 for s in cons_stats if s["rejected"] >= 3 and s["accepted"] >= 3 and s["classes"].get("sibling-reinclusion", 0) >= 1))
    ctx.cov["rule"] = ("one evaluation = one seeded run of cmd/chainindex (real Repository, hand-made blocks) or cmd/txwindow (real "
                       "consensus/packer/node on a PoA net); distinct seed => distinct ids. Non-trivial: repository run = some tx "
                       "included on >= 2 branches and >= 100 lookups compared; consensus run = >= 3 candidates refused, >= 3 "
                       "accepted and at least one tx offered again on the sibling branch")
    ctx.cov["candidate_classes"] = classes
    ctx.cov["refusal_reasons"] = reasons
    cc.sum_stats(ctx, cons_stats, ["candidates", "accepted", "rejected", "adopts", "adoptRefused", "dupChecksRecentPath",
                                   "dupChecksIndexedPath"], prefix="cons_")
    cc.sum_stats(ctx, repo_stats, ["lookups", "lookupsRecentPath", "lookupsIndexedPath", "txsFoundByBothPaths", "reincluded"],
                 prefix="repo_")
    cc.sum_stats(ctx, cons_stats, ["lookups", "lookupsIndexedPath", "poolEvaluations", "windowsBeyond32Bits", "restarts",
                                   "lookedUpBeforeLateInclusion"], prefix="cons_")
    cc.sum_stats(ctx, repo_stats, ["reopens", "plantedIndexKeys", "lookedUpBeforeLateInclusion"], prefix="repo_")
    adopt_classes = {}
    for st in cons_stats:
        for k, v in st.get("adoptClasses", {}).items():
            adopt_classes[k] = adopt_classes.get(k, 0) + v
    ctx.cov["adopt_refusal_classes"] = adopt_classes
    cc.stalled(ctx)
    if cons_stats and not ctx.violations:
        for k in ("cons_windowsBeyond32Bits", "cons_restarts", "cons_poolEvaluations", "cons_lookedUpBeforeLateInclusion"):
            if ctx.cov[k] == 0:
                raise Infra("the consensus-level runs never produced %s" % k)
        for k in ("state-dependent", "dep-on-state-dependent"):
            if classes.get(k, 0) == 0:
                raise Infra("no candidate of class %s" % k)
        for k in ("bad", "later", "known", "never"):
            if adopt_classes.get(k, 0) == 0:
                raise Infra("the packer never refused a tx with class %s" % k)
    if repo_stats and not ctx.violations and ctx.cov["repo_lookedUpBeforeLateInclusion"] == 0:
        raise Infra("no tx was looked up through the index path before its (late) inclusion at repository level")
    if repo_stats and not ctx.violations and (ctx.cov["repo_reopens"] == 0 or ctx.cov["repo_plantedIndexKeys"] == 0):
        raise Infra("the repository-level runs did not re-open the store / plant the foreign index keys")
    ctx.cov["exhaustive"] = False
    if repo_stats and ctx.cov["repo_txsFoundByBothPaths"] == 0 and not ctx.violations:
        raise Infra("no transaction was found through both lookup paths: the long runs do not cross the 100-block boundary")
    if cons_stats and ctx.cov["cons_dupChecksIndexedPath"] == 0 and not ctx.violations:
        raise Infra("no candidate re-included a tx more than 100 blocks above its ref: the indexed path was not exercised at consensus level")
    ctx.assumptions += [
        "hashes/signatures are injective oracles; tx and block ids are logged facts",
        "colliding 8-byte id prefixes cannot be mined for real ids: in the long runs a filter key of a never-included tx and an "
        "index entry of a foreign id sharing its 8 bytes are written straight into chain.txi through the kv store (Plant event); "
        "both lookup paths are exercised for the SAME txs (heads / parents closer than 100 blocks to the ref and beyond), "
        "counted in repo_txsFoundByBothPaths / cons_dupChecks*",
        "block refs and expirations are logged saturated at 2^31-1 (TLC integers); the window is compared as n - ref <= exp, "
        "which is exact while heights stay below 2^31",
        "the pool's rule is exercised as txpool.TxObject.Evaluate against the parent as head (the pool object itself, its "
        "limits and housekeeping are C18's); a state-dependent tx (O pays more than its genesis balance to itself) reverts "
        "unless a 10-wei funding tx precedes it on the same chain",
        "forged candidates are valid except possibly for tx admission: header of a real empty block in the same slot, txs executed "
        "by the real runtime on that block's state, roots from that execution (self-test per run: for admissible txs the forged "
        "block has the id of the real packer's block); a refusal for any reason outside the six tx rules is reported as harness trouble",
        "PoA network (2-3 authorities), GALACTICA from genesis, legacy transfers; reverted = value transfer above the balance",
        "exhaustive only inside MC_ChainIndex_adm_*.cfg (<= 7 blocks, <= 3 per height, 3-5 txs, RECENT = 3)",
    ]
