"""C10 - the EVM computes what the reference EVM semantics prescribe.  DESIGN section 5 (C10) / section 7.

Claimed sub-claims: (1) every arithmetic / comparison / bitwise / shift instruction agrees with 256-bit modular integer
arithmetic (EvmWord.tla, implementation -> model); (2) call-frame semantics: success/failure class, storage writes, logs,
value movement and pushed success flags of nested CALL / CALLCODE / DELEGATECALL / STATICCALL / CREATE frames, "a failing
or reverting frame leaves no state change", "a static call can never modify state" (EvmFrames.tla, model -> implementation).
(3) memory, the return data buffer (EIP-211) and the precompiles 0x01-0x04 as call targets: copies never alias, the buffer after
every CALL* / CREATE / CREATE2, RETURNDATACOPY bounds (EvmMemory.tla, model -> implementation).
(4) the interpreter loop on raw bytes: the set of valid jump destinations (PUSH data is never a destination, at every alignment
and across every bitmap byte), JUMP / JUMPI, stack under/overflow, truncated PUSH, same answer on the second (cached) run (EvmJump.tla).
NOT decided: remaining-gas equality with the reference schedule, memory expansion cost / unaligned and huge offsets, the other
precompiles, per-fork opcode availability beyond the transcribed set."""
import evmcommon as ec
from verifkit import Infra


def run(ctx):
    if ctx.replay:
        return ec.replay_artefact(ctx, ctx.replay)
    q = ctx.quick

    # ---- 1. words ------------------------------------------------------------------------------------------------
    join_selfcheck = ec.selfcheck_words(ctx)                 # the limb library against TLC's own arithmetic (background)
    events, summary = ec.record_words(ctx, 1000 if q else 6000, 4 if q else 40, "main")
    demo1 = ec.words_binding_demo(ctx, events) if events else "skipped"
    for e in [x for x in events if x["op"] in ("SDIV", "SAR")][7:40:29]:
        ctx.sample({"instruction": e["op"], "a": ec.limbs_hex(e["a"]), "b": ec.limbs_hex(e["b"]),
                    "real_interpreter_result_equal_to_spec": ec.limbs_hex(e["r"])})
    ec.validate_words(ctx, events, "main", chunks=2 if q else 4)

    # ---- 2. frames -----------------------------------------------------------------------------------------------
    ec.selftest_frames(ctx)                                  # planted spec bugs must violate the invariants
    stats = {"replayed": 0, "conform": 0, "nested": 0, "known_sd": 0, "with_failed_frame": 0, "with_static_frame": 0}
    exhaustive = True
    demo2 = None
    # "fixed": hand-picked regression programs, among them the reproduction of the known finding
    # selfdestruct-immediate-delete (so that the KNOWN-FINDING line does not depend on seeds or bounds)
    for prof in ("fixed", "depth3", "calls2", "create", "createv", "destruct"):
        behs, r = ec.export_programs(ctx, prof, timeout=900 if q else 3000)
        exhaustive = exhaustive and r.ok
        if prof == "depth3":
            demo2 = ec.frames_binding_demo(ctx, behs)
        ec.replay_programs(ctx, behs, prof, stats)
        del behs
    # random programs over the union of all alphabets (3 contracts, scripts <= 3, nesting <= 3)
    behs, r = ec.export_programs(ctx, "mix", simulate="num=%d" % (400 if q else 4000), depth=10, timeout=900 if q else 3000)
    ec.replay_programs(ctx, behs, "mix", stats)
    del behs

    # ---- 3. memory, return data buffer, precompiles (stage 2) -----------------------------------------------------------
    ec.selftest_memory(ctx)                                  # planted spec bug must violate BufferLaw
    mstats = ec.new_mem_stats()
    behs, r = ec.export_mem_programs(ctx, timeout=600 if q else 3000)
    exhaustive = exhaustive and r.ok
    demo3 = ec.mem_binding_demo(ctx, behs)
    ec.replay_mem_programs(ctx, behs, "mem", mstats)
    del behs
    if not q:
        # random programs over the union alphabet (TLC's simulator evaluates every successor of every visited program,
        # so each of the 30 walks contributes a few thousand programs)
        behs, r = ec.export_mem_programs(ctx, mix=True, simulate="num=30", depth=8, timeout=3000)
        ec.replay_mem_programs(ctx, behs, "memmix", mstats)
        del behs

    # ---- 4. interpreter loop on raw bytes: jump destination analysis, JUMP / JUMPI, stack bounds ----------------------------
    jstats = ec.new_jump_stats()
    behs, r = ec.export_jump_programs(ctx)
    exhaustive = exhaustive and r.ok
    demo4 = ec.jump_binding_demo(ctx, behs)
    ec.replay_jump_programs(ctx, behs, "jump", jstats)
    del behs

    join_selfcheck()

    ctx.cov["binding_demo"] = demo1 + "; " + (demo2 or "") + "; " + demo3 + "; " + demo4
    ctx.cov["byte_programs_replayed_on_real_interpreter_twice"] = jstats["replayed"]
    ctx.cov["byte_programs_conforming"] = jstats["conform"]
    ctx.cov["byte_programs_jumping_into_push_data"] = jstats["jump_into_immediate"]
    ctx.cov["byte_programs_jumping_into_push_data_straddling_an_8_byte_boundary"] = jstats["immediate_straddles_boundary"]
    ctx.cov["byte_programs_with_truncated_push"] = jstats["truncated_push"]
    ctx.cov["byte_programs_stack_bounds"] = jstats["stack"]
    ctx.cov["memory_programs_replayed_on_real_evm"] = mstats["replayed"]
    ctx.cov["memory_programs_conforming"] = mstats["conform"]
    ctx.cov["memory_programs_reading_the_buffer_after_a_call"] = mstats["nontrivial"]
    ctx.cov["memory_programs_write_after_identity_then_returndatacopy"] = mstats["write_after_identity_then_rdcopy"]
    ctx.cov["memory_programs_with_out_of_bounds_returndatacopy_halt"] = mstats["rdoob"]
    ctx.cov["memory_programs_calling_a_precompile"] = mstats["precompile"]
    ctx.cov["memory_programs_with_create_or_create2"] = mstats["creates"]
    ctx.cov["memory_programs_matching_only_code_only_collision_variant"] = mstats.get("known_c2", 0)
    ctx.cov["word_vectors"] = summary.get("vectors", 0)
    ctx.cov["word_vectors_per_instruction"] = summary.get("perOp", {})
    ctx.cov["programs_replayed_on_real_evm"] = stats["replayed"]
    ctx.cov["programs_conforming_to_reference"] = stats["conform"]
    ctx.cov["programs_matching_only_immediate_selfdestruct_variant"] = stats["known_sd"]
    ctx.cov["programs_with_failed_frame"] = stats["with_failed_frame"]
    ctx.cov["programs_with_static_frame"] = stats["with_static_frame"]
    ctx.cov["traces_validated_against_impl"] += stats["replayed"] + mstats["replayed"] + jstats["replayed"]
    ctx.cov["evaluations"] = summary.get("vectors", 0) + stats["replayed"] + mstats["replayed"] + jstats["replayed"]
    ctx.cov["distinct_nontrivial"] = (summary.get("distinct_multilimb", 0) + stats["nested"] + mstats["nontrivial"]
                                      + jstats["jump_into_immediate"] + jstats["stack"])
    ctx.cov["rule"] = ("evaluations = instruction vectors executed by the real interpreter + programs executed by the real EVM. "
                       "Vectors: fixed boundary cross products per instruction plus seeded random operands; distinct (op,a,b,c) with "
                       "an operand >= 2^15 (more than one limb) count as non-trivial. Programs: every program of the BFS profiles "
                       "(each reached exactly once) plus de-duplicated random programs of the 'mix' profile; a program counts as "
                       "non-trivial when the real EVM entered at least one nested call frame. Memory programs (stage 2): every program "
                       "of MC_EvmMemory's BFS profiles alias/create/window (thorough: plus de-duplicated random 'mix' programs); "
                       "non-trivial when the entry contract made a call/creation and then read the return data buffer "
                       "(RETURNDATASIZE or RETURNDATACOPY). Byte programs (step 4): every program of MC_EvmJump, each executed twice; "
                       "non-trivial = a jump into PUSH data (reference: invalid jump) or a stack-bound program")
    ctx.cov["exhaustive"] = bool(exhaustive)
    ctx.cov["exhaustive_note"] = ("program profiles fixed/depth3/calls2/create/createv/destruct (EvmFrames) and alias/create/window "
                                  "(EvmMemory) and the byte programs of MC_EvmJump are enumerated completely by TLC (BFS) and all replayed; the mix profiles and the "
                                  "word vectors are sampled")
    ctx.assumptions += [
        "keccak / address derivation are oracles: created addresses are read from the run, not predicted",
        "thor extension, not reported: every CREATE emits a prototype $Master event and sets the creator as master; modelled as "
        "part of the created frame (reverted with it)",
        "gas is compared by class only (ok / revert / invalid / static / out-of-gas, leftover <= provided, a failing non-REVERT "
        "frame uses all its gas, a REVERT frame keeps some); starved calls are exercised with value 0 only (the 2300 stipend is gas schedule)",
        "call targets are acyclic (A -> B -> C), so nesting is <= 3 without modelling the 1024 depth limit or gas exhaustion by recursion",
        "the harness reads pushed success flags from the real stack and each frame's final memory with a vm.Logger (passive "
        "tracer, vm.Config.Tracer)",
        "stage 2: memory is word addressed (aligned offsets, whole-word lengths, 3 cells); sha256 / ripemd160 are oracles "
        "(hashlib) applied to the input the specification says the precompile received; ecrecover inputs are never valid "
        "signatures (empty output); nobody owns wei, so a creation with an endowment fails before its constructor runs",
    ]
