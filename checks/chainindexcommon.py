"""Shared by C14 and C09: record traces from the real chain.Repository (cmd/chainindex) and from the real consensus /
packer / node import path (cmd/txwindow) and validate them with specs/store/Trace_ChainIndex.tla."""
import copy
import json
import os

from verifkit import Infra, read_ndjson, write_ndjson

SUB = "store"
TRACE = "Trace_ChainIndex"

# reasons by which consensus may refuse a forged candidate block; anything else means the forge (not the tx rule) is off
TX_REASONS = ("tx already exists", "tx dep broken", "tx dep reverted", "tx chain tag mismatch", "tx ref future block",
              "tx expired")


def split_runs(events):
    runs, cur = [], None
    for e in events:
        if e["e"] == "Reset":
            cur = []
            runs.append(cur)
        if cur is None:
            raise Infra("trace does not start with a Reset event")
        cur.append(e)
    return runs


def panic_in_real_code(o):
    """Does the crash output of a driver show a Go panic raised inside thor's own code?  Out-of-memory / deadlock dumps
    ('fatal error:') and panics whose first frame below the runtime is the harness are infrastructure trouble."""
    if "fatal error:" in o or "panic:" not in o:
        return False
    tail = o[o.index("panic:"):]
    seen = False
    for line in tail.splitlines():
        if line.startswith("panic("):
            seen = True
            continue
        if not seen or line.startswith(("\t", " ", "runtime.", "goroutine ")) or not line.strip():
            continue
        return "github.com/vechain/thor/v2/" in line
    return False


def record(ctx, driver, args, label, runs, seed_offset=0, timeout=1800, tags="verif"):
    """Run a driver. Returns (list of runs (each a list of events), list of per-run stats, how-dict)."""
    binp = ctx.build(driver, tags=tags)
    out = ctx.tmp("rec-" + label)
    seed = ctx.seed * 31 + seed_offset
    argv = [binp, "-out", out, "-runs", str(runs), "-seed", str(seed)] + args
    rc, o = ctx.run(argv, timeout=timeout)
    how = dict(driver=driver, args=args, runs=runs, seed=seed)
    if rc == 3:
        if ctx.violations:
            ctx.log("%s reported harness trouble after violations were already observed: %s" % (driver, o[-300:]))
            return [], [], how
        raise Infra("%s harness error: %s" % (driver, o[-1500:]))
    if rc != 0:
        if rc is not None and panic_in_real_code(o):
            rp = ctx.save_replay("panic-%s-%d.txt" % (label, seed), " ".join(argv) + "\n" + o[-20000:])
            ctx.report("panic:" + driver, "real code panicked in %s (%s): %s" % (driver, label, o.strip().splitlines()[0:3]), rp)
            return [], [], how
        raise Infra("%s failed rc=%s: %s" % (driver, rc, o[-2000:]))
    events = read_ndjson(os.path.join(out, "trace.ndjson"))
    stats = json.load(open(os.path.join(out, "runs.json")))
    runs_ = split_runs(events)
    if len(runs_) != len(stats):
        raise Infra("%s: %d runs in the trace, %d in runs.json" % (driver, len(runs_), len(stats)))
    return runs_, stats, how


def signature(ev, invariant):
    if invariant:
        return "invariant:" + invariant
    if ev.get("e") == "Error":
        if str(ev.get("what", "")).startswith("BlockReader.Read") and ev.get("ctx"):
            return "reader-fails:%s" % ev["ctx"]
        if str(ev.get("what", "")).startswith("subscription"):
            return "subscription-fails:%s" % str(ev.get("what")).split()[1]
        return "error:%s" % ev.get("what")
    if ev.get("e") == "SubLost":
        return "subscriber-lost-wakeup:%s" % ev.get("kind")
    if ev.get("e") == "SubExtra":
        return "subscriber-extra:%s" % ev.get("kind")
    if ev.get("e") == "SubDrain":
        # sameids: the messages name the blocks the driver's own tree arithmetic expects, so only flags can differ
        return "subscriber-diverges:%s%s" % (ev.get("kind"), "-stale-obsolete-flag" if ev.get("sameids") else "")
    if ev.get("e") == "Process":
        return "verdict:%s:%s" % ("accepted" if ev.get("ok") else "refused", ev.get("class"))
    if ev.get("e") == "Adopt":
        return "adopt:%s" % ev.get("cls", "adopted" if ev.get("ok") else "refused")
    if ev.get("e") == "Pool":
        return "pool:%s" % ev.get("cls")
    return "rejected:" + str(ev.get("e"))


def validate_runs(ctx, runs, stats, label, how, batch=None, timeout=1500):
    """Validate runs (concatenated into few TLC invocations). A rejected run is reported, dropped, and the rest of
    the batch is validated again. Returns the indices of the accepted runs."""
    accepted = []
    order = list(range(len(runs)))
    batches = [order] if not batch else [order[i:i + batch] for i in range(0, len(order), batch)]
    for bi, pending in enumerate(batches):
        guard = 0
        while pending:
            guard += 1
            if guard > 6:
                ctx.cov["validation_stopped_early"] = "more than 5 rejected runs in batch %s/%d" % (label, bi)
                break
            evs = [e for k in pending for e in runs[k]]
            path = os.path.join(ctx.tmp("val-" + label), "trace-%d-%d.ndjson" % (bi, guard))
            write_ndjson(path, evs)
            ok, hwm, ln, r = ctx.validate_trace(SUB, TRACE, path, timeout=timeout)
            if ok:
                accepted += pending
                ctx.cov["traces_validated_against_impl"] += len(pending)
                ctx.cov["trace_events_validated"] = ctx.cov.get("trace_events_validated", 0) + ln
                break
            pos, bad, off = 0, None, 0
            for k in pending:
                n = len(runs[k])
                if hwm < pos + n:
                    bad, off = k, hwm - pos
                    break
                pos += n
            if bad is None:
                raise Infra("trace rejected but offending run not found (hwm=%d len=%d)\n%s" % (hwm, ln, r.out[-2000:]))
            ev = runs[bad][off]
            hdr = runs[bad][0]
            if ev.get("e") == "Stall" and r.invariant is None:
                # a websocket subscription delivered nothing for 20 s of wall clock although everything the server had sent
                # so far was right and a clock-free probe of the reader at that position (the events just before) was
                # accepted: the machine's trouble, not an observation. The run is set aside.
                ctx.cov["stalled_runs"] = ctx.cov.get("stalled_runs", 0) + 1
                ctx.log("run %d of %s set aside: subscription stalled on the wall clock (%s)" % (bad, label, json.dumps(ev)))
                idx = pending.index(bad)
                accepted += pending[:idx]
                ctx.cov["traces_validated_against_impl"] += idx
                pending = pending[idx + 1:]
                guard -= 1
                continue
            if ev.get("e") == "Process" and not ev.get("ok") and r.invariant is None \
                    and not any(k in ev.get("reason", "") for k in TX_REASONS):
                raise Infra("forged candidate refused for a reason outside the tx admission rules (%s): the forge does "
                            "not reproduce the packer on this tree" % ev.get("reason"))
            what = "invariant %s violated" % r.invariant if r.invariant else "answer / verdict differs from the specification"
            rp = ctx.save_replay("%s-run%d-seed%s.json" % (label, bad, hdr.get("seed")),
                                 {"how": how, "run_header": hdr, "offending_index": off, "offending_event": ev,
                                  "tlc_verdict": what, "stats": stats[bad] if bad < len(stats) else None,
                                  "trace": runs[bad]})
            ctx.report(signature(ev, r.invariant),
                       "%s: mode=%s seed=%s event #%d %s -> %s" % (label, hdr.get("mode"), hdr.get("seed"), off,
                                                                   json.dumps(ev, sort_keys=True)[:700], what), rp)
            ctx.cov["rejected_runs"] = ctx.cov.get("rejected_runs", 0) + 1
            idx = pending.index(bad)
            accepted += pending[:idx]
            ctx.cov["traces_validated_against_impl"] += idx
            pending = pending[idx + 1:]
    return accepted


def replay(ctx):
    """--replay <artefact>: validate the stored run again."""
    art = json.load(open(ctx.replay))
    path = os.path.join(ctx.tmp("replay"), "trace.ndjson")
    write_ndjson(path, art["trace"])
    ok, hwm, ln, r = ctx.validate_trace(SUB, TRACE, path, timeout=1500)
    if ok:
        ctx.log("replayed artefact is accepted by the trace specification")
        ctx.cov["traces_validated_against_impl"] += 1
    else:
        ev = art["trace"][hwm] if hwm < len(art["trace"]) else {}
        ctx.report(signature(ev, r.invariant), "replay %s: event #%d %s rejected" % (ctx.replay, hwm, json.dumps(ev)[:500]),
                   ctx.replay)
    ctx.cov["evaluations"] = 1
    ctx.cov["distinct_nontrivial"] = 0
    ctx.cov["rule"] = "replay of one stored artefact"
    ctx.sample(art.get("offending_event"))


def invariant_demo(ctx, pool, label):
    """The path 'an invariant fails on a recorded trace -> the offending event is located -> signature invariant:<name>'
    must be alive: a recorded run that forks is validated once more with an extra invariant that is false as soon as the
    tree forks (Trace_ChainIndex_demo.cfg). Nothing is reported; anything but the expected verdict is Infra."""
    def forks(run):
        return next((i for i, e in enumerate(run) if e["e"] == "Add" and e["conflicts"] >= 1), None)
    run, want = pool.find(forks)
    if run is None:
        if not ctx.violations:
            ctx.cov["binding_demo_not_shown"] = ctx.cov.get("binding_demo_not_shown", []) + ["invariant"]
        return
    path = os.path.join(ctx.tmp("demo-" + label), "invariant.ndjson")
    write_ndjson(path, run)
    ok, hwm, ln, r = ctx.validate_trace(SUB, TRACE, path, cfg="Trace_ChainIndex_demo.cfg", timeout=600)
    if ok or r.invariant != "DemoNoFork" or hwm != want or signature(run[hwm], r.invariant) != "invariant:DemoNoFork":
        raise Infra("invariant demonstration failed: accepted=%s invariant=%s located at %s, expected DemoNoFork at %d"
                    % (ok, r.invariant, hwm, want))
    ctx.cov["binding_demo"] = ctx.cov.get("binding_demo", []) + ["invariant:DemoNoFork@%d->located@%d" % (want, hwm)]


def stalled(ctx):
    if ctx.cov.get("stalled_runs") and not ctx.violations:
        raise Infra("%d run(s) set aside because a websocket subscription stalled on the wall clock" % ctx.cov["stalled_runs"])


def must_reject(ctx, name, events, label):
    path = os.path.join(ctx.tmp("demo-" + label), name + ".ndjson")
    write_ndjson(path, events)
    ok, hwm, ln, r = ctx.validate_trace(SUB, TRACE, path, timeout=600)
    if ok:
        raise Infra("binding demonstration failed: the %s trace was accepted by %s" % (name, TRACE))
    return hwm


class DemoPool:
    """Recorded, ACCEPTED runs for the binding demonstrations. A demonstration needs a run that contains the event it
    mutates (an obsolete subscription message, a Read that moved its reader, a refused candidate, a fork ...); whether
    a given seed's first run has one is luck, so a few runs are recorded at once and more are recorded (next seed
    offsets) when none of them fits. Nothing here can fail because of the seed: only a mutated trace that is ACCEPTED
    (or a base run that is not) ends the check."""

    def __init__(self, ctx, driver, args, label, tags="verif", n=3, seed_offset=977):
        self.ctx, self.driver, self.args, self.label, self.tags, self.n = ctx, driver, args, label, tags, n
        self.offset, self.runs, self.rounds = seed_offset, [], 0
        self.more()

    def more(self):
        if self.rounds >= 8:
            return False
        runs, stats, how = record(self.ctx, self.driver, self.args, "%s-%d" % (self.label, self.rounds), self.n,
                                  seed_offset=self.offset + 13 * self.rounds, tags=self.tags)
        acc = validate_runs(self.ctx, runs, stats, "%s-%d" % (self.label, self.rounds), how)
        self.runs += [runs[i] for i in acc]
        self.rounds += 1
        return True

    def find(self, fn):
        """first accepted run on which fn(copy of run) yields something; records more runs if needed"""
        tried = 0
        while True:
            for run in self.runs[tried:]:
                res = fn(copy.deepcopy(run))
                if res is not None:
                    return run, res
            tried = len(self.runs)
            if self.ctx.violations or not self.more():
                return None, None


def binding_demo(ctx, pool, label, mutations):
    """pool: DemoPool. mutations: list of (name, function(events) -> (events', index) or (None, 0)).
    Every mutated trace must be rejected: a changed field at the mutated position, a deleted event at or after it."""
    done = []
    for name, fn in mutations:
        def apply(run, fn=fn):
            evs, at = fn(run)
            return None if evs is None else (evs, at)
        run, res = pool.find(apply)
        if run is None:
            if ctx.violations:
                return
            ctx.cov["binding_demo_not_shown"] = ctx.cov.get("binding_demo_not_shown", []) + [name]
            ctx.log("binding demonstration %s: no recorded run offers the event (after %d recordings)" % (name, pool.rounds))
            continue
        evs, at = res
        dele = "deleted" in name
        hwm = must_reject(ctx, name, evs if dele else evs[:at + 90], label)
        if hwm < at or (not dele and hwm != at):
            raise Infra("binding demonstration %s: mutated at %d but rejected at %d" % (name, at, hwm))
        done.append("%s@%d->rejected@%d" % (name, at, hwm))
    ctx.cov["binding_demo"] = ctx.cov.get("binding_demo", []) + done


def pick(events, pred, frac=0.6):
    idx = [i for i, e in enumerate(events) if pred(e)]
    return idx[int(len(idx) * frac)] if idx else None


# ---- mutations used by the demonstrations -------------------------------------------------------------------
def mut_delete(kind):
    def fn(evs):
        i = pick(evs, lambda e: e["e"] == kind, 0.5)
        if i is None:
            return None, 0
        return evs[:i] + evs[i + 1:], i
    return fn


def mut_delete_read(evs):
    """a Read that moved its reader, followed within 50 events by another Read of the same reader"""
    cands = []
    for i, e in enumerate(evs):
        if e["e"] == "Read" and e["out"]:
            for j in range(i + 1, min(i + 50, len(evs))):
                if evs[j]["e"] == "Read" and evs[j]["r"] == e["r"]:
                    cands.append(i)
                    break
                if evs[j]["e"] in ("Reset", "Reopen"):
                    break
    if not cands:
        return None, 0
    i = cands[len(cands) // 2]
    return evs[:i] + evs[i + 1:], i


def mut_bynum(evs):
    i = pick(evs, lambda e: e["e"] == "ByNum" and len(e["ids"]) >= 4 and e["ids"][-2] != e["ids"][-3])
    if i is None:
        return None, 0
    evs[i]["ids"][-2], evs[i]["ids"][-3] = evs[i]["ids"][-3], evs[i]["ids"][-2]
    return evs, i


def mut_exclude(evs):
    i = pick(evs, lambda e: e["e"] == "Excl" and any(len(o["ids"]) >= 1 for o in e["out"]))
    if i is None:
        return None, 0
    for o in evs[i]["out"]:
        if o["ids"]:
            o["ids"] = o["ids"][1:]       # the block right above the fork point is dropped
            break
    return evs, i


def mut_obsolete(evs):
    i = pick(evs, lambda e: e["e"] == "Read" and any(o["obs"] for o in e["out"]))
    if i is None:
        return None, 0
    for o in evs[i]["out"]:
        if o["obs"]:
            o["obs"] = False
            break
    return evs, i


def mut_sub_obsolete(evs):
    i = pick(evs, lambda e: e["e"] == "SubDrain" and any(o["obs"] for o in e["out"]))
    if i is None:
        return None, 0
    for o in evs[i]["out"]:
        if o["obs"]:
            o["obs"] = False
            break
    return evs, i


def mut_reopen(evs):
    """the re-opened store reports another best block"""
    i = pick(evs, lambda e: e["e"] == "Reopen" and len(e["heads"]) >= 2, 0.0)
    if i is None:
        return None, 0
    evs[i]["best"] = [h for h in evs[i]["heads"] if h != evs[i]["best"]][0]
    return evs, i


def mut_lookup_has(evs):
    i = pick(evs, lambda e: e["e"] == "Lookup" and any(q["found"] is True for q in e["q"]))
    if i is None:
        return None, 0
    for q in evs[i]["q"]:
        if q["found"] is True:
            q["has"] = False
            break
    return evs, i


def mut_lookup_branch(evs):
    """a tx reported found from a head on whose chain it is not"""
    i = pick(evs, lambda e: e["e"] == "Lookup" and any(q["found"] is False for q in e["q"]) and
             any(q["found"] is True for q in e["q"]))
    if i is None:
        return None, 0
    src = [q for q in evs[i]["q"] if q["found"] is True][0]
    for q in evs[i]["q"]:
        if q["found"] is False:
            t = q["t"]
            q.update(src)
            q["t"] = t
            break
    return evs, i


def mut_verdict(want_ok):
    def fn(evs):
        i = pick(evs, lambda e: e["e"] == "Process" and e["ok"] == want_ok and e.get("class", "").find("seed") < 0)
        if i is None:
            return None, 0
        evs[i]["ok"] = not want_ok
        evs[i]["same"] = True
        # keep the trace well-formed: a block now claimed refused is not added afterwards
        if want_ok and i + 1 < len(evs) and evs[i + 1]["e"] == "Add":
            del evs[i + 1]
        return evs, i
    return fn


def mut_adopt(evs):
    i = pick(evs, lambda e: e["e"] == "Adopt" and not e["ok"])
    if i is None:
        return None, 0
    evs[i]["ok"] = True
    return evs, i


def mut_adopt_class(evs):
    i = pick(evs, lambda e: e["e"] == "Adopt" and e.get("cls") == "bad")
    if i is None:
        return None, 0
    evs[i]["cls"] = "later"
    return evs, i


def mut_pool(evs):
    i = pick(evs, lambda e: e["e"] == "Pool" and e.get("cls") == "rejected")
    if i is None:
        return None, 0
    evs[i]["cls"] = "executable"
    return evs, i


def sum_stats(ctx, stats, keys, prefix=""):
    for k in keys:
        ctx.cov[prefix + k] = ctx.cov.get(prefix + k, 0) + sum(s.get(k, 0) for s in stats)
