"""Shared machinery of C01 (block production): Production.tla model checking, behaviour export for the model ->
implementation replay, the real-code driver harness/cmd/production, trace validation with Trace_Production.tla.

Verdict policy (DESIGN 2, FRAMEWORK):
  * a packer block rejected by any validator history, or accepted with another state root / receipts root / gas than the
    header's, is decided by the driver on the real code alone -> VIOLATION (signature = history + error class);
  * a recorded trace rejected at a Validate event (the model, whose cache follows poaCacher / posCacher.Handle, derives
    another verdict for that history) or failing Deterministic / ObsDeterministic -> VIOLATION;
  * the model's abstract world differing from the real proposer machinery state while all verdicts agree, a Pack event
    the model cannot take, CacheCoherent failing on the MODEL's cache -> specification drift, exit 2.
"""
import json
import os
import re

from verifkit import Infra, VERIF, read_ndjson, write_ndjson

SCHED = {"Scheduler.tla": os.path.join(VERIF, "specs", "sched", "Scheduler.tla")}
INVS = ("TypeOK", "CacheCoherent", "CacheExact", "PackAccepted", "Deterministic")


def _cfg_text(name):
    return open(os.path.join(VERIF, "specs", "rules", name)).read()


def design(ctx, cfgs, timeout):
    """Exhaustive exploration of the design model; every config has to hold."""
    for cfg in cfgs:
        ctx.tlc_must_hold("rules", "MC_Production", cfg=cfg, workers=4, timeout=timeout, files=SCHED, label="exhaustive " + cfg)


def _variant(base, rules=None, invariant=None):
    t = _cfg_text(base)
    if rules:
        t = t.replace("Rules <- AllRules", "Rules <- " + rules)
        if rules in ("NoCow", "NoPosNoWrite"):
            t = t.replace("AliasSafe = FALSE", "AliasSafe = TRUE")
    if invariant:
        t = "\n".join(l for l in t.splitlines() if not l.startswith("INVARIANT")) + "\nINVARIANT %s\n" % invariant
    return t


TEETH = [  # (base config, rule switched off, what it is in the code)
    ("MC_Production_member_quick.cfg", "NoAuthDrop", "poaCacher.Handle returns nil on an Authority event"),
    ("MC_Production_endorse_quick.cfg", "NoParamsInv", "InvalidateCache on a Params event"),
    ("MC_Production_endorse_quick.cfg", "NoXferInv", "InvalidateCache on a transfer from/to an endorsor"),
    ("MC_Production_pos_quick.cfg", "NoPosSync", "validatorsCache.Remove(parent) when SyncPOS reports updates"),
    ("MC_Production_pos_quick.cfg", "NoPosOnline", "noOpCacher when the block switches validators on/off"),
    ("MC_Production_pos_quick.cfg", "NoPosBen", "posCacher.Handle skips the entry on BeneficiarySet"),
    ("MC_Production_member_quick.cfg", "NoCow", "Candidates.Update clones the shared candidate slice before writing (copy-on-write)"),
    ("MC_Production_pos_quick.cfg", "NoPosNoWrite", "validateStakingProposer never writes into the (shared) cached leader slice"),
]
VACUITY = [
    ("MC_Production_member_quick.cfg", "X_NeverHit"), ("MC_Production_member_quick.cfg", "X_NeverMemo"),
    ("MC_Production_member_quick.cfg", "X_NeverInactive"), ("MC_Production_endorse_quick.cfg", "X_NeverUnendorsed"),
    ("MC_Production_pos_quick.cfg", "X_NeverPoS"), ("MC_Production_pos_quick.cfg", "X_NeverPosEntry"),
    ("MC_Production_pos_quick.cfg", "X_NeverExit"), ("MC_Production_pos_quick.cfg", "X_NeverHeavier"),
]


def teeth(ctx, which=None, vac=None):
    """Each cache rule of the code, removed from the SPEC's rules, must break CacheCoherent; each 'this never happens'
    statement must be refuted (vacuity).  Anything else means the model has no teeth -> Infra."""
    shown = []
    for base, rules, what in (which or TEETH):
        r = ctx.tlc("rules", "MC_Production", cfg="teeth.cfg", workers=2, timeout=600, count=False, label="teeth " + rules,
                    files=dict(SCHED, **{"teeth.cfg": _variant(base, rules, "CacheCoherent")}))
        if r.invariant != "CacheCoherent":
            raise Infra("teeth: without the rule '%s' CacheCoherent still holds (%s)" % (what, r.invariant or r.error or "no violation"))
        shown.append("%s: CacheCoherent violated after %d states" % (rules, r.distinct))
    ctx.cov["teeth"] = shown
    refuted = []
    for base, inv in (vac or VACUITY):
        r = ctx.tlc("rules", "MC_Production", cfg="vac.cfg", workers=2, timeout=600, count=False, label="vacuity " + inv,
                    files=dict(SCHED, **{"vac.cfg": _variant(base, None, inv)}))
        if r.invariant != inv:
            raise Infra("vacuity: %s was not refuted in %s (%s)" % (inv, base, r.invariant or r.error or "holds"))
        refuted.append(inv)
    ctx.cov["vacuity_refuted"] = refuted


def export_behaviours(ctx, profile, num, depth=15):
    """model -> implementation: TLC's simulator samples behaviours of MC_ProductionSim (who packs on which parent after
    how many skipped slots with which tx kinds; which validations / restarts the model node does)."""
    r = ctx.tlc("rules", "MC_ProductionSim", cfg="MC_ProductionSim_%s.cfg" % profile, workers=1, simulate="num=%d" % num,
                depth=depth, timeout=900, files=SCHED, count=False, label="behaviour export " + profile)
    if r.invariant or r.timeout or (r.error and "BEH" not in r.out):
        raise Infra("behaviour export (%s) failed: %s\n%s" % (profile, r.invariant or r.error or "timeout", r.out[-1500:]))
    behs, seen = [], set()
    for m in re.finditer(r'<<"BEH", "((?:[^"\\]|\\.)*)">>', r.out):
        b = json.loads(json.loads('"' + m.group(1) + '"'))
        key = json.dumps(b["steps"][:-1], sort_keys=True)      # successors of the last step are printed too
        if key in seen:
            continue
        seen.add(key)
        b["name"] = "%s-%d" % (profile, len(behs))
        behs.append(b)
    if not behs:
        raise Infra("TLC exported no behaviour for " + profile)
    path = os.path.join(ctx.tmp("behs"), "behs-%s.json" % profile)
    json.dump(behs, open(path, "w"))
    return path, behs


def run_driver(ctx, args, label):
    """Runs harness/cmd/production. Returns (results, events, outdir)."""
    binp = ctx.build("production")
    out = ctx.tmp("drv-" + label)
    rc, o = ctx.run([binp] + args + ["-out", out], timeout=3000)
    if rc == 3:
        raise Infra("production driver harness error (%s): %s" % (label, o[-1500:]))
    if rc != 0:
        if rc is not None and ("panic:" in o or "goroutine " in o or "fatal error" in o):
            rp = ctx.save_replay("panic-%s-seed%d.txt" % (label, ctx.seed), o[-20000:])
            first = [x for x in o.splitlines() if x.startswith(("panic:", "fatal error"))][:1]
            ctx.report("panic:" + label, "real code panicked in the production driver (%s): %s" % (label, first), rp)
            return None, [], out
        raise Infra("production driver failed rc=%s (%s): %s" % (rc, label, o[-2000:]))
    res = json.load(open(os.path.join(out, "results.json")))
    return res, read_ndjson(os.path.join(out, "trace.ndjson")), out


def validate_trace(ctx, path, timeout=2400):
    """ctx.validate_trace, except that a failing invariant is located through the depth of the (linear) state graph:
    after an invariant violation TLC's postcondition no longer sees the high-water mark register.
    Returns (accepted, index of the offending event or None, length, TLCResult)."""
    r = ctx.tlc("rules", "Trace_Production", cfg="Trace_Production.cfg", workers=1, timeout=timeout, dfs=True, count=False,
                files=dict(SCHED, **{"trace.ndjson": path}), label="trace:" + os.path.basename(path))
    if r.timeout:
        raise Infra("trace validation timed out: %s" % path)
    n = sum(1 for _ in open(path))
    if r.invariant:
        m = re.findall(r"(\d+) states generated", r.out)
        states = int(m[-1]) if m else 0
        if states < 2:
            raise Infra("invariant %s violated but the position is unknown:\n%s" % (r.invariant, r.out[-2000:]))
        return False, states - 2, n, r          # state k+2 is the one after event k (0-based)
    m = re.findall(r'TRACE-HWM",? (-?\d+),? (\d+)', r.out)
    if not m:
        raise Infra("trace spec did not report a high-water mark (TLC error?):\n" + r.out[-3000:])
    hwm, ln = int(m[-1][0]), int(m[-1][1])
    if r.error and hwm == ln and "Postcondition" not in r.out:
        raise Infra("TLC error during trace validation: %s\n%s" % (r.error, r.out[-3000:]))
    accepted = hwm == ln and r.error is None and r.rc == 0
    return accepted, (None if accepted else hwm), ln, r


def _run_events(res, events, run):
    info = res["runInfo"][run]
    return events[info["start"]:info["start"] + info["events"]]


def judge(ctx, res, events, label, how, acc):
    """Reports what the driver decided on the real code; collects statistics into acc. Returns the set of runs with
    violations."""
    bad = set()
    by_sig = {}
    for v in res["violations"]:
        by_sig.setdefault(v["sig"], []).append(v)
        bad.add(v["run"])
    for sig, vs in sorted(by_sig.items()):
        v = vs[0]
        evs = _run_events(res, events, v["run"])
        rp = ctx.save_replay("%s-%s-run%d-seed%d.json" % (label, re.sub(r"[^A-Za-z0-9_.-]", "_", sig)[:60], v["run"], ctx.seed),
                             {"how": how, "signature": sig, "violation": v, "same_signature": len(vs), "offending_index": v["index"],
                              "run": res["runInfo"][v["run"]], "trace": evs})
        ctx.report(sig, "%s: %s (%d occurrence(s) of this signature)" % (label, v["what"], len(vs)), rp)
    for k in ("blocks", "validations", "revertedTxs", "forkBlocks", "blocksByInactiveProposer", "blocksAfterSkippedSlots", "posBlocks",
              "blocksWithEventTxs", "runs"):
        acc[k] = acc.get(k, 0) + res[k]
    for k in ("byHistory", "kinds", "flavours"):
        d = acc.setdefault(k, {})
        for kk, n in res[k].items():
            d[kk] = d.get(kk, 0) + n
    acc.setdefault("shapes", set()).update(res.get("shapes") or [])
    acc.setdefault("notes", []).extend(res["notes"][:5])
    if res["drift"]:
        if not res["violations"]:
            raise Infra("specification drift (%s): the model's world / enabledness differs from the real chain while all "
                        "verdicts agree: %s" % (label, res["drift"][:3]))
        acc.setdefault("drift_with_violations", []).extend(res["drift"][:3])
    return bad


def validate(ctx, res, events, label, how, bad_runs, acc):
    """implementation -> model: Trace_Production.tla re-derives every event of every run."""
    runs = [(_i, _run_events(res, events, _i)) for _i in range(len(res["runInfo"]))]
    pending = [k for k, _ in runs]
    guard = 0
    while pending:
        guard += 1
        if guard > 6:
            ctx.cov["validation_stopped_early"] = "more than 6 rejected runs in %s; remaining runs not validated" % label
            return
        evs = [e for k in pending for e in runs[k][1]]
        path = os.path.join(ctx.tmp("val-" + label), "trace-%d.ndjson" % guard)
        write_ndjson(path, evs)
        accepted, pos_ev, ln, r = validate_trace(ctx, path)
        if accepted:
            acc["traces_accepted"] = acc.get("traces_accepted", 0) + len(pending)
            acc["events_validated"] = acc.get("events_validated", 0) + ln
            ctx.cov["states"] += r.distinct
            ctx.cov["transitions"] += r.generated
            return
        pos, badk, off = 0, None, 0
        for k in pending:
            n = len(runs[k][1])
            if pos_ev < pos + n:
                badk, off = k, pos_ev - pos
                break
            pos += n
        if badk is None:
            raise Infra("trace rejected but the offending run was not found (event %s len=%d)\n%s" % (pos_ev, ln, r.out[-2000:]))
        ev = runs[badk][1][off]
        idx = pending.index(badk)
        acc["traces_accepted"] = acc.get("traces_accepted", 0) + idx
        pending = pending[idx + 1:]
        if badk in bad_runs:
            acc["rejected_runs_already_reported"] = acc.get("rejected_runs_already_reported", 0) + 1
            continue            # the driver reported this run already (a rejected block changes everything after it)
        what = None
        if r.invariant in ("ObsDeterministic", "Deterministic"):
            sig, what = "invariant:" + r.invariant, "invariant %s fails on the recorded run" % r.invariant
        elif r.invariant:
            raise Infra("specification drift: %s fails on the MODEL's cache while replaying %s run %d event #%d %s"
                        % (r.invariant, label, badk, off, json.dumps(ev)[:400]))
        elif ev.get("e") == "Validate":
            sig = "trace-verdict:" + str(ev.get("hist"))
            what = "the model derives another verdict than the implementation logged for history '%s'" % ev.get("hist")
        else:
            raise Infra("specification drift (%s run %d): event #%d is not a step of Production.tla with the logged facts "
                        "(slot / score / beneficiary / abstract world after the block): %s" % (label, badk, off, json.dumps(ev)[:600]))
        rp = ctx.save_replay("%s-trace-run%d-seed%d.json" % (label, badk, ctx.seed),
                             {"how": how, "signature": sig, "offending_index": off, "offending_event": ev, "tlc_verdict": what,
                              "run": res["runInfo"][badk], "trace": runs[badk][1]})
        ctx.report(sig, "%s run %d event #%d %s -> %s" % (label, badk, off, json.dumps(ev, sort_keys=True)[:300], what), rp)


def drive(ctx, args, label, acc, validate_trace=True):
    how = {"args": args, "seed": ctx.seed}
    if "-in" in args:       # the behaviours live in a scratch directory: keep them with the artefact
        how["behaviours"] = json.load(open(args[args.index("-in") + 1]))
    res, events, out = run_driver(ctx, args, label)
    if res is None:
        return None
    bad = judge(ctx, res, events, label, how, acc)
    if validate_trace:
        validate(ctx, res, events, label, how, bad, acc)
    return res, events


def binding_demo(ctx):
    """The trace specification must have teeth: a recorded run is accepted; the same run with (a) the score of a block
    changed, (b) the state root of one validation changed, (c) one Pack event deleted, (d) a verdict flipped must be
    rejected, otherwise the trace spec constrains nothing -> Infra."""
    res, events, out = run_driver(ctx, ["-mode", "random", "-profile", "poa,pos", "-runs", "2", "-blocks", "20", "-seed", str(ctx.seed + 17)], "demo")
    if res is None or res["violations"]:
        return      # the real code misbehaves already; reported elsewhere
    packs = [i for i, e in enumerate(events) if e["e"] == "Pack"]
    vals = [i for i, e in enumerate(events) if e["e"] == "Validate"]
    variants = {"original": events}
    a = [dict(e) for e in events]
    a[packs[len(packs) // 2]]["score"] += 1
    if not ctx.quick:
        variants["corrupted-score"] = a
    b = [dict(e) for e in events]
    b[vals[len(vals) // 2]]["sroot"] = "deadbeef"
    variants["corrupted-state-root"] = b
    j = packs[len(packs) // 4]
    variants["deleted-pack"] = events[:j] + events[j + 1:]
    d = [dict(e) for e in events]
    d[vals[len(vals) // 3]]["ok"] = False
    variants["flipped-verdict"] = d
    where = {}
    for name, evs in variants.items():
        path = os.path.join(out, name + ".ndjson")
        write_ndjson(path, evs)
        accepted, hwm, ln, r = validate_trace(ctx, path, timeout=600)
        if name == "original" and not accepted:
            raise Infra("binding demonstration: the unmodified recorded run is rejected at event %d: %s" % (hwm, json.dumps(evs[min(hwm, len(evs) - 1)])[:500]))
        if name != "original" and not accepted:
            where[name] = hwm
        if name != "original" and accepted:
            raise Infra("binding demonstration failed: the %s variant was accepted by Trace_Production" % name)
    expect = {"corrupted-score": packs[len(packs) // 2], "corrupted-state-root": vals[len(vals) // 2], "flipped-verdict": vals[len(vals) // 3]}
    for name, at in expect.items():
        if name in variants and where.get(name) != at:
            raise Infra("binding demonstration: the %s variant was rejected at event %s, expected %d" % (name, where.get(name), at))
    ctx.cov["binding_demo"] = "recorded run accepted; variants rejected at the expected event: " + ", ".join(k for k in variants if k != "original")
